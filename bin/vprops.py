# vprops.py - per-property stage table for vcheck, loaded from /verif/props/Cxx.json
# stage: driver (harness/drivers/<driver>.c), cfg (asan|tsan|plain), optional link flags / env / thorough_only.
import glob, json, os

_HERE = os.path.dirname(os.path.dirname(os.path.abspath(__file__)))

COMMON_ASSUME = [
    'LAPACK/BLAS (OpenBLAS, single-threaded) and SQLite are uninstrumented trusted code',
    'src/datasets.c (pure data, referenced by no other library file) is not part of the harness build',
    'held-on-explored only: inputs outside the generator domains stated in DESIGN.md are not judged',
]

PROPS = {}
for _f in sorted(glob.glob(os.path.join(_HERE, 'props', 'C*.json'))):
    _p = json.load(open(_f))
    _p.setdefault('assumptions', [])
    _p['assumptions'] = COMMON_ASSUME + _p['assumptions']
    PROPS[os.path.basename(_f)[:-5]] = _p
