# vprops.py - per-property stage table for vcheck
# stage: driver (harness/drivers/<driver>.c), cfg (asan|tsan|plain), optional link flags / env.

COMMON_ASSUME = [
    'LAPACK/BLAS (OpenBLAS, single-threaded) and SQLite are uninstrumented trusted code',
    'src/datasets.c (pure data, referenced by no other library file) is not part of the harness build',
    'held-on-explored only: inputs outside the generator domains stated in DESIGN.md are not judged',
]

PROPS = {
    'C01': {
        'stages': [{'driver': 'c01', 'cfg': 'asan'}, {'driver': 'c01', 'cfg': 'tsan'}],
        'rule': 'case = random matrix (2..60 x 1..25, tall/square/wide, constant columns, offsets to 1e3, spreads 0.1..1e3), '
                'scaling -1..5, npc 1..rank, alternative processor count via H1; class = (rows bucket, cols bucket, scaling, shape, '
                'npc=rank?, processor count) of cases whose model was fitted and judged; skipped cases are not counted',
        'assumptions': COMMON_ASSUME,
        'technique': 'reference-model monitor (long-double identity replay of the fitted model) + ASan/UBSan/TSan over seeded random workloads, processor-count hook',
        'level_text': 'Seeded exploration: thousands (quick) to 150k (thorough) random matrices over all scaling options, shapes, component counts and '
                      'processor counts; every fitted model is replayed against an independent long-double oracle and every execution runs under '
                      'ASan+UBSan (plus a TSan sweep of the multithreaded kernels inside PCA). Decides the property on the executions explored only.',
    },
}
