#!/bin/sh
# builds the instrumented library configurations from /repo's working tree (offline; gcc only)
cd "$(dirname "$0")/.." || exit 2
exec bin/vcheck --build-only asan tsan plain
