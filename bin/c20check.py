"""c20check.py - C20: the Python bindings describe exactly the C structures and functions they call.

Execution-based FFI monitors (DESIGN.md section 4, C20):
  1. the shared library is built from /repo's working tree; struct layouts and prototypes of the COMPILED ARTIFACT are
     read from its DWARF with gdb and used only to GENERATE the two helpers below;
  2. C-writes / Python-reads: a generated C helper fills one instance of every mirrored structure with per-member
     fingerprints; the unmodified binding modules read every field through their own _fields_ and must see them;
  3. Python-sends / C-receives: a generated stub library defines every bound function with the artifact's prototype
     and logs what it received / returns a pattern of its return type; the package's own argtypes/restype
     declarations drive real ctypes calls (one forked process per call) and the log is compared with what was sent.
The set of declarations is finite, so the exploration is exhaustive.
"""
import sys, os, re, json, time, subprocess, hashlib, glob, shutil, collections, importlib.util, importlib.machinery

VERIF = os.path.dirname(os.path.dirname(os.path.abspath(__file__)))
HERE = os.path.join(VERIF, 'harness', 'c20')


def load_vcheck():
    loader = importlib.machinery.SourceFileLoader('vcheck_mod', os.path.join(VERIF, 'bin', 'vcheck'))
    spec = importlib.util.spec_from_loader('vcheck_mod', loader)
    m = importlib.util.module_from_spec(spec)
    loader.exec_module(m)
    return m


def sh(cmd, **kw):
    return subprocess.run(cmd, stdout=subprocess.PIPE, stderr=subprocess.STDOUT, text=True, **kw)


PYSTRUCT_TO_C = {'MATRIX': 'matrix', 'DVECTOR': 'dvector', 'UIVECTOR': 'uivector', 'IVECTOR': 'ivector', 'STRVECTOR': 'strvector',
                 'TENSOR': 'tensor', 'DVECTLIST': 'dvectorlist'}
CONTAINERS = ['matrix', 'dvector', 'uivector', 'ivector', 'strvector', 'tensor', 'dvectorlist']


def build_so(vc, bdir):
    srcs = vc.lib_sources()
    allfiles = glob.glob(os.path.join(vc.SRC, '*.c')) + glob.glob(os.path.join(vc.SRC, '*.h')) + [os.path.join(vc.SRC, 'CMakeLists.txt')]
    flags = ['-std=c99', '-D_GNU_SOURCE', '-O0', '-g', '-fPIC', '-shared', '-pthread', '-w', vc.GUARD]
    want = vc.sha(allfiles, ' '.join(flags))
    so = os.path.join(bdir, 'libscientific.so')
    stamp = so + '.stamp'
    _, inc = vc.build_lib('plain')          # generates scientificconfig.h
    if os.path.exists(so) and os.path.exists(stamp) and open(stamp).read() == want:
        return so, inc
    r = sh(['gcc'] + flags + ['-I', inc, '-I', vc.SRC] + [os.path.join(vc.SRC, s) for s in srcs] + ['-o', so, '-llapack', '-lblas', '-lsqlite3', '-lm'])
    if r.returncode != 0:
        raise vc.SystemExit2('shared library does not build:\n' + r.stdout[-2000:])
    open(stamp, 'w').write(want)
    return so, inc


def gdb_types(so, exprs):
    """returns {expr: text} of `ptype/o expr` evaluated on the artifact"""
    cmd = ['gdb', '-batch', '-nx']
    for e in exprs:
        cmd += ['-ex', 'echo @@@%s\\n' % e, '-ex', 'ptype/o %s' % e]
    r = sh(cmd + [so])
    out = {}
    cur = None
    for line in r.stdout.splitlines():
        if line.startswith('@@@'):
            cur = line[3:]
            out[cur] = ''
        elif cur is not None:
            out[cur] += line + '\n'
    return out


def parse_struct(text):
    mem = []
    for m in re.finditer(r'/\*\s*(\d+)\s*\|\s*(\d+)\s*\*/\s*(.*?)\s*(\**)(\w+);', text):
        ctype = (m.group(3) + ' ' + m.group(4)).strip()
        mem.append({'offset': int(m.group(1)), 'size': int(m.group(2)), 'ctype': re.sub(r'\s+', ' ', ctype), 'name': m.group(5)})
    tot = re.search(r'total size \(bytes\):\s*(\d+)', text)
    return mem, int(tot.group(1)) if tot else None


def split_params(s):
    out, depth, cur = [], 0, ''
    for ch in s:
        if ch == '(':
            depth += 1
        elif ch == ')':
            depth -= 1
        if ch == ',' and depth == 0:
            out.append(cur.strip()); cur = ''
        else:
            cur += ch
    if cur.strip():
        out.append(cur.strip())
    return out


def parse_func(text):
    m = re.search(r'type = ([^()]*?)\s*\((.*)\)\s*$', text.strip(), re.S)
    if not m:
        return None
    ret = m.group(1).strip()
    params = split_params(m.group(2))
    if params == ['void']:
        params = []
    return {'ret': ret, 'params': params}


class Cats:
    """classification of C type strings of the artifact into categories the generated code knows how to fingerprint/log"""
    def __init__(self, so):
        self.so = so
        self.cache = {}

    def base_kind(self, name):
        if name in self.cache:
            return self.cache[name]
        t = gdb_types(self.so, [name]).get(name, '')
        k = 'unknown'
        if re.search(r'type = enum', t):
            k = 'int'
        elif re.search(r'type = (unsigned long|size_t)\b', t):
            k = 'size_t'
        elif re.search(r'type = (int)\b', t):
            k = 'int'
        elif re.search(r'type = unsigned int', t):
            k = 'uint'
        elif re.search(r'type = double', t):
            k = 'double'
        elif re.search(r'type = struct', t):
            k = 'struct'
        self.cache[name] = k
        return k

    def cat(self, ctype):
        ctype = re.sub(r'\bconst\b', '', ctype).strip()
        ctype = re.sub(r'\s+', ' ', ctype)
        if '(*)' in ctype:
            return 'funcptr'
        if ctype == '...':
            return 'varargs'
        m = re.match(r'^(.*?)\s*(\**)$', ctype)
        base, stars = m.group(1).strip(), len(m.group(2))
        if base in ('size_t', 'unsigned long', 'unsigned long long'):
            b = 'size_t'
        elif base == 'int':
            b = 'int'
        elif base in ('unsigned int', 'uint32_t'):
            b = 'uint'
        elif base == 'double':
            b = 'double'
        elif base == 'char':
            b = 'char'
        elif base == 'void':
            b = 'void'
        elif base in CONTAINERS:
            b = base
        else:
            k = self.base_kind(base)
            b = k if k in ('int', 'size_t', 'uint', 'double') else ('model:' + base if k == 'struct' else 'unknown:' + base)
        return b + '*' * stars


# ----------------------------------------------------------------------------- helper generation (struct monitor)
MK = r'''
#include <stdlib.h>
#include <string.h>
#include <stdio.h>
#include "matrix.h"
#include "vector.h"
#include "tensor.h"
#include "list.h"
#include "pca.h"
#include "pls.h"
#include "cpca.h"
#include "clustering.h"
#include "interpolate.h"
static matrix *fp_matrix(double k){ matrix *m; size_t i,j; NewMatrix(&m,2,3); for(i=0;i<2;i++) for(j=0;j<3;j++) m->data[i][j]=1000.0*k+10*i+j+0.5; return m; }
static dvector *fp_dvector(double k){ dvector *v; size_t i; NewDVector(&v,4); for(i=0;i<4;i++) v->data[i]=1000.0*k+i+0.25; return v; }
static uivector *fp_uivector(size_t k){ uivector *v; size_t i; NewUIVector(&v,4); for(i=0;i<4;i++) v->data[i]=0x5000000000UL+16*k+i; return v; }
static ivector *fp_ivector(int k){ ivector *v; int i; NewIVector(&v,4); for(i=0;i<4;i++) v->data[i]=-(70+16*k+i); return v; }
static strvector *fp_strvector(int k){ strvector *v; char b[32]; int i; initStrVector(&v); for(i=0;i<2;i++){ snprintf(b,sizeof b,"s%d-%d",k,i); StrVectorAppend(v,b);} return v; }
static tensor *fp_tensor(int k){ tensor *t; int b; initTensor(&t); for(b=0;b<2;b++){ matrix *m=fp_matrix(k+50*(b+1)); TensorAppendMatrix(t,m); DelMatrix(&m);} return t; }
static dvectorlist *fp_dvectorlist(int k){ dvectorlist *l; int b; initDVectorList(&l); for(b=0;b<2;b++){ dvector *v=fp_dvector(k+50*(b+1)); DVectorListAppend(l,v); DelDVector(&v);} return l; }
'''

FILL = {
    'size_t': 's->%(n)s = (size_t)(0xA1B2C3D4E5F60700UL + %(k)d);',
    'int': 's->%(n)s = -(1000 + %(k)d);',
    'double': 's->%(n)s = 1000.5 + %(k)d;',
    'double**': 's->%(n)s = fp_matrix(%(k)d)->data;',
    'double*': 's->%(n)s = fp_dvector(%(k)d)->data;',
    'size_t*': 's->%(n)s = fp_uivector(%(k)d)->data;',
    'int*': 's->%(n)s = fp_ivector(%(k)d)->data;',
    'char**': 's->%(n)s = fp_strvector(%(k)d)->data;',
    'matrix*': 's->%(n)s = fp_matrix(%(k)d);',
    'dvector*': 's->%(n)s = fp_dvector(%(k)d);',
    'uivector*': 's->%(n)s = fp_uivector(%(k)d);',
    'ivector*': 's->%(n)s = fp_ivector(%(k)d);',
    'strvector*': 's->%(n)s = fp_strvector(%(k)d);',
    'tensor*': 's->%(n)s = fp_tensor(%(k)d);',
    'dvectorlist*': 's->%(n)s = fp_dvectorlist(%(k)d);',
    'matrix**': 's->%(n)s = fp_tensor(%(k)d)->m;',
    'dvector**': 's->%(n)s = fp_dvectorlist(%(k)d)->d;',
}


def gen_helper(structs):
    src = MK
    for cname, mem in structs.items():
        src += 'void *mk_%s(void){ %s *s = calloc(1, sizeof(%s));\n' % (cname, cname, cname)
        for k, m in enumerate(mem):
            if m['cat'] in FILL:
                src += '  ' + FILL[m['cat']] % {'n': m['name'], 'k': k} + '\n'
        src += '  return s; }\nsize_t sizeof_%s(void){ return sizeof(%s); }\n' % (cname, cname)
    return src


# ----------------------------------------------------------------------------- stub generation (call monitor)
def log_param(i, cat):
    a = 'a%d' % i
    m = re.match(r'^(.*?)(\**)$', cat)
    base, depth = m.group(1), len(m.group(2))
    if depth == 0:
        if base == 'size_t':
            return 'fprintf(f, "arg %d size_t %%zu\\n", (size_t)%s);' % (i, a)
        if base == 'int':
            return 'fprintf(f, "arg %d int %%d\\n", (int)%s);' % (i, a)
        if base == 'uint':
            return 'fprintf(f, "arg %d uint %%u\\n", (unsigned)%s);' % (i, a)
        if base == 'double':
            return 'fprintf(f, "arg %d double %%.17g\\n", (double)%s);' % (i, a)
        return 'fprintf(f, "arg %d byvalue:%s\\n");' % (i, base)
    if base == 'char' and depth == 1:
        return 'fprintf(f, "arg %d char* %%s\\n", %s ? %s : "(null)");' % (i, a, a)
    if base in ('funcptr',):
        return 'fprintf(f, "arg %d funcptr\\n");' % i
    # dereference to depth 1
    deref = a
    decl = ''
    for d in range(depth - 1):
        deref = '(*%s)' % deref
    p = 'p%d' % i
    pre = 'if(!(%s)) fprintf(f, "arg %d ptr%d %s NULL\\n"); else { ' % (' && '.join(['%s' % ('*' * d + a if d else a) for d in range(depth)]).replace('&& *', '&& *'), i, depth, base)
    # simpler null handling: check each level
    checks = []
    cur = a
    for d in range(depth):
        checks.append(cur)
        cur = '(*%s)' % cur
    pre = 'if(!(%s)) fprintf(f, "arg %d ptr%d %s NULL\\n"); else { ' % (' && '.join(checks), i, depth, base)
    tgt = checks[-1]    # pointer to base object
    if base == 'matrix':
        body = 'fprintf(f, "arg %d ptr%d matrix %%zu %%zu %%.17g\\n", %s->row, %s->col, (%s->row && %s->col) ? %s->data[0][0] : 0.0);' % (i, depth, tgt, tgt, tgt, tgt, tgt)
    elif base == 'dvector':
        body = 'fprintf(f, "arg %d ptr%d dvector %%zu %%.17g\\n", %s->size, %s->size ? %s->data[0] : 0.0);' % (i, depth, tgt, tgt, tgt)
    elif base == 'uivector':
        body = 'fprintf(f, "arg %d ptr%d uivector %%zu %%zu\\n", %s->size, %s->size ? %s->data[0] : (size_t)0);' % (i, depth, tgt, tgt, tgt)
    elif base == 'ivector':
        body = 'fprintf(f, "arg %d ptr%d ivector %%zu %%d\\n", %s->size, %s->size ? %s->data[0] : 0);' % (i, depth, tgt, tgt, tgt)
    elif base == 'strvector':
        body = 'fprintf(f, "arg %d ptr%d strvector %%zu %%s\\n", %s->size, %s->size ? %s->data[0] : "");' % (i, depth, tgt, tgt, tgt)
    elif base == 'tensor':
        body = 'fprintf(f, "arg %d ptr%d tensor %%zu %%zu %%zu %%.17g\\n", %s->order, %s->order ? %s->m[0]->row : (size_t)0, %s->order ? %s->m[0]->col : (size_t)0, %s->order ? %s->m[0]->data[0][0] : 0.0);' % (i, depth, tgt, tgt, tgt, tgt, tgt, tgt, tgt)
    elif base == 'dvectorlist':
        body = 'fprintf(f, "arg %d ptr%d dvectorlist %%zu %%zu %%.17g\\n", %s->size, %s->size ? %s->d[0]->size : (size_t)0, %s->size ? %s->d[0]->data[0] : 0.0);' % (i, depth, tgt, tgt, tgt, tgt, tgt)
    elif base.startswith('model:'):
        body = '{ unsigned long long u = 0; memcpy(&u, %s, sizeof(*%s) < 8 ? sizeof(*%s) : 8); fprintf(f, "arg %d ptr%d %s %%llu\\n", u); }' % (tgt, tgt, tgt, i, depth, base)
    elif base == 'double':
        body = 'fprintf(f, "arg %d ptr%d double %%.17g\\n", *%s);' % (i, depth, tgt)
    elif base == 'size_t':
        body = 'fprintf(f, "arg %d ptr%d size_t %%zu\\n", *%s);' % (i, depth, tgt)
    elif base in ('int', 'uint'):
        body = 'fprintf(f, "arg %d ptr%d int %%d\\n", (int)*%s);' % (i, depth, tgt)
    elif base == 'char':
        body = 'fprintf(f, "arg %d ptr%d char\\n");' % (i, depth)
    elif base == 'void':
        body = 'fprintf(f, "arg %d ptr%d void\\n");' % (i, depth)
    else:
        body = 'fprintf(f, "arg %d ptr%d %s\\n");' % (i, depth, base)
    return pre + body + ' }'


def ret_code(cat):
    if cat == 'void':
        return 'fprintf(f, "ret void\\n"); fclose(f); return;'
    if cat == 'size_t':
        return 'fprintf(f, "ret size_t %zu\\n", (size_t)0xA1B2C3D4E5F6AA55UL); fclose(f); return (size_t)0xA1B2C3D4E5F6AA55UL;'
    if cat == 'int':
        return 'fprintf(f, "ret int -4242\\n"); fclose(f); return -4242;'
    if cat == 'uint':
        return 'fprintf(f, "ret uint 4242\\n"); fclose(f); return 4242u;'
    if cat == 'double':
        return 'fprintf(f, "ret double 4242.5\\n"); fclose(f); return 4242.5;'
    m = re.match(r'^(.*?)(\*+)$', cat)
    if m and m.group(1) in ('dvector', 'uivector', 'ivector', 'strvector') and len(m.group(2)) == 1:
        b = m.group(1)
        return 'fprintf(f, "ret ptr:%s 4\\n"); fclose(f); { static %s o; static char buf[64]; o.data = (void*)buf; o.size = 4; return &o; }' % (b, b)
    if m and m.group(1) == 'char':
        return 'fprintf(f, "ret char* stubstring\\n"); fclose(f); return (char*)"stubstring";'
    return 'fprintf(f, "ret other:%s\\n"); fclose(f); return 0;' % cat


def gen_stub(funcs):
    src = '''#include <stdio.h>
#include <stdlib.h>
#include <string.h>
#include <stdint.h>
#include "matrix.h"
#include "vector.h"
#include "tensor.h"
#include "list.h"
#include "numeric.h"
#include "pca.h"
#include "pls.h"
#include "cpca.h"
#include "clustering.h"
#include "interpolate.h"
#include "scientificinfo.h"
#include "modelvalidation.h"
#include "metricspace.h"
#include "statistic.h"
#include "algebra.h"
#include "preprocessing.h"
static FILE *lg(const char *fn, int n){ const char *p = getenv("C20_LOG"); FILE *f = fopen(p ? p : "/dev/null", "a"); fprintf(f, "fn %s nparams %d\\n", fn, n); return f; }
'''
    for name, fn in sorted(funcs.items()):
        ps = []
        for i, p in enumerate(fn['params']):
            if p == '...':
                ps.append('...')
            elif '(*)' in p:
                ps.append(p.replace('(*)', '(*a%d)' % i))
            else:
                ps.append('%s a%d' % (p, i))
        n = len([p for p in fn['params'] if p != '...'])
        src += '%s %s(%s)\n{\n  FILE *f = lg("%s", %d);\n' % (fn['ret'], name, ', '.join(ps) if ps else 'void', name, n)
        for i, c in enumerate(fn['cats']):
            if c == 'varargs':
                continue
            src += '  ' + log_param(i, c) + '\n'
        src += '  ' + ret_code(fn['retcat']) + '\n}\n'
    return src


# ----------------------------------------------------------------------------- comparison helpers
def py_ret_tag(r):
    if r is None:
        return None
    n = r[0]
    if n == 'void':
        return ('void',)
    if n in ('c_ulong', 'c_size_t', 'c_ulonglong', 'c_uint64'):
        return ('size_t', r[1])
    if n == 'c_int' or n == 'c_long' and False:
        return ('int', r[1])
    if n == 'c_uint':
        return ('uint', r[1])
    if n == 'c_double':
        return ('double', r[1])
    if n == 'c_char_p':
        return ('char*', r[1])
    if n.startswith('ptr:'):
        return ('ptr:' + {'DVECTLIST': 'dvectorlist'}.get(n[4:], n[4:].lower()), r[1])
    return (n, r[1])


def norm_tokens(toks):
    out = []
    for t in toks:
        try:
            out.append(float(t))
        except (TypeError, ValueError):
            out.append(str(t))
    return out


def main(prop, tier, seed, jobs):
    vc = load_vcheck()
    t0 = time.time()
    agg = {'evaluations': 0, 'status': collections.Counter(), 'classes': set(), 'skips': collections.Counter(), 'inconclusive': [], 'viol': [], 'desc': {},
           'obs': collections.Counter(), 'max': {}, 'hist': collections.defaultdict(collections.Counter), 'crash': [], 'harness_errors': [], 'san_other': [], 'san_logs': 0}
    bdir = os.path.join(vc.BUILD, 'so')
    os.makedirs(bdir, exist_ok=True)
    work = os.path.join(vc.BUILD, 'run', 'C20-%d' % os.getpid())
    shutil.rmtree(work, ignore_errors=True)
    os.makedirs(work)
    env = dict(os.environ)
    env['OPENBLAS_NUM_THREADS'] = '1'
    pkgparent = os.path.join(vc.REPO, 'src', 'python_bindings')
    py = sys.executable
    try:
        so, inc = build_so(vc, bdir)
        # 1. what the package declares (fresh interpreter, unmodified modules, recording loader)
        r = subprocess.run([py, os.path.join(HERE, 'pyside.py'), 'discover', pkgparent], stdout=subprocess.PIPE, stderr=subprocess.PIPE, text=True, env=env)
        if r.returncode != 0:
            agg['viol'].append({'stage': 'py/so', 'case': 0, 'key': 'import|binding-modules-do-not-import', 'msg': r.stderr[-600:]})
            return vc.conclude(prop, vc.PROPS[prop], tier, seed, agg, [{'driver': 'py', 'cfg': 'so', 'cases': 0}], work, t0)
        disc = json.loads(r.stdout)
        cats = Cats(so)
        # 2. artifact facts
        cstructs = {}
        pymap = {}
        for pyname in disc['structures']:
            pymap[pyname] = PYSTRUCT_TO_C.get(pyname, pyname)
        gt = gdb_types(so, sorted(set(pymap.values())))
        expect = {}
        case = 0
        for pyname, cname in sorted(pymap.items()):
            mem, tot = parse_struct(gt.get(cname, ''))
            case += 1
            if not mem:
                agg['viol'].append({'stage': 'py/so', 'case': case, 'key': 'struct:%s|no-such-C-structure' % pyname, 'msg': 'the library has no structure type %s for Python class %s' % (cname, pyname)})
                continue
            for m in mem:
                m['cat'] = cats.cat(m['ctype'])
            cstructs[cname] = mem
            expect[pyname] = {'cname': cname, 'members': mem, 'size': tot}
        open(os.path.join(work, 'helper.c'), 'w').write(gen_helper(cstructs))
        r = sh(['gcc', '-std=gnu99', '-D_GNU_SOURCE', '-O0', '-g', '-fPIC', '-shared', '-w', '-I', inc, '-I', vc.SRC, os.path.join(work, 'helper.c'), '-o', os.path.join(work, 'libc20helper.so'),
                '-L', bdir, '-lscientific', '-Wl,-rpath,' + bdir])
        if r.returncode != 0:
            raise vc.SystemExit2('generated struct helper does not compile:\n' + r.stdout[-1500:])
        json.dump(expect, open(os.path.join(work, 'expect.json'), 'w'))
        r = subprocess.run([py, os.path.join(HERE, 'pyside.py'), 'structs', pkgparent, so, os.path.join(work, 'libc20helper.so'), os.path.join(work, 'expect.json')],
                           stdout=subprocess.PIPE, stderr=subprocess.PIPE, text=True, env=env)
        if r.returncode != 0:
            raise vc.SystemExit2('struct monitor crashed: ' + r.stderr[-800:])
        for sres in json.loads(r.stdout):
            agg['evaluations'] += sres['reads']
            agg['obs']['struct_field_reads'] += sres['reads']
            agg['obs']['structures_checked'] += 1
            agg['classes'].add('struct:' + sres['struct'])
            agg['status']['ok'] += sres['reads']
            agg['desc'][('py/so', len(agg['desc']))] = 'structure %s mirrors C %s: %d fields read through the Python declaration, members %s' % (
                sres['struct'], sres['cname'], sres['reads'], ', '.join('%s:%s' % (m['name'], m['ctype']) for m in expect[sres['struct']]['members'][:8]))
            for b in sres['bad']:
                agg['viol'].append({'stage': 'py/so', 'case': len(agg['viol']), 'key': 'struct:%s|field-%s' % (sres['struct'], b['field']),
                                    'msg': 'Python %s.%s (C member %s %s): %s' % (sres['struct'], b['field'], b.get('ctype', ''), b.get('cmember', ''), b['why'])})
        # 3. functions
        fnames = sorted(disc['functions'])
        gf = gdb_types(so, fnames)
        cfuncs = {}
        for fn in fnames:
            pf = parse_func(gf.get(fn, ''))
            d = disc['functions'][fn]
            if pf is None:
                agg['viol'].append({'stage': 'py/so', 'case': len(agg['viol']), 'key': 'func:%s|missing-in-library' % fn, 'msg': 'the package binds %s but the library has no such function (%s)' % (fn, gf.get(fn, '').strip()[:120])})
                continue
            pf['cats'] = [cats.cat(p) for p in pf['params']]
            pf['retcat'] = cats.cat(pf['ret'])
            cfuncs[fn] = pf
            for need in ('argtypes', 'restype'):
                if need not in d['declared']:
                    agg['viol'].append({'stage': 'py/so', 'case': len(agg['viol']), 'key': 'func:%s|%s-not-declared' % (fn, need), 'msg': 'the package calls %s without declaring %s' % (fn, need)})
        # 3b. call-site monitor: declarations are per library handle (every module loads its own ctypes.CDLL); a function referenced
        # through a handle on which it was never declared is called with ctypes' defaults (int return, no conversions)
        for mn, pm in sorted(disc.get('per_module', {}).items()):
            if pm.get('used') is None:
                agg['inconclusive'].append(('py/so', 0, 'module %s: source not parsable' % mn)); continue
            for fn in pm['used']:
                agg['obs']['handle_references_checked'] += 1
                dec = set(pm['declared'].get(fn, []))
                if {'argtypes', 'restype'} <= dec:
                    continue
                cf = cfuncs.get(fn)
                if cf is None:
                    g1 = gdb_types(so, [fn]); pf = parse_func(g1.get(fn, ''))
                    if pf is None:
                        continue          # not a library function (an attribute of the handle object itself)
                    pf['cats'] = [cats.cat(p_) for p_ in pf['params']]; pf['retcat'] = cats.cat(pf['ret']); cf = pf
                missing = sorted({'argtypes', 'restype'} - dec)
                harmless = (not cf['params'] or cf['params'] == ['void']) and cf['ret'].strip() in ('int', 'void')
                if 'restype' in missing and cf['ret'].strip() not in ('int', 'void') or ('argtypes' in missing and not harmless and cf['params'] and cf['params'] != ['void']):
                    agg['viol'].append({'stage': 'py/so', 'case': len(agg['viol']), 'key': 'func:%s|referenced-through-a-handle-without-its-declaration|module=%s' % (fn, mn),
                                        'msg': 'module %s refers to %s through its own library handle (%s), on which %s was never declared (declared there: %s); C prototype %s (%s): the call uses the ctypes defaults' % (
                                            mn, fn, ','.join(pm['handles']), ' and '.join(missing), sorted(dec) or 'nothing', cf['ret'], ', '.join(cf['params']))})
        stubsrc = gen_stub(cfuncs)
        for fn in fnames:           # placeholders so that the package still imports on top of the stub; already reported as missing
            if fn not in cfuncs:
                stubsrc += 'void %s(void){}\n' % fn
        open(os.path.join(work, 'stub.c'), 'w').write(stubsrc)
        r = sh(['gcc', '-std=gnu99', '-D_GNU_SOURCE', '-O0', '-g', '-fPIC', '-shared', '-w', '-I', inc, '-I', vc.SRC, os.path.join(work, 'stub.c'), '-o', os.path.join(work, 'libc20stub.so')])
        if r.returncode != 0:
            raise vc.SystemExit2('generated stub library does not compile:\n' + r.stdout[-2500:])
        json.dump({'functions': sorted(cfuncs)}, open(os.path.join(work, 'plan.json'), 'w'))
        patterns = [0, 1, 2] if tier == 'thorough' else [0]
        for pat in patterns:
            r = subprocess.run([py, os.path.join(HERE, 'pyside.py'), 'calls', pkgparent, os.path.join(work, 'libc20stub.so'), os.path.join(work, 'plan.json'), work, str(pat)],
                               stdout=subprocess.PIPE, stderr=subprocess.PIPE, text=True, env=env)
            if r.returncode != 0:
                raise vc.SystemExit2('call monitor crashed: ' + r.stderr[-800:])
            calls = json.loads(r.stdout)['calls']
            for fn, rec in sorted(calls.items()):
                cf = cfuncs[fn]
                agg['evaluations'] += 1
                agg['obs']['function_probes'] += 1
                agg['classes'].add('func:' + fn)
                bad = []
                npy = len(disc['functions'][fn].get('argtypes', []))
                nc = len([c for c in cf['cats'] if c != 'varargs'])
                variadic = 'varargs' in cf['cats']
                if npy != nc and not (variadic and npy >= nc):
                    bad.append(('arity', 'Python declares %d parameters, the C function takes %d (%s)' % (npy, nc, ', '.join(cf['params']))))
                if rec['status'].startswith('crash'):
                    bad.append(('call-crashes', 'calling the stub with the Python-declared argument types crashed (%s): a pointer of the wrong depth/type was dereferenced; C prototype (%s)' % (rec['status'], ', '.join(cf['params']))))
                elif rec['status'] == 'unsupported-argtype':
                    agg['inconclusive'].append(('py/so', 0, '%s: argument type the probe cannot build: %s' % (fn, rec['sent'])))
                elif rec['status'] != 'ok':
                    bad.append(('call-failed', '%s: %s' % (rec['status'], rec.get('why', ''))))
                else:
                    log = rec['log']
                    args = {}
                    retline = None
                    for ln in log:
                        p = ln.split()
                        if p[0] == 'arg':
                            args[int(p[1])] = p[2:]
                        elif p[0] == 'ret':
                            retline = p[1:]
                    for i, s in enumerate(rec['sent']):
                        if i >= nc:
                            break
                        got = args.get(i)
                        if got is None:
                            bad.append(('param%d' % i, 'stub logged nothing for parameter %d' % i)); continue
                        if cf['cats'][i] == 'funcptr' or got[0].startswith('byvalue'):
                            continue
                        if norm_tokens(got) != norm_tokens(s):
                            bad.append(('param%d' % i, 'parameter %d: Python sent %s, C (%s) received %s' % (i, s, cf['params'][i], got)))
                    pr = py_ret_tag(rec.get('ret'))
                    if retline is not None and pr is not None:
                        if retline[0].startswith('other:'):
                            pass
                        elif norm_tokens(retline) != norm_tokens(pr):
                            bad.append(('return', 'return: C (%s) returned %s, Python (restype) read %s' % (cf['ret'], retline, list(pr))))
                agg['status']['viol' if bad else 'ok'] += 1
                if pat == 0 and len(agg['desc']) < 16:
                    agg['desc'][('py/so', 1000 + len(agg['desc']))] = 'function %s: C prototype %s (%s); Python sent %s; stub log %s' % (fn, cf['ret'], ', '.join(cf['params']), rec.get('sent'), rec.get('log'))
                for what, msg in bad:
                    agg['viol'].append({'stage': 'py/so', 'case': len(agg['viol']), 'key': 'func:%s|%s' % (fn, what), 'msg': '%s: %s' % (fn, msg)})
    except vc.SystemExit2 as e:
        vc.log('[vcheck] HARNESS FAILURE: %s' % e)
        return 2
    # de-duplicate violations of several patterns
    seen = set(); uniq = []
    for v in agg['viol']:
        if v['key'] in seen:
            continue
        seen.add(v['key']); uniq.append(v)
    agg['viol'] = uniq
    rc = vc.conclude(prop, vc.PROPS[prop], tier, seed, agg, [{'driver': 'py', 'cfg': 'so', 'cases': agg['evaluations']}], work, t0)
    return rc
