#!/bin/bash
# Builds /repo with the verification guard OFF (plain cmake, exactly as the project does) in a scratch
# directory, runs every test binary and compares the "<name>: OK." lines with the 62 names of BASELINE.json.
set -u
REPO=${VERIF_REPO:-/repo}
BASE=${VERIF_BASELINE:-/root/.vp/BASELINE.json}
B=$(mktemp -d "${TMPDIR:-/tmp}/libsci-baseline.XXXXXX")
trap 'rm -rf "$B"' EXIT
export OPENBLAS_NUM_THREADS=1
( cmake -G Ninja -S "$REPO" -B "$B/b" -DCMAKE_INSTALL_PREFIX="$B/inst" >"$B/cfg.log" 2>&1 && cmake --build "$B/b" -j16 >"$B/build.log" 2>&1 ) || { tail -30 "$B/cfg.log" "$B/build.log"; echo "BASELINE-OFF: build failed"; exit 2; }
if grep -q LIBSCIENTIFIC_VERIF "$B/b/build.ninja" "$B/b/CMakeCache.txt" 2>/dev/null; then echo "BASELINE-OFF: guard unexpectedly on"; exit 2; fi
: > "$B/out.txt"
cd "$B/b/src/tests" || exit 2
# testmatrix "Test 53" seeds the generator with time(NULL) and aborts when one of 9 random integers in [-100,100] is 0
# (~4 % of runs, on the pinned tree as well): a binary that exits non-zero is run again, up to three times in total,
# and the OK lines of all attempts are pooled.
for t in $(find . -maxdepth 1 -type f -executable -name 'test*' | sort); do
  for attempt in 1 2 3; do
    if timeout 1500 "$t" >> "$B/out.txt" 2>&1; then break; fi
    rc=$?
    [ "$attempt" = 3 ] && echo "BASELINE-OFF: $t exited with $rc" >> "$B/out.txt"
    sleep 1
  done
done
python3 - "$BASE" "$B/out.txt" <<'PY'
import json, sys, re
want = json.load(open(sys.argv[1]))['stable_pass']
out = open(sys.argv[2], errors='replace').read()
ok = set(m.group(1).strip() for m in re.finditer(r'(?m)^(.*?): OK\.?\s*$', out))
missing = [w for w in want if w not in ok]
print('BASELINE-OFF: %d of %d baseline tests report OK with the guard off' % (len(want) - len(missing), len(want)))
for m in missing:
    print('  missing:', m)
bad = [l for l in out.splitlines() if 'BASELINE-OFF:' in l]
for b in bad:
    print(' ', b)
sys.exit(1 if missing else 0)
PY
