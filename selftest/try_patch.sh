#!/bin/bash
# try_patch.sh <patch.diff> <Cxx> [Cyy ...]  - applies a seeded change to a scratch copy of /repo's HEAD and runs the
# named quick checks against it (VERIF_REPO); prints the violation keys and exit codes. The scratch copy is removed.
set -u
P=$(readlink -f "$1"); shift
D=$(mktemp -d "${TMPDIR:-/tmp}/libsci-seeded.XXXXXX")
trap 'rm -rf "$D"; rm -rf /verif/build/alt-$(python3 -c "import hashlib,sys;print(hashlib.sha1(sys.argv[1].encode()).hexdigest()[:10])" "$D")' EXIT
git -C /repo archive HEAD | tar -x -C "$D" || exit 2
( cd "$D" && patch -p1 -s < "$P" ) || { echo "PATCH DOES NOT APPLY"; exit 2; }
for prop in "$@"; do
  out=$(cd /verif && VERIF_REPO="$D" bin/vcheck "$prop" --tier "${TIER:-quick}" 2>&1)
  rc=$?
  echo "== $prop exit=$rc"
  echo "$out" | grep -o "key=.* case=" | sed 's/ case=//' | sort | uniq -c | head -12
done
