#!/usr/bin/env python3
"""revert_fixes.py - monitor validation: every repaired defect, re-introduced in a scratch copy of /repo by reversing
its fix: commit, must make the named property check(s) exit 1.  Prints one line per (commit, property) and writes
selftest/revert_fixes.json (commit, subject, property, exit code, violation keys).  Scratch copies live under
$TMPDIR and are removed as soon as they are done.

usage: selftest/revert_fixes.py [substring-of-subject ...]
"""
import subprocess, sys, os, json, re, shutil, tempfile
VERIF = os.path.dirname(os.path.dirname(os.path.abspath(__file__)))
MAP = [  # subject substring -> properties whose quick check must catch the reverted fix
    ('GetResidualMatrix dereferenced', ['C01']),
    ('residual columns were paired', ['C03', 'C05']),
    ('xorshift generator state', ['C06']),
    ('LDAPrediction mapped the arg-max', ['C08']),
    ('LDAMulticlassStatistics wrote', ['C08']),
    ('MatrixInversion (Gauss-Jordan) never exchanged', ['C12']),
    ('SolveLSE eliminated without row exchange', ['C12']),
    ('SVDlapack copied', ['C12']),
    ('MatrixAppendCol/MatrixAppendUICol read past', ['C14']),
    ('tested v2[i] instead of v2[j]', ['C11']),
    ('resized its output only when both dimensions were wrong, writing', ['C11']),
    ('NewStrVector left', ['C14']),
    ('StrVectorExtend aliased', ['C14']),
    ('TensorCopy into a non-empty', ['C14']),
    ('PCA NIPALS accumulated', ['C02']),
    ('MatrixColumnMinMax seeded', ['C10']),
    ('DropAllTables only selected', ['C16']),
    ('cubic_spline_predict located', ['C19']),
    ('PCA never returned when more components', ['C18']),
    ('PLS never returned for a constant response', ['C18']),
    ('KMeansppCenters looped forever', ['C18']),
    ('had no iteration bound', ['C18']),
    ('CPCA returned an all-NaN model', ['C18']),
    ('MatrixMoorePenrosePseudoinverse inverted', ['C12']),
    ('beyond the numerical rank were extracted from rounding noise', ['C18']),
    ('NelderMeadSimplex stalled', ['C19']),
    ('SolveLSE back substitution', ['C12']),
    ('KMeans tested convergence against zero-initialised', ['C17']),
    ('MLRPredictY resized its output', ['C07']),
    ('LDA centred every class on the grand mean', ['C08']),
    ('xrealloc treated the NULL', ['C14']),
    ('sorting an empty vector passed a NULL', ['C14']),
    ('TensorAppendRow compared the row length', ['C14']),
    ('SortUIVector compared its size_t', ['C14']),
    ('stored every number as a %.18f literal', ['C16']),
    ('int scaling parameters of PCA and PLS', ['C20']),
    ('Python binding of CPCA declared a fifth', ['C20']),
    ('IVectorAppend, setIVectorValue and getIVectorValue', ['C20']),
    ('Python binding of setTensorValue', ['C20']),
    ('a seeded generator whose state reached zero', ['C06']),
    ('started every column scan at row 1', ['C11']),
    ('replaced the running extreme by any value within 1e-3', ['C11']),
    ('SpearmanCorrelMatrix matched values to their rank within 1e-3', ['C11']),
    ('PearsonCorrelMatrix reported 0 whenever', ['C11']),
    ('QRDecomposition overwrote every diagonal entry', ['C12']),
    ('QRDecomposition built the orthogonal factor only inside', ['C12']),
    ('SVD paired the eigenvectors', ['C12']),
    ('MatrixPseudoinversion formed U S^-1', ['C12']),
    ('setStr/getStr had no range check', ['C14']),
    ('GenIdentityMatrix only wrote the diagonal', ['C14']),
    ('PCA started a component from rounding residue', ['C18']),
]


def sh(cmd, **kw):
    return subprocess.run(cmd, stdout=subprocess.PIPE, stderr=subprocess.STDOUT, text=True, **kw)


def main():
    want = sys.argv[1:]
    log = sh(['git', '-C', '/repo', 'log', '--reverse', '--format=%h\t%s']).stdout.splitlines()
    fixes = [l.split('\t', 1) for l in log if '\tfix:' in l]
    res = []
    outp = os.path.join(VERIF, 'selftest', 'revert_fixes.json')
    if os.path.exists(outp) and want:
        res = [r for r in json.load(open(outp)) if not any(w in r['subject'] for w in want)]
    for h, subj in fixes:
        if want and not any(w in subj for w in want):
            continue
        props = None
        for sub, pp in MAP:
            if sub in subj:
                props = pp
        if props is None:
            print('UNMAPPED', h, subj); continue
        d = tempfile.mkdtemp(prefix='libsci-revert-')
        try:
            subprocess.run('git -C /repo archive HEAD | tar -x -C %s' % d, shell=True, check=True)
            p = sh('git -C /repo show %s | patch -R -p1 -d %s' % (h, d), shell=True)
            if p.returncode != 0:
                print('CANNOT-REVERT', h, subj[:80], p.stdout[-200:].replace('\n', ' '))
                res.append({'commit': h, 'subject': subj, 'property': ','.join(props), 'exit': None, 'keys': [], 'note': 'reverse patch does not apply (later fix touches the same lines)'})
                continue
            for pr in props:
                env = dict(os.environ); env['VERIF_REPO'] = d
                r = sh([os.path.join(VERIF, 'bin', 'vcheck'), pr, '--tier', 'quick'], env=env, cwd=VERIF)
                keys = sorted(set(re.findall(r'\[vcheck\] %s key=(.*?) case=' % pr, r.stdout)))
                print('%s %-4s exit=%d %s | %s' % (h, pr, r.returncode, subj[5:75], '; '.join(keys)[:300]), flush=True)
                res.append({'commit': h, 'subject': subj, 'property': pr, 'exit': r.returncode, 'keys': keys})
        finally:
            shutil.rmtree(d, ignore_errors=True)
            import hashlib
            alt = os.path.join(VERIF, 'build', 'alt-' + hashlib.sha1(os.path.abspath(d).encode()).hexdigest()[:10])
            shutil.rmtree(alt, ignore_errors=True)
        json.dump(res, open(outp, 'w'), indent=1)


if __name__ == '__main__':
    main()
