#!/usr/bin/env python3
"""regenerates the generated tables of DESIGN.md (between <!-- BEGIN:x --> / <!-- END:x --> markers) from
selftest/revert_fixes.json, known_findings.json and seeded/*/meta.json"""
import json, os, re, glob, subprocess
V = os.path.dirname(os.path.dirname(os.path.abspath(__file__)))
rev = json.load(open(V + '/selftest/revert_fixes.json'))
kf = json.load(open(V + '/known_findings.json'))['findings']
log = subprocess.run(['git', '-C', '/repo', 'log', '--reverse', '--format=%h\t%s'], stdout=subprocess.PIPE, text=True).stdout.splitlines()
fixes = [l.split('\t', 1) for l in log if '\tfix:' in l]


def short(keys, n=3):
    s = '; '.join('`%s`' % k.replace('|', '\\|') for k in keys[:n])
    return s + (' (+%d more)' % (len(keys) - n) if len(keys) > n else '')


t = ['| # | fix commit | defect (commit subject) | property | check with the fix reverted (quick tier) |', '|---|---|---|---|---|']
for i, (h, subj) in enumerate(fixes, 1):
    ents = [r for r in rev if r['commit'] == h]
    cells = []
    for e in ents:
        if e.get('exit') == 1:
            cells.append('%s exit 1: %s' % (e['property'], short(e['keys'])))
        elif e.get('exit') == 0:
            cells.append('%s exit 0 (not observable alone, see text)' % e['property'])
        else:
            cells.append('%s: single-commit revert no longer applies (see text)' % e['property'])
    props = ', '.join(sorted(set(e['property'] for e in ents)))
    t.append('| %d | %s | %s | %s | %s |' % (i, h, subj[5:].replace('|', '\\|'), props, '<br>'.join(cells)))
fixtab = '\n'.join(t)

s = ['| id | property | what it needs to manifest | demo unchanged / changed | baseline with change | caught by (quick tier keys) | when it arrived |', '|---|---|---|---|---|---|---|']
for mf in sorted(glob.glob(V + '/seeded/*/meta.json')):
    m = json.load(open(mf))
    cell = []
    for p, c in m.get('checks', {}).items():
        cell.append('%s exit %s: %s' % (p, c['exit'], short(c['keys'], 3) if c['keys'] else '**missed**'))
    fr = m.get('first_result', 'caught')
    fr = 'MISSED, check strengthened' if fr.startswith('MISSED') else 'caught by C13 only' if fr.startswith('not observable by C11') else 'caught'
    if m['id'] == 'C02-6': fr = 'MISSED by C02 and C13; C13 strengthened'
    s.append('| %s | %s | %s | %s / %s | %s | %s | %s |' % (m['id'], ','.join(m['breaks_property']), m['needs_to_manifest'].replace('|', '\\|'), m.get('demo_exit_unchanged'), m.get('demo_exit_with_change'),
                                                  m.get('baseline_with_change', 'not run'), '<br>'.join(cell), fr))
seedtab = '\n'.join(s)

d = open(V + '/DESIGN.md').read()
for name, tab in (('fixes', fixtab), ('seeded', seedtab)):
    d = re.sub(r'(<!-- BEGIN:%s -->\n).*?(<!-- END:%s -->)' % (name, name), lambda m: m.group(1) + tab + '\n' + m.group(2), d, flags=re.S)
open(V + '/DESIGN.md', 'w').write(d)
print('fix rows', len(fixes), 'seeded rows', len(s) - 2)
