#!/usr/bin/env python3
"""confirm_seeded.py <src-dir-with patch.diff,run_demo.sh,...> <seeded-id> <Cxx>[,Cyy] "<needs-to-manifest>"
Confirms a seeded change independently and files it under /verif/seeded/<seeded-id>/:
  1. demo on an unchanged scratch copy of /repo HEAD must exit 0
  2. patch applies; demo on the patched copy must exit non-zero
  3. the project's own test-suite on the patched copy: 62 of 62 (bin/baseline_off.sh with VERIF_REPO)
  4. the named quick checks against the patched copy (VERIF_REPO): exit code and violation keys
Writes meta.json. Scratch copies are removed. Nothing is applied to /repo."""
import sys, os, subprocess, shutil, tempfile, json, re, hashlib, time
VERIF = os.path.dirname(os.path.dirname(os.path.abspath(__file__)))
src, sid, props, needs = sys.argv[1], sys.argv[2], sys.argv[3].split(','), sys.argv[4]
skip_baseline = os.environ.get('SKIP_BASELINE') == '1'


def sh(cmd, **kw):
    return subprocess.run(cmd, shell=isinstance(cmd, str), stdout=subprocess.PIPE, stderr=subprocess.STDOUT, text=True, **kw)


dst = os.path.join(VERIF, 'seeded', sid)
os.makedirs(dst, exist_ok=True)
for f in os.listdir(src):
    p = os.path.join(src, f)
    if os.path.isfile(p) and os.path.getsize(p) < 400000 and not f.endswith(('.o', '.so')) and not os.access(p, os.X_OK) or f.endswith('.sh'):
        shutil.copy(p, os.path.join(dst, f))
env = dict(os.environ, OPENBLAS_NUM_THREADS='1')
clean = tempfile.mkdtemp(prefix='libsci-clean-'); mut = tempfile.mkdtemp(prefix='libsci-mut-')
meta = {'id': sid, 'breaks_property': props, 'needs_to_manifest': needs, 'repo_head': sh('git -C /repo rev-parse --short HEAD').stdout.strip(), 'confirmed_at': time.strftime('%Y-%m-%d %H:%M')}
try:
    for d in (clean, mut):
        subprocess.run('git -C /repo archive HEAD | tar -x -C %s' % d, shell=True, check=True)
    r = sh('patch -p1 -s -d %s < %s' % (mut, os.path.join(dst, 'patch.diff')))
    meta['patch_applies'] = r.returncode == 0
    demo = os.path.join(dst, 'run_demo.sh')
    r0 = sh(['bash', demo, clean], env=env, cwd=dst); r1 = sh(['bash', demo, mut], env=env, cwd=dst)
    meta['demo_exit_unchanged'] = r0.returncode; meta['demo_exit_with_change'] = r1.returncode
    meta['demo_output_with_change'] = r1.stdout[-600:]
    if not skip_baseline:
        rb = sh([os.path.join(VERIF, 'bin', 'baseline_off.sh')], env=dict(env, VERIF_REPO=mut))
        m = re.search(r'(\d+) of (\d+) baseline tests', rb.stdout)
        meta['baseline_with_change'] = m.group(0) if m else rb.stdout[-300:]
    meta['checks'] = {}
    for pr in props:
        r = sh([os.path.join(VERIF, 'bin', 'vcheck'), pr, '--tier', 'quick'], env=dict(env, VERIF_REPO=mut), cwd=VERIF)
        meta['checks'][pr] = {'cmd': 'VERIF_REPO=<patched copy> bin/vcheck %s --tier quick' % pr, 'exit': r.returncode,
                              'keys': sorted(set(re.findall(r'\[vcheck\] %s key=(.*?) case=' % pr, r.stdout)))}
    meta['what_was_run'] = 'selftest/confirm_seeded.py: demo on unchanged and patched scratch copies of /repo HEAD, bin/baseline_off.sh on the patched copy, quick checks with VERIF_REPO=patched copy'
finally:
    for d in (clean, mut):
        shutil.rmtree(d, ignore_errors=True)
        shutil.rmtree(os.path.join(VERIF, 'build', 'alt-' + hashlib.sha1(os.path.abspath(d).encode()).hexdigest()[:10]), ignore_errors=True)
    for f in os.listdir(dst):      # demo build products
        p = os.path.join(dst, f)
        if os.path.isfile(p) and (os.path.getsize(p) > 400000 or f.endswith(('.o', '.so'))):
            os.unlink(p)
json.dump(meta, open(os.path.join(dst, 'meta.json'), 'w'), indent=1)
print(json.dumps({k: meta[k] for k in meta if k not in ('demo_output_with_change',)}, indent=1))
