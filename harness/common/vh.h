/* vh.h - common runner for the runtime-monitoring drivers.
 *
 * A driver defines   const vh_driver VH_DRIVER = { "C01", ncases_fn, run_case_fn, init_fn };
 * and links vh.c, which supplies main().  Every case i is generated from
 * (VERIF_SEED, property, i) only, so any single case can be replayed alone.
 *
 * Output protocol (one record per line, TAB separated, written to --out):
 *   C <idx> <ok|skip|inc> <class>        verdict of one case (ok also when V lines precede: see V)
 *   V <idx> <key> <message>              one oracle violation inside case idx
 *   D <idx> <descriptor>                 human-readable materialisation of the case
 *   O <name> <value>                     additive counter (summed by vcheck)
 *   M <name> <value>                     max-merged observation (largest deviation seen ...)
 *   H <name> <bucket> <count>            histogram cell
 *   X <idx> <how> <pid>                  child died on case idx (signal N / exit N)
 *   T <idx> <seconds>                    watchdog fired on case idx (inconclusive)
 */
#ifndef VH_H
#define VH_H
#include <stddef.h>
#include <stdint.h>
#include <stdio.h>

typedef struct vh_ctx {
  uint64_t seed;       /* VERIF_SEED */
  long idx;            /* case index */
  int tier;            /* 0 quick, 1 thorough */
  int verbose;         /* replay mode: print details */
  uint64_t s[4];       /* xoshiro256** state of this case */
  char cls[160];       /* case class */
  char desc[4096];     /* descriptor */
  int status;          /* 0 ok 1 skip 2 inconclusive */
  char why[160];
  int nviol;
  FILE *out;
} vh_ctx;

typedef struct vh_driver {
  const char *prop;
  long (*ncases)(int tier);
  void (*run_case)(vh_ctx *c);
  void (*init)(int tier);     /* optional, once per process before any case */
  double case_timeout;        /* watchdog seconds per case (0 = default 60) */
} vh_driver;

extern const vh_driver VH_DRIVER;

/* ---- PRNG (never the library's) ---- */
uint64_t vh_u64(vh_ctx *c);
double vh_unif(vh_ctx *c);                       /* [0,1) */
double vh_range(vh_ctx *c, double lo, double hi);
double vh_gauss(vh_ctx *c);
long vh_int(vh_ctx *c, long lo, long hi);        /* inclusive */
int vh_coin(vh_ctx *c, double p);
double vh_logunif(vh_ctx *c, double lo10, double hi10); /* 10^U(lo10,hi10) */
void vh_perm(vh_ctx *c, size_t *p, size_t n);   /* random permutation of 0..n-1 */

/* ---- verdict API ---- */
void vh_class(vh_ctx *c, const char *fmt, ...) __attribute__((format(printf,2,3)));
void vh_desc(vh_ctx *c, const char *fmt, ...) __attribute__((format(printf,2,3)));   /* appends */
void vh_fail(vh_ctx *c, const char *key, const char *fmt, ...) __attribute__((format(printf,3,4)));
void vh_skip(vh_ctx *c, const char *fmt, ...) __attribute__((format(printf,2,3)));
void vh_inconclusive(vh_ctx *c, const char *fmt, ...) __attribute__((format(printf,2,3)));
void vh_obs(const char *name, double add);       /* additive counter */
void vh_max(const char *name, double v);         /* running maximum */
void vh_hist(const char *name, long bucket);     /* histogram */
void vh_flush_obs(FILE *out);
/* write a record for the current case immediately and _exit (used from hooks that
   decide non-termination inside a library loop) */
void vh_fail_now(vh_ctx *c, const char *key, const char *fmt, ...) __attribute__((format(printf,3,4)));
vh_ctx *vh_current(void);

/* check helper: relative/absolute closeness; returns 1 if |a-b| <= tol*max(scale,tiny) */
int vh_close(double a, double b, double tol, double scale);

int vh_is_tsan(void);
#endif
