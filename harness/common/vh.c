/* vh.c - runner: forked batches with crash recovery, logical progress watchdog, record output */
#ifndef _GNU_SOURCE
#define _GNU_SOURCE
#endif
#include "vh.h"
#include <errno.h>
#include <math.h>
#include <signal.h>
#include <stdarg.h>
#include <stdlib.h>
#include <string.h>
#include <sys/mman.h>
#include <sys/wait.h>
#include <time.h>
#include <unistd.h>

#if defined(__SANITIZE_THREAD__)
#define VH_TSAN 1
#else
#define VH_TSAN 0
#endif
int vh_is_tsan(void) { return VH_TSAN; }

/* ------------------------------------------------------------------ PRNG */
static uint64_t splitmix(uint64_t *x)
{
  uint64_t z = (*x += 0x9e3779b97f4a7c15ULL);
  z = (z ^ (z >> 30)) * 0xbf58476d1ce4e5b9ULL;
  z = (z ^ (z >> 27)) * 0x94d049bb133111ebULL;
  return z ^ (z >> 31);
}
static inline uint64_t rotl(uint64_t x, int k) { return (x << k) | (x >> (64 - k)); }
uint64_t vh_u64(vh_ctx *c)
{
  uint64_t *s = c->s;
  uint64_t r = rotl(s[1] * 5, 7) * 9, t = s[1] << 17;
  s[2] ^= s[0]; s[3] ^= s[1]; s[1] ^= s[2]; s[0] ^= s[3]; s[2] ^= t; s[3] = rotl(s[3], 45);
  return r;
}
double vh_unif(vh_ctx *c) { return (double)(vh_u64(c) >> 11) * (1.0 / 9007199254740992.0); }
double vh_range(vh_ctx *c, double lo, double hi) { return lo + (hi - lo) * vh_unif(c); }
double vh_gauss(vh_ctx *c)
{
  double u1, u2;
  do { u1 = vh_unif(c); } while (u1 <= 1e-300);
  u2 = vh_unif(c);
  return sqrt(-2.0 * log(u1)) * cos(6.283185307179586476925 * u2);
}
long vh_int(vh_ctx *c, long lo, long hi)
{
  if (hi <= lo) return lo;
  return lo + (long)(vh_u64(c) % (uint64_t)(hi - lo + 1));
}
int vh_coin(vh_ctx *c, double p) { return vh_unif(c) < p; }
double vh_logunif(vh_ctx *c, double lo10, double hi10) { return pow(10.0, vh_range(c, lo10, hi10)); }
void vh_perm(vh_ctx *c, size_t *p, size_t n)
{
  size_t i;
  for (i = 0; i < n; i++) p[i] = i;
  for (i = n; i > 1; i--) {
    size_t j = (size_t)vh_int(c, 0, (long)i - 1), t = p[i - 1];
    p[i - 1] = p[j]; p[j] = t;
  }
}
static void seed_case(vh_ctx *c, const char *prop)
{
  uint64_t h = 1469598103934665603ULL, x;
  const char *p;
  int i;
  for (p = prop; *p; p++) { h ^= (unsigned char)*p; h *= 1099511628211ULL; }
  x = c->seed * 0x9E3779B97F4A7C15ULL ^ h ^ ((uint64_t)c->idx * 0xD1B54A32D192ED03ULL);
  for (i = 0; i < 4; i++) c->s[i] = splitmix(&x);
}

/* ------------------------------------------------------------------ verdicts */
static vh_ctx *g_cur;
vh_ctx *vh_current(void) { return g_cur; }

static void sanitize(char *s)
{
  for (; *s; s++) if (*s == '\t' || *s == '\n' || *s == '\r') *s = ' ';
}
void vh_class(vh_ctx *c, const char *fmt, ...)
{
  va_list ap; va_start(ap, fmt); vsnprintf(c->cls, sizeof c->cls, fmt, ap); va_end(ap); sanitize(c->cls);
}
void vh_desc(vh_ctx *c, const char *fmt, ...)
{
  size_t n = strlen(c->desc);
  va_list ap;
  if (n + 2 >= sizeof c->desc) return;
  va_start(ap, fmt); vsnprintf(c->desc + n, sizeof c->desc - n, fmt, ap); va_end(ap);
  sanitize(c->desc + n);
}
void vh_fail(vh_ctx *c, const char *key, const char *fmt, ...)
{
  char msg[1024], k[200];
  va_list ap; va_start(ap, fmt); vsnprintf(msg, sizeof msg, fmt, ap); va_end(ap);
  sanitize(msg);
  snprintf(k, sizeof k, "%s", key); sanitize(k);
  c->nviol++;
  if (c->nviol <= 8) fprintf(c->out, "V\t%ld\t%s\t%s\n", c->idx, k, msg);
  if (c->verbose) fprintf(stderr, "VIOL case %ld key=%s: %s\n", c->idx, k, msg);
}
void vh_skip(vh_ctx *c, const char *fmt, ...)
{
  va_list ap; va_start(ap, fmt); vsnprintf(c->why, sizeof c->why, fmt, ap); va_end(ap); sanitize(c->why);
  if (c->status == 0) c->status = 1;
}
void vh_inconclusive(vh_ctx *c, const char *fmt, ...)
{
  va_list ap; va_start(ap, fmt); vsnprintf(c->why, sizeof c->why, fmt, ap); va_end(ap); sanitize(c->why);
  c->status = 2;
}

#define NOBS 256
static struct { char name[64]; double v; int kind; long bucket; } g_obs[NOBS];
static int g_nobs;
static int obs_slot(const char *name, int kind, long bucket)
{
  int i;
  for (i = 0; i < g_nobs; i++)
    if (g_obs[i].kind == kind && g_obs[i].bucket == bucket && strcmp(g_obs[i].name, name) == 0) return i;
  if (g_nobs == NOBS) return -1;
  snprintf(g_obs[g_nobs].name, sizeof g_obs[g_nobs].name, "%s", name);
  g_obs[g_nobs].kind = kind; g_obs[g_nobs].bucket = bucket; g_obs[g_nobs].v = 0;
  return g_nobs++;
}
void vh_obs(const char *name, double add) { int i = obs_slot(name, 0, 0); if (i >= 0) g_obs[i].v += add; }
void vh_max(const char *name, double v)
{
  int i;
  if (!(v == v)) return;
  i = obs_slot(name, 1, 0);
  if (i >= 0 && v > g_obs[i].v) g_obs[i].v = v;
}
void vh_hist(const char *name, long bucket) { int i = obs_slot(name, 2, bucket); if (i >= 0) g_obs[i].v += 1; }
void vh_flush_obs(FILE *out)
{
  int i;
  for (i = 0; i < g_nobs; i++) {
    if (g_obs[i].kind == 0) fprintf(out, "O\t%s\t%.17g\n", g_obs[i].name, g_obs[i].v);
    else if (g_obs[i].kind == 1) fprintf(out, "M\t%s\t%.17g\n", g_obs[i].name, g_obs[i].v);
    else fprintf(out, "H\t%s\t%ld\t%.0f\n", g_obs[i].name, g_obs[i].bucket, g_obs[i].v);
  }
  g_nobs = 0;
  fflush(out);
}

int vh_close(double a, double b, double tol, double scale)
{
  double d = fabs(a - b);
  if (a != a || b != b) return 0;
  if (isinf(a) || isinf(b)) return a == b;
  if (scale < 1e-300) scale = 1e-300;
  return d <= tol * scale;
}

static void finish_case(vh_ctx *c, int want_desc)
{
  static const char *st[] = { "ok", "skip", "inc" };
  if ((want_desc || c->nviol > 0) && c->desc[0]) fprintf(c->out, "D\t%ld\t%s\n", c->idx, c->desc);
  if (c->nviol > 8) fprintf(c->out, "O\tviolations_truncated\t%d\n", c->nviol - 8);
  fprintf(c->out, "C\t%ld\t%s\t%s%s%s\n", c->idx, c->nviol > 0 ? "viol" : st[c->status], c->cls[0] ? c->cls : "-",
          c->status ? "\t" : "", c->status ? c->why : "");
  fflush(c->out);
}
void vh_fail_now(vh_ctx *c, const char *key, const char *fmt, ...)
{
  char msg[1024];
  va_list ap; va_start(ap, fmt); vsnprintf(msg, sizeof msg, fmt, ap); va_end(ap);
  vh_fail(c, key, "%s", msg);
  finish_case(c, 1);
  vh_flush_obs(c->out);
  _exit(77);
}

/* ------------------------------------------------------------------ runner */
struct shared { volatile long cur; volatile long beat; volatile int done; };

static void run_one(vh_ctx *c, long idx, int want_desc)
{
  c->idx = idx; c->cls[0] = 0; c->desc[0] = 0; c->status = 0; c->why[0] = 0; c->nviol = 0;
  seed_case(c, VH_DRIVER.prop);
  g_cur = c;
  VH_DRIVER.run_case(c);
  finish_case(c, want_desc);
}

static double now_s(void)
{
  struct timespec ts; clock_gettime(CLOCK_MONOTONIC, &ts); return ts.tv_sec + 1e-9 * ts.tv_nsec;
}

/* sanitizer reports (and the library's own diagnostics) of each worker process go to
   $VERIF_RUNDIR/san.<pid>; gcc's UBSan ignores log_path, so stderr itself is redirected */
static void redirect_stderr(void)
{
  const char *d = getenv("VERIF_RUNDIR");
  char path[512];
  if (!d) return;
  snprintf(path, sizeof path, "%s/san.%d", d, (int)getpid());
  if (!freopen(path, "w", stderr)) return;
  setvbuf(stderr, NULL, _IONBF, 0);
}
static void drop_empty_log(pid_t pid)
{
  const char *d = getenv("VERIF_RUNDIR");
  char path[512];
  FILE *f; long sz = 0;
  if (!d) return;
  snprintf(path, sizeof path, "%s/san.%d", d, (int)pid);
  f = fopen(path, "r");
  if (!f) return;
  fseek(f, 0, SEEK_END); sz = ftell(f); fclose(f);
  if (sz == 0) unlink(path);
}

int main(int argc, char **argv)
{
  vh_ctx ctx;
  long from = 0, to = -1, one = -1;
  int nofork = VH_TSAN, i;
  const char *outpath = NULL;
  double tmo;
  struct shared *sh;
  memset(&ctx, 0, sizeof ctx);
  ctx.seed = 1;
  for (i = 1; i < argc; i++) {
    if (!strcmp(argv[i], "--seed") && i + 1 < argc) ctx.seed = strtoull(argv[++i], NULL, 10);
    else if (!strcmp(argv[i], "--from") && i + 1 < argc) from = atol(argv[++i]);
    else if (!strcmp(argv[i], "--to") && i + 1 < argc) to = atol(argv[++i]);
    else if (!strcmp(argv[i], "--case") && i + 1 < argc) one = atol(argv[++i]);
    else if (!strcmp(argv[i], "--tier") && i + 1 < argc) ctx.tier = !strcmp(argv[++i], "thorough");
    else if (!strcmp(argv[i], "--out") && i + 1 < argc) outpath = argv[++i];
    else if (!strcmp(argv[i], "--nofork")) nofork = 1;
    else if (!strcmp(argv[i], "--verbose")) ctx.verbose = 1;
    else if (!strcmp(argv[i], "--ncases")) { printf("%ld\n", VH_DRIVER.ncases(ctx.tier)); return 0; }
    else { fprintf(stderr, "usage: %s --seed S --from A --to B --tier quick|thorough --out F [--nofork] [--case I --verbose] [--ncases]\n", argv[0]); return 2; }
  }
  if (to < 0) to = VH_DRIVER.ncases(ctx.tier);
  ctx.out = outpath ? fopen(outpath, "a") : stdout;
  if (!ctx.out) { perror("open out"); return 2; }
  setvbuf(ctx.out, NULL, _IOFBF, 1 << 16);
  if (one >= 0) {                      /* replay of a single case, inline */
    ctx.verbose = ctx.verbose || 1;
    if (VH_DRIVER.init) VH_DRIVER.init(ctx.tier);
    run_one(&ctx, one, 1);
    vh_flush_obs(ctx.out);
    fprintf(stderr, "case %ld: %s class=%s desc=%s\n", one, ctx.nviol ? "VIOLATED" : (ctx.status == 0 ? "ok" : ctx.why), ctx.cls, ctx.desc);
    return ctx.nviol ? 1 : 0;
  }
  if (nofork) {
    long k;
    redirect_stderr();
    if (VH_DRIVER.init) VH_DRIVER.init(ctx.tier);
    for (k = from; k < to; k++) {
      fprintf(ctx.out, "B\t%ld\n", k); fflush(ctx.out);
      run_one(&ctx, k, (k - from) < 2);
    }
    vh_flush_obs(ctx.out);
    return 0;
  }
  tmo = VH_DRIVER.case_timeout > 0 ? VH_DRIVER.case_timeout : 60.0;
  if (getenv("VERIF_CASE_TIMEOUT")) tmo = atof(getenv("VERIF_CASE_TIMEOUT"));
  sh = mmap(NULL, sizeof *sh, PROT_READ | PROT_WRITE, MAP_SHARED | MAP_ANONYMOUS, -1, 0);
  if (sh == MAP_FAILED) { perror("mmap"); return 2; }
  {
    long next = from, ncrash = 0;
    while (next < to) {
      pid_t pid;
      int st = 0;
      long lastbeat;
      double t0;
      sh->cur = next; sh->beat = 0; sh->done = 0;
      fflush(ctx.out);
      pid = fork();
      if (pid < 0) { perror("fork"); return 2; }
      if (pid == 0) {
        long k;
        redirect_stderr();
        if (VH_DRIVER.init) VH_DRIVER.init(ctx.tier);
        for (k = next; k < to; k++) {
          sh->cur = k; sh->beat++;
          run_one(&ctx, k, (k - from) < 2);
          if (((k - next) & 255) == 255) vh_flush_obs(ctx.out);
        }
        vh_flush_obs(ctx.out);
        sh->done = 1;
        fflush(ctx.out);
        _exit(0);
      }
      lastbeat = -1; t0 = now_s();
      for (;;) {
        pid_t r = waitpid(pid, &st, WNOHANG);
        struct timespec ts = { 0, 2000000 };
        if (r == pid) break;
        if (r < 0 && errno != EINTR) { perror("waitpid"); return 2; }
        if (sh->beat != lastbeat) { lastbeat = sh->beat; t0 = now_s(); }
        else if (now_s() - t0 > tmo) {
          kill(pid, SIGKILL);
          waitpid(pid, &st, 0);
          fprintf(ctx.out, "T\t%ld\t%.0f\n", sh->cur, tmo);
          st = -1;
          break;
        }
        nanosleep(&ts, NULL);
      }
      drop_empty_log(pid);
      if (st == -1) { next = sh->cur + 1; continue; }
      if (sh->done) break;
      if (WIFEXITED(st) && WEXITSTATUS(st) == 77) { next = sh->cur + 1; continue; }
      if (WIFSIGNALED(st)) fprintf(ctx.out, "X\t%ld\tsignal %d\t%d\n", sh->cur, WTERMSIG(st), (int)pid);
      else fprintf(ctx.out, "X\t%ld\texit %d\t%d\n", sh->cur, WEXITSTATUS(st), (int)pid);
      next = sh->cur + 1;
      /* a tree on which every other case dies has been judged already: do not spend the run re-forking */
      if (++ncrash >= 40) { fprintf(ctx.out, "O\tshards_stopped_after_40_crashes\t1\nO\tcases_not_run_after_crash_cap\t%ld\n", to - next); break; }
    }
  }
  fflush(ctx.out);
  return 0;
}
