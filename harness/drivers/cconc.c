/* cconc.c - concurrent-callers monitor shared by several properties (third seeded wave).
 *
 * The fitting, prediction, preprocessing, kernel and interpolation routines are functions of their arguments, and the library
 * itself calls them from worker threads (cross-validation workers fit PLS / MLR / LDA models, preprocess, multiply, invert ...).
 * A routine that keeps scratch state in function statics or file-scope variables, caches by an incomplete key, or ranks through a
 * global comparator context returns its definition when called alone and something else when two callers overlap - invisible to
 * every single-threaded oracle.  Seeded changes C15-4 (qsort context in a file-scope pointer) and C12-6 (LAPACK scratch in function
 * statics) were of that kind.
 *
 * One case: K = 2..6 threads run the bundle of ONE property (environment variable CCONC_PROP) on private data, R times each.
 * Before the threads start, every thread's bundle is evaluated once alone; during the concurrent phase every output must be
 * bit-identical to that reference.  Violations are keyed by the routine whose output changed.  The driver runs in the asan build
 * (ASan + UBSan watch the calls) and in the tsan build (ThreadSanitizer reports the racing accesses themselves).
 * The processor count the library sees (H1) alternates between 1 and 2: with 2, PCA / CPCA run their threaded kernels inside each caller. */
#include "drv_util.h"
#include <pthread.h>

#define MAXOUT 16
static const char *OPTFIT[6] = { "", "MatrixPreprocess(option 1)", "MatrixPreprocess(option 2)", "MatrixPreprocess(option 3)", "MatrixPreprocess(option 4)", "MatrixPreprocess(option 5)" };
static const char *OPTAPP[6] = { "", "MatrixPreprocess(apply, option 1)", "MatrixPreprocess(apply, option 2)", "MatrixPreprocess(apply, option 3)", "MatrixPreprocess(apply, option 4)", "MatrixPreprocess(apply, option 5)" };
typedef struct {
  int prop;                 /* bundle id */
  size_t n, p, ny;
  matrix *x, *y, *lab, *xy; tensor *t; dvector *v, *q;
  int scaling;
  matrix *ref[MAXOUT]; const char *fn[MAXOUT]; int nout;
  int reps, bad[MAXOUT];
  /* a model fitted once and READ by all threads at the same time (prediction on a shared model); `twin` is an identically fitted second
     model on which the reference is computed, so that the shared one is untouched until the threads start (lazy caches inside a model) */
  void *shared, *twin; int phase; matrix *sx; tensor *st;
} cw_t;

enum { B_C01, B_C03, B_C07, B_C08, B_C09, B_C10, B_C11, B_C14, B_C19, B_N };
static const char *BNAME[B_N] = { "C01", "C03", "C07", "C08", "C09", "C10", "C11", "C14", "C19" };
static int g_prop = -1;
static void *g_sh, *g_tw;

static long ncases(int tier) { return vh_is_tsan() ? (tier ? 1200 : 90) : (tier ? 4000 : 200); }

static void put_vec(matrix *out, dvector *v) { size_t i; ResizeMatrix(out, v->size, 1); for (i = 0; i < v->size; i++) out->data[i][0] = v->data[i]; }
static double quad_obj(dvector *x) { size_t i; double s = 3.0; for (i = 0; i < x->size; i++) s += (1.0 + (double)i) * (x->data[i] - 0.5 * (double)(i + 1)) * (x->data[i] - 0.5 * (double)(i + 1)); return s; }

/* evaluates the bundle of w->prop; fills out[0..nout-1] (fresh matrices) and the routine names */
static int bundle(cw_t *w, matrix **out, const char **fn)
{
  int k = 0; size_t i, j;
  switch (w->prop) {
  case B_C01: {
    PCAMODEL *m; NewPCAModel(&m); PCA(w->x, w->scaling, 2, m, NULL);
    initMatrix(&out[k]); MatrixCopy(m->scores, &out[k]); fn[k++] = "PCA";
    initMatrix(&out[k]); PCAScorePredictor(w->x, m, 2, out[k]); fn[k++] = "PCAScorePredictor";
    initMatrix(&out[k]); PCAIndVarPredictor(m->scores, m->loadings, m->colaverage, m->colscaling, 2, out[k]); fn[k++] = "PCAIndVarPredictor";
    if (w->shared) { initMatrix(&out[k]); PCAScorePredictor(w->x, (PCAMODEL *)(w->phase ? w->shared : w->twin), 2, out[k]); fn[k++] = "PCAScorePredictor(shared model)"; }
    DelPCAModel(&m); break; }
  case B_C03: {
    PLSMODEL *m; matrix *ts; NewPLSModel(&m); PLS(w->x, w->y, 2, w->scaling, 0, m, NULL);
    initMatrix(&out[k]); MatrixCopy(m->xscores, &out[k]); fn[k++] = "PLS";
    initMatrix(&out[k]); MatrixCopy(m->recalculated_y, &out[k]); fn[k++] = "PLS(recalculated_y)";
    initMatrix(&ts); initMatrix(&out[k]); PLSYPredictorAllLV(w->x, m, ts, out[k]); fn[k++] = "PLSYPredictorAllLV"; DelMatrix(&ts);
    initMatrix(&out[k]); PLSScorePredictor(w->x, m, 2, out[k]); fn[k++] = "PLSScorePredictor";
    { dvector *b; initDVector(&b); PLSBetasCoeff(m, 2, b); initMatrix(&out[k]); put_vec(out[k], b); fn[k++] = "PLSBetasCoeff"; DelDVector(&b); }
    if (w->shared) { matrix *t2; initMatrix(&t2); initMatrix(&out[k]); PLSYPredictorAllLV(w->x, (PLSMODEL *)(w->phase ? w->shared : w->twin), t2, out[k]); fn[k++] = "PLSYPredictorAllLV(shared model)"; DelMatrix(&t2); }
    DelPLSModel(&m); break; }
  case B_C07: {
    MLRMODEL *m; NewMLRModel(&m); MLR(w->x, w->y, m, NULL);
    initMatrix(&out[k]); MatrixCopy(m->b, &out[k]); fn[k++] = "MLR";
    initMatrix(&out[k]); MLRPredictY(w->x, NULL, m, out[k], NULL, NULL, NULL); fn[k++] = "MLRPredictY";
    { dvector *co; initDVector(&co); OrdinaryLeastSquares(w->x, w->v, co); initMatrix(&out[k]); put_vec(out[k], co); fn[k++] = "OrdinaryLeastSquares"; DelDVector(&co); }
    if (w->shared) { initMatrix(&out[k]); MLRPredictY(w->x, NULL, (MLRMODEL *)(w->phase ? w->shared : w->twin), out[k], NULL, NULL, NULL); fn[k++] = "MLRPredictY(shared model)"; }
    DelMLRModel(&m); break; }
  case B_C08: {
    LDAMODEL *m; matrix *pf, *pr, *mn, *pd; NewLDAModel(&m); LDA(w->x, w->lab, m);
    initMatrix(&out[k]); MatrixCopy(m->mu, &out[k]); fn[k++] = "LDA";
    initMatrix(&pf); initMatrix(&pr); initMatrix(&mn); initMatrix(&pd);
    LDAPrediction(w->x, m, pf, pr, mn, pd);
    initMatrix(&out[k]); MatrixCopy(pr, &out[k]); fn[k++] = "LDAPrediction(probability)";
    initMatrix(&out[k]); MatrixCopy(pd, &out[k]); fn[k++] = "LDAPrediction(prediction)";
    DelMatrix(&pf); DelMatrix(&pr); DelMatrix(&mn); DelMatrix(&pd);
    if (w->shared) { initMatrix(&pf); initMatrix(&pr); initMatrix(&mn); initMatrix(&pd); LDAPrediction(w->x, (LDAMODEL *)(w->phase ? w->shared : w->twin), pf, pr, mn, pd); initMatrix(&out[k]); MatrixCopy(pr, &out[k]); fn[k++] = "LDAPrediction(shared model)"; DelMatrix(&pf); DelMatrix(&pr); DelMatrix(&mn); DelMatrix(&pd); }
    DelLDAModel(&m); break; }
  case B_C09: {
    CPCAMODEL *m; tensor *pb; NewCPCAModel(&m); CPCA(w->t, w->scaling > 0 ? w->scaling : 1, 2, m);
    initMatrix(&out[k]); MatrixCopy(m->super_scores, &out[k]); fn[k++] = "CPCA";
    initMatrix(&out[k]); initTensor(&pb); CPCAScorePredictor(w->t, m, 2, out[k], pb); fn[k++] = "CPCAScorePredictor"; DelTensor(&pb);
    if (w->shared) { tensor *pb2; initMatrix(&out[k]); initTensor(&pb2); CPCAScorePredictor(w->t, (CPCAMODEL *)(w->phase ? w->shared : w->twin), 2, out[k], pb2); fn[k++] = "CPCAScorePredictor(shared model)"; DelTensor(&pb2); }
    DelCPCAModel(&m); break; }
  case B_C10: {
    dvector *avg, *scl; matrix *tr; int opt;
    for (opt = 1; opt <= 5; opt++) {
      initDVector(&avg); initDVector(&scl); NewMatrix(&out[k], w->x->row, w->x->col);     /* the caller sizes the output of MatrixPreprocess */
      MatrixPreprocess(w->x, opt, avg, scl, out[k]); fn[k++] = OPTFIT[opt];
      NewMatrix(&tr, w->x->row, w->x->col); MatrixPreprocess(w->x, -1, avg, scl, tr);      /* apply path: the caller sizes the output, as the predictors do */
      initMatrix(&out[k]); MatrixCopy(tr, &out[k]); fn[k++] = OPTAPP[opt];
      DelMatrix(&tr); DelDVector(&avg); DelDVector(&scl);
    }
    { dvector *mn, *mxv; initDVector(&mn); initDVector(&mxv); for (j = 0; j < w->x->col; j++) { double a, b; MatrixColumnMinMax(w->x, j, &a, &b); DVectorAppend(mn, a); DVectorAppend(mxv, b); } initMatrix(&out[k]); put_vec(out[k], mxv); fn[k++] = "MatrixColumnMinMax"; DelDVector(&mn); DelDVector(&mxv); }
    break; }
  case B_C11: {
    matrix *xt, *s1; dvector *r;
    NewMatrix(&xt, w->x->col, w->x->row); MatrixTranspose(w->x, xt);
    NewMatrix(&out[k], w->x->col, w->x->col); MatrixDotProduct(xt, w->x, out[k]); fn[k++] = "MatrixDotProduct";
    initMatrix(&out[k]); MatrixCovariance(w->x, out[k]); fn[k++] = "MatrixCovariance";
    initMatrix(&s1); MatrixCopy(w->x, &s1); MatrixSort(s1, 0); initMatrix(&out[k]); MatrixCopy(s1, &out[k]); fn[k++] = "MatrixSort"; MatrixReverseSort(s1, 1 % s1->col); initMatrix(&out[k]); MatrixCopy(s1, &out[k]); fn[k++] = "MatrixReverseSort"; DelMatrix(&s1);
    NewDVector(&r, w->x->row); MatrixDVectorDotProduct(w->x, w->q, r); initMatrix(&out[k]); put_vec(out[k], r); fn[k++] = "MatrixDVectorDotProduct"; DelDVector(&r);
    { dvector *ca, *cs; initDVector(&ca); initDVector(&cs); MatrixColAverage(w->x, ca); MatrixColSDEV(w->x, cs); initMatrix(&out[k]); put_vec(out[k], ca); fn[k++] = "MatrixColAverage"; initMatrix(&out[k]); put_vec(out[k], cs); fn[k++] = "MatrixColSDEV"; DelDVector(&ca); DelDVector(&cs); }
    { dvector *vs; initDVector(&vs); DVectorCopy(w->v, vs); DVectorSort(vs); initMatrix(&out[k]); put_vec(out[k], vs); fn[k++] = "DVectorSort"; DelDVector(&vs); }
    DelMatrix(&xt); break; }
  case B_C14: {
    /* a short fixed history on private containers */
    dvector *d; uivector *u; strvector *sv; matrix *m2; tensor *tt;
    initDVector(&d); for (i = 0; i < 9; i++) DVectorAppend(d, w->v->data[i % w->v->size] + (double)i); DVectorRemoveAt(d, 2); DVectorSort(d);
    initMatrix(&out[k]); put_vec(out[k], d); fn[k++] = "dvector history"; DelDVector(&d);
    initUIVector(&u); for (i = 0; i < 7; i++) UIVectorAppend(u, (size_t)(13 * (i + 1) % 11)); SortUIVector(u); ResizeMatrix((initMatrix(&out[k]), out[k]), u->size, 1); for (i = 0; i < u->size; i++) out[k]->data[i][0] = (double)u->data[i]; fn[k++] = "uivector history"; DelUIVector(&u);
    initStrVector(&sv); StrVectorAppend(sv, "alpha"); StrVectorAppendInt(sv, (int)w->n); StrVectorAppendDouble(sv, w->v->data[0]); ResizeMatrix((initMatrix(&out[k]), out[k]), sv->size, 1); for (i = 0; i < sv->size; i++) { double h = 0; const char *s = getStr(sv, i); while (*s) h = h * 31.0 + (double)(unsigned char)*s++; out[k]->data[i][0] = h; } fn[k++] = "strvector history"; DelStrVector(&sv);
    initMatrix(&m2); MatrixCopy(w->x, &m2); MatrixAppendRow(m2, w->q); MatrixDeleteRowAt(m2, 0); MatrixAppendCol(m2, w->v); initMatrix(&out[k]); MatrixCopy(m2, &out[k]); fn[k++] = "matrix history";
    initTensor(&tt); TensorAppendMatrix(tt, m2); TensorAppendMatrix(tt, m2); { tensor *tc; initTensor(&tc); TensorCopy(tt, &tc); initMatrix(&out[k]); MatrixCopy(tc->m[1], &out[k]); fn[k++] = "tensor history"; DelTensor(&tc); }
    DelTensor(&tt); DelMatrix(&m2); break; }
  default: {
    matrix *S, *ip; dvector *yp, *best;
    initMatrix(&S); cubic_spline_interpolation(w->xy, S); initMatrix(&out[k]); MatrixCopy(S, &out[k]); fn[k++] = "cubic_spline_interpolation";
    initDVector(&yp); cubic_spline_predict(w->q, S, yp); initMatrix(&out[k]); put_vec(out[k], yp); fn[k++] = "cubic_spline_predict"; DelDVector(&yp); DelMatrix(&S);
    initMatrix(&ip); interpolate(w->xy, 25, ip); initMatrix(&out[k]); MatrixCopy(ip, &out[k]); fn[k++] = "interpolate"; DelMatrix(&ip);
    ResizeMatrix((initMatrix(&out[k]), out[k]), 1, 1); out[k]->data[0][0] = curve_area(w->xy, 0); fn[k++] = "curve_area";
    NewDVector(&best, 3); { dvector *x0; NewDVector(&x0, 3); for (i = 0; i < 3; i++) x0->data[i] = w->v->data[i]; ResizeMatrix((initMatrix(&out[k]), out[k]), 4, 1); out[k]->data[3][0] = NelderMeadSimplex(quad_obj, x0, NULL, 1e-12, 4000, best); for (i = 0; i < 3; i++) out[k]->data[i][0] = best->data[i]; fn[k++] = "NelderMeadSimplex"; DelDVector(&x0); }
    DelDVector(&best); break; }
  }
  (void)j;
  return k;
}

static int same(matrix *a, matrix *b)
{
  size_t i;
  if (a->row != b->row || a->col != b->col) return 0;
  for (i = 0; i < a->row; i++) if (a->col && memcmp(a->data[i], b->data[i], sizeof(double) * a->col)) return 0;
  return 1;
}
static void *worker(void *a)
{
  cw_t *w = a; int r, k, n; matrix *out[MAXOUT]; const char *fn[MAXOUT];
  for (r = 0; r < w->reps; r++) {
    n = bundle(w, out, fn);
    for (k = 0; k < n; k++) { if (k >= w->nout || !same(out[k], w->ref[k])) w->bad[k]++; DelMatrix(&out[k]); }
  }
  return NULL;
}

static void make_data(vh_ctx *c, cw_t *w)
{
  size_t n = (size_t)vh_int(c, 10, 18), p = (size_t)vh_int(c, 3, 5), i, j;
  if (w->p) p = w->p;                 /* forced: same variables as thread 0 (shared-model predictions) */
  w->n = n; w->p = p; w->ny = 2; w->scaling = (int)vh_int(c, 0, 2);
  NewMatrix(&w->x, n, p); NewMatrix(&w->y, n, 2); NewMatrix(&w->lab, n, 1); NewDVector(&w->v, n); NewDVector(&w->q, p);
  for (i = 0; i < n; i++) {
    for (j = 0; j < p; j++) w->x->data[i][j] = vh_gauss(c) * (1.0 + 0.5 * (double)j) + (double)(i % 3) + 2.5 * (double)(i % 2) * (j == 0);
    w->y->data[i][0] = 2.0 * w->x->data[i][0] - w->x->data[i][1] + 0.2 * vh_gauss(c);
    w->y->data[i][1] = w->x->data[i][2] + 0.3 * vh_gauss(c) + 5.0;
    w->lab->data[i][0] = (double)(i % 2);
    w->v->data[i] = w->y->data[i][0];
  }
  for (j = 0; j < p; j++) w->q->data[j] = vh_range(c, -1.0, 1.0);
  initTensor(&w->t); TensorAppendMatrix(w->t, w->x); { matrix *b2; NewMatrix(&b2, n, 3); for (i = 0; i < n; i++) for (j = 0; j < 3; j++) b2->data[i][j] = w->x->data[i][j % p] * (1.0 + (double)j) + vh_gauss(c); TensorAppendMatrix(w->t, b2); DelMatrix(&b2); }
  NewMatrix(&w->xy, 9, 2); { double xx = vh_range(c, -2.0, 2.0); for (i = 0; i < 9; i++) { xx += vh_range(c, 0.3, 1.5); w->xy->data[i][0] = xx; w->xy->data[i][1] = vh_gauss(c); } }
  if (w->prop == B_C19) { DelDVector(&w->q); NewDVector(&w->q, 6); for (i = 0; i < 6; i++) w->q->data[i] = w->xy->data[0][0] + (w->xy->data[8][0] - w->xy->data[0][0]) * vh_unif(c); }
}
static void free_data(cw_t *w) { DelMatrix(&w->x); DelMatrix(&w->y); DelMatrix(&w->lab); DelDVector(&w->v); if (w->q) DelDVector(&w->q); DelTensor(&w->t); DelMatrix(&w->xy); }

static void run_case(vh_ctx *c)
{
  int K = (int)vh_int(c, 2, 6), t, k, reps = vh_is_tsan() ? 3 : 8, bad[MAXOUT] = { 0 }, nout = 0; cw_t w[6]; pthread_t th[6]; const char *fn[MAXOUT];
  if (g_prop < 0) {
    const char *e = getenv("CCONC_PROP"); int b;
    for (b = 0; b < B_N; b++) if (e && !strcmp(e, BNAME[b])) g_prop = b;
    if (g_prop < 0) { vh_class(c, "no-bundle"); vh_inconclusive(c, "CCONC_PROP not set to a known property"); return; }
  }
  /* one reported processor (no inner fan-out) or, for every fourth PCA / CPCA case, two: PCA / CPCA then run their threaded matrix-vector kernels inside each caller */
  libsci_verif_nprocs = (c->idx % 4 == 1 && (g_prop == B_C01 || (g_prop == B_C09 && !vh_is_tsan()))) ? 2 : 1;      /* only PCA / CPCA have threaded kernels inside; the fan-out is costly under the sanitizers */
  if (libsci_verif_nprocs == 2) reps = vh_is_tsan() ? 1 : 2;
  vh_class(c, "concurrent-callers-%s-%d-np%zu", BNAME[g_prop], K, libsci_verif_nprocs);
  vh_desc(c, "%d threads x %d repetitions of the %s bundle on private data", K, reps, BNAME[g_prop]);
  for (t = 0; t < K; t++) { memset(&w[t], 0, sizeof w[t]); w[t].prop = g_prop; w[t].reps = reps; if (t) w[t].p = w[0].p; make_data(c, &w[t]); }
  /* every thread's data has the shape of thread 0's for the shared-model predictions: same variables / blocks */
  {
    void *sh = NULL, *tw = NULL; int z;
    for (z = 0; z < 2; z++) {
      void *mm = NULL;
      if (g_prop == B_C01) { PCAMODEL *m; NewPCAModel(&m); PCA(w[0].x, w[0].scaling, 2, m, NULL); mm = m; }
      else if (g_prop == B_C03) { PLSMODEL *m; NewPLSModel(&m); PLS(w[0].x, w[0].y, 2, w[0].scaling, 0, m, NULL); mm = m; }
      else if (g_prop == B_C07) { MLRMODEL *m; NewMLRModel(&m); MLR(w[0].x, w[0].y, m, NULL); mm = m; }
      else if (g_prop == B_C08) { LDAMODEL *m; NewLDAModel(&m); LDA(w[0].x, w[0].lab, m); mm = m; }
      else if (g_prop == B_C09) { CPCAMODEL *m; NewCPCAModel(&m); CPCA(w[0].t, w[0].scaling > 0 ? w[0].scaling : 1, 2, m); mm = m; }
      if (z == 0) sh = mm; else tw = mm;
    }
    for (t = 0; t < K; t++) { w[t].shared = (w[t].p == w[0].p) ? sh : NULL; w[t].twin = tw; }
    g_sh = sh; g_tw = tw;
  }
  for (t = 0; t < K; t++) { w[t].nout = bundle(&w[t], w[t].ref, w[t].fn); if (w[t].nout > nout) nout = w[t].nout; }
  for (k = 0; k < nout; k++) fn[k] = w[0].fn[k];      /* thread 0 always has the shared-model output: it is the longest list */
  for (t = 0; t < K; t++) w[t].phase = 1;
  for (t = 0; t < K; t++) pthread_create(&th[t], NULL, worker, &w[t]);
  for (t = 0; t < K; t++) pthread_join(th[t], NULL);
  for (t = 0; t < K; t++) { for (k = 0; k < w[t].nout; k++) { bad[k] += w[t].bad[k]; DelMatrix(&w[t].ref[k]); } free_data(&w[t]); }
  if (g_sh) {
    if (g_prop == B_C01) { PCAMODEL *a = g_sh, *b = g_tw; DelPCAModel(&a); DelPCAModel(&b); }
    else if (g_prop == B_C03) { PLSMODEL *a = g_sh, *b = g_tw; DelPLSModel(&a); DelPLSModel(&b); }
    else if (g_prop == B_C07) { MLRMODEL *a = g_sh, *b = g_tw; DelMLRModel(&a); DelMLRModel(&b); }
    else if (g_prop == B_C08) { LDAMODEL *a = g_sh, *b = g_tw; DelLDAModel(&a); DelLDAModel(&b); }
    else if (g_prop == B_C09) { CPCAMODEL *a = g_sh, *b = g_tw; DelCPCAModel(&a); DelCPCAModel(&b); }
    g_sh = g_tw = NULL;
  }
  vh_obs("concurrent_caller_cases", 1); vh_obs("concurrent_calls", (double)K * reps * nout);
  for (k = 0; k < nout; k++) if (bad[k]) { char key[128]; snprintf(key, sizeof key, "%s|result-depends-on-concurrent-callers", fn[k]); vh_fail(c, key, "%d of %d concurrent calls returned another result than the same call made alone", bad[k], K * reps); }
}

const vh_driver VH_DRIVER = { "CCONC", ncases, run_case, NULL, 120 };
