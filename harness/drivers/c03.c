/* c03.c - C03: the PLS (NIPALS) model satisfies its structural identities for every X, Y, LV count.
 *
 * Monitor: every fitted model is replayed in long double against reference-preprocessed X and Y:
 *   t_k = E_{k-1} w_k, p_k = E_{k-1}' t_k / t_k't_k with |p_k| = 1, E_k = E_{k-1} - t_k p_k', E_k' t_j = 0 (j <= k),
 *   T'T and W'W have vanishing off-diagonals (exact for NIPALS whatever the convergence state), b_k = u_k't_k/t_k't_k,
 *   PLSScorePredictor(training) = T, and for every number of latent variables a and response j
 *   recalculated_y[:, ny*(a-1)+j] = back-transform(sum_{k<=a} b_k t_k q_jk), recalc_residuals = that - y_j,
 *   PLSYPredictor / PLSYPredictorAllLV(training) = recalculated_y (latent-variable major columns).
 * Tolerances are eps x data scale x amplification (see the clause comments). asan build. */
#include "drv_util.h"

static long ncases(int tier) { return tier ? 400000 : 60000; }

/* GEN-BEGIN (generator shared verbatim by c03.c and c04.c) */
#define EPS 2.220446049250313e-16

typedef struct {
  size_t n, p, ny;
  int xs, ys;
  matrix *mx, *my;
  ldm *X, *Y, *Xp, *Yp;
  ld *xm, *xsc, *ym, *ysc;
  size_t nxm, nxsc, nym, nysc;
  ld kappa, smin;
  double noise;
  int corr, lowdim, icpt, regime, ortho, yorth;
  size_t yorth_col;
  const char *skip;
} gcase;

static void gcase_free(gcase *g)
{
  if (g->mx) DelMatrix(&g->mx);
  if (g->my) DelMatrix(&g->my);
  ldm_free(g->X); ldm_free(g->Y); ldm_free(g->Xp); ldm_free(g->Yp);
  free(g->xm); free(g->xsc); free(g->ym); free(g->ysc);
}

/* two-pass modified Gram-Schmidt on the columns; 0 when a column vanishes */
static int mgs_cols(ldm *A)
{
  size_t i, j, k; int pass;
  for (j = 0; j < A->c; j++) {
    ld nr = 0;
    for (pass = 0; pass < 2; pass++)
      for (k = 0; k < j; k++) {
        ld s = 0;
        for (i = 0; i < A->r; i++) s += LM(A, i, k) * LM(A, i, j);
        for (i = 0; i < A->r; i++) LM(A, i, j) -= s * LM(A, i, k);
      }
    for (i = 0; i < A->r; i++) nr += LM(A, i, j) * LM(A, i, j);
    nr = sqrtl(nr);
    if (nr < 1e-6L) return 0;
    for (i = 0; i < A->r; i++) LM(A, i, j) /= nr;
  }
  return 1;
}

static const double NOISE_LEVELS[5] = { 0.0, 1e-6, 1e-2, 1.0, 10.0 };

/* X (n x p, full column rank after the reference preprocessing, condition number <= kmax) and
   Y = X_pre B + noise (ny responses, correlated / differently scaled, distinct offsets) */
static void gen_case(vh_ctx *c, gcase *g, size_t pmax, size_t nymax, double kmax)
{
  size_t n, p, ny, i, j, k;
  int pair = (int)(c->idx % 49), xs = pair / 7 - 1, ys = pair % 7 - 1, centred = xs >= 0;
  ldm *U, *Q, *Z, *Us = NULL;
  ld *s, *sv;
  double ktarget, base, width, ratio;

  memset(g, 0, sizeof *g);
  g->xs = xs; g->ys = ys;
  g->regime = (int)vh_int(c, 0, 3);
  n = (size_t)vh_int(c, 6, 40);
  if (g->regime == 0) { size_t hi = n / 2 < pmax ? n / 2 : pmax; p = (size_t)vh_int(c, 1, (long)hi); }                 /* tall */
  else if (g->regime == 1) {                                                                                       /* as wide as the rank allows */
    size_t lim;
    n = (size_t)vh_int(c, 6, (long)pmax + 3);
    lim = (centred ? n - 1 : n) - (size_t)vh_int(c, 0, 1);
    p = lim < pmax ? lim : pmax;
  }
  else if (g->regime == 2) p = (size_t)vh_int(c, 1, 2);                                                              /* one or two predictors */
  else { size_t hi = n - 2 < pmax ? n - 2 : pmax; p = (size_t)vh_int(c, 1, (long)hi); }
  { double r = vh_unif(c); ny = r < 0.35 ? 1 : r < 0.6 ? 2 : r < 0.8 ? 3 : 4; if (ny > nymax) ny = nymax; }
  g->n = n; g->p = p; g->ny = ny;

  /* ---- X = loc + (U diag(s) Q') D ---- */
  U = ldm_new(n, p);
  for (i = 0; i < n * p; i++) U->a[i] = vh_gauss(c);
  if (centred) for (j = 0; j < p; j++) { ld m = 0; for (i = 0; i < n; i++) m += LM(U, i, j); m /= n; for (i = 0; i < n; i++) LM(U, i, j) -= m; }
  if (!mgs_cols(U)) { g->skip = "degenerate gaussian basis"; ldm_free(U); return; }
  Q = ldm_new(p, p);
  or_random_orthogonal(Q, gauss_cb, c);
  s = calloc(p, sizeof(ld));
  ktarget = vh_logunif(c, 0.0, log10(kmax) - 0.7);
  for (k = 0; k < p; k++) s[k] = (ld)(pow(ktarget, p > 1 ? -(double)k / (double)(p - 1) : 0.0) * vh_range(c, 0.8, 1.25));
  /* orthogonal design (X_pre'X_pre ~ c I for most scalings): the PLS sequence is complete after one latent variable,
     the following ones have nothing left to model although nlv <= rank */
  g->ortho = (p >= 2 && vh_coin(c, 0.04));
  if (g->ortho) for (k = 0; k < p; k++) s[k] = 1;
  Z = ldm_new(n, p);
  for (i = 0; i < n; i++) for (j = 0; j < p; j++) { ld a = 0; for (k = 0; k < p; k++) a += LM(U, i, k) * s[k] * LM(Q, j, k); LM(Z, i, j) = a; }
  base = vh_range(c, -1.0, 1.0);
  width = (xs == 1 || xs == 2 || xs == 4) ? vh_range(c, 0.0, 3.0) : vh_range(c, 0.0, 1.0);
  if (g->ortho && xs != 1) width = 0;
  ratio = vh_logunif(c, -0.5, 1.5);
  g->icpt = (xs == -1 && p >= 2 && vh_coin(c, 0.15));
  NewMatrix(&g->mx, n, p);
  for (j = 0; j < p; j++) {
    ld nz = 0; double target, sdj, loc;
    for (k = 0; k < p; k++) nz += s[k] * s[k] * LM(Q, j, k) * LM(Q, j, k);
    sdj = (double)sqrtl(nz / (ld)(n - 1));
    target = pow(10.0, base + width * vh_unif(c));
    if (target < 0.08) target = 0.08;
    if (xs == 2 || xs == 5) loc = (vh_coin(c, 0.5) ? 1 : -1) * target * ratio * vh_range(c, 0.7, 1.4);   /* similar mean/spread ratio per column */
    else if (xs == -1) loc = vh_coin(c, 0.4) ? 0.0 : vh_range(c, -2.0, 2.0) * target;
    else loc = vh_coin(c, 0.25) ? 0.0 : (vh_coin(c, 0.5) ? 1 : -1) * target * vh_logunif(c, -1.0, 2.0);
    if (xs == 5 && fabs(loc) < 0.1) loc = loc < 0 ? -0.1 : 0.1;
    for (i = 0; i < n; i++) g->mx->data[i][j] = loc + (double)LM(Z, i, j) * target / sdj;
    if (g->icpt && j == 0) { double c0 = (vh_coin(c, 0.5) ? 1 : -1) * vh_logunif(c, -0.5, 1.0); for (i = 0; i < n; i++) g->mx->data[i][0] = c0; }
  }
  ldm_free(U); ldm_free(Q); ldm_free(Z); free(s);
  /* disparate units (second build session, side PRNG stream): an unscaled X block in units 1e4..1e7 next to responses of ordinary size makes the
     inner-relation coefficients b_k ~ |y|/|t| as small as 1e-9: nothing in the property bounds the units of X */
  {
    vh_ctx cc = *c; cc.s[1] ^= 0xA0761D6478BD642FULL; cc.s[3] += 0x77ULL; (void)vh_u64(&cc); (void)vh_u64(&cc);
    if ((xs == -1 || xs == 0) && vh_coin(&cc, 0.12)) { double f = pow(10.0, vh_range(&cc, 4.0, 7.0)); for (i = 0; i < n; i++) for (j = 0; j < p; j++) g->mx->data[i][j] *= f; vh_obs("cases_with_large_unit_x_block", 1); }
  }

  g->X = ldm_of_matrix(g->mx);
  g->xm = calloc(p + 1, sizeof(ld)); g->xsc = calloc(p + 1, sizeof(ld));
  g->Xp = ldm_new(n, p);
  or_preprocess_fit(g->X, xs, g->xm, g->xsc, &g->nxm, &g->nxsc, g->Xp);
  for (j = 0; j < p; j++) {
    ld sd, sum = 0;
    or_col_stats(g->X, j, NULL, &sd, NULL, NULL, NULL, NULL);
    for (i = 0; i < n; i++) sum += LM(g->X, i, j);
    if (xs >= 0 && sd < 0.05L) g->skip = "x column spread below 0.05";
    if (xs >= 1 && fabsl(g->xsc[j]) < 0.05L) g->skip = "x scaling value below 0.05";
    if (xs >= 0 && fabsl(sum) < 1e-4L && fabsl(sum) > 1e-11L * sd) g->skip = "x column sum within the library's zero-mean snap window";
  }
  sv = calloc(p, sizeof(ld));
  Us = ldm_new(n, p);
  or_svd(g->Xp, sv, Us, NULL);
  g->kappa = sv[p - 1] > 0 ? sv[0] / sv[p - 1] : INFINITY;
  g->smin = sv[p - 1];
  if (!(g->kappa <= (ld)kmax)) g->skip = "condition number of preprocessed X above the limit";

  /* ---- Y ---- */
  {
    ldm *S = ldm_new(n, ny);
    double r = vh_unif(c);
    g->noise = NOISE_LEVELS[r < 0.15 ? 0 : r < 0.3 ? 1 : r < 0.6 ? 2 : r < 0.85 ? 3 : 4];
    g->lowdim = (p >= 3 && g->noise > 0 && vh_coin(c, 0.15));
    /* a first response without any information about X (orthogonal to the columns of X_pre and to the constant), given the
       largest spread so that NIPALS starts from it; the other responses are ordinary */
    g->yorth = (ny >= 2 && n >= p + 4 && vh_coin(c, 0.04));
    g->corr = (ny > 1 && !g->yorth && vh_coin(c, 0.4));
    if (g->lowdim) {
      size_t rdim = (size_t)vh_int(c, 1, (long)p - 1);
      for (j = 0; j < ny; j++) for (k = 0; k < rdim; k++) { ld co = vh_gauss(c); for (i = 0; i < n; i++) LM(S, i, j) += co * LM(Us, i, k); }
    } else {
      for (j = 0; j < ny; j++) for (k = 0; k < p; k++) { ld co = vh_gauss(c); for (i = 0; i < n; i++) LM(S, i, j) += co * LM(g->Xp, i, k); }
    }
    for (j = 0; j < ny; j++) {      /* unit spread signal + noise */
      ld m = 0, v = 0;
      for (i = 0; i < n; i++) m += LM(S, i, j);
      m /= n;
      for (i = 0; i < n; i++) v += (LM(S, i, j) - m) * (LM(S, i, j) - m);
      v = sqrtl(v / (n - 1));
      if (v < 1e-9L) { g->skip = "signal without spread"; v = 1; }
      for (i = 0; i < n; i++) LM(S, i, j) = LM(S, i, j) / v + (ld)(g->noise * vh_gauss(c));
    }
    if (g->yorth) {
      ld *v = calloc(n, sizeof(ld)); int pass;
      for (i = 0; i < n; i++) v[i] = vh_gauss(c);
      for (pass = 0; pass < 3; pass++) {
        ld m = 0;
        for (i = 0; i < n; i++) m += v[i];
        m /= n;
        for (i = 0; i < n; i++) v[i] -= m;
        for (k = 0; k < p; k++) { ld d = 0; for (i = 0; i < n; i++) d += v[i] * LM(Us, i, k); for (i = 0; i < n; i++) v[i] -= d * LM(Us, i, k); }
      }
      g->yorth_col = (size_t)vh_int(c, 0, (long)ny - 1);      /* the uninformative dominant response may sit at any index */
      for (i = 0; i < n; i++) LM(S, i, g->yorth_col) = v[i];
      free(v);
    }
    if (g->corr) for (j = 1; j < ny; j++) { double sg = vh_coin(c, 0.5) ? 1 : -1, own = vh_range(c, 0.05, 0.5); for (i = 0; i < n; i++) LM(S, i, j) = sg * LM(S, i, 0) + own * LM(S, i, j); }
    NewMatrix(&g->my, n, ny);
    {
      int shift = (ys == 5 || vh_coin(c, 0.3));
      for (j = 0; j < ny; j++) {
        ld m = 0, v = 0; double unit = vh_logunif(c, -1.0, 2.5), off = 100.0 * (double)(j + (shift ? 1 : 0));
        if (unit < 0.1) unit = 0.1;
        if (g->yorth) unit = j == g->yorth_col ? 400.0 : unit > 100.0 ? 100.0 : unit;
        for (i = 0; i < n; i++) m += LM(S, i, j);
        m /= n;
        for (i = 0; i < n; i++) v += (LM(S, i, j) - m) * (LM(S, i, j) - m);
        v = sqrtl(v / (n - 1));
        if (v < 1e-9L) { g->skip = "response without spread"; v = 1; }
        for (i = 0; i < n; i++) g->my->data[i][j] = off + (double)((LM(S, i, j) - m) / v) * unit;
      }
    }
    ldm_free(S);
  }
  ldm_free(Us); free(sv);
  g->Y = ldm_of_matrix(g->my);
  g->ym = calloc(ny + 1, sizeof(ld)); g->ysc = calloc(ny + 1, sizeof(ld));
  g->Yp = ldm_new(n, ny);
  or_preprocess_fit(g->Y, ys, g->ym, g->ysc, &g->nym, &g->nysc, g->Yp);
  for (j = 0; j < ny; j++) {
    ld sd, sum = 0;
    or_col_stats(g->Y, j, NULL, &sd, NULL, NULL, NULL, NULL);
    for (i = 0; i < n; i++) sum += LM(g->Y, i, j);
    if (sd < 0.05L) g->skip = "response spread below 0.05";
    if (ys >= 1 && fabsl(g->ysc[j]) < 0.05L) g->skip = "y scaling value below 0.05";
    if (ys >= 0 && fabsl(sum) < 1e-4L && fabsl(sum) > 1e-11L * sd) g->skip = "y column sum within the library's zero-mean snap window";
  }
}

/* GEN-END */

static void check_stats(vh_ctx *c, const char *blk, dvector *avg, dvector *scl, const ld *mean, const ld *scale, size_t nmean, size_t nscale, int type)
{
  size_t j; char key[96];
  if (avg->size != nmean || scl->size != nscale) {
    snprintf(key, sizeof key, "PLS|%s-stats-size", blk);
    vh_fail(c, key, "colaverage %zu colscaling %zu expected %zu %zu", avg->size, scl->size, nmean, nscale);
    return;
  }
  for (j = 0; j < nmean; j++) {
    double got = type == 3 ? scl->data[j] * scl->data[j] : scl->data[j];
    double want = type == 3 ? (double)(scale[j] * scale[j]) : (double)scale[j];
    if (!vh_close(avg->data[j], (double)mean[j], 1e-12, fabs((double)mean[j])) && fabs(avg->data[j] - (double)mean[j]) > 1e-6) {
      snprintf(key, sizeof key, "PLS|%s-colaverage", blk);
      vh_fail(c, key, "col %zu average %.17g expected %.17g", j, avg->data[j], (double)mean[j]);
    }
    if (!vh_close(got, want, 1e-10, fabs(want) + fabs((double)mean[j]))) {
      snprintf(key, sizeof key, "PLS|%s-colscaling", blk);
      vh_fail(c, key, "col %zu scaling %.17g expected %.17g", j, scl->data[j], (double)scale[j]);
    }
  }
}

static int shape_is(matrix *m, size_t r, size_t cc) { return m->row == r && m->col == cc; }

/* fit with nlv latent variables and judge every clause */
static void judge_model(vh_ctx *c, const gcase *gp, size_t nlv)
{
  gcase g = *gp;      /* shallow view: nothing is freed here */
  size_t n = g.n, p = g.p, ny = g.ny, i, j, k, a;
  PLSMODEL *m = NULL;
  matrix *mx0, *my0;
  ldm *E = NULL, *FIT = NULL, *REC = NULL;
  ld SX, SYP = 0, maxw = 1;
  ld *tn = NULL, *wn = NULL, *SY = NULL;

  mx0 = matrix_dup(g.mx); my0 = matrix_dup(g.my);

  NewPLSModel(&m);
  drv_ticks_begin();
  PLS(g.mx, g.my, nlv, g.xs, g.ys, m, NULL);
  drv_ticks_end("nipals_iters_per_lv_log2", nlv);
  libsci_verif_tick_hook = NULL;
  vh_obs("models_fitted", 1);
  vh_hist("scaling_pair_xs_ys", (long)((g.xs + 1) * 7 + (g.ys + 1)));
  vh_hist("responses", (long)ny);
  vh_hist("nlv", (long)nlv);

  if (matrix_maxdiff(g.mx, mx0) != 0 || matrix_maxdiff(g.my, my0) != 0) vh_fail(c, "PLS|input-modified", "PLS changed an input matrix");
  if (!shape_is(m->xscores, n, nlv) || !shape_is(m->xloadings, p, nlv) || !shape_is(m->xweights, p, nlv) || !shape_is(m->yscores, n, nlv) ||
      !shape_is(m->yloadings, ny, nlv) || m->b->size != nlv || !shape_is(m->recalculated_y, n, ny * nlv) || !shape_is(m->recalc_residuals, n, ny * nlv)) {
    vh_fail(c, "PLS|shape", "T %zux%zu P %zux%zu W %zux%zu U %zux%zu Q %zux%zu b %zu recalc %zux%zu resid %zux%zu for n=%zu p=%zu ny=%zu nlv=%zu",
            m->xscores->row, m->xscores->col, m->xloadings->row, m->xloadings->col, m->xweights->row, m->xweights->col, m->yscores->row, m->yscores->col,
            m->yloadings->row, m->yloadings->col, m->b->size, m->recalculated_y->row, m->recalculated_y->col, m->recalc_residuals->row, m->recalc_residuals->col, n, p, ny, nlv);
    goto out;
  }
  {
    int fin = matrix_all_finite(m->xscores) && matrix_all_finite(m->xloadings) && matrix_all_finite(m->xweights) && matrix_all_finite(m->yscores) &&
              matrix_all_finite(m->yloadings) && matrix_all_finite(m->recalculated_y) && matrix_all_finite(m->recalc_residuals);
    for (k = 0; k < nlv; k++) if (!isfinite(m->b->data[k])) fin = 0;
    if (!fin) { vh_fail(c, "PLS|non-finite", "non-finite model field with nlv <= rank"); goto out; }
  }
  check_stats(c, "x", m->xcolaverage, m->xcolscaling, g.xm, g.xsc, g.nxm, g.nxsc, g.xs);
  check_stats(c, "y", m->ycolaverage, m->ycolscaling, g.ym, g.ysc, g.nym, g.nysc, g.ys);

  /* data scale of the X block in preprocessed units: rounding of (x - mean)/scale is relative to |x|+|mean|, not to the spread */
  SX = 0;
  for (i = 0; i < n; i++) for (j = 0; j < p; j++) {
    ld sc = g.nxsc ? fabsl(g.xsc[j]) : 1, v = (fabsl(LM(g.X, i, j)) + (g.nxm ? fabsl(g.xm[j]) : 0)) / sc;
    SX += v * v;
  }
  SX = sqrtl(SX);
  SY = calloc(ny, sizeof(ld));
  for (i = 0; i < n; i++) for (j = 0; j < ny; j++) {
    ld sc = g.nysc ? fabsl(g.ysc[j]) : 1, v = (fabsl(LM(g.Y, i, j)) + (g.nym ? fabsl(g.ym[j]) : 0)) / sc;
    SYP += v * v;
  }
  SYP = sqrtl(SYP);

  E = ldm_copy(g.Xp);
  FIT = ldm_new(n, ny);     /* sum_{k<=a} b_k t_k q_jk in preprocessed units */
  REC = ldm_new(n, ny * nlv);
  tn = calloc(nlv, sizeof(ld)); wn = calloc(nlv, sizeof(ld));
  for (k = 0; k < nlv; k++) {
    ld tt = 0, ww = 0;
    for (i = 0; i < n; i++) tt += (ld)m->xscores->data[i][k] * m->xscores->data[i][k];
    for (j = 0; j < p; j++) ww += (ld)m->xweights->data[j][k] * m->xweights->data[j][k];
    tn[k] = sqrtl(tt); wn[k] = sqrtl(ww);
    if (wn[k] > maxw) maxw = wn[k];
  }
  for (k = 0; k < nlv; k++) {
    ld pn = 0, worst, uu = 0, eun = 0, ampT, ampW;
    if (tn[k] == 0 && wn[k] == 0) {
      /* a null latent variable is the library's answer to "nothing left to model". That is acceptable only when it is
         completely null (no contribution to any prediction) and the oracle agrees that no covariance is left between the deflated
         X and ANY deflated response: |E'F|_F <= 1e-6 |E|_F |F|_F (the library's own threshold is 1e-12 on one response) */
      ld ef = 0, en = ldm_frob(E), fn = 0; int clean = m->b->data[k] == 0;
      for (i = 0; i < n; i++) if (m->yscores->data[i][k] != 0) clean = 0;
      for (j = 0; j < p; j++) if (m->xloadings->data[j][k] != 0) clean = 0;
      for (j = 0; j < ny; j++) if (m->yloadings->data[j][k] != 0) clean = 0;
      if (!clean) { vh_fail(c, "PLS|zero-component", "LV %zu has t = 0 and w = 0 but a non-zero p, u, q or b", k + 1); goto out; }
      for (j = 0; j < ny; j++) for (i = 0; i < n; i++) { ld f = LM(g.Yp, i, j) - LM(FIT, i, j); fn += f * f; }
      fn = sqrtl(fn);
      for (j = 0; j < p; j++) { size_t r; for (r = 0; r < ny; r++) { ld sdot = 0; for (i = 0; i < n; i++) sdot += LM(E, i, j) * (LM(g.Yp, i, r) - LM(FIT, i, r)); ef += sdot * sdot; } }
      ef = sqrtl(ef);
      vh_obs("null_latent_variables", 1);
      /* a deflated block that is itself rounding residue (response already reproduced to 1e-9 of its data scale, X used up) has no direction */
      if (fn <= 1e-9L * SYP || en <= 1e-9L * SX) vh_obs("null_latent_variables_block_exhausted", 1);
      else vh_max("max_covariance_left_at_null_lv_rel", (double)(ef / (en * fn)));
      if (fn > 1e-9L * SYP && en > 1e-9L * SX && ef > 1e-6L * en * fn && !(k > 0 && tn[k - 1] == 0))      /* reported once: the following ones are null for the same reason */
        vh_fail(c, "PLS|null-component-with-covariance-left", "LV %zu of %zu (rank %zu) is null although |E'F| = %.3Lg with |E| = %.3Lg |F| = %.3Lg (ratio %.3Lg): some response can still be modelled",
                k + 1, nlv, p, ef, en, fn, ef / (en * fn));
      goto recalc;
    }
    if (!(tn[k] > 0) || !(wn[k] > 0)) { vh_fail(c, "PLS|zero-component", "LV %zu has |t|=%.3Lg |w|=%.3Lg with nlv <= rank", k + 1, tn[k], wn[k]); goto out; }
    /* (1) score definition t_k = E_{k-1} w_k : rounding eps * SX * |w_k| (deflation and product in double) */
    worst = 0;
    for (i = 0; i < n; i++) {
      ld sdot = 0, d;
      for (j = 0; j < p; j++) sdot += LM(E, i, j) * m->xweights->data[j][k];
      d = fabsl(sdot - m->xscores->data[i][k]);
      if (d > worst) worst = d;
    }
    vh_max("max_score_definition_over_eps_SX_w", (double)(worst / (EPS * SX * wn[k])));
    if (worst > 1e5 * EPS * SX * wn[k]) vh_fail(c, "PLS|score-definition", "LV %zu: max |t - E w| = %.3Lg (SX=%.3Lg |w|=%.3Lg |t|=%.3Lg)", k + 1, worst, SX, wn[k], tn[k]);
    /* (2) loading definition p_k = E_{k-1}'t_k/t_k't_k and |p_k| = 1 : rounding eps * SX / |t_k| */
    worst = 0;
    for (j = 0; j < p; j++) {
      ld sdot = 0, d;
      for (i = 0; i < n; i++) sdot += LM(E, i, j) * m->xscores->data[i][k];
      d = fabsl(sdot / (tn[k] * tn[k]) - m->xloadings->data[j][k]);
      if (d > worst) worst = d;
      pn += (ld)m->xloadings->data[j][k] * m->xloadings->data[j][k];
    }
    vh_max("max_loading_definition_over_eps_SX_over_t", (double)(worst / (EPS * SX / tn[k])));
    if (worst > 1e5 * EPS * SX / tn[k]) vh_fail(c, "PLS|loading-definition", "LV %zu: max |p - E't/t't| = %.3Lg (SX/|t| = %.3Lg)", k + 1, worst, SX / tn[k]);
    vh_max("max_loading_norm_dev", (double)fabsl(sqrtl(pn) - 1));
    if (fabsl(sqrtl(pn) - 1) > 1e-11L) vh_fail(c, "PLS|loading-norm", "LV %zu: |p| = %.17Lg", k + 1, sqrtl(pn));
    /* amplification of the weight direction: w_k ~ E_{k-1}'u_k, rounding eps*SX*|u| against |E'u| */
    for (i = 0; i < n; i++) uu += (ld)m->yscores->data[i][k] * m->yscores->data[i][k];
    for (j = 0; j < p; j++) { ld sdot = 0; for (i = 0; i < n; i++) sdot += LM(E, i, j) * m->yscores->data[i][k]; eun += sdot * sdot; }
    ampW = SX * sqrtl(uu) / (sqrtl(eun) + 1e-300L);
    ampT = SX * wn[k] / tn[k];
    /* a priori |t_k|/|w_k| = |E_{k-1} w_k|/|w_k| >= sigma_min(X_pre) (interlacing), so the amplification never exceeds SX/sigma_min */
    if (ampT > SX / g.smin) ampT = SX / g.smin;
    /* (3) orthogonality of scores and of weights (cosines) */
    for (i = 0; i < k; i++) {
      ld dt = 0, dw = 0; size_t r;
      if (tn[i] == 0) continue;     /* null latent variable (judged above) */
      for (r = 0; r < n; r++) dt += (ld)m->xscores->data[r][i] * m->xscores->data[r][k];
      for (r = 0; r < p; r++) dw += (ld)m->xweights->data[r][i] * m->xweights->data[r][k];
      dt = fabsl(dt) / (tn[i] * tn[k]); dw = fabsl(dw) / (wn[i] * wn[k]);
      vh_max("max_score_cosine_over_eps_amp", (double)(dt / (EPS * ampT)));
      if (dt > 1e5 * EPS * ampT) vh_fail(c, "PLS|score-orthogonality", "cos(t_%zu,t_%zu) = %.3Lg (SX|w|/|t| = %.3Lg)", i + 1, k + 1, dt, ampT);
      if (ampW <= 1e7L) {
        vh_obs("weight_pairs_judged", 1);
        vh_max("max_weight_cosine_over_eps_amp", (double)(dw / (EPS * ampW)));
        if (dw > 1e5 * EPS * ampW) vh_fail(c, "PLS|weight-orthogonality", "cos(w_%zu,w_%zu) = %.3Lg (SX|u|/|E'u| = %.3Lg)", i + 1, k + 1, dw, ampW);
      } else vh_obs("weight_pairs_unjudged_amplification_above_1e7", 1);
    }
    /* deflation in long double with the stored t_k, p_k */
    for (i = 0; i < n; i++) for (j = 0; j < p; j++) LM(E, i, j) -= (ld)m->xscores->data[i][k] * m->xloadings->data[j][k];
    /* (4) residual orthogonal to every extracted score: (X_pre - T P')' t_j = 0 */
    for (i = 0; i <= k; i++) {
      size_t r; worst = 0;
      for (j = 0; j < p; j++) { ld sdot = 0; for (r = 0; r < n; r++) sdot += LM(E, r, j) * m->xscores->data[r][i]; if (fabsl(sdot) > worst) worst = fabsl(sdot); }
      vh_max("max_residual_dot_score_over_eps_SX_t_w", (double)(worst / (EPS * SX * tn[i] * maxw)));
      if (worst > 1e5 * EPS * SX * tn[i] * maxw) vh_fail(c, "PLS|residual-orthogonal-to-scores", "after %zu LVs |E't_%zu|max = %.3Lg (SX|t|maxw = %.3Lg)", k + 1, i + 1, worst, SX * tn[i] * maxw);
    }
    /* (4b) inner relation of the stored vectors: b_k = u_k't_k / t_k't_k */
    {
      ld ut = 0, d, unit;
      for (i = 0; i < n; i++) ut += (ld)m->yscores->data[i][k] * m->xscores->data[i][k];
      d = fabsl(ut / (tn[k] * tn[k]) - m->b->data[k]);
      unit = EPS * (sqrtl(uu) / tn[k] + fabsl((ld)m->b->data[k]));
      vh_max("max_b_vs_utt_over_eps_scale", (double)(d / unit));
      if (d > 1e4 * unit) vh_fail(c, "PLS|inner-relation-b", "LV %zu: b = %.17g but u't/t't = %.17Lg", k + 1, m->b->data[k], ut / (tn[k] * tn[k]));
    }
    /* (5) y loadings: unit vector (one response: exactly 1) */
    {
      ld qn = 0;
      for (j = 0; j < ny; j++) qn += (ld)m->yloadings->data[j][k] * m->yloadings->data[j][k];
      if (ny == 1 ? m->yloadings->data[0][k] != 1.0 : fabsl(sqrtl(qn) - 1) > 1e-11L) vh_fail(c, "PLS|yloading-norm", "LV %zu: |q| = %.17Lg (ny=%zu)", k + 1, sqrtl(qn), ny);
    }
  recalc:
    /* (6) recalculated responses and residuals with k+1 latent variables, every response */
    for (i = 0; i < n; i++) for (j = 0; j < ny; j++) LM(FIT, i, j) += (ld)m->b->data[k] * m->xscores->data[i][k] * m->yloadings->data[j][k];
    for (j = 0; j < ny; j++) {
      ld sc = g.nysc ? g.ysc[j] : 1, mu = g.nym ? g.ym[j] : 0, big = 0, wr = 0, we = 0;
      size_t col = ny * k + j;
      for (i = 0; i < n; i++) {
        ld f = fabsl(LM(FIT, i, j)), yy = fabsl(LM(g.Y, i, j));
        if (f * fabsl(sc) + fabsl(mu) > big) big = f * fabsl(sc) + fabsl(mu);
        if (yy > big) big = yy;
      }
      if (big > SY[j]) SY[j] = big;
      for (i = 0; i < n; i++) {
        ld ref = LM(FIT, i, j) * sc + mu, d1, d2;
        LM(REC, i, col) = ref;
        d1 = fabsl(ref - m->recalculated_y->data[i][col]);
        d2 = fabsl((ref - LM(g.Y, i, j)) - m->recalc_residuals->data[i][col]);
        if (d1 > wr) wr = d1;
        if (d2 > we) we = d2;
      }
      vh_obs("lv_response_columns_checked", 1);
      vh_max("max_recalculated_y_over_eps_scale", (double)(wr / (EPS * big)));
      vh_max("max_recalc_residual_over_eps_scale", (double)(we / (EPS * big)));
      if (wr > 1e4 * EPS * big) vh_fail(c, "PLS|recalculated-y", "response %zu with %zu LVs (column %zu): max |stored - back-transform(sum b t q)| = %.3Lg (scale %.3Lg)", j, k + 1, col, wr, big);
      if (we > 1e4 * EPS * big) vh_fail(c, "PLS|recalc-residuals", "response %zu with %zu LVs (column %zu): max |stored residual - (recalculated - y)| = %.3Lg (scale %.3Lg)", j, k + 1, col, we, big);
    }
  }
  vh_obs("models_judged", 1);
  if (ny > 1) vh_obs("multi_response_models", 1);

  /* (7) re-projection of the training X: PLSScorePredictor(training, a) = first a columns of T, every a <= nlv */
  for (a = 1; a <= nlv; a++) {
    matrix *ts;
    ts = drv_out_matrix(c, n, a, (unsigned)a);
    PLSScorePredictor(g.mx, m, a, ts);
    if (!shape_is(ts, n, a)) { vh_fail(c, "PLSScorePredictor|shape", "%zux%zu for n=%zu nlv=%zu", ts->row, ts->col, n, a); DelMatrix(&ts); break; }
    for (j = 0; j < a; j++) {
      ld worst = 0;
      for (i = 0; i < n; i++) { ld d = fabsl((ld)ts->data[i][j] - m->xscores->data[i][j]); if (!(d <= worst)) worst = d; }
      vh_max("max_reprojection_over_eps_SX_w", (double)(worst / (EPS * SX * maxw)));
      if (!(worst <= 1e5 * EPS * SX * maxw)) { vh_fail(c, "PLSScorePredictor|training-reprojection", "LV %zu of %zu: max |predicted - training score| = %.3Lg (SX maxw = %.3Lg, |t| = %.3Lg)", j + 1, a, worst, SX * maxw, tn[j]); a = nlv; break; }
    }
    DelMatrix(&ts);
    vh_obs("reprojections", 1);
  }
  if (matrix_maxdiff(g.mx, mx0) != 0) vh_fail(c, "PLSScorePredictor|input-modified", "PLSScorePredictor changed its input matrix");

  /* (8) PLSYPredictor(T, a) = block a of the recalculated responses (reference values), every a <= nlv */
  for (a = 1; a <= nlv; a++) {
    matrix *yp; ld worst = 0;
    yp = drv_out_matrix(c, n, ny, 20u + (unsigned)a);
    PLSYPredictor(m->xscores, m, a, yp);
    if (!shape_is(yp, n, ny)) { vh_fail(c, "PLSYPredictor|shape", "%zux%zu for n=%zu ny=%zu", yp->row, yp->col, n, ny); DelMatrix(&yp); break; }
    for (j = 0; j < ny; j++) for (i = 0; i < n; i++) {
      ld d = fabsl((ld)yp->data[i][j] - LM(REC, i, ny * (a - 1) + j)) / SY[j];
      if (!(d <= worst)) worst = d;
    }
    vh_max("max_ypredictor_over_eps_scale", (double)(worst / EPS));
    if (!(worst <= 1e4 * EPS)) { vh_fail(c, "PLSYPredictor|training-scores", "with %zu LVs: max relative deviation from back-transform(sum b t q) = %.3Lg", a, worst); DelMatrix(&yp); break; }
    DelMatrix(&yp);
  }
  /* (9) PLSYPredictorAllLV(training) = recalculated_y, latent-variable major; optional score output = T */
  {
    matrix *yall, *ts = NULL; int want_ts = vh_coin(c, 0.5);
    yall = drv_out_matrix(c, n, ny * nlv, 41);
    if (want_ts) ts = drv_out_matrix(c, n, nlv, 42);
    PLSYPredictorAllLV(g.mx, m, ts, yall);
    if (!shape_is(yall, n, ny * nlv)) vh_fail(c, "PLSYPredictorAllLV|shape", "%zux%zu for n=%zu ny=%zu nlv=%zu", yall->row, yall->col, n, ny, nlv);
    else {
      for (k = 0; k < nlv; k++) for (j = 0; j < ny; j++) {
        ld worst = 0; size_t col = ny * k + j;
        for (i = 0; i < n; i++) { ld d = fabsl((ld)yall->data[i][col] - LM(REC, i, col)); if (!(d <= worst)) worst = d; }
        /* the scores are recomputed from X here: their rounding (eps SX maxw per unit |t|) enters through b q */
        vh_max("max_allLV_training_over_eps_scale", (double)(worst / (EPS * SY[j])));
        if (!(worst <= 1e6 * EPS * SY[j])) { vh_fail(c, "PLSYPredictorAllLV|training-recalculated", "response %zu with %zu LVs (column %zu): max |predicted - recalculated| = %.3Lg (scale %.3Lg)", j, k + 1, col, worst, SY[j]); k = nlv; break; }
      }
      {
        double d = matrix_maxdiff(yall, m->recalculated_y), sc = 0;
        for (j = 0; j < ny; j++) if ((double)SY[j] > sc) sc = (double)SY[j];
        vh_max("max_allLV_vs_stored_over_eps_scale", d / (EPS * sc));
      }
    }
    if (want_ts) {
      if (!shape_is(ts, n, nlv)) vh_fail(c, "PLSYPredictorAllLV|scores-shape", "%zux%zu", ts->row, ts->col);
      else {
        double d = matrix_maxdiff(ts, m->xscores);
        if (!(d <= 1e5 * EPS * (double)(SX * maxw))) vh_fail(c, "PLSYPredictorAllLV|scores", "max |returned score - training score| = %.3g", d);
      }
      DelMatrix(&ts);
    }
    DelMatrix(&yall);
    vh_obs("allLV_predictions", 1);
  }
  if (matrix_maxdiff(g.mx, mx0) != 0) vh_fail(c, "PLSYPredictorAllLV|input-modified", "PLSYPredictorAllLV changed its input matrix");
out:
  ldm_free(E); ldm_free(FIT); ldm_free(REC); free(tn); free(wn); free(SY);
  DelPLSModel(&m);
  DelMatrix(&mx0); DelMatrix(&my0);
}

static void run_case(vh_ctx *c)
{
  gcase g;
  size_t n, p, ny, nlv, nlv2;
  libsci_verif_nprocs = (c->idx & 1) ? 1 : 0;      /* the machine may report a single processor (H1): PLS must not care */

  gen_case(c, &g, 12, 4, 1e4);
  n = g.n; p = g.p; ny = g.ny;
  vh_class(c, "n%s-p%s-ny%zu-xs%d-ys%d", n < 10 ? "6-9" : n < 20 ? "10-19" : "20-40", p == 1 ? "1" : p < 5 ? "2-4" : "5-12", ny, g.xs, g.ys);
  vh_desc(c, "rows=%zu cols=%zu responses=%zu xscaling=%d yscaling=%d regime=%d noise=%g corr=%d lowdim=%d intercept_col=%d orthogonal_design=%d uninformative_first_response=%d kappa=%.3Lg",
          n, p, ny, g.xs, g.ys, g.regime, g.noise, g.corr, g.lowdim, g.icpt, g.ortho, g.yorth, g.kappa);
  if (g.skip) { vh_skip(c, "%s", g.skip); gcase_free(&g); return; }
  /* two models per data set: one with nlv = rank and one below the rank (when the rank allows); the class records the first */
  nlv = vh_coin(c, 0.4) ? p : (size_t)vh_int(c, 1, (long)p);
  nlv2 = nlv == p ? (p > 1 ? (size_t)vh_int(c, 1, (long)p - 1) : 0) : p;
  { char base[160]; snprintf(base, sizeof base, "%s", c->cls); vh_class(c, "%s-nlv%s", base, nlv == p ? "=rank" : "<rank"); }
  vh_desc(c, " nlv=%zu second_nlv=%zu x00=%.17g y00=%.17g", nlv, nlv2, g.mx->data[0][0], g.my->data[0][0]);
  judge_model(c, &g, nlv);
  if (nlv2) judge_model(c, &g, nlv2);
  gcase_free(&g);
}

const vh_driver VH_DRIVER = { "C03", ncases, run_case, NULL, 60 };
