/* c02.c - C02: PCA components are the principal axes of the data (spectral correctness + equivariance).
 *
 * Workload: X = offsets + mag * U diag(s) V^T, U (n x r) with orthonormal columns orthogonal to the ones-vector,
 * V (p x r) with orthonormal columns, ratios s[k+1]/s[k] in [max(0.3, 1e-3^(1/r)), 0.85], overall magnitude
 * mag = 10^U(-2,3) (the NIPALS stopping rule is relative: the accuracy it implies must not depend on the units),
 * all scaling options -1..5.
 *
 * Oracle: the driver preprocesses the input itself (oracle code, long double), forms the cross-product matrix and
 * takes its eigenpairs from the cyclic Jacobi solver.  Judged are the leading components whose singular values are
 * separated (ratio <= 0.9, s_k/s_1 >= 1e-3: for scaling 0/-1 this is the whole generated spectrum).
 *
 * Tolerance: the loop stops when |t_new - t_old|^2 / (n |t_new|^2) < tol = 1e-10 (documented).  One power step contracts the
 * error component along axis j by (s_j/s_k)^2 <= rho_k^2, so |t_new - t_old| >= (1-rho_k^2)/rho_k^2 * err(t_new):
 *   angle(t_k)  <= sqrt(n tol) rho_k^2 / (1 - rho_k^2),   angle(p_k) = angle(t_k) / rho_k  <= unit_k,
 *   unit_k := sqrt(n tol) / (1 - rho_k^2).
 * Deflation with a loading that is off by theta turns the next exact axis by the same theta (first order), so the
 * bound of component k is cum_k = sum_{j<=k} unit_j; the eigenvalue bound (Rayleigh quotient of the previous loading) is
 * derived where it is computed.  The checks use CANGLE x (cum_k + rounding floor) and CVAR x the eigenvalue bound; the
 * evidence reports the largest deviation seen as a multiple of the (head-room free) bound.
 */
#include "drv_util.h"

#define CANGLE 100.0         /* head-room factor over the first-order bound (observed maxima are reported as multiples of the bound) */
#define CVAR 100.0           /* head-room factor of the eigenvalue (Rayleigh quotient) bound */
#define DEPS 2.220446049250313e-16
/* the documented stopping threshold (property anchor: pca.h, 1e-10); deliberately NOT the library's macro, so that a
   loosened threshold in the tree under test is judged against the documented accuracy */
#define DOC_PCACONVERGENCE 1e-10

static long ncases(int tier) { return tier ? 120000 : 12000; }
static double g_leak[32];

/* n x r matrix with orthonormal columns (all orthogonal to the ones-vector when centre != 0) */
static void rand_orthonormal_cols(vh_ctx *c, ldm *Q, int centre)
{
  size_t n = Q->r, r = Q->c, i, j, k; int pass;
  for (j = 0; j < r; j++) {
    for (;;) {
      ld nr = 0;
      for (i = 0; i < n; i++) LM(Q, i, j) = vh_gauss(c);
      for (pass = 0; pass < 2; pass++) {
        if (centre) { ld m = 0; for (i = 0; i < n; i++) m += LM(Q, i, j); m /= (ld)n; for (i = 0; i < n; i++) LM(Q, i, j) -= m; }
        for (k = 0; k < j; k++) {
          ld s = 0;
          for (i = 0; i < n; i++) s += LM(Q, i, k) * LM(Q, i, j);
          for (i = 0; i < n; i++) LM(Q, i, j) -= s * LM(Q, i, k);
        }
      }
      for (i = 0; i < n; i++) nr += LM(Q, i, j) * LM(Q, i, j);
      nr = sqrtl(nr);
      if (nr < 1e-2L) continue;
      for (i = 0; i < n; i++) LM(Q, i, j) /= nr;
      break;
    }
  }
}

static PCAMODEL *fit(matrix *mx, int scaling, size_t npc, size_t nprocs)
{
  PCAMODEL *m;
  NewPCAModel(&m);
  libsci_verif_nprocs = nprocs;
  PCA(mx, scaling, npc, m, NULL);
  libsci_verif_nprocs = 1;
  return m;
}

static int model_ok(vh_ctx *c, PCAMODEL *m, size_t n, size_t p, size_t npc, const char *what)
{
  if (m->scores->row != n || m->scores->col != npc || m->loadings->row != p || m->loadings->col != npc || m->varexp->size != npc) {
    vh_fail(c, "PCA|shape", "%s: scores %zux%zu loadings %zux%zu varexp %zu for n=%zu p=%zu npc=%zu", what, m->scores->row, m->scores->col,
            m->loadings->row, m->loadings->col, m->varexp->size, n, p, npc);
    return 0;
  }
  if (!matrix_all_finite(m->scores) || !matrix_all_finite(m->loadings)) { vh_fail(c, "PCA|non-finite", "%s: non-finite score/loading with separated spectrum", what); return 0; }
  return 1;
}

/* tolerances of one case */
typedef struct { size_t n, p, npc; ld *sv; double *cum, *vtol, *floor_; } tolset;

/* compare a model expressed in the coordinates of the reference (tb: n x npc scores, pb: p x npc loadings, ve: varexp) with reference
   scores ta, loadings pa, varexp va; factor = 1 (against the oracle) or 2 (two fitted models); one sign per component */
/* Tref: reference-preprocessed data in reference coordinates; Q: rotation applied to the variables of the fit behind (tb, pb), or NULL.
   Returns the number of leading components judged.  When component k disagrees, the input class is determined first: was the fit
   started from a column (almost) orthogonal to the dominant axis of its residual (NIPALS then legitimately meets its stopping rule on
   another axis, see drv_util.h)?  That class gets its own key, and the components behind it are not judged (they inherit the swap). */
static size_t compare(vh_ctx *c, const char *clause, const tolset *t, const ldm *ta, const ldm *pa, const ld *va,
                    const ldm *tb, const ldm *pb, const double *vb, double factor, const ldm *Tref, const ldm *Q)
{
  size_t i, j, k; char key[160], mx1[64], mx2[64], mx3[64];
  snprintf(mx1, sizeof mx1, "max_%s_loading_over_bound", clause);
  snprintf(mx2, sizeof mx2, "max_%s_score_over_bound", clause);
  snprintf(mx3, sizeof mx3, "max_%s_varexp_over_bound", clause);
  for (k = 0; k < t->npc; k++) {
    ld dot = 0, dp = 0, dt = 0, na = 0, nb = 0; int sg;
    double bound = factor * (t->cum[k] + t->floor_[k]), vbound = factor * t->vtol[k], dv;
    for (j = 0; j < t->p; j++) dot += LM(pa, j, k) * LM(pb, j, k);
    sg = dot < 0 ? -1 : 1;
    for (j = 0; j < t->p; j++) { ld d = LM(pb, j, k) - sg * LM(pa, j, k); dp += d * d; na += LM(pa, j, k) * LM(pa, j, k); nb += LM(pb, j, k) * LM(pb, j, k); }
    dp = sqrtl(dp);
    for (i = 0; i < t->n; i++) { ld d = LM(tb, i, k) - sg * LM(ta, i, k); dt += d * d; }
    dt = sqrtl(dt) / t->sv[k];
    dv = fabs((double)(vb[k] - va[k])) / (double)va[k];
    if (!((double)dp <= CANGLE * bound) || !((double)dt <= CANGLE * bound) || !(dv <= CVAR * vbound)) {
      ldm *E = ldm_copy(Tref); size_t a, b, q; double rho2, cos0, thr;
      for (q = 0; q < k; q++) for (a = 0; a < t->n; a++) for (b = 0; b < t->p; b++) LM(E, a, b) -= LM(tb, a, q) * LM(pb, b, q);
      if (Q) { ldm *EQ = ldm_new(t->n, t->p); for (a = 0; a < t->n; a++) for (b = 0; b < t->p; b++) { ld x = 0; for (q = 0; q < t->p; q++) x += LM(E, a, q) * LM(Q, q, b); LM(EQ, a, b) = x; } ldm_free(E); E = EQ; }
      cos0 = nipals_start_cos(E, &rho2); thr = nipals_wrong_axis_threshold(t->n, DOC_PCACONVERGENCE, rho2);
      ldm_free(E);
      if (cos0 <= thr) {
        vh_fail(c, "PCA|converged-to-non-dominant-axis|start-column-orthogonal-to-dominant-axis", "%s, component %zu: |p - (+/-)p_ref| = %.3Lg (cos %.6Lg), varexp %.10g vs %.10Lg; the start column of this component has |cos| %.3g to the dominant axis of its residual (class threshold %.3g, eigenvalue ratio %.4f)", clause, k, dp, dot, vb[k], va[k], cos0, thr, rho2);
        vh_obs("components_not_judged_behind_a_wrong_axis_start", (double)(t->npc - k - 1));
        return k;
      }
    }
    vh_max(mx1, (double)dp / bound); vh_max(mx2, (double)dt / bound); vh_max(mx3, dv / vbound);
    if (!((double)dp <= CANGLE * bound)) {
      snprintf(key, sizeof key, "PCA|%s|loading", clause);
      vh_fail(c, key, "component %zu: |p - (+/-)p_ref| = %.3Lg, bound %.3g (x%g head-room) |p|=%.6Lg |p_ref|=%.6Lg cos=%.9Lg", k, dp, bound, CANGLE, sqrtl(nb), sqrtl(na), dot);
    }
    if (!((double)dt <= CANGLE * bound)) {
      snprintf(key, sizeof key, "PCA|%s|score", clause);
      vh_fail(c, key, "component %zu: |t - (+/-)t_ref| / s_k = %.3Lg, bound %.3g (x%g head-room), s_k = %.6Lg", k, dt, bound, CANGLE, t->sv[k]);
    }
    if (!(dv <= CVAR * vbound)) {
      snprintf(key, sizeof key, "PCA|%s|varexp", clause);
      vh_fail(c, key, "component %zu: varexp %.12g, reference %.12Lg (100 eigenvalue/trace), relative deviation %.3g, bound %.3g (x%g head-room)", k, vb[k], va[k], dv, vbound, CVAR);
    }
  }
  return t->npc;
}

static void run_case(vh_ctx *c)
{
  size_t n = (size_t)vh_int(c, 3, 60), p = (size_t)vh_int(c, 2, 25), i, j, k, r, rmax, kmax, npc, nmean, nscale;
  int shape = (int)vh_int(c, 0, 3), scaling = (int)vh_int(c, -1, 5), attempt, bad_domain, offsets, steep = 0;
  double mag0 = vh_logunif(c, -2.0, 3.0), mag, lo, xmax;
  ldm *U, *V, *Z, *X = NULL, *T = NULL, *A, *EV, *ta, *pa, *tb, *pb;
  ld *s, *loc, *mean, *scale, *ev, *sv, *va, trace, ssq;
  double *cum, *vtol, *flo, *vb;
  matrix *mx = NULL, *mxt;
  PCAMODEL *m, *m2;
  tolset ts;
  size_t *rperm, *cperm, tnp;
  long ticks_base;

  libsci_verif_nprocs = 1;
  if (shape == 0) { if (p > n) { size_t t = n; n = p; p = t < 2 ? 2 : t; } }                       /* tall */
  else if (shape == 1) { if (n > p && n <= 25) { size_t t = n; n = p < 3 ? 3 : p; p = t; } }       /* wide when possible */
  else if (shape == 2) { p = n <= 25 ? n : p; }                                                     /* square */
  rmax = n - 1 < p ? n - 1 : p;
  r = vh_coin(c, 0.35) ? rmax : (size_t)vh_int(c, 1, (long)rmax);
  s = calloc(r + 1, sizeof(ld)); loc = calloc(p, sizeof(ld));
  lo = pow(1e-3, 1.0 / (double)r); if (lo < 0.3) lo = 0.3;
  s[0] = 1;
  for (k = 1; k < r; k++) {
    double q = vh_coin(c, 0.15) ? 0.85 : vh_coin(c, 0.1) ? lo : vh_range(c, lo, 0.85);
    s[k] = s[k - 1] * q;
  }
  /* steep spectra (second build session, side PRNG stream): ratios 0.005..0.3, at most 6 components, s_r/s_1 down to 1e-9.  "Ratios <= 0.85"
     includes them, and a component that carries 1e-14 of the variance is still far above the library's own exhaustion threshold (1e-24 of
     the sum of squares).  The oracle for this class is the one-sided Jacobi SVD (the cross-product matrix would square the range away). */
  {
    vh_ctx cc = *c; cc.s[0] ^= 0xD1B54A32D192ED03ULL; cc.s[2] += 0x51EE9ULL; (void)vh_u64(&cc); (void)vh_u64(&cc);
    steep = vh_coin(&cc, 0.12);
    if (steep) {
      if (r > 6) r = (size_t)vh_int(&cc, 2, 6);
      for (k = 1; k < r; k++) { double q = pow(10.0, vh_range(&cc, -2.3, -0.5)); s[k] = s[k - 1] * q; if (s[k] < 1e-9L) s[k] = s[k - 1] * 0.3L; }
    }
  }
  /* offsets: scaling -1 analyses the raw cross-product, so it mostly gets none; level scaling divides by the mean, which must be a valid scale */
  offsets = scaling == -1 ? vh_coin(c, 0.35) : scaling == 5 ? 1 : !vh_coin(c, 0.25);
  for (j = 0; j < p; j++) {
    double sign = vh_coin(c, 0.5) ? 1.0 : -1.0;
    if (!offsets) loc[j] = 0;
    else if (scaling == -1) loc[j] = sign * mag0 * vh_range(c, 0.0, 0.5) / sqrt((double)n);
    else loc[j] = sign * vh_logunif(c, -1.0, 3.0);
  }
  U = ldm_new(n, r); V = ldm_new(p, r); Z = ldm_new(n, p);
  rand_orthonormal_cols(c, U, 1);
  rand_orthonormal_cols(c, V, 0);
  for (i = 0; i < n; i++) for (j = 0; j < p; j++) { ld z = 0; for (k = 0; k < r; k++) z += LM(U, i, k) * s[k] * LM(V, j, k); LM(Z, i, j) = z; }
  mean = calloc(p + 1, sizeof(ld)); scale = calloc(p + 1, sizeof(ld));
  /* domain of the preprocessing step (as for C01/C10): every stored scaling value is 0 or >= 0.05 in magnitude; the magnitude of
     the data part is raised (x4 per attempt) until the case is inside */
  mag = mag0;
  for (attempt = 0; attempt < 10; attempt++, mag *= 4.0) {
    if (mx) DelMatrix(&mx);
    if (X) ldm_free(X);
    if (T) ldm_free(T);
    X = ldm_new(n, p); T = ldm_new(n, p);
    for (i = 0; i < n; i++) for (j = 0; j < p; j++) LM(X, i, j) = loc[j] + (ld)mag * LM(Z, i, j);
    mx = matrix_of_ldm(X);
    for (i = 0; i < n; i++) for (j = 0; j < p; j++) LM(X, i, j) = mx->data[i][j];   /* the oracle sees the doubles the library sees */
    or_preprocess_fit(X, scaling, mean, scale, &nmean, &nscale, T);
    bad_domain = 0;
    if (scaling >= 1) for (j = 0; j < p; j++) if (fabsl(scale[j]) < 0.06L) bad_domain = 1;
    if (!bad_domain) break;
  }
  xmax = matrix_maxabs(mx);
  /* eigen-oracle on the cross-product matrix of the reference-preprocessed data */
  A = ldm_ata(T); EV = ldm_new(p, p);
  ev = calloc(p + 1, sizeof(ld)); sv = calloc(p + 1, sizeof(ld));
  or_jacobi_eig(A, ev, EV);
  if (steep) {
    size_t mn = n < p ? n : p; ldm *Vs = ldm_new(p, mn); ld *svs = calloc(mn + 1, sizeof(ld));
    or_svd(T, svs, NULL, Vs);
    for (k = 0; k < p; k++) { ev[k] = k < mn ? svs[k] * svs[k] : 0; if (k < mn) for (j = 0; j < p; j++) LM(EV, j, k) = LM(Vs, j, k); }
    ldm_free(Vs); free(svs);
  }
  trace = 0; for (k = 0; k < p; k++) { trace += ev[k]; sv[k] = ev[k] > 0 ? sqrtl(ev[k]) : 0; }
  ssq = ldm_frob(T); ssq *= ssq;
  kmax = 0;
  for (k = 0; k < p && k + 1 < n + (scaling == -1); k++) {
    if (!(sv[k] >= (steep ? 1e-9L : 1e-3L) * sv[0]) || sv[k] == 0) break;
    if (k + 1 < p && sv[k + 1] > 0.9L * sv[k]) break;
    kmax = k + 1;
  }
  {
    int md = (int)floor(log10(mag));
    vh_class(c, "n%d-p%d-sc%d-%s-mag1e%d-r%s%s", n < 6 ? 5 : n < 16 ? 15 : n < 36 ? 35 : 60, p < 4 ? 3 : p < 10 ? 9 : 25, scaling,
             n > p ? "tall" : n == p ? "square" : "wide", md, r == 1 ? "1" : r == rmax ? "max" : "mid", steep ? "-steep" : "");
    if (steep) vh_obs("steep_spectrum_cases", 1);
  }
  vh_desc(c, "rows=%zu cols=%zu scaling=%d rank=%zu mag=%.6g (drawn %.6g) offsets=%d s_r/s_1=%.4Lg oracle_kmax=%zu x00=%.17g", n, p, scaling, r, mag, mag0, offsets, s[r - 1], kmax, mx->data[0][0]);
  if (bad_domain) { vh_skip(c, "scaling value in (0,0.06)"); goto out0; }
  if (kmax == 0) { vh_skip(c, "leading singular values not separated after scaling (ratio > 0.9)"); goto out0; }
  if (scaling <= 0 && !offsets) {
    /* generator self-check: with centring-invariant construction the analytic spectrum is the oracle's */
    double w = 0;
    for (k = 0; k < r; k++) { double d = fabs((double)(sv[k] / ((ld)mag * s[k]) - 1)); if (d > w) w = d; }
    vh_max("max_oracle_vs_analytic_singular_value_rel", w);
    if (w > 1e-6) { vh_inconclusive(c, "oracle spectrum differs from the generated one by %.3g", w); goto out0; }
    if (kmax != r) { vh_inconclusive(c, "kmax %zu != rank %zu for an unscaled case", kmax, r); goto out0; }
  }
  npc = vh_coin(c, 0.5) ? kmax : (size_t)vh_int(c, 1, (long)kmax);
  vh_desc(c, " npc=%zu", npc);
  vh_hist("scaling", scaling); vh_hist("magnitude_log10", (long)floor(log10(mag))); vh_hist("npc", (long)npc);
  if (mag < 0.1 && scaling <= 0) vh_obs("unscaled_small_magnitude_cases", 1);

  /* tolerances */
  cum = calloc(npc, sizeof(double)); vtol = calloc(npc, sizeof(double)); flo = calloc(npc, sizeof(double)); vb = calloc(npc, sizeof(double));
  va = calloc(npc, sizeof(ld));
  {
    double acc = 0, prev_unit = 0;
    for (k = 0; k < npc; k++) {
      double rho = k + 1 < p ? (double)(sv[k + 1] / sv[k]) : 0.0, unit = sqrt((double)n * DOC_PCACONVERGENCE) / (1.0 - rho * rho);
      acc += unit; cum[k] = acc;
      /* eigenvalue = t_old't_old = Rayleigh quotient of the previous loading p_old.  Along every lower axis j (r_j = (s_j/s_k)^2)
         its relative error is (1-r_j) e_j^2 / r_j, e_j = component of t_old: the stopping rule gives (1-r_j)^2 e_j^2 <= n tol, and
         e_j = r_j x (component one step earlier, tan <= 4 for any start) caps it at 16 r_j: far axes with r_j ~ sqrt(n tol) make this
         first order in sqrt(tol).  Plus the leakage of the previous deflation (s_{k-1} angle(p_{k-1}))^2 / s_k^2 <= unit_{k-1}^2 */
      {
        double a = 0; size_t jj;
        for (jj = k + 1; jj < p; jj++) {
          double rj = (double)(ev[jj] / ev[k]), t1, t2;
          if (!(rj > 0)) continue;
          t1 = (double)n * DOC_PCACONVERGENCE / (rj * (1.0 - rj)); t2 = 16.0 * rj;
          a += t1 < t2 ? t1 : t2;
        }
        vtol[k] = a + (k ? prev_unit * prev_unit : 0.0) + 64 * DEPS;
      }
      if (steep) {
        /* deflation leakage: component j < k is removed with a loading that is off by theta_j <= sqrt(n tol) rho_j^2 / (1 - rho_j^2) (the stopping
           rule bounds the last but one error, one more power step contracts it by rho_j^2), which leaves s_j theta_j u_j q' in the residual;
           u_j is orthogonal to the later left vectors, so the Gram matrix is perturbed by (s_j theta_j)^2 q q': relative eigenvalue change
           (s_j theta_j / s_k)^2, loading rotation that over (1 - rho_k^2).  Negligible for the moderate spectra, dominant for steep ones. */
        double leak = 0; size_t jj;
        for (jj = 0; jj < k; jj++) { double rj = (double)(sv[jj + 1] / sv[jj]), th = sqrt((double)n * DOC_PCACONVERGENCE) * rj * rj / (1.0 - rj * rj), x = (double)(sv[jj] / sv[k]) * th; leak += x * x; }
        leak *= 4.0;   /* quadratic in the angle: two independent fits (or fit and oracle leakage-free) differ by up to (theta + theta')^2; calibrated: 0.9 of this bound at most in 240 000 thorough cases */
        vtol[k] += leak; acc += leak / (1.0 - rho * rho); cum[k] = acc;
        g_leak[k] = leak;
      }
      flo[k] = 2.0 * DEPS * (xmax > (double)sv[0] ? xmax : (double)sv[0]) * sqrt((double)(n * p)) / ((double)sv[k] * (1.0 - rho));
      prev_unit = unit;
      va[k] = 100 * ev[k] / trace;
    }
  }
  if (steep) {   /* components whose leakage bound exceeds 4e-3 are not judged (the criterion implies next to nothing for them) */
    size_t kk; for (kk = 0; kk < npc; kk++) if (g_leak[kk] > 4e-3) { vh_obs("steep_components_not_judged_for_leakage", (double)(npc - kk)); npc = kk; break; }
    if (npc == 0) { vh_skip(c, "steep spectrum: no component with a meaningful bound"); free(cum); free(vtol); free(flo); free(vb); free(va); goto out0; }
    vh_hist("steep_log10_smallest_judged_s_over_s1", (long)floor(log10((double)(sv[npc - 1] / sv[0]))));
  }
  ts.n = n; ts.p = p; ts.npc = npc; ts.sv = sv; ts.cum = cum; ts.vtol = vtol; ts.floor_ = flo;

  drv_ticks_begin();
  m = fit(mx, scaling, npc, 1);
  drv_ticks_end("iters_per_component_log2", npc);
  ticks_base = g_ticks_total;
  libsci_verif_tick_hook = NULL;
  if (!model_ok(c, m, n, p, npc, "base")) { DelPCAModel(&m); goto out1; }

  /* reference scores/loadings from the oracle */
  ta = ldm_new(n, npc); pa = ldm_new(p, npc); tb = ldm_new(n, npc); pb = ldm_new(p, npc);
  for (k = 0; k < npc; k++) {
    for (j = 0; j < p; j++) LM(pa, j, k) = LM(EV, j, k);
    for (i = 0; i < n; i++) { ld t = 0; for (j = 0; j < p; j++) t += LM(T, i, j) * LM(EV, j, k); LM(ta, i, k) = t; }
  }
  for (k = 0; k < npc; k++) {
    for (j = 0; j < p; j++) LM(pb, j, k) = m->loadings->data[j][k];
    for (i = 0; i < n; i++) LM(tb, i, k) = m->scores->data[i][k];
    vb[k] = m->varexp->data[k];
  }
  ts.npc = compare(c, "eigen-oracle", &ts, ta, pa, va, tb, pb, vb, 1.0, T, NULL);   /* later comparisons use the base model as reference: only its judged part */
  vh_obs("components_vs_oracle", (double)npc);

  /* from here the reference is the base model itself (both sides carry the stopping-rule error: factor 2) */
  for (k = 0; k < npc; k++) {
    for (j = 0; j < p; j++) LM(pa, j, k) = m->loadings->data[j][k];
    for (i = 0; i < n; i++) LM(ta, i, k) = m->scores->data[i][k];
    va[k] = m->varexp->data[k];
  }
  rperm = malloc(sizeof(size_t) * n); cperm = malloc(sizeof(size_t) * p);
  /* alternative processor count for the transformed fits (thread starts are expensive under the sanitizers: budget ~300 per case) */
  tnp = 1;
  if (vh_coin(c, 0.2)) { tnp = (size_t)vh_int(c, 2, 3); if (2.0 * (double)tnp * (double)ticks_base * 3.0 > 300.0) tnp = 1; }
  if (tnp > 1) vh_obs("cases_with_multithreaded_transform_fits", 1);

  /* T1: row permutation */
  vh_perm(c, rperm, n);
  NewMatrix(&mxt, n, p);
  for (i = 0; i < n; i++) for (j = 0; j < p; j++) mxt->data[i][j] = mx->data[rperm[i]][j];
  m2 = fit(mxt, scaling, npc, tnp);
  if (model_ok(c, m2, n, p, npc, "row-permuted")) {
    for (k = 0; k < npc; k++) {
      for (j = 0; j < p; j++) LM(pb, j, k) = m2->loadings->data[j][k];
      for (i = 0; i < n; i++) LM(tb, rperm[i], k) = m2->scores->data[i][k];
      vb[k] = m2->varexp->data[k];
    }
    compare(c, "row-permutation", &ts, ta, pa, va, tb, pb, vb, 2.0, T, NULL);
    vh_obs("transform_row_permutation", 1);
  }
  DelPCAModel(&m2); DelMatrix(&mxt);

  /* T2: column permutation */
  vh_perm(c, cperm, p);
  NewMatrix(&mxt, n, p);
  for (i = 0; i < n; i++) for (j = 0; j < p; j++) mxt->data[i][j] = mx->data[i][cperm[j]];
  m2 = fit(mxt, scaling, npc, tnp);
  if (model_ok(c, m2, n, p, npc, "column-permuted")) {
    for (k = 0; k < npc; k++) {
      for (j = 0; j < p; j++) LM(pb, cperm[j], k) = m2->loadings->data[j][k];
      for (i = 0; i < n; i++) LM(tb, i, k) = m2->scores->data[i][k];
      vb[k] = m2->varexp->data[k];
    }
    compare(c, "column-permutation", &ts, ta, pa, va, tb, pb, vb, 2.0, T, NULL);
    vh_obs("transform_column_permutation", 1);
  }
  DelPCAModel(&m2); DelMatrix(&mxt);

  /* T3: orthogonal rotation of the variables (unscaled data only: centring commutes with it, column scaling does not);
         scaled data get a simultaneous row and column permutation instead */
  if (scaling <= 0) {
    ldm *Q = ldm_new(p, p);
    or_random_orthogonal(Q, gauss_cb, c);
    NewMatrix(&mxt, n, p);
    for (i = 0; i < n; i++) for (j = 0; j < p; j++) { ld x = 0; for (k = 0; k < p; k++) x += LM(X, i, k) * LM(Q, k, j); mxt->data[i][j] = (double)x; }
    m2 = fit(mxt, scaling, npc, tnp);
    if (model_ok(c, m2, n, p, npc, "rotated")) {
      for (k = 0; k < npc; k++) {
        /* loadings of X Q are Q^T P  =>  P = Q (loadings of the rotated fit) */
        for (j = 0; j < p; j++) { ld x = 0; size_t l; for (l = 0; l < p; l++) x += LM(Q, j, l) * m2->loadings->data[l][k]; LM(pb, j, k) = x; }
        for (i = 0; i < n; i++) LM(tb, i, k) = m2->scores->data[i][k];
        vb[k] = m2->varexp->data[k];
      }
      compare(c, "rotation", &ts, ta, pa, va, tb, pb, vb, 2.0, T, Q);
      vh_obs("transform_rotation", 1);
    }
    DelPCAModel(&m2); DelMatrix(&mxt); ldm_free(Q);
  } else {
    vh_perm(c, rperm, n); vh_perm(c, cperm, p);
    NewMatrix(&mxt, n, p);
    for (i = 0; i < n; i++) for (j = 0; j < p; j++) mxt->data[i][j] = mx->data[rperm[i]][cperm[j]];
    m2 = fit(mxt, scaling, npc, tnp);
    if (model_ok(c, m2, n, p, npc, "row+column-permuted")) {
      for (k = 0; k < npc; k++) {
        for (j = 0; j < p; j++) LM(pb, cperm[j], k) = m2->loadings->data[j][k];
        for (i = 0; i < n; i++) LM(tb, rperm[i], k) = m2->scores->data[i][k];
        vb[k] = m2->varexp->data[k];
      }
      compare(c, "row+column-permutation", &ts, ta, pa, va, tb, pb, vb, 2.0, T, NULL);
      vh_obs("transform_row_and_column_permutation", 1);
    }
    DelPCAModel(&m2); DelMatrix(&mxt);
  }
  free(rperm); free(cperm);
  ldm_free(ta); ldm_free(pa); ldm_free(tb); ldm_free(pb);
  DelPCAModel(&m);
out1:
  free(cum); free(vtol); free(flo); free(vb); free(va);
out0:
  DelMatrix(&mx);
  ldm_free(U); ldm_free(V); ldm_free(Z); ldm_free(X); ldm_free(T); ldm_free(A); ldm_free(EV);
  free(s); free(loc); free(mean); free(scale); free(ev); free(sv);
}

const vh_driver VH_DRIVER = { "C02", ncases, run_case, NULL, 120 };
