/* c15.c - C15: regression and classification figures of merit equal their definitions.
 * Monitor: long-double formula oracles for R2/MSE/RMSE/MAE/BIAS (missing-coded truths ignored),
 * rank oracle for ROC / precision-recall (independent sort, Mann-Whitney pair count), metamorphic
 * relations (strictly increasing score maps, object permutation, negation), and the PLS / MLR
 * statistic tables judged per (latent variable, response) with the LV-major column layout. */
#include "drv_util.h"

#define DEPS 2.220446049250313e-16

static long ncases(int tier) { if (vh_is_tsan()) return tier ? 2000 : 160; return tier ? 2000000 : 50000; }

static dvector *dv_of(const double *a, size_t n)
{
  dvector *v; size_t i;
  NewDVector(&v, n);
  for (i = 0; i < n; i++) v->data[i] = a[i];
  return v;
}
static int dv_same(dvector *v, const double *a, size_t n)
{
  return v->size == n && (n == 0 || memcmp(v->data, a, n * sizeof(double)) == 0);
}
static void ratio_max(const char *name, double dev, double tol)
{
  if (tol > 0) vh_max(name, dev / tol);
}

/* ------------------------------------------------------------------ regression oracle */
typedef struct {
  size_t m;                       /* non-missing truths */
  ld r2, mse, rmse, mae, bias, slope, ratio;
  double tol_r2, tol_mse, tol_rmse, tol_mae, tol_bias;
} regref;

static void reg_oracle(const double *yt, const double *yp, size_t n, regref *o)
{
  size_t i, m = 0;
  ld s = 0, sp = 0, sabs = 0, spabs = 0, mean, meanp, ssres = 0, sstot = 0, sxy = 0, mae = 0, absA = 0, absB = 0, dA, dB;
  for (i = 0; i < n; i++) {
    if (or_is_missing(yt[i])) continue;
    s += yt[i]; sp += yp[i]; sabs += fabsl((ld)yt[i]); spabs += fabsl((ld)yp[i]); m++;
  }
  mean = s / (ld)m; meanp = sp / (ld)m;
  for (i = 0; i < n; i++) {
    ld d, e;
    if (or_is_missing(yt[i])) continue;
    d = (ld)yp[i] - (ld)yt[i]; e = (ld)yt[i] - mean;
    ssres += d * d; mae += fabsl(d); sstot += e * e; sxy += ((ld)yp[i] - meanp) * e;
    absA += fabsl((ld)yp[i]) * fabsl(e); absB += fabsl((ld)yt[i]) * fabsl(e);
  }
  o->m = m;
  o->mse = ssres / (ld)m; o->rmse = sqrtl(o->mse); o->mae = mae / (ld)m;
  o->ratio = ssres / sstot; o->r2 = 1 - o->ratio;
  o->slope = sxy / sstot; o->bias = fabsl(1 - o->slope);
  /* tolerances: C * (m+8) * eps * first-order condition of the documented formula */
  o->tol_mse = 64.0 * (double)(m + 8) * DEPS * (double)o->mse;
  o->tol_rmse = 64.0 * (double)(m + 8) * DEPS * (double)o->rmse;
  o->tol_mae = 64.0 * (double)(m + 8) * DEPS * (double)o->mae;
  /* the residuals y - ybar are formed in double from a mean that is itself rounded: each carries eps |y_i|, so the total sum of squares has the
     relative error ~ 2 eps sum|y||y - ybar| / sstot (large when the vector sits far from the origin) and R2 inherits it times the ratio */
  o->tol_r2 = 64.0 * (double)(m + 8) * DEPS * (1.0 + (double)o->ratio * (1.0 + (double)(absB / (sstot > 0 ? sstot : 1))));
  /* BIAS = |1 - A/B|, A = sum yp (yt - ybar), B = sum yt (yt - ybar) with ybar rounded in double:
     dA <= eps (m sum|yp||yt-ybar| + sum|yt| sum|yp|), dB likewise with yt */
  dA = (ld)DEPS * ((ld)m * absA + sabs * spabs);
  dB = (ld)DEPS * ((ld)m * absB + sabs * sabs);
  o->tol_bias = 256.0 * (double)(dA / sstot + fabsl(sxy) * dB / (sstot * sstot)) + 64.0 * DEPS * (1.0 + (double)fabsl(o->slope));
}

/* judge one (truth, prediction) pair given the five library values */
static void judge_reg(vh_ctx *c, const char *who, const regref *o, double r2, double mse, double rmse, double mae, double bias,
                      int have_mse, int have_mae)
{
  char key[96];
  double d;
  d = fabs(r2 - (double)o->r2); ratio_max("ratio_r2_dev_over_tol", d, o->tol_r2); vh_max("max_r2_abs_dev", d);
  if (!(d <= o->tol_r2)) { snprintf(key, sizeof key, "%s|R2-definition", who); vh_fail(c, key, "R2=%.17g expected %.17Lg (tol %.3g, m=%zu)", r2, o->r2, o->tol_r2, o->m); }
  if (!(r2 <= 1.0)) { snprintf(key, sizeof key, "%s|R2-above-1", who); vh_fail(c, key, "R2=%.17g", r2); }
  d = fabs(rmse - (double)o->rmse); ratio_max("ratio_rmse_dev_over_tol", d, o->tol_rmse); vh_max("max_rmse_rel_dev", d / ((double)o->rmse + 1e-300));
  if (!(d <= o->tol_rmse)) { snprintf(key, sizeof key, "%s|RMSE-definition", who); vh_fail(c, key, "RMSE=%.17g expected %.17Lg (m=%zu)", rmse, o->rmse, o->m); }
  d = fabs(bias - (double)o->bias); ratio_max("ratio_bias_dev_over_tol", d, o->tol_bias); vh_max("max_bias_abs_dev", d);
  if (!(d <= o->tol_bias)) { snprintf(key, sizeof key, "%s|BIAS-definition", who); vh_fail(c, key, "BIAS=%.17g expected %.17Lg (slope %.17Lg, tol %.3g, m=%zu)", bias, o->bias, o->slope, o->tol_bias, o->m); }
  if (have_mse) {
    d = fabs(mse - (double)o->mse); ratio_max("ratio_mse_dev_over_tol", d, o->tol_mse); vh_max("max_mse_rel_dev", d / ((double)o->mse + 1e-300));
    if (!(d <= o->tol_mse)) { snprintf(key, sizeof key, "%s|MSE-definition", who); vh_fail(c, key, "MSE=%.17g expected %.17Lg (m=%zu)", mse, o->mse, o->m); }
    d = fabs(rmse * rmse - mse); vh_max("max_rmse2_vs_mse_rel", d / (mse + 1e-300));
    if (!(d <= 8 * DEPS * mse)) { snprintf(key, sizeof key, "%s|RMSE2-equals-MSE", who); vh_fail(c, key, "RMSE^2=%.17g MSE=%.17g", rmse * rmse, mse); }
  }
  if (have_mae) {
    d = fabs(mae - (double)o->mae); ratio_max("ratio_mae_dev_over_tol", d, o->tol_mae); vh_max("max_mae_rel_dev", d / ((double)o->mae + 1e-300));
    if (!(d <= o->tol_mae)) { snprintf(key, sizeof key, "%s|MAE-definition", who); vh_fail(c, key, "MAE=%.17g expected %.17Lg (m=%zu)", mae, o->mae, o->m); }
    if (!(mae <= rmse * (1 + 8 * DEPS))) { snprintf(key, sizeof key, "%s|MAE-above-RMSE", who); vh_fail(c, key, "MAE=%.17g RMSE=%.17g", mae, rmse); }
  }
}

/* generate a truth column (n values, up to 20 % missing-coded, >= 2 non-missing) and a prediction column of a given flavour */
static const char *FLAV[] = { "perfect", "noisy", "affine", "unrelated", "constant", "anti" };
static size_t gen_reg(vh_ctx *c, size_t n, double scale, double loc, int flavour, double noise, double *yt, double *yp)
{
  size_t i, nmiss = 0, maxmiss = n / 5;
  double slope = vh_range(c, 0.2, 2.5), off = vh_gauss(c) * scale;
  if (maxmiss > n - 2) maxmiss = n - 2;
  for (i = 0; i < n; i++) yt[i] = loc + scale * vh_gauss(c);
  for (i = 0; i < n; i++) {
    double g = vh_gauss(c);
    switch (flavour) {
    case 0: yp[i] = yt[i]; break;
    case 1: yp[i] = yt[i] + noise * scale * g; break;
    case 2: yp[i] = slope * yt[i] + off + noise * scale * g; break;
    case 3: yp[i] = loc + scale * g * 1.5; break;
    case 4: yp[i] = loc + 0.3 * scale; break;
    default: yp[i] = 2 * loc - yt[i] + noise * scale * g; break;
    }
  }
  if (maxmiss > 0 && vh_coin(c, 0.7)) {
    size_t *perm = malloc(n * sizeof *perm);
    static const double wild[] = { 99999999.0, 1e300, -1e300, 0.0, -99999999.0, 1e155 };
    nmiss = (size_t)vh_int(c, 1, (long)maxmiss);
    vh_perm(c, perm, n);
    for (i = 0; i < nmiss; i++) {
      yt[perm[i]] = 99999999.0 + (vh_coin(c, 0.25) ? vh_range(c, -0.09, 0.09) : 0.0);
      yp[perm[i]] = vh_coin(c, 0.3) ? yp[perm[i]] : wild[vh_int(c, 0, 5)];   /* whatever is predicted there must not matter */
    }
    free(perm);
  }
  return nmiss;
}

static void case_regression(vh_ctx *c)
{
  size_t n = vh_coin(c, 0.3) ? (size_t)vh_int(c, 2, 6) : (size_t)vh_int(c, 2, 200), nmiss;
  /* "regression vectors of any scale": a quarter of the cases goes beyond 1e-6..1e6, down to 1e-12 and up to 1e12 */
  double e10 = vh_coin(c, 0.25) ? vh_range(c, -12, 12) : vh_range(c, -6, 6), scale = pow(10.0, e10);
  double loc = vh_coin(c, 0.4) ? 0.0 : vh_range(c, -10, 10) * scale;
  int flavour = (int)vh_int(c, 0, 5);
  double noise = vh_logunif(c, -3, 0.5);
  double *yt = malloc(n * sizeof *yt), *yp = malloc(n * sizeof *yp);
  dvector *vt, *vp;
  regref o;
  double r2, mse, rmse, mae, bias;

  /* a location far above the spread (third seeded wave, side PRNG stream): a one-pass sum of squares cancels there, the definition does not */
  { vh_ctx cc = *c; cc.s[1] ^= 0x94D049BB133111EBULL; (void)vh_u64(&cc); (void)vh_u64(&cc); if (vh_coin(&cc, 0.1)) { loc = (vh_coin(&cc, 0.5) ? 1 : -1) * scale * pow(10.0, vh_range(&cc, 3.0, 7.0)); vh_obs("regression_pairs_with_a_far_location", 1); } }
  nmiss = gen_reg(c, n, scale, loc, flavour, noise, yt, yp);
  vh_class(c, "reg-n%s-e%d-%s-miss%s-loc%s", n < 4 ? "2-3" : n < 10 ? "4-9" : n < 50 ? "10-49" : "50-200", (int)floor(e10 / 3.0) * 3, FLAV[flavour],
           nmiss == 0 ? "0" : 10 * nmiss <= n ? "<=10%" : "<=20%", loc == 0 ? "0" : fabs(loc) < 3 * scale ? "<3sd" : ">=3sd");
  vh_desc(c, "regression n=%zu scale=%.3g loc=%.3g flavour=%s noise=%.3g missing=%zu yt0=%.17g yp0=%.17g", n, scale, loc, FLAV[flavour], noise, nmiss, yt[0], yp[0]);
  vt = dv_of(yt, n); vp = dv_of(yp, n);
  r2 = R2(vt, vp); mse = MSE(vt, vp); rmse = RMSE(vt, vp); mae = MAE(vt, vp); bias = BIAS(vt, vp);
  if (!dv_same(vt, yt, n) || !dv_same(vp, yp, n)) vh_fail(c, "R2/MSE/RMSE/MAE/BIAS|input-modified", "a figure of merit changed its argument vectors");
  reg_oracle(yt, yp, n, &o);
  vh_obs("regression_pairs", 1); vh_obs("missing_coded_truths", (double)nmiss);
  vh_hist("regression_nonmissing_log2", (long)floor(log2((double)o.m)));
  if (flavour == 0) {
    /* perfect prediction: the statement is exact */
    vh_obs("perfect_prediction_pairs", 1);
    if (r2 != 1.0) vh_fail(c, "R2|perfect-prediction", "R2(y,y)=%.17g", r2);
    if (mse != 0.0 || rmse != 0.0 || mae != 0.0) vh_fail(c, "MSE/RMSE/MAE|perfect-prediction", "MSE=%.3g RMSE=%.3g MAE=%.3g for y=y", mse, rmse, mae);
    if (!(fabs(bias) <= o.tol_bias)) vh_fail(c, "BIAS|perfect-prediction", "BIAS(y,y)=%.17g", bias);
    vh_max("max_bias_perfect_prediction", fabs(bias));
  }
  else judge_reg(c, "scalar", &o, r2, mse, rmse, mae, bias, 1, 1);
  DelDVector(&vt); DelDVector(&vp);
  free(yt); free(yp);
}

/* ------------------------------------------------------------------ ranking oracle */
static const double *g_key;
static int cmp_idx_desc(const void *a, const void *b)
{
  double x = g_key[*(const size_t *)a], y = g_key[*(const size_t *)b];
  return x > y ? -1 : x < y ? 1 : 0;
}
/* returns 1 when all scores are pairwise distinct; order[] = indices by decreasing score */
static int rank_desc(const double *s, size_t n, size_t *order)
{
  size_t i;
  for (i = 0; i < n; i++) order[i] = i;
  g_key = s;
  qsort(order, n, sizeof *order, cmp_idx_desc);
  for (i = 1; i < n; i++) if (!(s[order[i - 1]] > s[order[i]])) return 0;
  for (i = 0; i < n; i++) if (!isfinite(s[i])) return 0;
  return 1;
}

typedef struct {
  size_t n, np, nn;
  ld *rx, *ry, *px, *py;     /* reference ROC (fpr,tpr) and PR (recall,precision) curves, n+1 points */
  ld auc, ap, mw;            /* trapezoid areas of the reference curves, Mann-Whitney pair count */
} rankref;

static void rank_oracle(const double *y, const double *s, size_t n, rankref *r)
{
  size_t *order = malloc(n * sizeof *order), i, j, tp = 0, fp = 0;
  r->n = n; r->np = r->nn = 0;
  for (i = 0; i < n; i++) if (y[i] == 1.0) r->np++; else r->nn++;
  r->rx = malloc((n + 1) * sizeof(ld)); r->ry = malloc((n + 1) * sizeof(ld));
  r->px = malloc((n + 1) * sizeof(ld)); r->py = malloc((n + 1) * sizeof(ld));
  rank_desc(s, n, order);
  r->rx[0] = 0; r->ry[0] = 0; r->px[0] = 0; r->py[0] = 1;
  for (i = 0; i < n; i++) {
    if (y[order[i]] == 1.0) tp++; else fp++;
    r->rx[i + 1] = (ld)fp / (ld)r->nn; r->ry[i + 1] = (ld)tp / (ld)r->np;
    r->px[i + 1] = (ld)tp / (ld)r->np; r->py[i + 1] = (ld)tp / (ld)(tp + fp);
  }
  r->auc = r->ap = 0;
  for (i = 0; i < n; i++) {
    r->auc += (r->rx[i + 1] - r->rx[i]) * (r->ry[i] + r->ry[i + 1]) / 2;
    r->ap += (r->px[i + 1] - r->px[i]) * (r->py[i] + r->py[i + 1]) / 2;
  }
  r->mw = 0;                                   /* pairs (positive, negative) with the positive scored higher */
  for (i = 0; i < n; i++) if (y[i] == 1.0) for (j = 0; j < n; j++) if (y[j] != 1.0 && s[i] > s[j]) r->mw += 1;
  free(order);
}
static void rank_free(rankref *r) { free(r->rx); free(r->ry); free(r->px); free(r->py); }

/* call the library; the returned matrices are owned by the caller */
static void lib_roc(vh_ctx *c, const double *y, const double *s, size_t n, matrix **roc, double *auc, matrix **pr, double *ap)
{
  dvector *vy = dv_of(y, n), *vs = dv_of(s, n);
  *auc = NAN;
  if (ap) *ap = NAN;
  initMatrix(roc); ROC(vy, vs, *roc, auc);
  if (!dv_same(vy, y, n) || !dv_same(vs, s, n)) vh_fail(c, "ROC|input-modified", "ROC changed its argument vectors");
  if (pr) {
    initMatrix(pr); PrecisionRecall(vy, vs, *pr, ap);
    if (!dv_same(vy, y, n) || !dv_same(vs, s, n)) vh_fail(c, "PrecisionRecall|input-modified", "PrecisionRecall changed its argument vectors");
  }
  DelDVector(&vy); DelDVector(&vs);
}

#define AREA_TOL 1e-12

/* all clauses that concern one (truth, score) pair */
static void judge_rank(vh_ctx *c, const rankref *r, matrix *roc, double auc, matrix *pr, double ap)
{
  size_t i, n = r->n;
  double pairs = (double)r->np * (double)r->nn, d;
  if (roc->row != n + 1 || roc->col != 2) { vh_fail(c, "ROC|curve-shape", "curve is %zux%zu for %zu objects", roc->row, roc->col, n); return; }
  if (roc->data[0][0] != 0.0 || roc->data[0][1] != 0.0) vh_fail(c, "ROC|curve-start", "first point (%.17g,%.17g)", roc->data[0][0], roc->data[0][1]);
  if (roc->data[n][0] != 1.0 || roc->data[n][1] != 1.0) vh_fail(c, "ROC|curve-end", "last point (%.17g,%.17g)", roc->data[n][0], roc->data[n][1]);
  for (i = 1; i <= n; i++) if (!(roc->data[i][0] >= roc->data[i - 1][0]) || !(roc->data[i][1] >= roc->data[i - 1][1])) {
    vh_fail(c, "ROC|curve-monotone", "point %zu (%.17g,%.17g) after (%.17g,%.17g)", i, roc->data[i][0], roc->data[i][1], roc->data[i - 1][0], roc->data[i - 1][1]); break;
  }
  d = 0;
  for (i = 0; i <= n; i++) {
    double a = fabs(roc->data[i][0] - (double)r->rx[i]), b = fabs(roc->data[i][1] - (double)r->ry[i]);
    if (!(a <= d)) d = a;
    if (!(b <= d)) d = b;
  }
  vh_max("max_roc_curve_dev", d);
  if (!(d <= 4 * DEPS)) vh_fail(c, "ROC|curve-definition", "curve deviates %.3g from (fp/n-, tp/n+) along decreasing score", d);
  /* AUC * n+ * n- = Mann-Whitney count, relative 1e-12 */
  d = fabs(auc * pairs - (double)r->mw) / pairs;
  vh_max("max_auc_vs_mannwhitney", d);
  if (!(d <= AREA_TOL)) vh_fail(c, "ROC|AUC-mann-whitney", "AUC=%.17g, n+=%zu n-=%zu: AUC*n+*n-=%.17g but %.0Lf concordant pairs", auc, r->np, r->nn, auc * pairs, r->mw);
  if (!(auc >= 0.0 && auc <= 1.0 + AREA_TOL)) vh_fail(c, "ROC|AUC-range", "AUC=%.17g", auc);
  if (pr) {
    if (pr->row != n + 1 || pr->col != 2) { vh_fail(c, "PrecisionRecall|curve-shape", "curve is %zux%zu for %zu objects", pr->row, pr->col, n); return; }
    for (i = 1; i <= n; i++) if (!(pr->data[i][0] >= pr->data[i - 1][0])) { vh_fail(c, "PrecisionRecall|recall-monotone", "recall %.17g after %.17g", pr->data[i][0], pr->data[i - 1][0]); break; }
    if (pr->data[n][0] != 1.0) vh_fail(c, "PrecisionRecall|recall-end", "last recall %.17g", pr->data[n][0]);
    d = 0;
    for (i = 0; i <= n; i++) {
      double a = fabs(pr->data[i][0] - (double)r->px[i]), b = fabs(pr->data[i][1] - (double)r->py[i]);
      if (!(a <= d)) d = a;
      if (!(b <= d)) d = b;
    }
    vh_max("max_pr_curve_dev", d);
    if (!(d <= 4 * DEPS)) vh_fail(c, "PrecisionRecall|curve-definition", "curve deviates %.3g from (tp/n+, tp/(tp+fp)) along decreasing score", d);
    d = fabs(ap - (double)r->ap);
    vh_max("max_pr_area_dev", d);
    if (!(d <= AREA_TOL)) vh_fail(c, "PrecisionRecall|area-definition", "area %.17g, trapezoid of the reference curve %.17Lg", ap, r->ap);
    if (!(ap >= 0.0 && ap <= 1.0 + AREA_TOL)) vh_fail(c, "PrecisionRecall|area-range", "area %.17g", ap);
  }
}

static const char *DIST[] = { "shifted-gauss", "uniform", "lognormal", "separated", "close-spaced", "ranks" };
static const char *MAPS[] = { "affine", "exp", "cubic", "rank", "pow2" };

/* binary truths with at least one of each and pairwise distinct scores; returns 0 when no tie-free vector was produced */
static int gen_rank(vh_ctx *c, size_t n, int dist, double *y, double *s)
{
  size_t i, *perm = malloc(n * sizeof *perm), *order = malloc(n * sizeof *order);
  double prev = vh_coin(c, 0.3) ? 0.5 : vh_range(c, 0.03, 0.97), shift = vh_range(c, -1.5, 3.0);
  double scale = vh_logunif(c, -6, 6), off = vh_coin(c, 0.5) ? 0.0 : vh_gauss(c) * scale * vh_logunif(c, -1, 2);
  int ok = 0, tries, sepdir = vh_coin(c, 0.5);
  for (i = 0; i < n; i++) y[i] = vh_coin(c, prev) ? 1.0 : 0.0;
  vh_perm(c, perm, n);
  y[perm[0]] = 1.0; y[perm[1]] = 0.0;
  for (tries = 0; tries < 4 && !ok; tries++) {
    vh_perm(c, perm, n);
    for (i = 0; i < n; i++) {
      double v;
      switch (dist) {
      case 0: v = vh_gauss(c) + (y[i] == 1.0 ? shift : 0.0); break;
      case 1: v = vh_unif(c); break;
      case 2: v = exp(2.0 * vh_gauss(c) + (y[i] == 1.0 ? 0.5 * shift : 0.0)); break;
      case 3: v = vh_unif(c) + ((y[i] == 1.0) == sepdir ? 2.0 : 0.0); break;
      case 4: v = 1.0 + (double)perm[i] * 0x1p-40; break;
      default: v = (double)perm[i]; break;
      }
      s[i] = off + scale * v;
    }
    ok = rank_desc(s, n, order);
  }
  free(perm); free(order);
  return ok;
}

/* strictly increasing map applied in double; falls back to an exact power-of-two scaling when rounding would merge scores */
static int apply_map(vh_ctx *c, int map, const double *s, size_t n, double *t)
{
  size_t i, *order = malloc(n * sizeof *order), *o2 = malloc(n * sizeof *o2);
  double lo, hi, a = vh_logunif(c, -3, 3), b, amax = 0;
  int ok;
  rank_desc(s, n, order);
  hi = s[order[0]]; lo = s[order[n - 1]];
  for (i = 0; i < n; i++) if (fabs(s[i]) > amax) amax = fabs(s[i]);
  b = vh_gauss(c) * (hi - lo);
  for (i = 0; i < n; i++) {
    switch (map) {
    case 0: t[i] = a * s[i] + b; break;
    case 1: t[i] = exp(4.0 * (s[i] - lo) / (hi - lo) - 2.0); break;
    case 2: { double z = s[i] / amax; t[i] = z * z * z; } break;
    case 3: t[i] = 0; break;
    default: t[i] = s[i] * 0x1p7; break;
    }
  }
  if (map == 3) for (i = 0; i < n; i++) t[order[i]] = (double)(n - i);
  ok = rank_desc(t, n, o2) && memcmp(order, o2, n * sizeof *order) == 0;
  if (!ok) {
    map = 4;
    for (i = 0; i < n; i++) t[i] = s[i] * 0x1p7;
  }
  free(order); free(o2);
  return map;
}

static void case_ranking(vh_ctx *c)
{
  size_t n = vh_coin(c, 0.3) ? (size_t)vh_int(c, 2, 8) : (size_t)vh_int(c, 2, 200), i;
  int dist = (int)vh_int(c, 0, 5), map = (int)vh_int(c, 0, 3);
  double *y = malloc(n * sizeof *y), *s = malloc(n * sizeof *s), *t = malloc(n * sizeof *t), *y2 = malloc(n * sizeof *y2);
  size_t *perm = malloc(n * sizeof *perm);
  matrix *roc, *pr, *roc2, *pr2;
  double auc, ap, auc2, ap2, d;
  rankref r;

  if (!gen_rank(c, n, dist, y, s)) {
    vh_class(c, "rank-ties"); vh_desc(c, "ranking n=%zu dist=%s", n, DIST[dist]);
    vh_skip(c, "could not draw tie-free scores");
    goto out;
  }
  rank_oracle(y, s, n, &r);
  vh_desc(c, "ranking n=%zu n+=%zu n-=%zu dist=%s s0=%.17g s1=%.17g mw=%.0Lf", n, r.np, r.nn, DIST[dist], s[0], s[1], r.mw);
  lib_roc(c, y, s, n, &roc, &auc, &pr, &ap);
  judge_rank(c, &r, roc, auc, pr, ap);
  vh_obs("roc_curves", 1); vh_obs("pr_curves", 1);
  { long b = (long)floor(10.0 * (double)(r.mw / ((ld)r.np * (ld)r.nn)) - 1e-9); vh_hist("auc_decile", b < 0 ? 0 : b); }
  /* strictly increasing map of the scores */
  map = apply_map(c, map, s, n, t);
  vh_class(c, "rank-n%s-%s-prev%s-%s", n < 4 ? "2-3" : n < 10 ? "4-9" : n < 50 ? "10-49" : "50-200", DIST[dist],
           10 * r.np < 2 * n ? "<0.2" : 10 * r.np > 8 * n ? ">0.8" : "mid", MAPS[map]);
  vh_desc(c, " map=%s", MAPS[map]);
  lib_roc(c, y, t, n, &roc2, &auc2, &pr2, &ap2);
  d = fabs(auc2 - auc); vh_max("max_auc_change_monotone_map", d);
  if (!(d <= AREA_TOL)) vh_fail(c, "ROC|AUC-monotone-map", "AUC %.17g became %.17g under the strictly increasing map %s", auc, auc2, MAPS[map]);
  d = fabs(ap2 - ap); vh_max("max_pr_area_change_monotone_map", d);
  if (!(d <= AREA_TOL)) vh_fail(c, "PrecisionRecall|area-monotone-map", "area %.17g became %.17g under the strictly increasing map %s", ap, ap2, MAPS[map]);
  if (matrix_maxdiff(roc, roc2) > 4 * DEPS) vh_fail(c, "ROC|curve-monotone-map", "curve changed under the strictly increasing map %s", MAPS[map]);
  DelMatrix(&roc2); DelMatrix(&pr2);
  vh_obs("monotone_map_pairs", 1);
  /* permutation of the objects */
  vh_perm(c, perm, n);
  for (i = 0; i < n; i++) { y2[i] = y[perm[i]]; t[i] = s[perm[i]]; }
  lib_roc(c, y2, t, n, &roc2, &auc2, &pr2, &ap2);
  d = fabs(auc2 - auc); vh_max("max_auc_change_permutation", d);
  if (!(d <= AREA_TOL)) vh_fail(c, "ROC|AUC-permutation", "AUC %.17g became %.17g after reordering the objects", auc, auc2);
  d = fabs(ap2 - ap); vh_max("max_pr_area_change_permutation", d);
  if (!(d <= AREA_TOL)) vh_fail(c, "PrecisionRecall|area-permutation", "area %.17g became %.17g after reordering the objects", ap, ap2);
  if (matrix_maxdiff(roc, roc2) > 4 * DEPS) vh_fail(c, "ROC|curve-permutation", "curve changed after reordering the objects");
  DelMatrix(&roc2); DelMatrix(&pr2);
  vh_obs("permutation_pairs", 1);
  /* negated scores */
  for (i = 0; i < n; i++) t[i] = -s[i];
  lib_roc(c, y, t, n, &roc2, &auc2, NULL, NULL);
  d = fabs(auc2 - (1.0 - auc)); vh_max("max_auc_negation_dev", d);
  if (!(d <= AREA_TOL)) vh_fail(c, "ROC|AUC-negation", "AUC(s)=%.17g AUC(-s)=%.17g, sum %.17g", auc, auc2, auc + auc2);
  DelMatrix(&roc2);
  vh_obs("negation_pairs", 1);
  DelMatrix(&roc); DelMatrix(&pr);
  rank_free(&r);
out:
  free(y); free(s); free(t); free(y2); free(perm);
}

/* ------------------------------------------------------------------ statistic tables */
static void case_tables(vh_ctx *c)
{
  int which = (int)vh_int(c, 0, 2);       /* 0 PLS regression table, 1 MLR vectors, 2 PLS discriminant tables */
  size_t n = (size_t)vh_int(c, 2, 60), ny = (size_t)vh_int(c, 1, 4), nlv = which == 1 ? 1 : (size_t)vh_int(c, 1, 5), a, j, i;
  matrix *yt, *yp;
  double *ct = malloc(n * sizeof *ct), *cp = malloc(n * sizeof *cp);
  size_t totmiss = 0;

  if (which == 2 && n < 2) n = 2;
  NewMatrix(&yt, n, ny); NewMatrix(&yp, n, ny * nlv);
  vh_class(c, "table-%s-n%s-ny%zu-nlv%zu", which == 0 ? "pls" : which == 1 ? "mlr" : "plsda", n < 5 ? "2-4" : n < 20 ? "5-19" : "20-60", ny, nlv);
  if (which < 2) {
    matrix *t_r2, *t_rmse, *t_bias;
    dvector *v_r2, *v_rmse, *v_bias;
    int drop = which == 0 ? (int)vh_int(c, 0, 5) : (int)vh_int(c, 0, 5);   /* 1..3: pass NULL for that output */
    matrix *yt0, *yp0;
    for (j = 0; j < ny; j++) {
      /* every response has its own scale and location, every (LV, response) its own noise and flavour, so that a
         swapped column or layout shows */
      double scale = vh_logunif(c, -6, 6), loc = vh_coin(c, 0.4) ? 0.0 : vh_range(c, -10, 10) * scale;
      size_t nm = 0;
      for (a = 0; a < nlv; a++) {
        int fl = 1 + (int)vh_int(c, 0, 2);
        double noise = vh_logunif(c, -3, 0.5);
        if (a == 0) {
          nm = gen_reg(c, n, scale, loc, fl, noise, ct, cp);
          for (i = 0; i < n; i++) yt->data[i][j] = ct[i];
        }
        else {
          double slope = vh_range(c, 0.2, 2.5);
          for (i = 0; i < n; i++) cp[i] = or_is_missing(ct[i]) ? (vh_coin(c, 0.5) ? 1e300 : 99999999.0) : (fl == 2 ? slope : 1.0) * ct[i] + noise * scale * vh_gauss(c) + (fl == 3 ? scale : 0.0);
        }
        for (i = 0; i < n; i++) yp->data[i][ny * a + j] = cp[i];
      }
      totmiss += nm;
    }
    vh_desc(c, "%s table n=%zu ny=%zu nlv=%zu missing=%zu null-output=%d yt00=%.17g yp00=%.17g", which == 0 ? "PLSRegressionStatistics" : "MLRRegressionStatistics",
            n, ny, nlv, totmiss, drop, yt->data[0][0], yp->data[0][0]);
    yt0 = matrix_dup(yt); yp0 = matrix_dup(yp);
    initMatrix(&t_r2); initMatrix(&t_rmse); initMatrix(&t_bias);
    initDVector(&v_r2); initDVector(&v_rmse); initDVector(&v_bias);
    if (which == 0) PLSRegressionStatistics(yt, yp, drop == 1 ? NULL : t_r2, drop == 2 ? NULL : t_rmse, drop == 3 ? NULL : t_bias);
    else MLRRegressionStatistics(yt, yp, drop == 1 ? NULL : v_r2, drop == 2 ? NULL : v_rmse, drop == 3 ? NULL : v_bias);
    if (!matrix_bitequal(yt, yt0) || !matrix_bitequal(yp, yp0)) vh_fail(c, which == 0 ? "PLSRegressionStatistics|input-modified" : "MLRRegressionStatistics|input-modified", "the statistics call changed its input matrices");
    {
      const char *who = which == 0 ? "PLSRegressionStatistics" : "MLRRegressionStatistics";
      char key[96];
      int shape_ok = 1;
      if (which == 0) {
        if ((drop != 1 && (t_r2->row != nlv || t_r2->col != ny)) || (drop != 2 && (t_rmse->row != nlv || t_rmse->col != ny)) || (drop != 3 && (t_bias->row != nlv || t_bias->col != ny))) shape_ok = 0;
      }
      else if ((drop != 1 && v_r2->size != ny) || (drop != 2 && v_rmse->size != ny) || (drop != 3 && v_bias->size != ny)) shape_ok = 0;
      if (!shape_ok) { snprintf(key, sizeof key, "%s|table-shape", who); vh_fail(c, key, "tables do not have %zu x %zu entries", nlv, ny); }
      else for (a = 0; a < nlv; a++) for (j = 0; j < ny; j++) {
        regref o;
        double r2, rmse, bias, d;
        dvector *vt, *vp;
        for (i = 0; i < n; i++) { ct[i] = yt->data[i][j]; cp[i] = yp->data[i][ny * a + j]; }
        reg_oracle(ct, cp, n, &o);
        /* a NULL output is simply not judged: substitute the reference so that the clause is vacuous */
        r2 = drop == 1 ? (double)o.r2 : which == 0 ? t_r2->data[a][j] : v_r2->data[j];
        rmse = drop == 2 ? (double)o.rmse : which == 0 ? t_rmse->data[a][j] : v_rmse->data[j];
        bias = drop == 3 ? (double)o.bias : which == 0 ? t_bias->data[a][j] : v_bias->data[j];
        judge_reg(c, who, &o, r2, 0, rmse, 0, bias, 0, 0);
        /* the relation the property states: table entry = the scalar function applied to that (LV, response) */
        vt = dv_of(ct, n); vp = dv_of(cp, n);
        d = 0;
        if (drop != 1) { double x = fabs(r2 - R2(vt, vp)); if (!(x <= d)) d = x; if (!(x <= o.tol_r2)) { snprintf(key, sizeof key, "%s|table-vs-R2()", who); vh_fail(c, key, "entry (%zu,%zu)=%.17g but R2()=%.17g", a, j, r2, R2(vt, vp)); } }
        if (drop != 2) { double x = fabs(rmse - RMSE(vt, vp)); if (!(x / (rmse + 1e-300) <= d)) d = x / (rmse + 1e-300); if (!(x <= o.tol_rmse)) { snprintf(key, sizeof key, "%s|table-vs-RMSE()", who); vh_fail(c, key, "entry (%zu,%zu)=%.17g but RMSE()=%.17g", a, j, rmse, RMSE(vt, vp)); } }
        if (drop != 3) { double x = fabs(bias - BIAS(vt, vp)); if (!(x <= d)) d = x; if (!(x <= o.tol_bias)) { snprintf(key, sizeof key, "%s|table-vs-BIAS()", who); vh_fail(c, key, "entry (%zu,%zu)=%.17g but BIAS()=%.17g", a, j, bias, BIAS(vt, vp)); } }
        vh_max("max_table_vs_scalar_function_dev", d);
        DelDVector(&vt); DelDVector(&vp);
        vh_obs(which == 0 ? "pls_table_entries" : "mlr_table_entries", 1);
      }
    }
    vh_obs("missing_coded_truths", (double)totmiss);
    DelMatrix(&t_r2); DelMatrix(&t_rmse); DelMatrix(&t_bias);
    DelDVector(&v_r2); DelDVector(&v_rmse); DelDVector(&v_bias);
    DelMatrix(&yt0); DelMatrix(&yp0);
  }
  else {
    tensor *t_roc, *t_pr; int want = 15;
    matrix *m_auc, *m_ap;
    int ok = 1;
    for (j = 0; j < ny && ok; j++) for (a = 0; a < nlv && ok; a++) {
      if (a == 0) {
        ok = gen_rank(c, n, (int)vh_int(c, 0, 5), ct, cp);
        for (i = 0; i < n; i++) yt->data[i][j] = ct[i];
      }
      else {
        /* same truths, a fresh score vector: redraw scores until tie free keeping the truth column */
        size_t *order = malloc(n * sizeof *order);
        int tries = 0;
        do { for (i = 0; i < n; i++) cp[i] = vh_gauss(c) + (yt->data[i][j] == 1.0 ? 0.4 * (double)a : 0.0); } while (!rank_desc(cp, n, order) && ++tries < 4);
        ok = rank_desc(cp, n, order);
        free(order);
      }
      for (i = 0; i < n; i++) yp->data[i][ny * a + j] = cp[i];
    }
    vh_desc(c, "PLSDiscriminantAnalysisStatistics n=%zu ny=%zu nlv=%zu s00=%.17g", n, ny, nlv, yp->data[0][0]);
    if (!ok) { vh_skip(c, "could not draw tie-free scores"); goto out; }
    initTensor(&t_roc); initTensor(&t_pr); initMatrix(&m_auc); initMatrix(&m_ap);
    /* every output of the routine is optional (NULL): any non-empty subset may be requested, and a requested table must not depend on
       which other outputs were asked for (third seeded wave; side PRNG stream) */
    { vh_ctx cc = *c; cc.s[0] ^= 0x2545F4914F6CDD1DULL; (void)vh_u64(&cc); (void)vh_u64(&cc); want = (int)vh_int(&cc, 1, 15); if (vh_coin(&cc, 0.4)) want = 15; }
    vh_hist("plsda_outputs_requested_mask", want);
    PLSDiscriminantAnalysisStatistics(yt, yp, (want & 1) ? t_roc : NULL, (want & 2) ? m_auc : NULL, (want & 4) ? t_pr : NULL, (want & 8) ? m_ap : NULL);
    if (((want & 2) && (m_auc->row != nlv || m_auc->col != ny)) || ((want & 8) && (m_ap->row != nlv || m_ap->col != ny)))
      vh_fail(c, "PLSDiscriminantAnalysisStatistics|table-shape", "AUC table %zux%zu, AP table %zux%zu for nlv=%zu ny=%zu (outputs requested: mask %d)", m_auc->row, m_auc->col, m_ap->row, m_ap->col, nlv, ny, want);
    else for (a = 0; a < nlv; a++) for (j = 0; j < ny; j++) {
      rankref r;
      double pairs, d;
      for (i = 0; i < n; i++) { ct[i] = yt->data[i][j]; cp[i] = yp->data[i][ny * a + j]; }
      rank_oracle(ct, cp, n, &r);
      pairs = (double)r.np * (double)r.nn;
      if (want & 2) {
        d = fabs(m_auc->data[a][j] * pairs - (double)r.mw) / pairs; vh_max("max_auc_vs_mannwhitney", d);
        if (!(d <= AREA_TOL)) vh_fail(c, "PLSDiscriminantAnalysisStatistics|AUC-table", "entry (%zu,%zu)=%.17g but Mann-Whitney %.17Lg (outputs requested: mask %d)", a, j, m_auc->data[a][j], r.mw / (ld)pairs, want);
      }
      if (want & 8) {
        d = fabs(m_ap->data[a][j] - (double)r.ap); vh_max("max_pr_area_dev", d);
        if (!(d <= AREA_TOL)) vh_fail(c, "PLSDiscriminantAnalysisStatistics|AP-table", "entry (%zu,%zu)=%.17g but reference area %.17Lg (outputs requested: mask %d)", a, j, m_ap->data[a][j], r.ap, want);
      }
      rank_free(&r);
      vh_obs("plsda_table_entries", 1);
    }
    DelTensor(&t_roc); DelTensor(&t_pr); DelMatrix(&m_auc); DelMatrix(&m_ap);
  }
out:
  DelMatrix(&yt); DelMatrix(&yp);
  free(ct); free(cp);
}

/* ------------------------------------------------------------------ concurrent callers (second build session)
 * The figures of merit are functions of their arguments: a call must return its definition whatever other threads compute at
 * the same moment (the validation drivers call them from worker threads).  K threads evaluate ROC, PrecisionRecall and the
 * regression figures on their own data many times; every result must be bit-identical to the result the same call gave
 * before the threads were started, and the AUC must be the Mann-Whitney probability.  Runs under ASan+UBSan and under TSan. */
#include <pthread.h>
typedef struct { size_t n; double *y, *s, *yt, *yp; double auc0, ap0, r20, mse0, bias0; ld mw; size_t np, nn; int reps, bad_auc, bad_ap, bad_reg, bad_mw; } conc_t;
static void *conc_worker(void *a)
{
  conc_t *w = a; int r; dvector *vy = dv_of(w->y, w->n), *vs = dv_of(w->s, w->n), *vt = dv_of(w->yt, w->n), *vp = dv_of(w->yp, w->n);
  for (r = 0; r < w->reps; r++) {
    matrix *roc, *pr; double auc = -1, ap = -1, r2, mse, bias;
    initMatrix(&roc); initMatrix(&pr);
    ROC(vy, vs, roc, &auc); PrecisionRecall(vy, vs, pr, &ap);
    r2 = R2(vt, vp); mse = MSE(vt, vp); bias = BIAS(vt, vp);
    if (memcmp(&auc, &w->auc0, sizeof auc)) w->bad_auc++;
    if (memcmp(&ap, &w->ap0, sizeof ap)) w->bad_ap++;
    if (memcmp(&r2, &w->r20, sizeof r2) || memcmp(&mse, &w->mse0, sizeof mse) || memcmp(&bias, &w->bias0, sizeof bias)) w->bad_reg++;
    if (!(fabsl((ld)auc * (ld)w->np * (ld)w->nn - w->mw) <= 1e-9L * (ld)w->np * (ld)w->nn)) w->bad_mw++;
    DelMatrix(&roc); DelMatrix(&pr);
  }
  DelDVector(&vy); DelDVector(&vs); DelDVector(&vt); DelDVector(&vp);
  return NULL;
}
static void case_concurrent(vh_ctx *c)
{
  int K = (int)vh_int(c, 2, 6), k, reps = vh_is_tsan() ? 6 : 25; conc_t w[6]; pthread_t th[6];
  int bad_auc = 0, bad_ap = 0, bad_reg = 0, bad_mw = 0;
  vh_class(c, "concurrent-callers-%d", K);
  vh_desc(c, "%d threads x %d repetitions of ROC / PrecisionRecall / R2 / MSE / BIAS on their own vectors", K, reps);
  for (k = 0; k < K; k++) {
    size_t n = (size_t)vh_int(c, 5, 120), i; rankref rr;
    memset(&w[k], 0, sizeof w[k]); w[k].n = n; w[k].reps = reps;
    w[k].y = malloc(n * sizeof(double)); w[k].s = malloc(n * sizeof(double)); w[k].yt = malloc(n * sizeof(double)); w[k].yp = malloc(n * sizeof(double));
    while (!gen_rank(c, n, (int)vh_int(c, 0, 3), w[k].y, w[k].s)) ;
    for (i = 0; i < n; i++) { w[k].yt[i] = vh_gauss(c) * 3 + (double)k; w[k].yp[i] = w[k].yt[i] + 0.4 * vh_gauss(c); }
    rank_oracle(w[k].y, w[k].s, n, &rr); w[k].mw = rr.mw; w[k].np = rr.np; w[k].nn = rr.nn;
    free(rr.rx); free(rr.ry); free(rr.px); free(rr.py);
    { dvector *vy = dv_of(w[k].y, n), *vs = dv_of(w[k].s, n), *vt = dv_of(w[k].yt, n), *vp = dv_of(w[k].yp, n); matrix *roc, *pr;
      initMatrix(&roc); initMatrix(&pr);
      ROC(vy, vs, roc, &w[k].auc0); PrecisionRecall(vy, vs, pr, &w[k].ap0);
      w[k].r20 = R2(vt, vp); w[k].mse0 = MSE(vt, vp); w[k].bias0 = BIAS(vt, vp);
      DelMatrix(&roc); DelMatrix(&pr); DelDVector(&vy); DelDVector(&vs); DelDVector(&vt); DelDVector(&vp); }
  }
  for (k = 0; k < K; k++) pthread_create(&th[k], NULL, conc_worker, &w[k]);
  for (k = 0; k < K; k++) pthread_join(th[k], NULL);
  for (k = 0; k < K; k++) { bad_auc += w[k].bad_auc; bad_ap += w[k].bad_ap; bad_reg += w[k].bad_reg; bad_mw += w[k].bad_mw; free(w[k].y); free(w[k].s); free(w[k].yt); free(w[k].yp); }
  vh_obs("concurrent_caller_cases", 1); vh_obs("concurrent_calls", (double)K * reps * 5);
  if (bad_auc) vh_fail(c, "ROC|result-depends-on-concurrent-callers", "%d of %d concurrent calls returned another AUC than the same call made alone", bad_auc, K * reps);
  if (bad_mw) vh_fail(c, "ROC|AUC-not-Mann-Whitney|concurrent-callers", "%d of %d concurrent calls", bad_mw, K * reps);
  if (bad_ap) vh_fail(c, "PrecisionRecall|result-depends-on-concurrent-callers", "%d of %d concurrent calls returned another area than the same call made alone", bad_ap, K * reps);
  if (bad_reg) vh_fail(c, "R2/MSE/BIAS|result-depends-on-concurrent-callers", "%d of %d concurrent calls", bad_reg, K * reps);
}

static void run_case(vh_ctx *c)
{
  long m = vh_int(c, 0, 99);
  if (vh_is_tsan() || c->idx % 50 == 49) { case_concurrent(c); return; }
  if (m < 42) case_regression(c);
  else if (m < 84) case_ranking(c);
  else case_tables(c);
}

const vh_driver VH_DRIVER = { "C15", ncases, run_case, NULL, 60 };
