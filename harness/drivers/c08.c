/* c08.c - C08: LDA predicts the arg-max discriminant and is invariant to affine re-coding; the multiclass
 * ROC summaries give AUC = 1 for perfect predictions.
 * Monitor: shadow bookkeeping of the stored model (nclass, class_start, priors, class means), long-double
 * replay of the stored discriminant  f_k(x) = mu_k' C x - 1/2 mu_k' C mu_k + ln(prior_k)  from the model's own
 * fields, arg-max -> label relation for 0- and 1-based labels, zero errors for well separated classes
 * (>= 10 sigma, noise truncated at 3 sigma; test objects when the covariance has >= 3 d.o.f. per feature), metamorphic pairs (x -> A x + c on train and test; row permutation
 * of the training set) on the score differences f_k - f_0, LDAMulticlassStatistics(y, y).  asan build.
 *
 * Tolerance of the metamorphic pairs.  The library inverts its "covariance" T (scatter about the grand mean,
 * weighted by class frequency = total covariance) by Gauss-Jordan (relative error ~ eps kappa(T)); when the
 * Frobenius norm^2 of that inverse is < 1e-3 it switches to an SVD built from the eigen-decomposition of T T'
 * (relative error ~ eps kappa(T)^2).  A perturbation dC of C = T^-1 moves a score difference by at most
 * |mu_k - mu_0| |dC| |x - mid| and the scores are accumulated from raw (uncentred) vectors, hence one unit
 *      u = eps * kappa(T)^a * (Rraw + Rcen)^2 / lambda_min(T),     a = 1 (Gauss-Jordan) or 2 (SVD path)
 * with kappa(T), lambda_min from the Jacobi eigen-oracle on the long-double T of the data set actually fitted
 * (original and transformed measured separately, so kappa(A) enters through the measured kappa(T')).
 * Allowed deviation = KTOL * (u + u').  Objects whose top-two margin is below twice that are not judged for
 * "same prediction" (counted). */
#include "drv_util.h"
#include <float.h>

#define EPS DBL_EPSILON
#define KTOL 100.0
#define MAXK 5

/* exported by lda.c (used by the bindings) but missing from lda.h */
void LDAError(matrix *mx, matrix *my, LDAMODEL *lda, dvector *sens, dvector *spec, dvector *ppv, dvector *npv, dvector *acc);

static long ncases(int tier) { return tier ? 120000 : 15000; }

typedef struct {
  size_t n, p, K;
  int cs;              /* class_start */
  ldm *X;              /* n x p, the doubles the library sees */
  int *cls;            /* class index of every row */
  matrix *mx, *my;
} dset;

typedef struct {
  LDAMODEL *lda;
  matrix *prob[2], *pred[2];      /* 0 = training set, 1 = test set */
} fitres;

static void dset_free(dset *d) { if (d->X) ldm_free(d->X); free(d->cls); if (d->mx) DelMatrix(&d->mx); if (d->my) DelMatrix(&d->my); }

/* library containers from the long-double matrix (and read the doubles back) */
static void dset_materialise(dset *d)
{
  size_t i, j;
  d->mx = matrix_of_ldm(d->X);
  for (i = 0; i < d->n; i++) for (j = 0; j < d->p; j++) LM(d->X, i, j) = d->mx->data[i][j];
  NewMatrix(&d->my, d->n, 1);
  for (i = 0; i < d->n; i++) d->my->data[i][0] = (double)(d->cls[i] + d->cs);
}

static void fit_predict(dset *tr, dset *te, fitres *f)
{
  int s;
  NewLDAModel(&f->lda);
  LDA(tr->mx, tr->my, f->lda);
  for (s = 0; s < 2; s++) {
    matrix *pf, *mn;
    size_t no = (s ? te->mx : tr->mx)->row;
    initMatrix(&pf); initMatrix(&mn);
    /* caller-provided outputs in three states: empty, stale with the result's shape, stale with another shape */
    f->prob[s] = drv_out_matrix(vh_current(), no, f->lda->nclass, 1u + (unsigned)s);
    f->pred[s] = drv_out_matrix(vh_current(), no, 1, 3u + (unsigned)s);
    LDAPrediction(s ? te->mx : tr->mx, f->lda, pf, f->prob[s], mn, f->pred[s]);
    DelMatrix(&pf); DelMatrix(&mn);
  }
}
static void fitres_free(fitres *f)
{
  int s;
  for (s = 0; s < 2; s++) { DelMatrix(&f->prob[s]); DelMatrix(&f->pred[s]); }
  DelLDAModel(&f->lda);
}

/* conditioning of the data set: T = total covariance about the grand mean (what the library inverts on this tree:
   class blocks centred on the grand mean, weighted by class frequency) and W = the same sum centred on the class
   means (the pooled within-class covariance the property names).  The unit is the larger of the two, so the
   tolerance does not depend on which of them an implementation inverts. */
typedef struct { ld lmin, lmax, kappa, rraw, rcen, unit; int svd_path, snap; } cond;

static ld unit_of(const ldm *S, ld r2, ld *kappa, ld *lmin, ld *lmax, int *svd)
{
  size_t p = S->r, j;
  ldm *V = ldm_new(p, p);
  ld *ev = calloc(p, sizeof(ld)), ss = 0, u;
  or_jacobi_eig(S, ev, V);
  *lmax = ev[0]; *lmin = ev[p - 1]; *kappa = ev[p - 1] > 0 ? ev[0] / ev[p - 1] : INFINITY;
  for (j = 0; j < p; j++) ss += 1 / (ev[j] * ev[j]);
  *svd = ss < 2e-3L;                                         /* library: ||inv||_F^2 < 1e-3 -> pseudo-inversion through SVD */
  u = EPS * (*svd ? *kappa * *kappa : *kappa) * r2 / *lmin;
  ldm_free(V); free(ev);
  return u;
}

static void cond_of(const dset *tr, const dset *te, cond *q)
{
  size_t n = tr->n, p = tr->p, K = tr->K, i, j, k, s;
  ldm *T = ldm_new(p, p), *W = ldm_new(p, p);
  ld *m = calloc(p, sizeof(ld)), *cs = calloc(p * (K + 1), sizeof(ld)), r2, uw, kw, lminw, lmaxw;
  size_t cnt[MAXK] = { 0 };
  int svdw;
  for (i = 0; i < n; i++) { cnt[tr->cls[i]]++; for (j = 0; j < p; j++) { m[j] += LM(tr->X, i, j); cs[(1 + (size_t)tr->cls[i]) * p + j] += LM(tr->X, i, j); } }
  for (j = 0; j < p; j++) cs[j] = m[j];
  q->snap = 0;
  for (j = 0; j < p * (K + 1); j++) if (fabsl(cs[j]) < 1e-5L) q->snap = 1;        /* MatrixColAverage zeroes |sums| < 1e-6 by design */
  for (j = 0; j < p; j++) m[j] /= (ld)n;
  for (k = 0; k < K; k++) for (j = 0; j < p; j++) cs[(1 + k) * p + j] /= (ld)(cnt[k] ? cnt[k] : 1);
  for (i = 0; i < n; i++) for (j = 0; j < p; j++) for (k = 0; k < p; k++) {
    const ld *cm = cs + (1 + (size_t)tr->cls[i]) * p;
    LM(T, j, k) += (LM(tr->X, i, j) - m[j]) * (LM(tr->X, i, k) - m[k]) / (ld)n;
    LM(W, j, k) += (LM(tr->X, i, j) - cm[j]) * (LM(tr->X, i, k) - cm[k]) / (ld)n;
  }
  q->rraw = q->rcen = 0;
  for (s = 0; s < 2; s++) {
    const dset *d = s ? te : tr;
    for (i = 0; i < d->n; i++) {
      ld a = 0, b = 0;
      for (j = 0; j < p; j++) { a += LM(d->X, i, j) * LM(d->X, i, j); b += (LM(d->X, i, j) - m[j]) * (LM(d->X, i, j) - m[j]); }
      if (sqrtl(a) > q->rraw) q->rraw = sqrtl(a);
      if (sqrtl(b) > q->rcen) q->rcen = sqrtl(b);
    }
  }
  r2 = (q->rraw + q->rcen) * (q->rraw + q->rcen);
  q->unit = unit_of(T, r2, &q->kappa, &q->lmin, &q->lmax, &q->svd_path);
  uw = unit_of(W, r2, &kw, &lminw, &lmaxw, &svdw);
  if (!(uw <= q->unit)) q->unit = uw;
  if (!(kw <= q->kappa)) q->kappa = kw;
  ldm_free(T); ldm_free(W); free(m); free(cs);
}

/* clauses on one fitted model + its predictions; returns 0 when the outputs cannot be used further */
static int check_model(vh_ctx *c, const char *tag, dset *tr, dset *te, fitres *f, const cond *q)
{
  size_t K = tr->K, p = tr->p, i, j, k, a, b;
  size_t cnt[MAXK] = { 0 };
  LDAMODEL *l = f->lda;
  int s, ok = 1;
  ld psum = 0;
  if (l->nclass != K || l->class_start != (size_t)tr->cs) { vh_fail(c, "LDA|nclass-class_start", "%s: nclass = %zu class_start = %zu for %zu classes numbered from %d", tag, l->nclass, l->class_start, K, tr->cs); return 0; }
  if (l->pprob->size != K || l->mu->row != K || l->mu->col != p || l->inv_cov->row != p || l->inv_cov->col != p) {
    vh_fail(c, "LDA|shape", "%s: pprob %zu mu %zux%zu inv_cov %zux%zu for %zu classes %zu features", tag, l->pprob->size, l->mu->row, l->mu->col, l->inv_cov->row, l->inv_cov->col, K, p);
    return 0;
  }
  for (i = 0; i < tr->n; i++) cnt[tr->cls[i]]++;
  for (k = 0; k < K; k++) {
    ld want = (ld)cnt[k] / (ld)tr->n;
    psum += l->pprob->data[k];
    if (!(fabsl((ld)l->pprob->data[k] - want) <= 4 * EPS)) { vh_fail(c, "LDA|prior-is-class-frequency", "%s: class %zu prior %.17g, frequency %zu/%zu", tag, k, l->pprob->data[k], cnt[k], tr->n); ok = 0; }
  }
  if (!(fabsl(psum - 1) <= 8 * EPS)) vh_fail(c, "LDA|priors-sum-to-one", "%s: sum = %.17Lg", tag, psum);
  for (k = 0; k < K; k++) for (j = 0; j < p; j++) {
    ld sum = 0, sa = 0, want, tol;
    for (i = 0; i < tr->n; i++) if ((size_t)tr->cls[i] == k) { sum += LM(tr->X, i, j); sa += fabsl(LM(tr->X, i, j)); }
    want = sum / (ld)cnt[k];
    tol = 100 * EPS * sa + (fabsl(sum) < 1e-5L ? 1e-6L : 0);      /* documented zero-snap of tiny sums */
    vh_max("max_class_mean_dev_over_eps_scale", (double)(fabsl((ld)l->mu->data[k][j] - want) / (EPS * sa + 1e-300L)) * (fabsl(sum) < 1e-5L ? 0 : 1));
    if (!(fabsl((ld)l->mu->data[k][j] - want) <= tol)) { vh_fail(c, "LDA|class-mean", "%s: class %zu feature %zu: mu = %.17g, mean of the class = %.17Lg", tag, k, j, l->mu->data[k][j], want); ok = 0; }
  }
  if (!matrix_all_finite(l->inv_cov)) { vh_fail(c, "LDA|non-finite-inverse-covariance", "%s: kappa(T) = %.3Lg", tag, q->kappa); return 0; }
  for (s = 0; s < 2; s++) {
    dset *d = s ? te : tr;
    matrix *pr = f->prob[s], *pd = f->pred[s];
    size_t bad_label = 0, bad_argmax = 0, ties = 0;
    ld worst = 0;
    if (pr->row != d->n || pr->col != K || pd->row != d->n || pd->col != 1) { vh_fail(c, "LDAPrediction|shape", "%s %s: probability %zux%zu prediction %zux%zu for %zu objects %zu classes", tag, s ? "test" : "train", pr->row, pr->col, pd->row, pd->col, d->n, K); return 0; }
    if (!matrix_all_finite(pr)) { vh_fail(c, "LDAPrediction|non-finite-score", "%s %s", tag, s ? "test" : "train"); return 0; }
    for (i = 0; i < d->n; i++) {
      size_t am = 0; int tie = 0;
      double lab = pd->data[i][0];
      for (k = 1; k < K; k++) if (pr->data[i][k] > pr->data[i][am]) am = k;
      for (k = 0; k < K; k++) if (k != am && pr->data[i][k] == pr->data[i][am]) tie = 1;
      if (!(lab == floor(lab)) || lab < tr->cs || lab > (double)(K - 1 + (size_t)tr->cs)) {
        if (!bad_label++) vh_fail(c, "LDAPrediction|label-not-among-training-labels", "%s %s object %zu: predicted label %.17g, training labels are %d..%zu", tag, s ? "test" : "train", i, lab, tr->cs, K - 1 + (size_t)tr->cs);
        continue;
      }
      if (tie) { ties++; continue; }
      if (lab != (double)(am + (size_t)tr->cs)) {
        if (!bad_argmax++) vh_fail(c, "LDAPrediction|prediction-is-not-argmax-label", "%s %s object %zu: label %.0f but the largest score is class index %zu (labels from %d): scores %.10g vs %.10g", tag, s ? "test" : "train", i, lab, am, tr->cs,
                                   pr->data[i][(size_t)(lab - tr->cs)], pr->data[i][am]);
      }
      /* replay of the stored discriminant */
      for (k = 0; k < K; k++) {
        ld f1 = 0, f2 = 0, a1 = 0, a2 = 0, fk, sc, dv;
        for (a = 0; a < p; a++) for (b = 0; b < p; b++) {
          ld t1 = (ld)l->mu->data[k][a] * l->inv_cov->data[a][b] * LM(d->X, i, b), t2 = (ld)l->mu->data[k][a] * l->inv_cov->data[a][b] * l->mu->data[k][b];
          f1 += t1; f2 += t2; a1 += fabsl(t1); a2 += fabsl(t2);
        }
        fk = f1 - 0.5L * f2 + logl((ld)l->pprob->data[k]);
        sc = a1 + 0.5L * a2 + fabsl(logl((ld)l->pprob->data[k])) + 1e-300L;
        dv = fabsl(fk - pr->data[i][k]) / sc;
        if (!(dv <= worst)) worst = dv;
      }
    }
    vh_obs("objects_predicted", (double)d->n);
    if (ties) vh_obs("objects_with_tied_scores", (double)ties);
    vh_max("max_stored_discriminant_rel_dev_over_eps", (double)(worst / EPS));
    if (!(worst <= 100 * (p + 2) * EPS)) { vh_fail(c, "LDAPrediction|score-is-stored-discriminant", "%s %s: relative deviation from mu_k' C x - mu_k' C mu_k / 2 + ln(prior_k) = %.3Lg", tag, s ? "test" : "train", worst); ok = 0; }
    if (bad_label || bad_argmax) ok = 0;
  }
  return ok;
}

/* metamorphic comparison of two fits: score differences f_k - f_0 and predictions, objects matched through map[] */
static void compare_fits(vh_ctx *c, const char *what, const char *key_scores, const char *key_pred, const char *maxname,
                         size_t K, fitres *f0, fitres *f1, const size_t *map_train, ld tol, ld unit_sum)
{
  int s; size_t i, k, judged = 0, unjudged = 0, diffpred = 0;
  ld worst = 0, sref = 0;
  for (s = 0; s < 2; s++) {
    matrix *p0 = f0->prob[s], *p1 = f1->prob[s];
    if (p0->row != p1->row || p0->col != p1->col) return;
    for (i = 0; i < p0->row; i++) {
      size_t i1 = (s == 0 && map_train) ? map_train[i] : i;
      double top = -INFINITY, second = -INFINITY;
      for (k = 1; k < K; k++) {
        ld d0 = (ld)p0->data[i][k] - p0->data[i][0], d1 = (ld)p1->data[i1][k] - p1->data[i1][0], dv = fabsl(d0 - d1);
        if (!(dv <= worst)) worst = dv;
        if (fabsl(d0) > sref) sref = fabsl(d0);
      }
      for (k = 0; k < K; k++) { double v = p0->data[i][k]; if (v > top) { second = top; top = v; } else if (v > second) second = v; }
      if ((ld)(top - second) <= 2 * tol) { unjudged++; continue; }
      judged++;
      if (f0->pred[s]->data[i][0] != f1->pred[s]->data[i1][0]) {
        if (!diffpred++) vh_fail(c, key_pred, "%s: %s object %zu predicted %.0f before and %.0f after (margin %.3g, tolerance %.3Lg)", what, s ? "test" : "train", i,
                                 f0->pred[s]->data[i][0], f1->pred[s]->data[i1][0], top - second, tol);
      }
    }
  }
  vh_obs("metamorphic_objects_prediction_judged", (double)judged);
  vh_obs("metamorphic_objects_margin_below_tolerance", (double)unjudged);
  vh_max(maxname, (double)(worst / unit_sum));
  if (tol > 0.01L * sref) vh_obs("metamorphic_pairs_tolerance_above_1pct_of_score_range", 1);
  if (!(worst <= tol)) vh_fail(c, key_scores, "%s: max |(f_k - f_0) after - before| = %.3Lg, allowed %.3Lg (largest |f_k - f_0| = %.3Lg)", what, worst, tol, sref);
}

static void run_case(vh_ctx *c)
{
  size_t K = (size_t)vh_int(c, 2, 5), p = (size_t)vh_int(c, 2, 6), i, j, k, a;
  int cs = (int)vh_int(c, 0, 1), balmode = (int)vh_int(c, 0, 2), sepmode = (int)vh_int(c, 0, 2), offmode = (int)vh_int(c, 0, 2);
  size_t nk[MAXK], mk[MAXK];
  double g = vh_logunif(c, -1, 2), ks = vh_logunif(c, 0, 1), D;
  ldm *Q = ldm_new(p, p), *L = ldm_new(p, p), *W = ldm_new(K, p), *MU = ldm_new(K, p);
  ld off[6], minpair = INFINITY;
  dset tr, te, tr2, te2, tr3;
  fitres f0, f1, f2;
  cond q0, q1;
  int have0 = 0, ok0;
  memset(&tr, 0, sizeof tr); memset(&te, 0, sizeof te); memset(&tr2, 0, sizeof tr2); memset(&te2, 0, sizeof te2); memset(&tr3, 0, sizeof tr3);

  /* class sizes */
  {
    size_t n0 = (size_t)vh_int(c, 4, 40);
    for (k = 0; k < K; k++) { nk[k] = balmode == 0 ? n0 : (size_t)vh_int(c, 4, 40); mk[k] = (size_t)vh_int(c, 1, 8); }
    if (balmode == 2) { size_t lo = (size_t)vh_int(c, 0, (long)K - 1), hi = (lo + 1 + (size_t)vh_int(c, 0, (long)K - 2)) % K; nk[lo] = 4; nk[hi] = 40; }
  }
  /* common covariance Sigma = L L', L = Q diag(s): sd ratio up to 10 */
  or_random_orthogonal(Q, gauss_cb, c);
  for (j = 0; j < p; j++) {
    double t = j == 0 ? 0 : j == p - 1 ? 1 : vh_unif(c);
    for (i = 0; i < p; i++) LM(L, i, j) = LM(Q, i, j) * (ld)(g * pow(ks, -t));
  }
  /* class centres: whitened positions rescaled so that the closest pair is D sigma apart */
  D = sepmode == 0 ? vh_range(c, 0.5, 3) : sepmode == 1 ? vh_range(c, 3, 8) : vh_logunif(c, 1, 1.5);
  for (k = 0; k < K; k++) for (j = 0; j < p; j++) LM(W, k, j) = vh_gauss(c);
  for (k = 0; k < K; k++) for (a = k + 1; a < K; a++) { ld s = 0; for (j = 0; j < p; j++) s += (LM(W, k, j) - LM(W, a, j)) * (LM(W, k, j) - LM(W, a, j)); if (sqrtl(s) < minpair) minpair = sqrtl(s); }
  for (j = 0; j < p; j++) off[j] = offmode == 0 ? 0 : (ld)(vh_gauss(c) * g * (offmode == 1 ? vh_range(c, 0, 3) : vh_range(c, 3, 30)));
  for (k = 0; k < K; k++) for (j = 0; j < p; j++) {
    ld s = off[j];
    for (a = 0; a < p; a++) s += LM(L, j, a) * LM(W, k, a) * (ld)D / minpair;
    LM(MU, k, j) = s;
  }
  /* objects */
  {
    int s;
    for (s = 0; s < 2; s++) {
      dset *d = s ? &te : &tr;
      size_t n = 0, r = 0, *perm;
      for (k = 0; k < K; k++) n += s ? mk[k] : nk[k];
      d->n = n; d->p = p; d->K = K; d->cs = cs; d->X = ldm_new(n, p); d->cls = calloc(n, sizeof(int));
      perm = calloc(n, sizeof(size_t));
      vh_perm(c, perm, n);
      for (k = 0; k < K; k++) for (i = 0; i < (s ? mk[k] : nk[k]); i++, r++) {
        ld z[6], zz;
        size_t row = perm[r];
        do { zz = 0; for (j = 0; j < p; j++) { z[j] = vh_gauss(c); zz += z[j] * z[j]; } } while (sepmode == 2 && zz > 9);
        for (j = 0; j < p; j++) { ld v = LM(MU, k, j); for (a = 0; a < p; a++) v += LM(L, j, a) * z[a]; LM(d->X, row, j) = v; }
        d->cls[row] = (int)k;
      }
      free(perm);
      dset_materialise(d);
    }
  }
  {
    size_t nmin = nk[0], nmax = nk[0];
    for (k = 1; k < K; k++) { if (nk[k] < nmin) nmin = nk[k]; if (nk[k] > nmax) nmax = nk[k]; }
    vh_class(c, "K%zu-p%zu-from%d-%s-sep%d-off%d-n%s", K, p, cs, nmin == nmax ? "bal" : nmax >= 4 * nmin ? "unbal4x" : "unbal", sepmode, offmode, tr.n < 30 ? "<30" : tr.n < 100 ? "<100" : "<=200");
    vh_desc(c, "classes=%zu features=%zu labels_from=%d sizes=", K, p, cs);
    for (k = 0; k < K; k++) vh_desc(c, "%zu%s", nk[k], k + 1 < K ? "," : "");
    vh_desc(c, " test_rows=%zu separation=%.3g sigma (mode %d) scale=%.3g sd_ratio=%.3g offset_mode=%d x00=%.17g", te.n, D, sepmode, g, ks, offmode, tr.mx->data[0][0]);
  }
  cond_of(&tr, &te, &q0);
  if (!(q0.kappa < 1e12L)) { vh_skip(c, "total covariance numerically singular"); goto out; }
  vh_desc(c, " kappa(T)=%.3Lg inverse_path=%s", q0.kappa, q0.svd_path ? "svd" : "gauss-jordan");
  vh_hist("kappa_T_log10", (long)floorl(log10l(q0.kappa)));
  vh_obs(q0.svd_path ? "fits_on_svd_path" : "fits_on_gauss_jordan_path", 1);
  vh_obs(cs ? "cases_labels_from_1" : "cases_labels_from_0", 1);

  fit_predict(&tr, &te, &f0); have0 = 1;
  ok0 = check_model(c, "original", &tr, &te, &f0, &q0);
  if (!ok0) goto out;

  /* well separated classes: no training and no test error; the library's own error table agrees */
  if (sepmode == 2) {
    int s; size_t wrong = 0;
    /* test objects are judged when the covariance estimate has at least 3 degrees of freedom per feature: with fewer
       (e.g. 4+4 objects in 6 features) the sample covariance is barely non-singular and no discriminant rule can
       promise an error-free test set; the training objects are always judged */
    int judge_test = tr.n - K >= 3 * p;
    vh_obs(judge_test ? "separated_cases_test_set_judged" : "separated_cases_test_set_not_judged_few_degrees_of_freedom", 1);
    for (s = 0; s < (judge_test ? 2 : 1); s++) {
      dset *d = s ? &te : &tr;
      for (i = 0; i < d->n; i++) if (f0.pred[s]->data[i][0] != (double)(d->cls[i] + cs)) {
        if (!wrong++) {
          vh_fail(c, "LDAPrediction|well-separated-classes-misclassified", "%s object %zu of class label %d predicted as %.0f (closest centres %.3g sigma apart, noise truncated at 3 sigma; score own %.6g, winner %.6g)", s ? "test" : "train", i,
                  d->cls[i] + cs, f0.pred[s]->data[i][0], D, f0.prob[s]->data[i][d->cls[i]], f0.prob[s]->data[i][(size_t)(f0.pred[s]->data[i][0] - cs)]);
        }
      }
    }
    vh_obs("separated_cases", 1);
    if (!wrong && judge_test) {
      dvector *se, *sp, *pp, *np, *ac;
      initDVector(&se); initDVector(&sp); initDVector(&pp); initDVector(&np); initDVector(&ac);
      LDAError(te.mx, te.my, f0.lda, se, sp, pp, np, ac);
      if (se->size != K || sp->size != K || pp->size != K || np->size != K || ac->size != K) vh_fail(c, "LDAError|shape", "sizes %zu %zu %zu %zu %zu for %zu classes", se->size, sp->size, pp->size, np->size, ac->size, K);
      else for (k = 0; k < K; k++) {
        /* a class of the test set always has >= 1 object; with zero errors every rate with a non-empty denominator is 1 */
        if (se->data[k] != 1 || ac->data[k] != 1 || pp->data[k] != 1 || (te.n > mk[k] && (sp->data[k] != 1 || np->data[k] != 1))) {
          vh_fail(c, "LDAError|error-free-prediction-rates", "class %zu: sens %.6g spec %.6g ppv %.6g npv %.6g acc %.6g with every test object predicted correctly", k, se->data[k], sp->data[k], pp->data[k], np->data[k], ac->data[k]);
          break;
        }
      }
      DelDVector(&se); DelDVector(&sp); DelDVector(&pp); DelDVector(&np); DelDVector(&ac);
    }
  }

  /* affine re-coding x -> A x + shift of training and test features, kappa(A) <= 100 */
  {
    ldm *A = ldm_new(p, p), *Qa = ldm_new(p, p), *Qb = ldm_new(p, p);
    double ka = vh_logunif(c, 0, 2), ga = vh_logunif(c, -1, 1), sh[6];
    int s;
    or_random_orthogonal(Qa, gauss_cb, c); or_random_orthogonal(Qb, gauss_cb, c);
    for (i = 0; i < p; i++) for (j = 0; j < p; j++) {
      ld v = 0;
      for (k = 0; k < p; k++) { double t = k == 0 ? 0 : k == p - 1 ? 1 : (double)k / (double)(p - 1); v += LM(Qa, i, k) * (ld)(ga * pow(ka, -t)) * LM(Qb, j, k); }
      LM(A, i, j) = v;
    }
    for (j = 0; j < p; j++) sh[j] = vh_coin(c, 0.25) ? 0 : vh_gauss(c) * g * ga * vh_logunif(c, -1, 1);
    for (s = 0; s < 2; s++) {
      dset *d0 = s ? &te : &tr, *d = s ? &te2 : &tr2;
      d->n = d0->n; d->p = p; d->K = K; d->cs = cs; d->X = ldm_new(d0->n, p); d->cls = calloc(d0->n, sizeof(int));
      for (i = 0; i < d0->n; i++) {
        d->cls[i] = d0->cls[i];
        for (j = 0; j < p; j++) { ld v = sh[j]; for (k = 0; k < p; k++) v += LM(A, j, k) * LM(d0->X, i, k); LM(d->X, i, j) = v; }
      }
      dset_materialise(d);
    }
    cond_of(&tr2, &te2, &q1);
    vh_desc(c, " kappa(A)=%.3g scaleA=%.3g kappa(T')=%.3Lg path'=%s", ka, ga, q1.kappa, q1.svd_path ? "svd" : "gauss-jordan");
    if (q0.snap || q1.snap) vh_obs("affine_pairs_not_judged_zero_snap_window", 1);
    else if (!(q1.kappa < 1e12L)) vh_obs("affine_pairs_not_judged_singular", 1);
    else {
      fit_predict(&tr2, &te2, &f1);
      vh_obs("affine_pairs", 1);
      vh_obs(q1.svd_path ? "fits_on_svd_path" : "fits_on_gauss_jordan_path", 1);
      if (check_model(c, "affine-recoded", &tr2, &te2, &f1, &q1))
        compare_fits(c, "x -> A x + c", "LDA|affine-invariance-of-score-differences", "LDA|affine-invariance-of-predictions",
                     (q0.svd_path || q1.svd_path) ? "max_affine_dev_over_unit_svd_path" : "max_affine_dev_over_unit_gauss_jordan", K, &f0, &f1, NULL, KTOL * (q0.unit + q1.unit), q0.unit + q1.unit);
      fitres_free(&f1);
    }
    ldm_free(A); ldm_free(Qa); ldm_free(Qb);
  }

  /* row permutation of the training set */
  {
    size_t *perm = calloc(tr.n, sizeof(size_t)), *inv = calloc(tr.n, sizeof(size_t));
    vh_perm(c, perm, tr.n);
    tr3.n = tr.n; tr3.p = p; tr3.K = K; tr3.cs = cs; tr3.X = ldm_new(tr.n, p); tr3.cls = calloc(tr.n, sizeof(int));
    for (i = 0; i < tr.n; i++) { inv[perm[i]] = i; tr3.cls[i] = tr.cls[perm[i]]; for (j = 0; j < p; j++) LM(tr3.X, i, j) = LM(tr.X, perm[i], j); }
    dset_materialise(&tr3);
    if (q0.snap) vh_obs("permutation_pairs_not_judged_zero_snap_window", 1);
    else {
      fit_predict(&tr3, &te, &f2);
      vh_obs("permutation_pairs", 1);
      if (check_model(c, "row-permuted", &tr3, &te, &f2, &q0))
        compare_fits(c, "training rows permuted", "LDA|permutation-invariance-of-score-differences", "LDA|permutation-invariance-of-predictions",
                     q0.svd_path ? "max_permutation_dev_over_unit_svd_path" : "max_permutation_dev_over_unit_gauss_jordan", K, &f0, &f2, inv, KTOL * 2 * q0.unit, 2 * q0.unit);
      fitres_free(&f2);
    }
    free(perm); free(inv);
  }

  /* perfect predictions, labels numbered from 0: every one-vs-rest ROC area is 1 */
  {
    matrix *y0, *y1;
    dvector *ra, *pa; tensor *roc, *prc;
    int use_pred = sepmode == 2 && vh_coin(c, 0.5), with_curves = vh_coin(c, 0.5);
    if (use_pred) for (i = 0; i < tr.n; i++) if (f0.pred[0]->data[i][0] != (double)(tr.cls[i] + cs)) use_pred = 0;   /* only perfect predictions are in the clause */
    size_t want = K == 2 ? 1 : K;
    NewMatrix(&y0, tr.n, 1); NewMatrix(&y1, tr.n, 1);
    for (i = 0; i < tr.n; i++) { y0->data[i][0] = (double)tr.cls[i]; y1->data[i][0] = use_pred ? f0.pred[0]->data[i][0] - cs : (double)tr.cls[i]; }
    initDVector(&ra); initDVector(&pa); initTensor(&roc); initTensor(&prc);
    LDAMulticlassStatistics(y0, y1, with_curves ? roc : NULL, ra, with_curves ? prc : NULL, pa);
    vh_obs("multiclass_statistics_calls", 1);
    if (ra->size != want || pa->size != want) vh_fail(c, "LDAMulticlassStatistics|one-entry-per-class", "%zu ROC areas and %zu PR areas for %zu classes (expected %zu)", ra->size, pa->size, K, want);
    else for (k = 0; k < want; k++) {
      vh_max("max_perfect_auc_dev", fabs(ra->data[k] - 1));
      vh_max("max_perfect_pr_area_dev_observed_only", fabs(pa->data[k] - 1));
      if (!(fabs(ra->data[k] - 1) <= 1e-12)) { vh_fail(c, "LDAMulticlassStatistics|perfect-prediction-auc", "class %zu of %zu: ROC AUC = %.17g for predictions identical to the truth (%zu objects)", k, K, ra->data[k], tr.n); break; }
    }
    if (with_curves && roc->order != want) vh_fail(c, "LDAMulticlassStatistics|one-curve-per-class", "%zu ROC curves for %zu classes", roc->order, K);
    /* the same output containers used for a second set of (perfect) predictions, as a model object keeps them (third seeded wave):
       the routine appends, so the containers then hold two entries / curves per class - and every area is still 1 */
    if ((c->idx & 1) && ra->size == want) {
      LDAMulticlassStatistics(y0, y1, with_curves ? roc : NULL, ra, with_curves ? prc : NULL, pa);
      vh_obs("multiclass_statistics_second_calls_into_the_same_containers", 1);
      if (ra->size != 2 * want || pa->size != 2 * want) vh_fail(c, "LDAMulticlassStatistics|second-call-entries", "%zu ROC areas and %zu PR areas after two calls for %zu classes", ra->size, pa->size, K);
      else for (k = 0; k < 2 * want; k++) if (!(fabs(ra->data[k] - 1) <= 1e-12)) { vh_fail(c, "LDAMulticlassStatistics|perfect-prediction-auc|second-call-into-the-same-containers", "entry %zu: ROC AUC = %.17g for predictions identical to the truth", k, ra->data[k]); break; }
      if (with_curves && roc->order != 2 * want) vh_fail(c, "LDAMulticlassStatistics|second-call-curves", "%zu ROC curves after two calls for %zu classes", roc->order, K);
      if (with_curves) for (k = 0; k < roc->order; k++) if (roc->m[k]->row == 0 || roc->m[k]->col < 2) { vh_fail(c, "LDAMulticlassStatistics|empty-curve|second-call-into-the-same-containers", "ROC curve %zu is %zux%zu", k, roc->m[k]->row, roc->m[k]->col); break; }
    }
    DelDVector(&ra); DelDVector(&pa); DelTensor(&roc); DelTensor(&prc); DelMatrix(&y0); DelMatrix(&y1);
  }

out:
  if (have0) fitres_free(&f0);
  dset_free(&tr); dset_free(&te); dset_free(&tr2); dset_free(&te2); dset_free(&tr3);
  ldm_free(Q); ldm_free(L); ldm_free(W); ldm_free(MU);
}

const vh_driver VH_DRIVER = { "C08", ncases, run_case, NULL, 60 };
