/* c05.c - C05: cross-validation predictions are out-of-sample and cover every object once.
 *
 * Two monitors share the case index range (every CV_EVERY-th index is a cross-validation run, the
 * rest are partition cases, so the expensive cases are spread evenly over the shards):
 *
 *  partition monitor  random_kfold_group_generator / kfold_group_train_test_split / train_test_split
 *      all (objects 2..30, groups 1..objects) pairs are cycled, hostile seeds; the data rows carry a
 *      unique id in x[.][0] and y[.][0] so every copied row has an unambiguous history.
 *  out-of-sample monitor  LeaveOneOut / KFoldCV / BootstrapRandomGroupsCV with PLS, PLS-DA, MLR, LDA
 *      oracle 1  refit through the public API on exactly the complementary folds (the driver rebuilds
 *                every fold itself; for bootstrap it recomputes the worker seeds and asks
 *                random_kfold_group_generator for the same partition)
 *      oracle 2  response-perturbation probe: change object i's response and re-run - row i of the
 *                predictions must be bit-identical, some other row must change
 *      oracle 3  residual[i][ny*a+j] = prediction[i][ny*a+j] - y[i][j]
 *      finite predictions are demanded when every training fold is adequate for the learner.
 */
#include "drv_util.h"

#define CV_EVERY 50
#define NCOMBO 464 /* sum_{n=2..30} n : all (objects, groups) pairs */
#define XID(i) (1000.0 + (double)(i))
#define YID(i) (-(2000.0 + (double)(i)))

static long ncases(int tier) { return vh_is_tsan() ? (tier ? 3000 : 160) : (tier ? 1000000 : 40000); }
static int is_cv_case(long idx) { return vh_is_tsan() ? (int)(idx & 1) : (idx % CV_EVERY == CV_EVERY - 1); }

/* ------------------------------------------------------------------ small helpers */
static matrix *rows_of(matrix *src, const size_t *ids, size_t k)
{
  matrix *m; size_t i, j;
  NewMatrix(&m, k, src->col);
  for (i = 0; i < k; i++) for (j = 0; j < src->col; j++) m->data[i][j] = src->data[ids[i]][j];
  return m;
}

/* ------------------------------------------------------------------ partition monitor */

/* gid must be a groups x ceil(n/groups) matrix holding every id 0..n-1 exactly once and -1 elsewhere */
static int check_gid(vh_ctx *c, matrix *gid, size_t g, size_t n, int strict_shape)
{
  size_t i, j, empty = 0, *seen = calloc(n, sizeof(size_t));
  int ok = 1;
  if (strict_shape && (gid->row != g || gid->col != (n + g - 1) / g)) {
    vh_fail(c, "random_kfold_group_generator|shape", "gid is %zux%zu for objects=%zu groups=%zu (expected %zux%zu)", gid->row, gid->col, n, g, g, (n + g - 1) / g);
    ok = 0;
  }
  for (i = 0; i < gid->row && ok; i++) for (j = 0; j < gid->col; j++) {
    double v = gid->data[i][j];
    if (v == -1.0) { empty++; continue; }
    if (!(v >= 0 && v < (double)n && v == floor(v))) {
      vh_fail(c, "random_kfold_group_generator|id-out-of-range", "gid[%zu][%zu]=%.17g objects=%zu groups=%zu", i, j, v, n, g);
      ok = 0; break;
    }
    seen[(size_t)v]++;
  }
  for (i = 0; i < n && ok; i++) {
    if (seen[i] == 0) { vh_fail(c, "random_kfold_group_generator|object-left-out", "object %zu in no group (objects=%zu groups=%zu)", i, n, g); ok = 0; }
    else if (seen[i] > 1) { vh_fail(c, "random_kfold_group_generator|object-assigned-twice", "object %zu appears %zu times (objects=%zu groups=%zu)", i, seen[i], n, g); ok = 0; }
  }
  if (ok && strict_shape && empty != gid->row * gid->col - n) { vh_fail(c, "random_kfold_group_generator|padding", "%zu empty slots, expected %zu", empty, gid->row * gid->col - n); ok = 0; }
  free(seen);
  return ok;
}

/* decode the rows of a (x,y) part: every row must be an intact copy of one source row, x and y of the same object.
   ids[k] = source object of row k (n on failure). returns 1 when all rows decode */
static int decode_rows(vh_ctx *c, const char *fn, const char *part, matrix *xm, matrix *ym, matrix *X, matrix *Y, size_t *ids)
{
  size_t k, j, n = X->row;
  char key[128];
  int ok = 1;
  if (xm->row != ym->row || (xm->row && (xm->col != X->col || ym->col != Y->col))) {
    snprintf(key, sizeof key, "%s|%s-shape", fn, part);
    vh_fail(c, key, "x part %zux%zu y part %zux%zu source x cols %zu y cols %zu", xm->row, xm->col, ym->row, ym->col, X->col, Y->col);
    return 0;
  }
  for (k = 0; k < xm->row; k++) {
    double v = xm->data[k][0] - 1000.0, w = -ym->data[k][0] - 2000.0;
    ids[k] = n;
    if (!(v >= 0 && v < (double)n && v == floor(v))) {
      snprintf(key, sizeof key, "%s|%s-row-not-from-source", fn, part);
      vh_fail(c, key, "row %zu carries x id code %.17g", k, xm->data[k][0]); ok = 0; continue;
    }
    if (w != v) {
      snprintf(key, sizeof key, "%s|%s-xy-pairing", fn, part);
      vh_fail(c, key, "row %zu: x of object %.0f paired with y id code %.17g", k, v, ym->data[k][0]); ok = 0; continue;
    }
    ids[k] = (size_t)v;
    for (j = 0; j < X->col; j++) if (memcmp(&xm->data[k][j], &X->data[ids[k]][j], sizeof(double))) break;
    if (j == X->col) { for (j = 0; j < Y->col; j++) if (memcmp(&ym->data[k][j], &Y->data[ids[k]][j], sizeof(double))) break; if (j == Y->col) continue; }
    snprintf(key, sizeof key, "%s|%s-row-not-intact", fn, part);
    vh_fail(c, key, "row %zu (object %zu) differs from the source row", k, ids[k]); ok = 0;
  }
  return ok;
}

/* train/test must be a partition of 0..n-1; expected_test (nte ids in order) when the order is prescribed */
static void check_partition(vh_ctx *c, const char *fn, matrix *xtr, matrix *ytr, matrix *xte, matrix *yte, matrix *X, matrix *Y,
                            const size_t *expected_test, size_t nte, int test_order_matters)
{
  size_t n = X->row, k, *idtr = calloc(n + xtr->row + 1, sizeof(size_t)), *idte = calloc(n + xte->row + 1, sizeof(size_t));
  int *where = calloc(n, sizeof(int));
  char key[128];
  int ok;
  ok = decode_rows(c, fn, "test", xte, yte, X, Y, idte);
  ok &= decode_rows(c, fn, "train", xtr, ytr, X, Y, idtr);
  if (!ok) goto done;
  if (xte->row != nte) { snprintf(key, sizeof key, "%s|test-size", fn); vh_fail(c, key, "%zu test rows, expected %zu (objects %zu)", xte->row, nte, n); goto done; }
  if (xtr->row + xte->row != n) { snprintf(key, sizeof key, "%s|train-plus-test-not-all", fn); vh_fail(c, key, "train %zu + test %zu != objects %zu", xtr->row, xte->row, n); goto done; }
  for (k = 0; k < xte->row; k++) {
    if (where[idte[k]]) { snprintf(key, sizeof key, "%s|test-duplicate", fn); vh_fail(c, key, "object %zu twice in test", idte[k]); goto done; }
    where[idte[k]] = 1;
  }
  for (k = 0; k < xtr->row; k++) {
    if (where[idtr[k]] == 1) { snprintf(key, sizeof key, "%s|train-test-overlap", fn); vh_fail(c, key, "object %zu is in test and in train", idtr[k]); goto done; }
    if (where[idtr[k]] == 2) { snprintf(key, sizeof key, "%s|train-duplicate", fn); vh_fail(c, key, "object %zu twice in train", idtr[k]); goto done; }
    where[idtr[k]] = 2;
  }
  for (k = 0; k < n; k++) if (!where[k]) { snprintf(key, sizeof key, "%s|object-lost", fn); vh_fail(c, key, "object %zu neither in train nor in test", k); goto done; }
  if (expected_test) {
    for (k = 0; k < nte; k++) if (where[expected_test[k]] != 1) { snprintf(key, sizeof key, "%s|wrong-test-set", fn); vh_fail(c, key, "object %zu should be in test", expected_test[k]); goto done; }
    if (test_order_matters) for (k = 0; k < nte; k++) if (idte[k] != expected_test[k]) {
      snprintf(key, sizeof key, "%s|test-order", fn);
      vh_fail(c, key, "test row %zu is object %zu, slot order says %zu (callers map predictions back by slot order)", k, idte[k], expected_test[k]); goto done;
    }
  }
done:
  free(idtr); free(idte); free(where);
}

static void partition_case(vh_ctx *c)
{
  long pidx = c->idx - c->idx / CV_EVERY;   /* running number among the partition cases */
  long combo = pidx % NCOMBO;
  size_t n = 2, g, px, py, i, j, gi;
  unsigned int seed, seed0;
  int seedkind = (int)vh_int(c, 0, 5), mode;
  matrix *gid, *gid2, *X, *Y;
  while (combo >= (long)n) { combo -= (long)n; n++; }
  g = (size_t)combo + 1;
  if (vh_is_tsan()) { n = (size_t)vh_int(c, 2, 30); g = (size_t)vh_int(c, 1, (long)n); }
  switch (seedkind) {
    case 0: seed = (unsigned int)vh_int(c, 0, 80); break;               /* what the bootstrap workers use: small sums */
    case 1: seed = (unsigned int)vh_u64(c); break;
    case 2: seed = 0xFFFFFFFFu - (unsigned int)vh_int(c, 0, 3); break;
    case 3: seed = (unsigned int)vh_int(c, 0, 1) ? 0u : 0x80000000u; break;
    default: seed = (unsigned int)vh_int(c, 0, 100000); break;
  }
  mode = vh_coin(c, 0.25);   /* 1: hand-made gid with -1 anywhere (what KFoldCV builds from unbalanced labels, and beyond) */
  px = (size_t)vh_int(c, 1, 4); py = (size_t)vh_int(c, 1, 3);
  vh_class(c, "part-n%zu-g%s-%s", n, g == 1 ? "1" : g == n ? "n" : n % g == 0 ? "div" : "nondiv", mode ? "usergid" : "randgid");
  vh_desc(c, "partition objects=%zu groups=%zu seed=%u mode=%d px=%zu py=%zu", n, g, seed, mode, px, py);
  NewMatrix(&X, n, px); NewMatrix(&Y, n, py);
  for (i = 0; i < n; i++) {
    X->data[i][0] = XID(i); Y->data[i][0] = YID(i);
    for (j = 1; j < px; j++) X->data[i][j] = vh_gauss(c) * 10;
    for (j = 1; j < py; j++) Y->data[i][j] = vh_gauss(c) * 10;
  }
  initMatrix(&gid);
  if (!mode) {
    seed0 = seed;
    random_kfold_group_generator(gid, g, n, &seed);
    vh_obs("partitions_generated", 1);
    if (n % g) vh_obs("partitions_nondividing_group_count", 1);
    if (!check_gid(c, gid, g, n, 1)) goto out;
    /* same seed -> same partition (the bootstrap oracle relies on it, so does every replay) */
    initMatrix(&gid2);
    seed = seed0;
    random_kfold_group_generator(gid2, g, n, &seed);
    if (!matrix_bitequal(gid, gid2)) vh_fail(c, "random_kfold_group_generator|not-reproducible", "two calls with seed %u give different partitions (objects=%zu groups=%zu)", seed0, n, g);
    DelMatrix(&gid2);
    for (i = 0; i < gid->row; i++) { size_t e = 0; for (j = 0; j < gid->col; j++) if (gid->data[i][j] == -1.0) e++; if (e == gid->col) vh_obs("empty_groups_seen", 1); }
  } else {
    /* ids scattered over a groups x slots matrix, -1 anywhere */
    size_t cols = (n + g - 1) / g + (size_t)vh_int(c, 0, 3), cells, *perm;
    cells = g * cols;
    perm = malloc(sizeof(size_t) * cells);
    vh_perm(c, perm, cells);
    ResizeMatrix(gid, g, cols);
    for (i = 0; i < g; i++) for (j = 0; j < cols; j++) gid->data[i][j] = -1.0;
    for (i = 0; i < n; i++) gid->data[perm[i] / cols][perm[i] % cols] = (double)i;
    free(perm);
  }
  /* every group as test group */
  for (gi = 0; gi < gid->row; gi++) {
    matrix *xtr, *ytr, *xte, *yte;
    size_t *exp_te = malloc(sizeof(size_t) * (gid->col + 1)), nte = 0;
    for (j = 0; j < gid->col; j++) if (gid->data[gi][j] != -1.0) exp_te[nte++] = (size_t)gid->data[gi][j];
    initMatrix(&xtr); initMatrix(&ytr); initMatrix(&xte); initMatrix(&yte);
    kfold_group_train_test_split(X, Y, gid, gi, xtr, ytr, xte, yte);
    vh_obs("kfold_splits_checked", 1);
    check_partition(c, "kfold_group_train_test_split", xtr, ytr, xte, yte, X, Y, exp_te, nte, 1);
    DelMatrix(&xtr); DelMatrix(&ytr); DelMatrix(&xte); DelMatrix(&yte);
    free(exp_te);
    if (c->nviol) break;
  }
  /* train_test_split */
  {
    matrix *xtr, *ytr, *xte, *yte;
    uivector *tid;
    int tk = (int)vh_int(c, 0, 7);
    double ts = tk == 0 ? 0.2 : tk == 1 ? -0.5 : tk == 2 ? 1.5 : tk == 3 ? 1.0 : tk == 4 ? 0.0 : vh_unif(c), eff, want;
    unsigned int s2 = (unsigned int)vh_u64(c) >> (vh_coin(c, 0.5) ? 24 : 0);
    eff = (ts > 1.0 || ts < 0.0) ? 0.2 : ts;
    want = eff * (double)n;
    initMatrix(&xtr); initMatrix(&ytr); initMatrix(&xte); initMatrix(&yte); initUIVector(&tid);
    vh_desc(c, " tts testsize=%.17g seed=%u", ts, s2);
    train_test_split(X, Y, ts, xtr, ytr, xte, yte, tid, &s2);
    vh_obs("train_test_splits_checked", 1);
    if (tid->size != xte->row) vh_fail(c, "train_test_split|testids-size", "%zu test ids for %zu test rows", tid->size, xte->row);
    else if (!((double)xte->row >= want - 1e-9 && (double)xte->row < want + 1.0 + 1e-9))
      vh_fail(c, "train_test_split|test-size", "%zu test rows for testsize %.17g of %zu objects", xte->row, ts, n);
    else {
      int bad = 0;
      for (i = 0; i < tid->size; i++) if (tid->data[i] >= n) { vh_fail(c, "train_test_split|testid-out-of-range", "test id %zu objects %zu", tid->data[i], n); bad = 1; break; }
      if (!bad) check_partition(c, "train_test_split", xtr, ytr, xte, yte, X, Y, tid->data, tid->size, 1);
    }
    DelMatrix(&xtr); DelMatrix(&ytr); DelMatrix(&xte); DelMatrix(&yte); DelUIVector(&tid);
  }
out:
  DelMatrix(&gid); DelMatrix(&X); DelMatrix(&Y);
}

/* ------------------------------------------------------------------ out-of-sample monitor */
enum { M_LOO = 0, M_KFOLD = 1, M_BOOT = 2 };
enum { A_PLS = 0, A_PLSDA = 1, A_MLR = 2, A_LDA = 3 };
static const char *MNAME[] = { "LeaveOneOut", "KFoldCV", "BootstrapRandomGroupsCV" };
static const char *ANAME[] = { "PLS", "PLSDA", "MLR", "LDA" };
static const AlgorithmType ATYPE[] = { _PLS_, _PLS_DA_, _MLR_, _LDA_ };

typedef struct { size_t *te, nte, *tr, ntr; size_t iter; } fold_t;
typedef struct { fold_t *f; size_t nf, cap; } folds_t;

static void folds_add(folds_t *F, const size_t *te, size_t nte, const size_t *tr, size_t ntr, size_t iter)
{
  fold_t *f;
  if (F->nf == F->cap) { F->cap = F->cap ? 2 * F->cap : 32; F->f = realloc(F->f, F->cap * sizeof(fold_t)); }
  f = &F->f[F->nf++];
  f->te = malloc(sizeof(size_t) * (nte + 1)); f->tr = malloc(sizeof(size_t) * (ntr + 1));
  memcpy(f->te, te, sizeof(size_t) * nte); memcpy(f->tr, tr, sizeof(size_t) * ntr);
  f->nte = nte; f->ntr = ntr; f->iter = iter;
}
static void folds_free(folds_t *F)
{
  size_t i;
  for (i = 0; i < F->nf; i++) { free(F->f[i].te); free(F->f[i].tr); }
  free(F->f); F->f = NULL; F->nf = F->cap = 0;
}
/* folds of one groups x slots id matrix: test = group g in slot order, train = the other groups in group/slot order */
static void folds_from_gid(folds_t *F, double **gid, size_t rows, size_t cols, size_t n, size_t iter)
{
  size_t g, i, j, *te = malloc(sizeof(size_t) * (n + 1)), *tr = malloc(sizeof(size_t) * (n + 1));
  for (g = 0; g < rows; g++) {
    size_t nte = 0, ntr = 0;
    for (i = 0; i < rows; i++) for (j = 0; j < cols; j++) {
      if (gid[i][j] == -1.0) continue;
      if (i == g) te[nte++] = (size_t)gid[i][j]; else tr[ntr++] = (size_t)gid[i][j];
    }
    folds_add(F, te, nte, tr, ntr, iter);
  }
  free(te); free(tr);
}

typedef struct {
  int method, algo;
  size_t n, p, ny, nlv_in, nlv, scol, xs, ys, G, iters, nt;
  size_t C, cstart;          /* LDA: classes, first label */
  uivector *labels;          /* k-fold */
} cvcfg;

/* NIPALS ceiling (H3): with adequate folds the loops must end */
static long g_cv_ticks;
static int g_cv_tripped;
#define TICK_CEILING 3000000L
static void cv_tick(int loop_id, size_t comp, double conv)
{
  long t = __atomic_add_fetch(&g_cv_ticks, 1, __ATOMIC_RELAXED);
  (void)loop_id; (void)comp;
  if (t > TICK_CEILING && !__atomic_exchange_n(&g_cv_tripped, 1, __ATOMIC_SEQ_CST))
    vh_fail_now(vh_current(), "CV|nipals-does-not-converge-on-adequate-folds", "more than %ld PLS NIPALS iterations in one case (last convergence value %.3g)", TICK_CEILING, conv);
}

/* refit through the public API and predict the held-out rows: out is rows(xte) x scol */
static matrix *fit_predict(const cvcfg *k, matrix *xtr, matrix *ytr, matrix *xte)
{
  matrix *out;
  initMatrix(&out);
  if (k->algo == A_PLS || k->algo == A_PLSDA) {
    PLSMODEL *m; NewPLSModel(&m);
    PLS(xtr, ytr, k->nlv, (int)k->xs, (int)k->ys, m, NULL);
    PLSYPredictorAllLV(xte, m, NULL, out);
    DelPLSModel(&m);
  } else if (k->algo == A_MLR) {
    MLRMODEL *m; NewMLRModel(&m);
    MLR(xtr, ytr, m, NULL);
    MLRPredictY(xte, NULL, m, out, NULL, NULL, NULL);
    DelMLRModel(&m);
  } else {
    LDAMODEL *m; matrix *pf, *pr, *pdf;
    NewLDAModel(&m);
    LDA(xtr, ytr, m);
    initMatrix(&pf); initMatrix(&pr); initMatrix(&pdf);
    LDAPrediction(xte, m, pf, pr, pdf, out);
    DelMatrix(&pf); DelMatrix(&pr); DelMatrix(&pdf);
    DelLDAModel(&m);
  }
  vh_obs("oracle_refits", 1);
  return out;
}

/* expected predictions: mean over the folds (iterations < upto) in which the object was held out */
static int expected_predictions(vh_ctx *c, const cvcfg *k, const folds_t *F, matrix *X, matrix *Y, size_t upto, double **E /* n x scol */)
{
  size_t i, j, f, *cnt = calloc(k->n, sizeof(size_t));
  int ok = 1;
  for (i = 0; i < k->n; i++) for (j = 0; j < k->scol; j++) E[i][j] = 0.0;
  for (f = 0; f < F->nf && ok; f++) {
    const fold_t *fo = &F->f[f];
    matrix *xtr, *ytr, *xte, *yp;
    if (fo->iter >= upto || fo->nte == 0) continue;
    xtr = rows_of(X, fo->tr, fo->ntr); ytr = rows_of(Y, fo->tr, fo->ntr); xte = rows_of(X, fo->te, fo->nte);
    yp = fit_predict(k, xtr, ytr, xte);
    if (yp->row != fo->nte || yp->col != k->scol) {
      vh_fail(c, "oracle|refit-shape", "%s refit predicts %zux%zu for %zu held-out rows, %zu columns expected", ANAME[k->algo], yp->row, yp->col, fo->nte, k->scol);
      ok = 0;
    } else for (i = 0; i < fo->nte; i++) {
      cnt[fo->te[i]]++;
      for (j = 0; j < k->scol; j++) E[fo->te[i]][j] += yp->data[i][j];
    }
    DelMatrix(&xtr); DelMatrix(&ytr); DelMatrix(&xte); DelMatrix(&yp);
  }
  for (i = 0; i < k->n && ok; i++) {
    if (cnt[i] != upto) {
      vh_fail(c, "random_kfold_group_generator|object-not-held-out-once-per-iteration", "object %zu held out %zu times in %zu iterations (objects=%zu groups=%zu)", i, cnt[i], upto, k->n, k->G);
      ok = 0; break;
    }
    for (j = 0; j < k->scol; j++) E[i][j] /= (double)cnt[i];
  }
  free(cnt);
  return ok;
}

static void run_cv(const cvcfg *k, matrix *X, matrix *Y, matrix *py, matrix *pres)
{
  MODELINPUT in = initModelInput();
  in.mx = X; in.my = Y; in.nlv = k->nlv_in; in.xautoscaling = k->xs; in.yautoscaling = k->ys;
  if (k->method == M_LOO) LeaveOneOut(&in, ATYPE[k->algo], py, pres, k->nt, NULL, 0);
  else if (k->method == M_KFOLD) KFoldCV(&in, k->labels, ATYPE[k->algo], py, pres, k->nt, NULL, 0);
  else BootstrapRandomGroupsCV(&in, k->G, k->iters, ATYPE[k->algo], py, pres, k->nt, NULL, 0);
  vh_obs("cv_runs", 1);
}

/* max deviation of got (matrix) from E relative to the scale; NaN matches NaN, inf matches the same inf */
static double dev_from(matrix *got, double **E, size_t n, size_t scol, double scale, size_t *wi, size_t *wj)
{
  size_t i, j; double worst = 0;
  for (i = 0; i < n; i++) for (j = 0; j < scol; j++) {
    double a = got->data[i][j], b = E[i][j], d;
    if (a != a && b != b) continue;
    if (isinf(a) || isinf(b)) { if (a == b) continue; d = INFINITY; }
    else d = fabs(a - b) / scale;
    if (d != d) d = INFINITY;
    if (d > worst) { worst = d; *wi = i; *wj = j; }
  }
  return worst;
}

static void check_residuals(vh_ctx *c, const cvcfg *k, matrix *Y, matrix *py, matrix *pres, const char *what)
{
  size_t i, j; char key[128];
  if (pres->row != k->n || pres->col != k->scol) {
    snprintf(key, sizeof key, "%s|residual-shape", MNAME[k->method]);
    vh_fail(c, key, "%s %s: residuals %zux%zu, expected %zux%zu", ANAME[k->algo], what, pres->row, pres->col, k->n, k->scol);
    return;
  }
  for (i = 0; i < k->n; i++) for (j = 0; j < k->scol; j++) {
    double p = py->data[i][j], y = Y->data[i][j % k->ny], want = p - y, got = pres->data[i][j], d;
    if (want != want) { if (got != got) continue; d = INFINITY; }
    else if (isinf(want)) d = (got == want) ? 0 : INFINITY;
    else d = fabs(got - want) / (fabs(p) + fabs(y) + 1e-300);
    if (d != d) d = INFINITY;
    vh_max("max_residual_identity_rel_dev", d);
    if (d > 8 * 2.220446049250313e-16) {
      snprintf(key, sizeof key, "%s|residual-not-prediction-minus-observed", MNAME[k->method]);
      vh_fail(c, key, "%s %s: object %zu column %zu (response %zu, %zu LV): residual %.17g, prediction %.17g, observed %.17g", ANAME[k->algo], what, i, j, j % k->ny, j / k->ny + 1, got, p, y);
      return;
    }
  }
  vh_obs("residual_cells_checked", (double)(k->n * k->scol));
}

/* adequacy of the training folds for the learner; hazard = a fold on which the fit may not return (kept out of the library) */
static void fold_adequacy(const cvcfg *k, const folds_t *F, matrix *Y, int margin, int *adequate, int *hazard)
{
  size_t f, i, j;
  *adequate = 1; *hazard = 0;
  for (f = 0; f < F->nf; f++) {
    const fold_t *fo = &F->f[f];
    if (k->algo == A_PLS || k->algo == A_PLSDA) {
      if (fo->ntr < k->nlv + 2) { *adequate = 0; *hazard = 1; }
      for (j = 0; j < k->ny; j++) {
        int varies = 0;
        for (i = 1; i < fo->ntr; i++) if (Y->data[fo->tr[i]][j] != Y->data[fo->tr[0]][j]) { varies++; }
        if (varies < 1 + margin) { *adequate = 0; *hazard = 1; }
      }
    } else if (k->algo == A_MLR) {
      if (fo->ntr < k->p + 2) *adequate = 0;
      if (fo->ntr < 1) *hazard = 1;
    } else {
      size_t cnt[8] = { 0 }, cl;
      for (i = 0; i < fo->ntr; i++) { long l = (long)Y->data[fo->tr[i]][0] - (long)k->cstart; if (l >= 0 && l < 8) cnt[l]++; }
      for (cl = 0; cl < k->C; cl++) if (cnt[cl] < (size_t)(2 + margin)) { *adequate = 0; *hazard = 1; }
      if (fo->ntr < k->p + k->C + 1) { *adequate = 0; *hazard = 1; }
    }
  }
}

static void cv_case(vh_ctx *c)
{
  cvcfg k;
  folds_t F = { NULL, 0, 0 };
  matrix *X = NULL, *Y = NULL, *X0 = NULL, *Y0 = NULL, *py = NULL, *pres = NULL;
  double **E1 = NULL, **E2 = NULL, scale;
  size_t i, j, Kup, nprobe, pr;
  int adequate, hazard, want_res, nondiv = 0, r;
  char key[160];

  memset(&k, 0, sizeof k);
  k.method = (int)vh_int(c, 0, 2);
  r = (int)vh_int(c, 0, 9);
  k.algo = r < 3 ? A_PLS : r < 4 ? A_PLSDA : r < 7 ? A_MLR : A_LDA;
  if (k.method == M_KFOLD && k.algo == A_LDA) k.algo = vh_coin(c, 0.5) ? A_PLS : A_MLR;   /* KFoldCV has no LDA branch */
  k.n = (size_t)vh_int(c, 6, 30);
  k.p = (size_t)vh_int(c, 1, 6);
  k.ny = (size_t)vh_int(c, 1, 3);
  k.nt = (size_t)vh_int(c, 1, 8);
  k.iters = 1; k.G = 0;
  if (k.algo == A_LDA) {
    k.ny = 1; k.C = (size_t)vh_int(c, 2, 3); k.cstart = (size_t)vh_int(c, 0, 1);
    if (k.n < 8 * k.C) k.n = 8 * k.C + (size_t)vh_int(c, 0, (long)(30 - 8 * k.C));
    if (k.p > 4) k.p = (size_t)vh_int(c, 1, 4);
  }
  k.xs = (k.algo == A_PLS || k.algo == A_PLSDA) ? (size_t)vh_int(c, 0, 4) : (size_t)vh_int(c, 0, 4) /* ignored by MLR/LDA */;
  k.ys = (size_t)vh_int(c, 0, 3);

  /* ---- data ---- */
  NewMatrix(&X, k.n, k.p); NewMatrix(&Y, k.n, k.ny);
  {
    double loc[6], sc[6];
    for (j = 0; j < k.p; j++) { loc[j] = vh_coin(c, 0.3) ? 0.0 : vh_range(c, -1, 1) * vh_logunif(c, -1, 2); sc[j] = vh_logunif(c, -0.5, 1.5); }
    if (k.algo == A_LDA) {
      size_t *perm = malloc(sizeof(size_t) * k.n);
      double dir[3][6];
      size_t cl;
      vh_perm(c, perm, k.n);
      for (cl = 0; cl < k.C; cl++) for (j = 0; j < k.p; j++) dir[cl][j] = vh_gauss(c) * 0.9;
      for (i = 0; i < k.n; i++) {
        cl = i % k.C;                                           /* balanced classes, scattered over the rows */
        Y->data[perm[i]][0] = (double)(cl + k.cstart);
        for (j = 0; j < k.p; j++) X->data[perm[i]][j] = loc[j] + sc[j] * (dir[cl][j] + vh_gauss(c));
      }
      free(perm);
    } else {
      double b[3][6], off[3], amp[3];
      for (j = 0; j < k.ny; j++) { size_t v; for (v = 0; v < k.p; v++) b[j][v] = vh_gauss(c); off[j] = vh_coin(c, 0.3) ? 0.0 : vh_range(c, -1, 1) * vh_logunif(c, 0, 2); amp[j] = vh_logunif(c, -0.3, 1.5); }
      for (i = 0; i < k.n; i++) {
        double z[6];
        for (j = 0; j < k.p; j++) { z[j] = vh_gauss(c); X->data[i][j] = loc[j] + sc[j] * z[j]; }
        for (j = 0; j < k.ny; j++) {
          double s = 0.4 * vh_gauss(c); size_t v;
          for (v = 0; v < k.p; v++) s += b[j][v] * z[v];
          Y->data[i][j] = k.algo == A_PLSDA ? (s > 0 ? 1.0 : 0.0) : off[j] + amp[j] * s;
        }
      }
    }
  }

  /* ---- folds ---- */
  if (k.method == M_LOO) {
    size_t *tr = malloc(sizeof(size_t) * k.n);
    for (i = 0; i < k.n; i++) { size_t m = 0; for (j = 0; j < k.n; j++) if (j != i) tr[m++] = j; folds_add(&F, &i, 1, tr, m, 0); }
    free(tr);
  } else if (k.method == M_KFOLD) {
    /* user label vector: K distinct labels (contiguous or with gaps, possibly without 0), unbalanced, scattered over the rows */
    size_t K = (k.n <= 12 && vh_coin(c, 0.1)) ? k.n : (size_t)vh_int(c, 2, k.n / 2 < 8 ? (long)(k.n / 2) : 8);
    size_t lab[32], nl = 0, Lmax, *perm = malloc(sizeof(size_t) * k.n), cnt[64] = { 0 }, need, gmax, cols = 0;
    double w[32], wsum = 0, **gid;
    int gaps = K < k.n && vh_coin(c, 0.5);
    Lmax = gaps ? K + (size_t)vh_int(c, 1, 4) : K;
    { size_t pool[64], np = Lmax, t; for (t = 0; t < np; t++) pool[t] = t; for (t = 0; t < K; t++) { size_t q = t + (size_t)vh_int(c, 0, (long)(np - t - 1)), tmp = pool[t]; pool[t] = pool[q]; pool[q] = tmp; lab[nl++] = pool[t]; } }
    for (i = 0; i < K; i++) { w[i] = vh_logunif(c, -0.7, 0.7); wsum += w[i]; }
    NewUIVector(&k.labels, k.n);
    vh_perm(c, perm, k.n);
    for (i = 0; i < k.n; i++) {
      size_t pick = 0;
      if (i < K) pick = i;                                       /* every label used at least once */
      else { double u = vh_unif(c) * wsum, a = 0; for (pick = 0; pick + 1 < K; pick++) { a += w[pick]; if (u < a) break; } }
      k.labels->data[perm[i]] = lab[pick]; cnt[lab[pick]]++;
    }
    /* keep every training fold large enough for the learner: largest group <= n - need */
    need = (k.algo == A_MLR) ? (vh_coin(c, 0.15) ? 2 : k.p + 2) : 4;
    if (need > k.n - (k.n + K - 1) / K) need = k.n - (k.n + K - 1) / K;   /* a balanced assignment is always feasible */
    for (;;) {
      size_t big = lab[0], small = lab[0];
      for (i = 0; i < K; i++) { if (cnt[lab[i]] > cnt[big]) big = lab[i]; if (cnt[lab[i]] < cnt[small]) small = lab[i]; }
      if (cnt[big] <= k.n - need || big == small) break;
      for (i = 0; i < k.n; i++) if (k.labels->data[i] == big) { k.labels->data[i] = small; cnt[big]--; cnt[small]++; break; }
    }
    free(perm);
    gmax = 0; for (i = 0; i < k.n; i++) if (k.labels->data[i] + 1 > gmax) gmax = k.labels->data[i] + 1;
    for (i = 0; i < gmax; i++) if (cnt[i] > cols) cols = cnt[i];
    gid = malloc(sizeof(double *) * gmax);
    for (i = 0; i < gmax; i++) { gid[i] = malloc(sizeof(double) * (cols + 1)); for (j = 0; j < cols; j++) gid[i][j] = -1.0; cnt[i] = 0; }
    for (i = 0; i < k.n; i++) { size_t g = k.labels->data[i]; gid[g][cnt[g]++] = (double)i; }
    folds_from_gid(&F, gid, gmax, cols, k.n, 0);
    for (i = 0; i < gmax; i++) free(gid[i]);
    free(gid);
    k.G = gmax;
    vh_desc(c, "labels=");
    for (i = 0; i < k.n; i++) vh_desc(c, "%zu%s", k.labels->data[i], i + 1 < k.n ? "," : " ");
    if (gaps) vh_obs("kfold_noncontiguous_label_sets", 1);
  } else {
    static const size_t divs[13][7] = { {0}, {1,0}, {1,2,0}, {1,3,0}, {1,2,4,0}, {1,5,0}, {1,2,3,6,0}, {1,7,0}, {1,2,4,8,0}, {1,3,0}, {1,2,5,0}, {1,0}, {1,2,3,4,6,0} };
    size_t nd = 0;
    k.iters = (size_t)vh_int(c, 1, 12);
    k.G = vh_coin(c, 0.5) ? (size_t)vh_int(c, 2, (long)k.n) : (size_t)vh_int(c, 2, 8);
    if (k.algo == A_LDA && k.G < 4) k.G = (size_t)vh_int(c, 4, 10);
    while (divs[k.iters][nd]) nd++;
    if (vh_coin(c, 0.12)) { nondiv = k.iters % k.nt != 0; }       /* any thread count 1..8: the routine then runs whole rounds */
    else k.nt = divs[k.iters][vh_int(c, 0, (long)nd - 1)];
  }
  k.nlv_in = (size_t)vh_int(c, 1, (long)k.p + 1);                  /* p+1: clamped to the column count by the routine */
  if (k.algo == A_PLS || k.algo == A_PLSDA) {
    size_t mintr = k.n, f;
    if (k.method == M_BOOT) mintr = k.n - (k.n + k.G - 1) / k.G;
    else for (f = 0; f < F.nf; f++) if (F.f[f].ntr < mintr) mintr = F.f[f].ntr;
    if (mintr < 3) { vh_class(c, "cv-%s-%s", MNAME[k.method], ANAME[k.algo]); vh_skip(c, "training fold below 3 rows"); goto out; }
    if ((k.nlv_in > k.p ? k.p : k.nlv_in) > mintr - 2) k.nlv_in = mintr - 2;
    k.nlv = k.nlv_in > k.p ? k.p : k.nlv_in;
    k.scol = k.ny * k.nlv;
  } else {
    k.nlv_in = (size_t)vh_int(c, 0, 5);                            /* ignored by MLR and LDA */
    k.nlv = 1; k.scol = k.ny;
  }
  Kup = k.iters;
  if (k.method == M_BOOT) {
    /* the worker of iteration t is seeded with group + rows + ycols + iterations + t and draws its partition first */
    size_t t;
    Kup = (k.iters + k.nt - 1) / k.nt * k.nt;
    for (t = 0; t < Kup; t++) {
      unsigned int seed = (unsigned int)(k.G + k.n + k.ny + k.iters + t);
      matrix *gid;
      initMatrix(&gid);
      random_kfold_group_generator(gid, k.G, k.n, &seed);
      if (!check_gid(c, gid, k.G, k.n, 1)) { DelMatrix(&gid); goto out; }
      folds_from_gid(&F, gid->data, gid->row, gid->col, k.n, t);
      DelMatrix(&gid);
    }
  }
  fold_adequacy(&k, &F, Y, 1, &adequate, &hazard);
  vh_class(c, "cv-%s-%s-ny%zu-nlv%s-nt%s-%s", MNAME[k.method], ANAME[k.algo], k.ny,
           k.scol == k.ny ? (k.algo <= A_PLSDA ? "1" : "-") : k.nlv_in > k.p ? ">p" : k.nlv == k.p ? "=p" : "mid",
           nondiv ? "nondiv" : k.nt == 1 ? "1" : k.nt <= 4 ? "2-4" : "5-8", adequate ? "adequate" : "inadequate");
  vh_desc(c, "%s %s objects=%zu vars=%zu responses=%zu nlv=%zu(eff %zu) xscal=%zu yscal=%zu threads=%zu groups=%zu iterations=%zu(run %zu) classes=%zu from %zu x00=%.17g y00=%.17g",
          MNAME[k.method], ANAME[k.algo], k.n, k.p, k.ny, k.nlv_in, k.nlv, k.xs, k.ys, k.nt, k.G, k.iters, Kup, k.C, k.cstart, X->data[0][0], Y->data[0][0]);
  if (hazard) { vh_skip(c, "%s training fold outside the learner's domain", ANAME[k.algo]); goto out; }
  if (!adequate) vh_obs("cv_cases_with_inadequate_fold", 1);
  if (nondiv) vh_obs("bootstrap_nondivisor_thread_counts", 1);
  vh_hist("cv_method_x10_plus_algo", k.method * 10 + k.algo);
  vh_hist("cv_threads", (long)k.nt);

  /* ---- run the routine ---- */
  X0 = matrix_dup(X); Y0 = matrix_dup(Y);
  want_res = !vh_coin(c, 0.08);
  initMatrix(&py); if (want_res) initMatrix(&pres);
  g_cv_ticks = 0; g_cv_tripped = 0; libsci_verif_tick_hook = cv_tick; libsci_verif_nprocs = 1;
  run_cv(&k, X, Y, py, pres);
  vh_obs("library_threads_started", (double)(k.method == M_LOO ? k.n : k.method == M_KFOLD ? k.G : Kup));
  if (!matrix_bitequal(X, X0) || !matrix_bitequal(Y, Y0)) { snprintf(key, sizeof key, "%s|input-modified", MNAME[k.method]); vh_fail(c, key, "%s: the routine changed its input matrices", ANAME[k.algo]); goto out; }
  if (py->row != k.n || py->col != k.scol) {
    snprintf(key, sizeof key, "%s|prediction-shape", MNAME[k.method]);
    vh_fail(c, key, "%s: predictions %zux%zu, expected %zux%zu", ANAME[k.algo], py->row, py->col, k.n, k.scol);
    goto out;
  }
  /* finite predictions for every object when every fold is adequate */
  if (adequate && !matrix_all_finite(py)) {
    snprintf(key, sizeof key, "%s|non-finite-prediction-with-adequate-folds", MNAME[k.method]);
    vh_fail(c, key, "%s: a prediction is not finite although every training fold is adequate", ANAME[k.algo]);
  }
  /* oracle 3 */
  if (want_res) check_residuals(c, &k, Y, py, pres, "base run");

  /* ---- oracle 1: refit on the complementary folds ---- */
  E1 = malloc(sizeof(double *) * k.n); E2 = malloc(sizeof(double *) * k.n);
  for (i = 0; i < k.n; i++) { E1[i] = calloc(k.scol + 1, sizeof(double)); E2[i] = calloc(k.scol + 1, sizeof(double)); }
  if (!expected_predictions(c, &k, &F, X, Y, Kup, E2)) goto out;
  scale = 1e-300;
  for (i = 0; i < k.n; i++) for (j = 0; j < k.scol; j++) if (isfinite(E2[i][j]) && fabs(E2[i][j]) > scale) scale = fabs(E2[i][j]);
  for (i = 0; i < k.n; i++) for (j = 0; j < k.ny; j++) if (fabs(Y->data[i][j]) > scale) scale = fabs(Y->data[i][j]);
  {
    size_t wi = 0, wj = 0, vi = 0, vj = 0;
    double d = dev_from(py, E2, k.n, k.scol, scale, &wi, &wj), d1 = INFINITY;
    if (nondiv && d > 1e-12) {
      /* a routine that runs exactly the requested iterations is just as out-of-sample */
      if (!expected_predictions(c, &k, &F, X, Y, k.iters, E1)) goto out;
      d1 = dev_from(py, E1, k.n, k.scol, scale, &vi, &vj);
      if (d1 < d) { d = d1; wi = vi; wj = vj; vh_obs("bootstrap_nondivisor_exact_iterations", 1); }
    }
    vh_max("max_refit_rel_dev", d);
    if (d == 0) vh_obs("refit_bit_identical_runs", 1);
    vh_obs("objects_judged_against_refit", (double)k.n);
    if (!(d <= 1e-12)) {
      snprintf(key, sizeof key, "%s|prediction-differs-from-refit-on-other-folds|%s", MNAME[k.method], ANAME[k.algo]);
      vh_fail(c, key, "object %zu column %zu: routine %.17g, refit on the complementary folds %.17g (rel dev %.3g, scale %.3g)", wi, wj, py->data[wi][wj], E2[wi][wj], d, scale);
    }
  }

  /* ---- oracle 2: response perturbation ---- */
  nprobe = vh_is_tsan() ? 1 : 2;
  for (pr = 0; pr < nprobe; pr++) {
    size_t obj = (size_t)vh_int(c, 0, (long)k.n - 1);
    matrix *Y2 = matrix_dup(Y), *py2, *pres2 = NULL;
    int others_changed = 0, a2, h2;
    if (k.algo == A_LDA) {
      size_t old = (size_t)Y->data[obj][0] - k.cstart, nw = (old + 1 + (size_t)vh_int(c, 0, (long)k.C - 2)) % k.C;
      Y2->data[obj][0] = (double)(nw + k.cstart);
    } else for (j = 0; j < k.ny; j++) Y2->data[obj][j] += 1e3;
    fold_adequacy(&k, &F, Y2, 0, &a2, &h2);
    if (h2) { vh_obs("probes_dropped_fold_would_leave_domain", 1); DelMatrix(&Y2); continue; }
    initMatrix(&py2); if (want_res) initMatrix(&pres2);
    run_cv(&k, X, Y2, py2, pres2);
    vh_obs("library_threads_started", (double)(k.method == M_LOO ? k.n : k.method == M_KFOLD ? k.G : Kup));
    vh_obs("perturbation_probes", 1);
    if (py2->row != k.n || py2->col != k.scol) {
      snprintf(key, sizeof key, "%s|prediction-shape", MNAME[k.method]);
      vh_fail(c, key, "%s probe: predictions %zux%zu", ANAME[k.algo], py2->row, py2->col);
    } else {
      if (memcmp(py2->data[obj], py->data[obj], sizeof(double) * k.scol)) {
        size_t jj = 0;
        for (j = 0; j < k.scol; j++) if (memcmp(&py2->data[obj][j], &py->data[obj][j], sizeof(double))) { jj = j; break; }
        snprintf(key, sizeof key, "%s|prediction-depends-on-own-response|%s", MNAME[k.method], ANAME[k.algo]);
        vh_fail(c, key, "object %zu column %zu: prediction %.17g became %.17g when only its own response was changed", obj, jj, py->data[obj][jj], py2->data[obj][jj]);
      }
      for (i = 0; i < k.n; i++) if (i != obj && memcmp(py2->data[i], py->data[i], sizeof(double) * k.scol)) others_changed++;
      if (others_changed) vh_obs("probes_with_visible_effect", 1);
      else if (k.algo != A_LDA && adequate && matrix_all_finite(py)) {
        /* a regression learner trained on object obj must react to a 1e3 shift of its response */
        snprintf(key, sizeof key, "%s|perturbation-without-effect|%s", MNAME[k.method], ANAME[k.algo]);
        vh_fail(c, key, "shifting the response of object %zu by 1e3 changed no prediction at all", obj);
      }
      if (want_res) check_residuals(c, &k, Y2, py2, pres2, "probe run");
    }
    DelMatrix(&py2); if (pres2) DelMatrix(&pres2);
    DelMatrix(&Y2);
  }
  vh_obs("nipals_ticks", (double)g_cv_ticks);
  vh_max("max_nipals_ticks_per_case", (double)g_cv_ticks);
out:
  libsci_verif_tick_hook = NULL;
  if (E1) { for (i = 0; i < k.n; i++) { free(E1[i]); free(E2[i]); } free(E1); free(E2); }
  if (py) DelMatrix(&py);
  if (pres) DelMatrix(&pres);
  if (X0) DelMatrix(&X0);
  if (Y0) DelMatrix(&Y0);
  if (k.labels) DelUIVector(&k.labels);
  folds_free(&F);
  DelMatrix(&X); DelMatrix(&Y);
}

static void run_case(vh_ctx *c)
{
  if (is_cv_case(c->idx)) cv_case(c); else partition_case(c);
}

const vh_driver VH_DRIVER = { "C05", ncases, run_case, NULL, 120 };
