/* drv_util.h - glue shared by the drivers: library containers <-> oracle matrices, hooks */
#ifndef DRV_UTIL_H
#define DRV_UTIL_H
#include <math.h>
#include <stdlib.h>
#include <string.h>
#include "vh.h"
#include "oracle.h"
#include "memwrapper.h"
#include "tensor.h"
#include "matrix.h"
#include "vector.h"
#include "list.h"
#include "numeric.h"
#include "algebra.h"
#include "statistic.h"
#include "metricspace.h"
#include "optimization.h"
#include "clustering.h"
#include "interpolate.h"
#include "preprocessing.h"
#include "pca.h"
#include "cpca.h"
#include "pls.h"
#include "epls.h"
#include "mlr.h"
#include "lda.h"
#include "modelvalidation.h"
#include "io.h"
#include "verifhooks.h"

static inline ldm *ldm_of_matrix(matrix *m) { return ldm_from_rows(m->data, m->row, m->col); }

static inline matrix *matrix_of_ldm(const ldm *a)
{
  matrix *m; size_t i, j;
  NewMatrix(&m, a->r, a->c);
  for (i = 0; i < a->r; i++) for (j = 0; j < a->c; j++) m->data[i][j] = (double)LM(a, i, j);
  return m;
}
static inline matrix *matrix_dup(matrix *s)
{
  matrix *m; size_t i, j;
  NewMatrix(&m, s->row, s->col);
  for (i = 0; i < s->row; i++) for (j = 0; j < s->col; j++) m->data[i][j] = s->data[i][j];
  return m;
}
static inline double gauss_cb(void *c) { return vh_gauss((vh_ctx *)c); }

/* max |a-b| over two library matrices of equal shape (INFINITY on shape mismatch / NaN) */
static inline double matrix_maxdiff(matrix *a, matrix *b)
{
  size_t i, j; double s = 0;
  if (a->row != b->row || a->col != b->col) return INFINITY;
  for (i = 0; i < a->row; i++) for (j = 0; j < a->col; j++) {
    double d = fabs(a->data[i][j] - b->data[i][j]);
    if (d != d) return INFINITY;
    if (d > s) s = d;
  }
  return s;
}
static inline double matrix_maxabs(matrix *a)
{
  size_t i, j; double s = 0;
  for (i = 0; i < a->row; i++) for (j = 0; j < a->col; j++) if (fabs(a->data[i][j]) > s) s = fabs(a->data[i][j]);
  return s;
}
static inline int matrix_bitequal(matrix *a, matrix *b)
{
  size_t i;
  if (a->row != b->row || a->col != b->col) return 0;
  for (i = 0; i < a->row; i++) if (a->col && memcmp(a->data[i], b->data[i], sizeof(double) * a->col)) return 0;
  return 1;
}
static inline int matrix_all_finite(matrix *a)
{
  size_t i, j;
  for (i = 0; i < a->row; i++) for (j = 0; j < a->col; j++) if (!isfinite(a->data[i][j])) return 0;
  return 1;
}
static inline double dvector_maxdiff(dvector *a, dvector *b)
{
  size_t i; double s = 0;
  if (a->size != b->size) return INFINITY;
  for (i = 0; i < a->size; i++) { double d = fabs(a->data[i] - b->data[i]); if (d != d) return INFINITY; if (d > s) s = d; }
  return s;
}

/* ---- NIPALS tick accounting (H3): iterations per fitted component, as evidence ---- */
static long g_ticks_total;
static void drv_tick_counter(int loop_id, size_t comp, double conv)
{
  g_ticks_total++;
  if (getenv("VERIF_TICK_TRACE") && (g_ticks_total & (g_ticks_total - 1)) == 0)
    fprintf(stderr, "tick loop=%d comp=%zu n=%ld conv=%.6g\n", loop_id, comp, g_ticks_total, conv);
}
static inline void drv_ticks_begin(void) { g_ticks_total = 0; libsci_verif_tick_hook = drv_tick_counter; }
static inline void drv_ticks_end(const char *hist, size_t ncomp)
{
  long per = ncomp ? (g_ticks_total + (long)ncomp - 1) / (long)ncomp : 0, b = 0;
  while ((1L << b) < per) b++;
  vh_hist(hist, b);            /* bucket b: <= 2^b iterations per component */
  vh_obs("hook_tick_events", (double)g_ticks_total);
  vh_max("max_iterations_per_component", (double)per);
}

/* NIPALS start diagnostics.  PCA() starts every component from the column of the current residual E with the largest variance and
   stops when |t_new - t_old|^2 / (n |t_new|^2) < tol.  That rule is also met next to a NON-dominant singular vector: if the start
   column has (almost) no component along the dominant axis, the iteration settles on another axis and stops there before the
   dominant component has grown (it grows by 1/rho2 per pass, rho2 = eigenvalue ratio).  This helper measures that input class:
   returns |cos| between the start column and the dominant left singular direction of E, and the ratio second/first eigenvalue. */
static inline double nipals_start_cos(const ldm *E, double *rho2)
{
  size_t n = E->r, p = E->c, i, j; ld best = -1, cmin = 2;
  ldm *A = ldm_ata(E), *V = ldm_new(p, p); ld *ev = calloc(p + 1, sizeof(ld)), *var = calloc(p + 1, sizeof(ld)), *u = calloc(n + 1, sizeof(ld)), nu = 0;
  or_jacobi_eig(A, ev, V);
  for (j = 0; j < p; j++) {
    ld m = 0, v = 0;
    for (i = 0; i < n; i++) m += LM(E, i, j);
    m /= (ld)n;
    for (i = 0; i < n; i++) v += (LM(E, i, j) - m) * (LM(E, i, j) - m);
    var[j] = v; if (v > best) best = v;
  }
  for (i = 0; i < n; i++) { for (j = 0; j < p; j++) u[i] += LM(E, i, j) * LM(V, j, 0); nu += u[i] * u[i]; }
  /* autoscaled columns have equal variances up to rounding, and which of them the library's double arithmetic ranks first is not
     predictable: every column whose variance is maximal to 1e-10 relative is a possible start column */
  for (j = 0; j < p; j++) if (var[j] >= best * (1 - 1e-10L) && var[j] > 0) {
    ld dot = 0, nt = 0, cj;
    for (i = 0; i < n; i++) { dot += u[i] * LM(E, i, j); nt += LM(E, i, j) * LM(E, i, j); }
    cj = nt > 0 && nu > 0 ? fabsl(dot) / sqrtl(nt * nu) : 1;
    if (cj < cmin) cmin = cj;
  }
  if (rho2) *rho2 = p > 1 && ev[0] > 0 ? (double)(ev[1] / ev[0]) : 0.0;
  ldm_free(A); ldm_free(V); free(ev); free(var); free(u);
  return cmin > 1 ? 1.0 : (double)cmin;
}
/* largest start cosine for which the documented stopping rule (tol, n rows) can fire on the wrong axis: the dominant component a
   grows by 1/rho2 per pass, so the pass-to-pass change is a (1/rho2 - 1) and the rule is met while a <= sqrt(n tol) / (1/rho2 - 1);
   safety factor 8, capped at 0.5 (nearly degenerate pairs, where NIPALS cannot tell the two axes apart) */
static inline double nipals_wrong_axis_threshold(size_t n, double tol, double rho2)
{
  double g = rho2 > 0 && rho2 < 1 ? 1.0 / rho2 - 1.0 : 1e300, t = 8.0 * sqrt((double)n * tol) / g;
  return t < 0.5 ? t : 0.5;
}


/* caller-provided output container in one of three states, chosen from the case index and a call counter (no draw from the case PRNG):
   empty (initMatrix), allocated with the result's shape but holding stale values, allocated with another shape holding stale values.
   A routine that fills its output through an accumulating kernel, or that resizes only when the shape differs, shows up in state 1. */
static inline matrix *drv_out_matrix(vh_ctx *c, size_t r, size_t k, unsigned call)
{
  matrix *m; size_t i, j; unsigned how = (unsigned)(((unsigned long)c->idx * 2654435761UL + call * 40503UL) >> 7) % 3;
  if (how == 0 || r == 0 || k == 0) { initMatrix(&m); return m; }
  if (how == 1) { NewMatrix(&m, r, k); vh_obs("predictor_output_stale_same_shape", 1); } else { NewMatrix(&m, r + 1, k + 2); vh_obs("predictor_output_stale_other_shape", 1); }
  for (i = 0; i < m->row; i++) for (j = 0; j < m->col; j++) m->data[i][j] = 7.25 + (double)i - 0.5 * (double)j;
  return m;
}

#endif
