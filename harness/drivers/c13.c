/* c13.c - C13: multithreaded kernels equal their sequential definition for any thread count;
 * distance definitions; condensed index bijection.
 *
 * Case layout (pure function of the case index):
 *   [0, 984*D)            slicing sweep, EXHAUSTIVE over (rows 0..40) x (threads 1..24), D data sets:
 *                         pair = (idx % 984) * 197 % 984 (a bijection of 0..983 that spreads the expensive pairs
 *                         over the shards), rows = pair / 24, threads = pair % 24 + 1.  Every kernel family
 *                         that slices rows/columns among workers is run for that pair on strictly positive
 *                         data in general position (every correct output cell is non-zero), into a
 *                         zero-initialised output where the sequential kernel accumulates and into a poisoned
 *                         output where the kernel assigns (labels); judged against the single-thread run
 *                         (1e-13 relative), an independent long-double oracle and a repeated run (bit identity).
 *   [.., +81)             index map: square_to_condensed_index is a bijection onto 0..n(n-1)/2-1, n = 0..80
 *   [.., +V)              value clauses on random matrices up to 60 x 10 (definitions, symmetry, zero
 *                         self-distance, non-negativity, triangle inequality, condensed = strict upper triangle)
 * In the tsan build the same sweep runs without the repeat runs and with fewer selections per pair:
 * overlapping slices of the assign-type kernels are write-write races there. */
#include "drv_util.h"

/* the k-means labelling kernel (extern in clustering.c, anchored by the property, not declared in clustering.h) */
extern void getLabels_(matrix *m, matrix *centroids, uivector *labels, int nthreads);

#define RMAX 40
#define TMAX 24
#define NPAIR ((RMAX + 1) * TMAX)
#define NIDX 81
#define DPOISON 7.25e77
#define LPOISON ((size_t)0xDEADBEEFCAFEF00DULL)
#define RELTOL 1e-13

static int datasets(int tier) { return vh_is_tsan() ? (tier ? 3 : 1) : (tier ? 20 : 1); }
/* thread start-up dominates the cost (~0.3 ms under the sanitizers).  "full" data sets repeat every call and let
   KMeansppCenters / MDC select every object for every pair; the others repeat one metric per pair and select
   every object only up to 12 rows (6 selections beyond); the tsan build never repeats. */
static int full_sets(int tier) { return vh_is_tsan() ? 0 : (tier ? 1 : 0); }
static int g_full, g_rot;
static long nvalue(int tier) { return vh_is_tsan() ? (tier ? 400 : 60) : (tier ? 20000 : 1500); }
static long ncases(int tier) { return (long)NPAIR * datasets(tier) + NIDX + nvalue(tier); }

static const char *MNAME[4] = { "EUCLIDEAN", "SQUARE_EUCLIDEAN", "MANHATTAN", "COSINE" };
static const enum cmethod MENUM[4] = { EUCLIDEAN, SQUARE_EUCLIDEAN, MANHATTAN, COSINE };

static long g_threads;

/* ---- RNG-call ceiling (H2): turns a KMeansppCenters that cannot make progress into a verdict ---- */
static long g_rng_calls, g_rng_ceiling;
static void rng_guard(int fn, uint32_t s)
{
  (void)s;
  if (fn == 0) return;
  if (++g_rng_calls > g_rng_ceiling && g_rng_ceiling > 0) {
    libsci_verif_rng_hook = NULL; libsci_verif_nprocs = 1;
    vh_fail_now(vh_current(), "KMeansppCenters|no-progress-after-rng-ceiling",
                "more than %ld generator calls inside one selection/clustering call on distinct points", g_rng_ceiling);
  }
}
static void guard_on(size_t rows) { g_rng_calls = 0; g_rng_ceiling = 200L * (long)(rows + 2) * (long)(rows + 2) + 20000; libsci_verif_rng_hook = rng_guard; }
static void guard_off(void) { libsci_verif_rng_hook = NULL; }

static matrix *rand_pos_matrix(vh_ctx *c, size_t r, size_t p)
{
  matrix *m; size_t i, j;
  NewMatrix(&m, r, p);
  for (i = 0; i < r; i++) for (j = 0; j < p; j++) m->data[i][j] = vh_range(c, 0.5, 2.0);
  return m;
}
static dvector *rand_pos_vector(vh_ctx *c, size_t n)
{
  dvector *v; size_t i;
  NewDVector(&v, n);
  for (i = 0; i < n; i++) v->data[i] = vh_range(c, 0.5, 2.0);
  return v;
}
static int uiv_equal(uivector *a, uivector *b) { return a->size == b->size && (a->size == 0 || memcmp(a->data, b->data, sizeof(size_t) * a->size) == 0); }
static int dv_bitequal(dvector *a, dvector *b) { return a->size == b->size && (a->size == 0 || memcmp(a->data, b->data, sizeof(double) * a->size) == 0); }
static double relerr(double got, ld want) { ld d = fabsl((ld)got - want), s = fabsl(want); if (got != got) return INFINITY; return (double)(d / (s > 1e-300L ? s : 1e-300L)); }

/* ------------------------------------------------------------------ A, B: MT matrix-vector products (H1) */
static void sweep_mt_products(vh_ctx *c, size_t rows, size_t t)
{
  int rep = !vh_is_tsan(), which;
  /* detected processor counts far above the 1..24 of the exhaustive sweep (third seeded wave): every fifth pair also runs with 33, 48, 64 or 97
     reported processors - "any detected thread count, including counts larger than the number of rows" */
  if (rows >= 1 && t <= 24 && (rows * 31 + t) % 5 == 0) { static const size_t BIG[4] = { 33, 48, 64, 97 }; size_t tb = BIG[(rows + t) & 3]; if (!vh_is_tsan() || rows <= 8) { vh_obs("sweep_mt_products_with_many_processors", 1); sweep_mt_products(c, rows, tb); } }
  for (which = 0; which < 2; which++) {
    const char *fn = which == 0 ? "MT_MatrixDVectorDotProduct" : "MT_DVectorMatrixDotProduct";
    size_t inner = (size_t)vh_int(c, 1, 6), i, j;
    /* which 0: m is rows x inner, rows are sliced.  which 1: m is inner x rows, columns are sliced. */
    matrix *m = which == 0 ? rand_pos_matrix(c, rows, inner) : rand_pos_matrix(c, inner, rows);
    dvector *v = rand_pos_vector(c, inner), *p1, *pt, *pt2;
    char key[128];
    double worst = 0, worst_or = 0;
    int zero = 0, dep = 0, orc = 0;
    /* missing-coded cells are skipped term by term by the kernels (documented for PCA): the threaded result must still be the
       sequential one.  One or two cells of the matrix, sometimes one entry of the vector; inner >= 2 keeps every output positive. */
    if (inner >= 2 && rows >= 1 && vh_coin(c, 0.3)) {
      size_t nm = (size_t)vh_int(c, 1, 2), q;
      for (q = 0; q < nm; q++) { size_t a = (size_t)vh_int(c, 0, (long)m->row - 1), b = (size_t)vh_int(c, 0, (long)m->col - 1); size_t line = which == 0 ? a : b, cnt = 0, z;
        for (z = 0; z < inner; z++) if ((which == 0 ? m->data[line][z] : m->data[z][line]) == MISSING) cnt++;
        if (cnt + 2 <= inner) m->data[a][b] = MISSING; }
      if (inner >= 3 && vh_coin(c, 0.3)) v->data[(size_t)vh_int(c, 0, (long)inner - 1)] = MISSING;
      /* never leave an output line without a term */
      for (i = 0; i < rows; i++) { size_t cnt = 0; for (j = 0; j < inner; j++) if ((which == 0 ? m->data[i][j] : m->data[j][i]) != MISSING && v->data[j] != MISSING) cnt++; if (!cnt) { for (j = 0; j < inner; j++) { if (which == 0) m->data[i][j] = 1.0; else m->data[j][i] = 1.0; } } }
      { int ok = 0; for (j = 0; j < inner; j++) if (v->data[j] != MISSING) ok = 1; if (!ok) v->data[0] = 1.0; }
      vh_obs("sweep_mt_products_with_missing_cells", 1);
    }
    NewDVector(&p1, rows); NewDVector(&pt, rows); NewDVector(&pt2, rows);
    libsci_verif_nprocs = 1;
    if (which == 0) MT_MatrixDVectorDotProduct(m, v, p1); else MT_DVectorMatrixDotProduct(m, v, p1);
    libsci_verif_nprocs = t;
    if (which == 0) MT_MatrixDVectorDotProduct(m, v, pt); else MT_DVectorMatrixDotProduct(m, v, pt);
    g_threads += (long)t;
    if (rep) { if (which == 0) MT_MatrixDVectorDotProduct(m, v, pt2); else MT_DVectorMatrixDotProduct(m, v, pt2); g_threads += (long)t; }
    libsci_verif_nprocs = 1;
    for (i = 0; i < rows; i++) {
      ld s = 0; double e;
      for (j = 0; j < inner; j++) { double mv = which == 0 ? m->data[i][j] : m->data[j][i]; if (mv == MISSING || v->data[j] == MISSING) continue; s += (ld)mv * v->data[j]; }
      if (pt->data[i] == 0.0) zero++;
      e = relerr(pt->data[i], (ld)p1->data[i]); if (e > worst) worst = e; if (!(e <= RELTOL)) dep++;
      e = relerr(pt->data[i], s); if (e > worst_or) worst_or = e; if (!(e <= RELTOL)) orc++;
      e = relerr(p1->data[i], s); if (!(e <= RELTOL)) orc++;
    }
    vh_max("max_mtproduct_vs_singlethread_rel", worst); vh_max("max_mtproduct_vs_oracle_rel", worst_or);
    if (zero) { snprintf(key, sizeof key, "%s|cell-not-processed", fn); vh_fail(c, key, "rows=%zu threads=%zu: %d output cells left 0 (every correct cell is positive)", rows, t, zero); }
    if (dep) { snprintf(key, sizeof key, "%s|thread-count-dependence", fn); vh_fail(c, key, "rows=%zu threads=%zu: %d cells differ from the 1-thread result (worst rel %.3g)", rows, t, dep, worst); }
    if (orc) { snprintf(key, sizeof key, "%s|value-vs-definition", fn); vh_fail(c, key, "rows=%zu threads=%zu: %d cells differ from the long-double sum (worst rel %.3g)", rows, t, orc, worst_or); }
    if (rep && !dv_bitequal(pt, pt2)) { snprintf(key, sizeof key, "%s|repeat-not-bit-identical", fn); vh_fail(c, key, "rows=%zu threads=%zu", rows, t); }
    vh_obs(which == 0 ? "sweep_calls_MT_MatrixDVector" : "sweep_calls_MT_DVectorMatrix", 1);
    DelDVector(&p1); DelDVector(&pt); DelDVector(&pt2); DelDVector(&v); DelMatrix(&m);
  }
}

/* ------------------------------------------------------------------ C: CalculateDistance x 4 */
static matrix *out_matrix(int presized, size_t r, size_t cc)
{
  matrix *d;
  if (!presized) { initMatrix(&d); return d; }
  NewMatrix(&d, r, cc);
  MatrixSet(d, DPOISON);
  return d;
}
static void sweep_distance(vh_ctx *c, matrix *x, size_t t)
{
  size_t rows = x->row, p = x->col, q = (size_t)vh_int(c, 1, 4), i, k;
  matrix *y = rand_pos_matrix(c, q, p);
  ldm *lx = ldm_of_matrix(x), *ly = ldm_of_matrix(y);
  int rep, mt;
  for (mt = 0; mt < 4; mt++) {
    matrix *d1, *dt, *dt2;
    char key[128];
    double worst = 0, worst_or = 0; int zero = 0, dep = 0, orc = 0;
    if (vh_is_tsan() && mt != g_rot) continue;          /* one slicing code for all metrics: one metric per pair is enough for the race detector */
    rep = !vh_is_tsan() && (g_full || mt == g_rot);
    d1 = out_matrix(0, q, rows); dt = out_matrix((int)((c->idx + mt) & 1), q, rows); dt2 = out_matrix(1, q, rows);
    CalculateDistance(x, y, d1, 1, MENUM[mt]);
    CalculateDistance(x, y, dt, t, MENUM[mt]); g_threads += (long)t;
    if (rep) { CalculateDistance(x, y, dt2, t, MENUM[mt]); g_threads += (long)t; }
    if (dt->row != q || dt->col != rows || d1->row != q || d1->col != rows) {
      snprintf(key, sizeof key, "CalculateDistance|shape|%s", MNAME[mt]);
      vh_fail(c, key, "got %zux%zu expected %zux%zu", dt->row, dt->col, q, rows);
    } else {
      for (k = 0; k < q; k++) for (i = 0; i < rows; i++) {
        ld o = or_dist(&LM(lx, i, 0), &LM(ly, k, 0), p, mt); double e;
        if (dt->data[k][i] == 0.0) zero++;
        e = relerr(dt->data[k][i], (ld)d1->data[k][i]); if (e > worst) worst = e; if (!(e <= RELTOL)) dep++;
        e = relerr(dt->data[k][i], o); if (e > worst_or) worst_or = e; if (!(e <= RELTOL)) orc++;
        e = relerr(d1->data[k][i], o); if (!(e <= RELTOL)) orc++;
      }
      vh_max("max_distance_vs_singlethread_rel", worst); vh_max("max_sweep_distance_vs_oracle_rel", worst_or);
      if (zero) { snprintf(key, sizeof key, "CalculateDistance|cell-not-processed|%s", MNAME[mt]); vh_fail(c, key, "rows=%zu threads=%zu: %d cells left 0 (all rows are distinct and positive)", rows, t, zero); }
      if (dep) { snprintf(key, sizeof key, "CalculateDistance|thread-count-dependence|%s", MNAME[mt]); vh_fail(c, key, "rows=%zu threads=%zu: %d cells differ from the 1-thread result (worst rel %.3g)", rows, t, dep, worst); }
      if (orc) { snprintf(key, sizeof key, "CalculateDistance|value-vs-definition|%s", MNAME[mt]); vh_fail(c, key, "rows=%zu threads=%zu: %d cells differ from the definition (worst rel %.3g)", rows, t, orc, worst_or); }
      if (rep && !matrix_bitequal(dt, dt2)) { snprintf(key, sizeof key, "CalculateDistance|repeat-not-bit-identical|%s", MNAME[mt]); vh_fail(c, key, "rows=%zu threads=%zu", rows, t); }
    }
    vh_obs("sweep_calls_CalculateDistance", 1);
    DelMatrix(&d1); DelMatrix(&dt); DelMatrix(&dt2);
  }
  ldm_free(lx); ldm_free(ly); DelMatrix(&y);
}

/* ------------------------------------------------------------------ D: the four condensed kernels */
static void condensed(int mt, matrix *m, dvector *d, size_t t)
{
  switch (mt) {
    case 0: EuclideanDistanceCondensed(m, d, t); break;
    case 1: SquaredEuclideanDistanceCondensed(m, d, t); break;
    case 2: ManhattanDistanceCondensed(m, d, t); break;
    default: CosineDistanceCondensed(m, d, t); break;
  }
}
static const char *CNAME[4] = { "EuclideanDistanceCondensed", "SquaredEuclideanDistanceCondensed", "ManhattanDistanceCondensed", "CosineDistanceCondensed" };

static void sweep_condensed(vh_ctx *c, matrix *x, size_t t)
{
  size_t rows = x->row, p = x->col, i, k, want = rows * (rows - (rows ? 1 : 0)) / 2;
  ldm *lx = ldm_of_matrix(x);
  int rep, mt;
  for (mt = 0; mt < 4; mt++) {
    dvector *d1, *dt, *dt2; char key[128];
    double worst = 0, worst_or = 0; int zero = 0, dep = 0, orc = 0;
    rep = !vh_is_tsan() && (g_full || mt == g_rot);      /* four functions, four copies of the slicing code: all run in every build */
    initDVector(&d1); initDVector(&dt2);
    if ((c->idx + mt) & 1) { NewDVector(&dt, want + 3); for (i = 0; i < dt->size; i++) dt->data[i] = DPOISON; } else initDVector(&dt);
    condensed(mt, x, d1, 1);
    condensed(mt, x, dt, t); g_threads += (long)t;
    if (rep) { condensed(mt, x, dt2, t); g_threads += (long)t; }
    if (dt->size != want || d1->size != want) { snprintf(key, sizeof key, "%s|size", CNAME[mt]); vh_fail(c, key, "size %zu expected %zu for %zu rows", dt->size, want, rows); }
    else {
      size_t pos = 0;
      for (i = 0; i < rows; i++) for (k = i + 1; k < rows; k++, pos++) {
        size_t ix = square_to_condensed_index(i, k, rows); ld o; double e;
        if (ix >= want) { snprintf(key, sizeof key, "square_to_condensed_index|out-of-range"); vh_fail(c, key, "(%zu,%zu,n=%zu) -> %zu", i, k, rows, ix); continue; }
        o = or_dist(&LM(lx, i, 0), &LM(lx, k, 0), p, mt);
        if (dt->data[ix] == 0.0) zero++;
        e = relerr(dt->data[ix], (ld)d1->data[ix]); if (e > worst) worst = e; if (!(e <= RELTOL)) dep++;
        e = relerr(dt->data[ix], o); if (e > worst_or) worst_or = e; if (!(e <= RELTOL)) orc++;
        e = relerr(d1->data[ix], o); if (!(e <= RELTOL)) orc++;
      }
      for (i = 0; i < want; i++) if (dt->data[i] == 0.0) { zero++; break; }      /* whatever the index map does: no cell may stay 0 */
      vh_max("max_condensed_vs_singlethread_rel", worst); vh_max("max_sweep_condensed_vs_oracle_rel", worst_or);
      if (zero) { snprintf(key, sizeof key, "%s|cell-not-processed", CNAME[mt]); vh_fail(c, key, "rows=%zu threads=%zu: %d cells left 0", rows, t, zero); }
      if (dep) { snprintf(key, sizeof key, "%s|thread-count-dependence", CNAME[mt]); vh_fail(c, key, "rows=%zu threads=%zu: %d cells differ from the 1-thread result (worst rel %.3g)", rows, t, dep, worst); }
      if (orc) { snprintf(key, sizeof key, "%s|value-vs-definition", CNAME[mt]); vh_fail(c, key, "rows=%zu threads=%zu: %d cells differ from the definition (worst rel %.3g)", rows, t, orc, worst_or); }
      if (rep && !dv_bitequal(dt, dt2)) { snprintf(key, sizeof key, "%s|repeat-not-bit-identical", CNAME[mt]); vh_fail(c, key, "rows=%zu threads=%zu", rows, t); }
    }
    vh_obs("sweep_calls_DistanceCondensed", 1);
    DelDVector(&d1); DelDVector(&dt); DelDVector(&dt2);
  }
  ldm_free(lx);
}

/* ------------------------------------------------------------------ E: k-means labelling kernel on a poisoned label vector */
static void sweep_labels(vh_ctx *c, matrix *x, size_t t)
{
  size_t rows = x->row, p = x->col, k = (size_t)vh_int(c, 1, 5), i, j, g;
  matrix *cen = rand_pos_matrix(c, k, p);
  uivector *l1, *lt, *lt2;
  int rep = !vh_is_tsan(), skipped = 0, dep = 0, wrong = 0, narrow = 0;
  NewUIVector(&l1, rows); NewUIVector(&lt, rows); NewUIVector(&lt2, rows);
  for (i = 0; i < rows; i++) l1->data[i] = lt->data[i] = lt2->data[i] = LPOISON;
  getLabels_(x, cen, l1, 1);
  getLabels_(x, cen, lt, (int)t); g_threads += (long)t;
  if (rep) { getLabels_(x, cen, lt2, (int)t); g_threads += (long)t; }
  for (i = 0; i < rows; i++) {
    ld best = -1, second = -1; size_t bi = 0;
    if (lt->data[i] == LPOISON || l1->data[i] == LPOISON) { skipped++; continue; }
    if (lt->data[i] != l1->data[i]) dep++;
    for (g = 0; g < k; g++) {
      ld s = 0;
      for (j = 0; j < p; j++) s += ((ld)x->data[i][j] - cen->data[g][j]) * ((ld)x->data[i][j] - cen->data[g][j]);
      s = sqrtl(s);
      if (best < 0 || s < best) { second = best; best = s; bi = g; } else if (second < 0 || s < second) second = s;
    }
    if (k > 1 && second - best < 1e-9L * second) { narrow++; continue; }
    if (lt->data[i] != bi) wrong++;
  }
  if (skipped) vh_fail(c, "getLabels_|row-not-processed", "rows=%zu threads=%zu: %d labels still carry the poison value", rows, t, skipped);
  if (dep) vh_fail(c, "getLabels_|thread-count-dependence", "rows=%zu threads=%zu: %d labels differ from the 1-thread result", rows, t, dep);
  if (wrong) vh_fail(c, "getLabels_|not-nearest-centroid", "rows=%zu threads=%zu clusters=%zu: %d labels are not the arg-min of the Euclidean distance", rows, t, k, wrong);
  if (rep && !uiv_equal(lt, lt2)) vh_fail(c, "getLabels_|repeat-not-identical", "rows=%zu threads=%zu", rows, t);
  if (narrow) vh_obs("labels_rows_with_margin_below_1e-9", narrow);
  vh_obs("sweep_calls_getLabels", 1);
  DelUIVector(&l1); DelUIVector(&lt); DelUIVector(&lt2); DelMatrix(&cen);
}

/* ------------------------------------------------------------------ F: KMeans, G: KMeansppCenters, H: MDC, I: MaxDis / MaxDis_Fast */
static void sweep_kmeans(vh_ctx *c, matrix *x, size_t t, long ds)
{
  size_t rows = x->row, k = (size_t)vh_int(c, 1, rows < 3 ? (long)rows : 3);
  int init = (int)((c->idx + ds) & 3), rep = !vh_is_tsan() && g_full;
  uint32_t seed = (uint32_t)vh_int(c, 1, 1000000);
  uivector *l1, *lt, *lt2; matrix *c1, *ct, *ct2;
  char key[128];
  static const char *INAME[4] = { "random", "kmeans++", "MDC", "MaxDis" };
  initUIVector(&l1); initUIVector(&lt); initUIVector(&lt2); initMatrix(&c1); initMatrix(&ct); initMatrix(&ct2);
  guard_on(rows);
  srand_(seed); KMeans(x, k, init, l1, c1, 1);
  srand_(seed); KMeans(x, k, init, lt, ct, t);
  if (rep) { srand_(seed); KMeans(x, k, init, lt2, ct2, t); }
  guard_off();
  g_threads += (long)t * (rep ? 12 : 6);          /* estimate: a few labelling rounds per call */
  if (!uiv_equal(l1, lt)) { snprintf(key, sizeof key, "KMeans|labels-thread-count-dependence|%s", INAME[init]); vh_fail(c, key, "rows=%zu threads=%zu clusters=%zu seed=%u: labels differ from the 1-thread run", rows, t, k, seed); }
  {
    double d = matrix_maxdiff(c1, ct), s = matrix_maxabs(c1) + 1e-300;
    vh_max("max_kmeans_centroid_vs_singlethread_rel", d / s);
    if (!(d <= RELTOL * s)) { snprintf(key, sizeof key, "KMeans|centroids-thread-count-dependence|%s", INAME[init]); vh_fail(c, key, "rows=%zu threads=%zu clusters=%zu seed=%u: centroids differ by %.3g", rows, t, k, seed, d); }
  }
  if (rep && (!uiv_equal(lt, lt2) || !matrix_bitequal(ct, ct2))) { snprintf(key, sizeof key, "KMeans|repeat-not-bit-identical|%s", INAME[init]); vh_fail(c, key, "rows=%zu threads=%zu clusters=%zu seed=%u", rows, t, k, seed); }
  vh_obs("sweep_calls_KMeans", 1);
  DelUIVector(&l1); DelUIVector(&lt); DelUIVector(&lt2); DelMatrix(&c1); DelMatrix(&ct); DelMatrix(&ct2);
}

static void sweep_selections(vh_ctx *c, matrix *x, size_t t, long ds)
{
  size_t rows = x->row, n;
  int rep = !vh_is_tsan() && g_full, metric = (int)((c->idx / 3 + ds) % 3), which;
  uint32_t seed = (uint32_t)vh_int(c, 1, 1000000);
  static const char *FN[4] = { "KMeansppCenters", "MDC", "MaxDis", "MaxDis_Fast" };
  for (which = 0; which < 4; which++) {
    uivector *s1, *st, *st2; char key[128];
    /* MDC: selecting every object makes each row's worker result decisive (a row whose rank was not recomputed keeps
       a stale rank and is picked in another order or twice); cheaper in the tsan build, where only the overlap of
       the slices is at stake.  KMeansppCenters: its sampling loop accepts the first not yet selected object whose
       cumulative squared distance is positive, i.e. the lowest free index whatever the distances are, so the values
       its workers compute cannot be seen in the result; 4 selections exercise the slicing for ASan (overrun) and
       TSan (overlap) - a skipped row of that kernel is not observable through the public interface. */
    if (which == 0) n = rows < 4 ? rows : 4;
    else if (which == 1) n = vh_is_tsan() ? (rows < 4 ? rows : 4) : (g_full || rows <= 12) ? rows : 6;
    else n = rows < 3 ? rows : 3;
    initUIVector(&s1); initUIVector(&st); initUIVector(&st2);
    guard_on(rows);
    switch (which) {
      case 0: srand_(seed); KMeansppCenters(x, n, s1, 1); srand_(seed); KMeansppCenters(x, n, st, (int)t); if (rep) { srand_(seed); KMeansppCenters(x, n, st2, (int)t); } g_threads += (long)(t * (n - 1)) * (rep ? 2 : 1); break;
      case 1: MDC(x, n, metric, s1, 1); MDC(x, n, metric, st, t); if (rep) MDC(x, n, metric, st2, t); g_threads += (long)(t * (n + 1)) * (rep ? 2 : 1); break;
      case 2: MaxDis(x, n, metric, s1, 1); MaxDis(x, n, metric, st, t); if (rep) MaxDis(x, n, metric, st2, t); g_threads += (long)(t * (n - 1)) * (rep ? 2 : 1); break;
      default: MaxDis_Fast(x, n, metric, s1, 1); MaxDis_Fast(x, n, metric, st, t); if (rep) MaxDis_Fast(x, n, metric, st2, t); g_threads += (long)t * (rep ? 2 : 1); break;
    }
    guard_off();
    if (s1->size != n || st->size != n) { snprintf(key, sizeof key, "%s|selection-count", FN[which]); vh_fail(c, key, "rows=%zu threads=%zu requested %zu got %zu (1 thread) / %zu", rows, t, n, s1->size, st->size); }
    else if (!uiv_equal(s1, st)) {
      size_t i, first = 0; for (i = 0; i < n; i++) if (s1->data[i] != st->data[i]) { first = i; break; }
      snprintf(key, sizeof key, "%s|thread-count-dependence", FN[which]);
      vh_fail(c, key, "rows=%zu threads=%zu n=%zu metric=%d seed=%u: selection %zu is %zu, 1-thread run selects %zu", rows, t, n, metric, seed, first, st->data[first], s1->data[first]);
    }
    if (rep && !uiv_equal(st, st2)) { snprintf(key, sizeof key, "%s|repeat-not-identical", FN[which]); vh_fail(c, key, "rows=%zu threads=%zu n=%zu", rows, t, n); }
    DelUIVector(&s1); DelUIVector(&st); DelUIVector(&st2);
  }
  vh_obs("sweep_calls_selection", 4);
}

static void run_sweep(vh_ctx *c)
{
  long pair = (c->idx % NPAIR) * 197 % NPAIR, ds = c->idx / NPAIR;
  size_t rows = (size_t)(pair / TMAX), t = (size_t)(pair % TMAX) + 1, p = (size_t)vh_int(c, 1, 6);
  matrix *x = rand_pos_matrix(c, rows, p);
  const char *rel = t == 1 ? "t=1" : rows == 0 ? "norows" : t > rows ? "t>rows" : t == rows ? "t=rows" : rows % t == 0 ? "t|rows" : "t-not-dividing";
  vh_class(c, "sweep-%s-%s-p%zu", rows == 0 ? "r0" : rows == 1 ? "r1" : rows <= 8 ? "r2-8" : rows <= 24 ? "r9-24" : "r25-40", rel, p);
  vh_desc(c, "slicing sweep: rows=%zu threads=%zu vars=%zu dataset=%ld", rows, t, p, ds);
  g_threads = 0; g_full = ds < full_sets(c->tier); g_rot = (int)((pair + ds) & 3);
  sweep_mt_products(c, rows, t);
  /* the kernels with an explicit thread argument must not depend on how many processors the machine reports (H1): 1, 2, 3, 5 or the real count */
  { static const size_t NP[] = { 1, 2, 3, 5, 0 }; libsci_verif_nprocs = NP[(pair + ds) % 5]; vh_hist("sweep_reported_processors", (long)libsci_verif_nprocs); }
  sweep_distance(c, x, t);
  sweep_condensed(c, x, t);
  sweep_labels(c, x, t);
  if (rows >= 1) {           /* selecting / clustering 0 objects is outside every function's domain */
    sweep_kmeans(c, x, t, ds);
    sweep_selections(c, x, t, ds);
    vh_obs("sweep_pairs_all_families", 1);
  } else vh_obs("sweep_pairs_rows0_kernels_only", 1);
  libsci_verif_nprocs = 1;
  vh_obs("sweep_pairs", 1);
  vh_obs("library_threads_started_sweep", (double)g_threads);
  vh_hist("sweep_rows", (long)rows); vh_hist("sweep_threads", (long)t);
  DelMatrix(&x);
}

/* ------------------------------------------------------------------ index map, exhaustive for one n */
static void run_indexmap(vh_ctx *c, size_t n)
{
  size_t want = n * (n - (n ? 1 : 0)) / 2, i, j, pos = 0, lex = 0;
  unsigned char *seen = calloc(want + 1, 1);
  int bad_range = 0, bad_sym = 0, dup = 0;
  vh_class(c, "indexmap-%s", n < 2 ? "n<2" : n <= 8 ? "n2-8" : n <= 40 ? "n9-40" : "n41-80");
  vh_desc(c, "index map n=%zu (%zu pairs)", n, want);
  for (i = 0; i < n; i++) for (j = i + 1; j < n; j++, pos++) {
    size_t a = square_to_condensed_index(i, j, n), b = square_to_condensed_index(j, i, n);
    if (a != b) bad_sym++;
    if (a >= want) { bad_range++; continue; }
    if (seen[a]) dup++;
    seen[a] = 1;
    if (a == pos) lex++;
  }
  if (bad_sym) vh_fail(c, "square_to_condensed_index|not-symmetric", "n=%zu: %d pairs with index(i,j) != index(j,i)", n, bad_sym);
  if (bad_range) vh_fail(c, "square_to_condensed_index|out-of-range", "n=%zu: %d pairs mapped outside 0..%zu", n, bad_range, want ? want - 1 : 0);
  if (dup) vh_fail(c, "square_to_condensed_index|not-injective", "n=%zu: %d pairs share an index with an earlier pair", n, dup);
  /* in range + injective on n(n-1)/2 pairs => onto */
  vh_obs("indexmap_n_enumerated", 1); vh_obs("indexmap_pairs_checked", (double)pos);
  if (lex == pos) vh_obs("indexmap_n_row_major_order", 1);
  free(seen);
}

/* ------------------------------------------------------------------ value clauses */
static void st_variant(int mt, matrix *a, matrix *b, matrix *d)
{
  switch (mt) {
    case 0: EuclideanDistance_ST(a, b, d); break;
    case 1: SquaredEuclideanDistance_ST(a, b, d); break;
    case 2: ManhattanDistance_ST(a, b, d); break;
    default: CosineDistance_ST(a, b, d); break;
  }
}
/* tolerance of one distance against its definition: 100x head-room over p*eps; absolute for the cosine (its
   numerator may cancel, the error is relative to |x||y|, i.e. absolute in the quotient) */
static int dist_close(double got, ld want, int mt, double *dev)
{
  ld s = mt == 3 ? 1.0L : fabsl(want), d = fabsl((ld)got - want);
  if (got != got) { *dev = INFINITY; return 0; }
  if (s < 1e-300L) { *dev = d == 0 ? 0 : INFINITY; return d == 0; }
  *dev = (double)(d / s);
  return *dev <= RELTOL;
}

static void run_value(vh_ctx *c)
{
  size_t n = (size_t)vh_int(c, 1, 60), p = (size_t)vh_int(c, 1, 10), q = (size_t)vh_int(c, 1, 60), i, j, k;
  size_t t1 = (size_t)vh_int(c, 1, 8), t2 = (size_t)vh_int(c, 1, 8);
  int shape = (int)vh_int(c, 0, 3), mt;
  double sc = vh_logunif(c, -2, 2), off = vh_coin(c, 0.5) ? 0.0 : vh_range(c, -3, 3) * sc;
  matrix *x, *y; ldm *lx, *ly;
  if (shape == 0) n = (size_t)vh_int(c, 1, 4);          /* tiny */
  if (shape == 1) q = 1;                                /* distance to a single object */
  if (vh_is_tsan()) { if (t1 < 2) t1 = 2; if (t2 < 2) t2 = 3; if (n > 30) n = 30; if (q > 30) q = 30; }
  NewMatrix(&x, n, p); NewMatrix(&y, q, p);
  for (i = 0; i < n; i++) for (j = 0; j < p; j++) x->data[i][j] = off + sc * vh_gauss(c);
  for (i = 0; i < q; i++) for (j = 0; j < p; j++) y->data[i][j] = off + sc * vh_gauss(c);
  if (n >= 3 && vh_coin(c, 0.15)) for (j = 0; j < p; j++) x->data[n - 1][j] = x->data[0][j];     /* a duplicated object: zero distance off the diagonal */
  /* second build session: data regimes in which an algebraically equivalent formula (|a|^2 + |b|^2 - 2ab) cancels while the definition
     does not: a common offset far larger than the spread, and nearly duplicated objects */
  if (vh_coin(c, 0.15)) { double big = sc * vh_logunif(c, 3, 5); for (i = 0; i < n; i++) for (j = 0; j < p; j++) x->data[i][j] += big; for (i = 0; i < q; i++) for (j = 0; j < p; j++) y->data[i][j] += big; vh_obs("value_cases_with_large_common_offset", 1); }
  if (n >= 4 && vh_coin(c, 0.15)) { for (j = 0; j < p; j++) x->data[n - 2][j] = x->data[1][j] * (1.0 + 1e-8 * vh_gauss(c)); vh_obs("value_cases_with_near_duplicate_objects", 1); }
  lx = ldm_of_matrix(x); ly = ldm_of_matrix(y);
  vh_class(c, "value-n%s-q%s-p%s-t%s", n <= 4 ? "1-4" : n <= 20 ? "5-20" : "21-60", q == 1 ? "1" : q <= 20 ? "2-20" : "21-60", p == 1 ? "1" : p <= 4 ? "2-4" : "5-10",
           t1 == 1 ? "1" : t1 > n ? ">n" : "2-8");
  vh_desc(c, "values: n=%zu q=%zu vars=%zu threads=%zu/%zu scale=%.3g offset=%.3g x00=%.17g", n, q, p, t1, t2, sc, off, x->data[0][0]);
  for (mt = 0; mt < 4; mt++) {
    matrix *d, *ds, *sq; dvector *cd; char key[128];
    double worst = 0, dev; int bad = 0, notst = 0, stbit = 1;
    /* (1) two different matrices: definition, _ST variant */
    initMatrix(&d); initMatrix(&ds);
    CalculateDistance(x, y, d, t1, MENUM[mt]);
    st_variant(mt, x, y, ds);
    if (d->row != q || d->col != n || ds->row != q || ds->col != n) { snprintf(key, sizeof key, "CalculateDistance|shape|%s", MNAME[mt]); vh_fail(c, key, "got %zux%zu / ST %zux%zu expected %zux%zu", d->row, d->col, ds->row, ds->col, q, n); }
    else {
      for (k = 0; k < q; k++) for (i = 0; i < n; i++) {
        ld o = or_dist(&LM(lx, i, 0), &LM(ly, k, 0), p, mt);
        if (!dist_close(d->data[k][i], o, mt, &dev)) bad++;
        if (dev > worst) worst = dev;
        if (!dist_close(ds->data[k][i], o, mt, &dev)) notst++;
        if (memcmp(&d->data[k][i], &ds->data[k][i], sizeof(double))) stbit = 0;
      }
      vh_max(mt == 3 ? "max_cosine_vs_definition_abs" : "max_distance_vs_definition_rel", worst);
      if (bad) { snprintf(key, sizeof key, "CalculateDistance|value-vs-definition|%s", MNAME[mt]); vh_fail(c, key, "%d of %zu cells differ from the definition (worst %.3g)", bad, q * n, worst); }
      if (notst) { snprintf(key, sizeof key, "%s_ST|value-vs-definition", MNAME[mt]); vh_fail(c, key, "%d of %zu cells of the single-thread variant differ from the definition", notst, q * n); }
      vh_obs(stbit ? "st_variant_bit_identical" : "st_variant_not_bit_identical", 1);
    }
    DelMatrix(&d); DelMatrix(&ds);
    /* (2) a matrix against itself: metric axioms, condensed form */
    initMatrix(&sq); initDVector(&cd);
    CalculateDistance(x, x, sq, t2, MENUM[mt]);
    condensed(mt, x, cd, t1);
    if (sq->row != n || sq->col != n) { snprintf(key, sizeof key, "CalculateDistance|shape|%s", MNAME[mt]); vh_fail(c, key, "self-distance matrix is %zux%zu for %zu objects", sq->row, sq->col, n); }
    else {
      int asym = 0, diag = 0, neg = 0, tri = 0, defn = 0; double dmax = 0, worst_tri = 0, worst_sym = 0;
      for (i = 0; i < n; i++) for (k = 0; k < n; k++) {
        ld o = or_dist(&LM(lx, k, 0), &LM(lx, i, 0), p, mt);
        double a = sq->data[i][k], b = sq->data[k][i], s = fabs(a) > fabs(b) ? fabs(a) : fabs(b);
        if (!dist_close(a, o, mt, &dev)) defn++;
        if (fabs(a) > dmax) dmax = fabs(a);
        if (s > 0 && fabs(a - b) / s > worst_sym) worst_sym = fabs(a - b) / s;
        if (!(fabs(a - b) <= RELTOL * s)) asym++;
        if (mt != 3 && !(a >= 0)) neg++;
        if (mt == 3 && !(fabs(a) <= 1 + RELTOL)) neg++;
        if (i == k) { if (mt != 3 ? a != 0.0 : !(fabs(a - 1) <= RELTOL)) diag++; }
      }
      vh_max("max_asymmetry_rel", worst_sym);
      if (defn) { snprintf(key, sizeof key, "CalculateDistance|value-vs-definition|%s", MNAME[mt]); vh_fail(c, key, "self-distance matrix: %d cells differ from the definition", defn); }
      if (asym) { snprintf(key, sizeof key, "CalculateDistance|not-symmetric|%s", MNAME[mt]); vh_fail(c, key, "%d cells with d(i,k) != d(k,i)", asym); }
      if (diag) { snprintf(key, sizeof key, mt != 3 ? "CalculateDistance|self-distance-not-zero|%s" : "CalculateDistance|self-similarity-not-one|%s", MNAME[mt]); vh_fail(c, key, "%d diagonal cells", diag); }
      if (neg) { snprintf(key, sizeof key, mt != 3 ? "CalculateDistance|negative-distance|%s" : "CalculateDistance|cosine-outside-unit-interval|%s", MNAME[mt]); vh_fail(c, key, "%d cells", neg); }
      if (mt == 0 || mt == 2) {
        size_t a_, b_, c_;
        for (a_ = 0; a_ < n; a_++) for (b_ = 0; b_ < n; b_++) for (c_ = 0; c_ < n; c_++) {
          double ex = sq->data[a_][c_] - (sq->data[a_][b_] + sq->data[b_][c_]);
          if (dmax > 0 && ex / dmax > worst_tri) worst_tri = ex / dmax;
          if (!(ex <= 1e-12 * dmax)) tri++;
        }
        vh_max("max_triangle_excess_over_dmax", worst_tri);
        vh_obs("triangle_triples_checked", (double)n * (double)n * (double)n);
        if (tri) { snprintf(key, sizeof key, "CalculateDistance|triangle-inequality|%s", MNAME[mt]); vh_fail(c, key, "%d triples violate d(a,c) <= d(a,b)+d(b,c) (worst excess %.3g of max distance %.3g)", tri, worst_tri, dmax); }
      }
      /* condensed = strict upper triangle through the index map */
      if (cd->size != n * (n - 1) / 2) { snprintf(key, sizeof key, "%s|size", CNAME[mt]); vh_fail(c, key, "size %zu for %zu objects", cd->size, n); }
      else {
        int mism = 0, range = 0, bit = 1; unsigned char *hit = calloc(cd->size + 1, 1); size_t cover = 0;
        for (i = 0; i < n; i++) for (k = i + 1; k < n; k++) {
          size_t ix = square_to_condensed_index(i, k, n);
          if (ix >= cd->size) { range++; continue; }
          if (!hit[ix]) { hit[ix] = 1; cover++; }
          if (!dist_close(cd->data[ix], (ld)sq->data[i][k], mt, &dev)) mism++;
          if (memcmp(&cd->data[ix], &sq->data[i][k], sizeof(double))) bit = 0;
        }
        if (range) vh_fail(c, "square_to_condensed_index|out-of-range", "n=%zu: %d pairs", n, range);
        if (cover != cd->size) { snprintf(key, sizeof key, "%s|cells-not-addressed-by-index-map", CNAME[mt]); vh_fail(c, key, "%zu of %zu cells are the image of a pair", cover, cd->size); }
        if (mism) { snprintf(key, sizeof key, "%s|not-upper-triangle-of-square-form", CNAME[mt]); vh_fail(c, key, "%d of %zu cells differ from the square form at (i,k), i<k", mism, cd->size); }
        vh_obs(bit ? "condensed_bit_identical_to_square" : "condensed_not_bit_identical_to_square", 1);
        free(hit);
      }
    }
    DelMatrix(&sq); DelDVector(&cd);
  }
  vh_obs("value_cases", 1);
  vh_obs("library_threads_started_value", (double)(4 * (2 * t1 + t2)));
  ldm_free(lx); ldm_free(ly); DelMatrix(&x); DelMatrix(&y);
}

static void run_case(vh_ctx *c)
{
  long nsweep = (long)NPAIR * datasets(c->tier);
  if (c->idx < nsweep) run_sweep(c);
  else if (c->idx < nsweep + NIDX) run_indexmap(c, (size_t)(c->idx - nsweep));
  else run_value(c);
  libsci_verif_nprocs = 1;
}

const vh_driver VH_DRIVER = { "C13", ncases, run_case, NULL, 120 };
