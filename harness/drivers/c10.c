/* c10.c - C10: centring/scaling does what each option promises and is reproducible on new data.
 *
 * Monitor (asan build).  A case is a training matrix 2..60 x 1..20 built from column kinds
 * (gaussian around an offset up to +-1e4, exactly constant, zero-sum, two-valued), one option in
 * -1..5 and two independent masks of cells coded MISSING (<= 20 % of the cells, >= 2 present values
 * per column, the code value inside the +-0.1 window, row 0 forced missing in 30 % of the masked cases).
 * Domain of the property (cases outside are skipped, the generator repairs most of them): every column
 * spread over the present cells is exactly 0 or >= 0.05, every stored scaling value is exactly 0 or
 * >= 0.05 in magnitude (level scaling: |mean| >= 0.05 or the column is constant).
 *
 * Judged for each of the two masked matrices (and for every extra tensor block):
 *   fit     stored colaverage/colscaling = reference statistics of the present cells (or_col_stats /
 *           or_preprocess_fit), each present cell = (x - mean)/scale, zero-spread columns exactly 0
 *           when the scaling value is a spread measure, never NaN/Inf, column mean of the result 0
 *           and the promised statistic (SD 1, SD sd/rms, SD sqrt(sd), range 1, SD sd/|mean|), input untouched
 *   apply   stored statistics applied to the same matrix = fit result on all present cells (output
 *           container empty or pre-filled), applied to new rows = (y - mean)/scale, option -1 copies
 *   missing the column with its missing cells removed gives the same statistics and the same cells;
 *           the two masks give results that back-transform to the same x on every commonly present cell
 *   stats   MatrixColAverage/ColSDEV/ColRMS/ColVar/ColumnMinMax one by one (MISSING in row 0 included)
 *   tensor  TensorPreprocess (1..4 blocks of different shapes) = MatrixPreprocess block by block, bit for bit
 *
 * MatrixColAverage's documented quirk (a column SUM with |sum| < 1e-6 is reported as mean 0) is accepted
 * as an alternative inside that window and exercised on purpose by the zero-sum columns.
 * Tolerances: TOLC * eps * (natural scale of the quantity); deviations are recorded in those units. */
#include "drv_util.h"

#define EPS 2.220446049250313e-16L
#define TOLC 2048.0
#define POISON 777.25
#define DOM 0.05L

static long ncases(int tier) { return tier ? 1200000 : 80000; }

enum { MX_MEAN, MX_SCALE, MX_CELL, MX_RESMEAN, MX_RESSTAT, MX_APPLY_SAME, MX_APPLY_NEW, MX_COMPACT, MX_PAIR, MX_CS_AVG, MX_CS_SD, MX_CS_RMS, MX_CS_VAR, MX_CONSTCOL, MX_CONSTSCALE, NMX };
static const char *MXNAME[NMX] = {
  "max_dev_colaverage_eps_meanabs", "max_dev_colscaling_eps_scale", "max_dev_transformed_cell_eps_scale", "max_dev_result_column_mean_eps_scale",
  "max_dev_promised_statistic_eps_rel", "max_dev_apply_same_vs_fit_eps_scale", "max_dev_apply_new_rows_eps_scale", "max_dev_missing_removed_column_eps_scale",
  "max_dev_mask_pair_backtransform_eps_scale", "max_dev_MatrixColAverage_eps_meanabs", "max_dev_MatrixColSDEV_eps_scale", "max_dev_MatrixColRMS_eps_rel",
  "max_dev_MatrixColVar_eps_scale", "max_dev_constant_column_residue_eps_scale", "max_dev_constant_column_scaling_eps_meanabs" };
static double g_mx[NMX];

static int near_(int which, double got, ld ref, ld scale)
{
  ld d;
  if (!isfinite(got)) return 0;
  d = fabsl((ld)got - ref);
  if (!(scale > 0)) return d == 0;
  d /= EPS * scale;
  if (d > TOLC) return 0;
  if ((double)d > g_mx[which]) g_mx[which] = (double)d;
  return 1;
}

/* ------------------------------------------------------------------------------------------ generator */
enum { K_NORMAL, K_CONST, K_ZEROSUM, K_TWOVAL };
typedef struct { size_t n, p; double *v; unsigned char *ma, *mb; int *kind; double *loc, *spr; } block;
#define BV(b, i, j) ((b)->v[(size_t)(i) * (b)->p + (size_t)(j)])

static void block_free(block *b) { free(b->v); free(b->ma); free(b->mb); free(b->kind); free(b->loc); free(b->spr); }

static double gen_loc(vh_ctx *c) { return vh_coin(c, 0.3) ? 0.0 : vh_range(c, -1.0, 1.0) * vh_logunif(c, -1.0, 4.0); }

static void gen_column(vh_ctx *c, block *b, size_t j, int type, int forcenormal)
{
  size_t i, n = b->n;
  double u = vh_unif(c);
  int kind = forcenormal ? K_NORMAL : u < 0.12 ? K_CONST : u < 0.20 ? K_ZEROSUM : u < 0.28 ? K_TWOVAL : K_NORMAL;
  double loc = gen_loc(c), spr = vh_logunif(c, -1.0, 3.0);
  if (kind == K_ZEROSUM && (type == 5 || n < 2)) kind = K_NORMAL;
  if (type == 5 && fabs(loc) < 0.1 && kind != K_CONST) loc = (vh_coin(c, 0.5) ? 1 : -1) * vh_range(c, 0.1, 50.0);
  if (kind == K_CONST && loc != 0 && fabs(loc) < 0.06) loc = loc < 0 ? -0.06 - fabs(loc) : 0.06 + fabs(loc);
  b->kind[j] = kind; b->loc[j] = kind == K_ZEROSUM ? 0.0 : loc; b->spr[j] = spr;
  switch (kind) {
    case K_CONST: for (i = 0; i < n; i++) BV(b, i, j) = loc; break;
    case K_TWOVAL: { double d = spr * vh_range(c, 0.5, 2.0); for (i = 0; i < n; i++) BV(b, i, j) = vh_coin(c, 0.5) ? loc - d : loc + d; } break;
    case K_ZEROSUM: {
      size_t *perm = malloc(sizeof(size_t) * n);
      vh_perm(c, perm, n);
      for (i = 0; i + 1 < n; i += 2) { double a = spr * (0.3 + fabs(vh_gauss(c))); BV(b, perm[i], j) = a; BV(b, perm[i + 1], j) = -a; }
      if (n % 2) BV(b, perm[n - 1], j) = 0.0;
      free(perm);
    } break;
    default: for (i = 0; i < n; i++) BV(b, i, j) = loc + spr * vh_gauss(c);
  }
}

static void gen_mask(vh_ctx *c, block *b, unsigned char *mask, int *regime)
{
  size_t n = b->n, p = b->p, cells = n * p, K, placed = 0, q, *order, *present;
  double f;
  memset(mask, 0, cells);
  *regime = 0;
  if (n < 3 || vh_coin(c, 0.3)) return;
  f = vh_range(c, 0.005, 0.2);
  K = (size_t)(f * (double)cells + 0.5);
  if (K < 1) K = 1;
  if (K > cells / 5) K = cells / 5;
  if (K < 1) return;
  order = malloc(sizeof(size_t) * cells); present = malloc(sizeof(size_t) * p);
  vh_perm(c, order, cells);
  for (q = 0; q < p; q++) present[q] = n;
  *regime = 1;
  if (vh_coin(c, 0.3)) {     /* put cells of row 0 first */
    size_t want = (size_t)vh_int(c, 1, 3), got = 0, a;
    for (a = 0; a < cells && got < want; a++) if (order[a] / p == 0) { size_t t = order[got]; order[got] = order[a]; order[a] = t; got++; }
    *regime = 2;
  }
  for (q = 0; q < cells && placed < K; q++) {
    size_t i = order[q] / p, j = order[q] % p;
    if (b->kind[j] == K_ZEROSUM || present[j] <= 2) continue;
    mask[i * p + j] = 1; present[j]--; placed++;
  }
  if (!placed) *regime = 0;
  else if (*regime == 2) { int r0 = 0; for (q = 0; q < p; q++) r0 |= mask[q]; if (!r0) *regime = 1; }
  free(order); free(present);
}

static void present_stats(const block *b, const unsigned char *mask, size_t j, ld *mean, ld *sd)
{
  size_t i, np = 0; ld s = 0, v = 0;
  for (i = 0; i < b->n; i++) if (!mask[i * b->p + j]) { s += BV(b, i, j); np++; }
  *mean = np ? s / np : 0;
  for (i = 0; i < b->n; i++) if (!mask[i * b->p + j]) { ld d = BV(b, i, j) - *mean; v += d * d; }
  *sd = np > 1 ? sqrtl(v / (np - 1)) : 0;
}

/* bring the non-constant columns into the property's domain under both masks (spread >= 0.05, level scaling |mean| >= 0.05) */
static void repair(vh_ctx *c, block *b, int type)
{
  size_t i, j; int tries;
  for (j = 0; j < b->p; j++) {
    if (b->kind[j] == K_CONST) continue;
    for (tries = 0; tries < 8; tries++) {
      ld ma, sa, mb, sb, lo;
      present_stats(b, b->ma, j, &ma, &sa); present_stats(b, b->mb, j, &mb, &sb);
      lo = sa < sb ? sa : sb;
      if (lo == 0) { b->kind[j] = K_NORMAL; for (i = 0; i < b->n; i++) BV(b, i, j) = b->loc[j] + b->spr[j] * vh_gauss(c); continue; }
      if (lo < 0.06L) { double f = (double)(0.06L / lo) * vh_range(c, 1.5, 4.0); for (i = 0; i < b->n; i++) BV(b, i, j) = b->loc[j] + (BV(b, i, j) - b->loc[j]) * f; continue; }
      if (type == 5 && (fabsl(ma) < 0.06L || fabsl(mb) < 0.06L)) { double s = (ma >= 0 ? 1 : -1) * vh_range(c, 0.2, 5.0); for (i = 0; i < b->n; i++) BV(b, i, j) += s; b->loc[j] += s; continue; }
      break;
    }
    if (b->kind[j] == K_ZEROSUM) {   /* place the column sum exactly at 0, inside or just outside the documented 1e-6 window */
      int w = (int)vh_int(c, 0, 2);
      double delta = w == 0 ? 0.0 : w == 1 ? vh_range(c, -9e-7, 9e-7) : (vh_coin(c, 0.5) ? 1 : -1) * vh_range(c, 1.1e-6, 1e-5);
      BV(b, (size_t)vh_int(c, 0, (long)b->n - 1), j) += delta;
    }
  }
}

static void gen_block(vh_ctx *c, block *b, size_t n, size_t p, int type, int *rega, int *regb)
{
  size_t j;
  b->n = n; b->p = p;
  b->v = calloc(n * p + 1, sizeof(double)); b->ma = calloc(n * p + 1, 1); b->mb = calloc(n * p + 1, 1);
  b->kind = calloc(p + 1, sizeof(int)); b->loc = calloc(p + 1, sizeof(double)); b->spr = calloc(p + 1, sizeof(double));
  for (j = 0; j < p; j++) gen_column(c, b, j, type, 0);
  gen_mask(c, b, b->ma, rega); gen_mask(c, b, b->mb, regb);
  repair(c, b, type);
}

static matrix *materialise(vh_ctx *c, const block *b, const unsigned char *mask)
{
  matrix *m; size_t i, j;
  NewMatrix(&m, b->n, b->p);
  for (i = 0; i < b->n; i++) for (j = 0; j < b->p; j++)
    m->data[i][j] = !mask[i * b->p + j] ? BV(b, i, j) : vh_coin(c, 0.75) ? (double)MISSING : (double)MISSING + vh_range(c, -0.09, 0.09);
  return m;
}

/* ------------------------------------------------------------------------------------------ reference */
typedef struct { ld m, sd, rms, lo, hi, sum, sumabs, sc; size_t np; int constant, maysnap; } cstat;

static void col_stat(const ldm *X, size_t j, int type, cstat *s)
{
  size_t i;
  or_col_stats(X, j, &s->m, &s->sd, &s->rms, &s->lo, &s->hi, &s->np);
  s->sum = 0; s->sumabs = 0;
  for (i = 0; i < X->r; i++) { ld x = LM(X, i, j); if (or_is_missing((double)x)) continue; s->sum += x; s->sumabs += fabsl(x); }
  s->constant = s->np > 0 && s->hi == s->lo;
  if (s->constant) s->sd = 0;
  s->maysnap = fabsl(s->sum) < 1e-6L + 8 * EPS * s->sumabs;
  switch (type) { case 1: s->sc = s->sd; break; case 2: s->sc = s->rms; break; case 3: s->sc = sqrtl(s->sd); break; case 4: s->sc = s->hi - s->lo; break; case 5: s->sc = s->m; break; default: s->sc = 1; }
}

static int in_domain(const ldm *X, int type, const char **why)
{
  size_t j; cstat s;
  for (j = 0; j < X->c; j++) {
    col_stat(X, j, type, &s);
    if (s.np < 2) { *why = "fewer than 2 present values in a column"; return 0; }
    if (!s.constant && s.sd < DOM) { *why = "column spread in (0,0.05)"; return 0; }
    if (type >= 1 && s.sc != 0 && fabsl(s.sc) < DOM) { *why = "stored scaling value in (0,0.05)"; return 0; }
    if (type == 5 && !s.constant && fabsl(s.m) < DOM) { *why = "level scaling with |mean| < 0.05"; return 0; }
  }
  return 1;
}

/* ------------------------------------------------------------------------------------------ fit path */
typedef struct { matrix *X, *T; dvector *ave, *scal; ldm *LX, *LT; cstat *cs; int *snapped; int ok; } fitres;

static void fit_free(fitres *f)
{
  if (f->X) DelMatrix(&f->X);
  if (f->T) DelMatrix(&f->T);
  if (f->ave) DelDVector(&f->ave);
  if (f->scal) DelDVector(&f->scal);
  if (f->LX) ldm_free(f->LX);
  if (f->LT) ldm_free(f->LT);
  free(f->cs); free(f->snapped);
  memset(f, 0, sizeof *f);
}

static const char *optkey(char *buf, size_t n, const char *base, int type) { snprintf(buf, n, "%s|option=%d", base, type); return buf; }

/* f->X must be set; fits it with the library and judges the result */
static void fit_and_judge(vh_ctx *c, fitres *f, int type)
{
  matrix *X = f->X, *X0 = matrix_dup(X);
  size_t n = X->row, p = X->col, i, j, nleft0 = 0, nleftother = 0;
  char kb[96];
  f->LX = ldm_of_matrix(X);
  f->cs = calloc(p + 1, sizeof(cstat)); f->snapped = calloc(p + 1, sizeof(int));
  for (j = 0; j < p; j++) col_stat(f->LX, j, type, &f->cs[j]);
  {   /* the shared preprocessing oracle: reference transform of every present cell (NaN in missing cells) */
    ld *om = calloc(p + 1, sizeof(ld)), *os = calloc(p + 1, sizeof(ld)); size_t nm, ns;
    f->LT = ldm_new(n, p);
    or_preprocess_fit(f->LX, type, om, os, &nm, &ns, f->LT);
    free(om); free(os);
  }
  initDVector(&f->ave); initDVector(&f->scal); NewMatrix(&f->T, n, p);
  MatrixPreprocess(X, type, f->ave, f->scal, f->T);
  f->ok = 1;
  vh_obs("fits_judged", 1);
  if (!matrix_bitequal(X, X0)) { vh_fail(c, "MatrixPreprocess|input-modified", "the training matrix was changed (option %d)", type); f->ok = 0; }
  DelMatrix(&X0);
  if (f->T->row != n || f->T->col != p) { vh_fail(c, "MatrixPreprocess|output-shape", "%zux%zu for %zux%zu", f->T->row, f->T->col, n, p); f->ok = 0; return; }
  if (type < 0) {
    if (f->ave->size || f->scal->size) { vh_fail(c, "MatrixPreprocess|stats-size", "option -1 stored %zu averages %zu scalings", f->ave->size, f->scal->size); f->ok = 0; }
    if (!matrix_bitequal(f->T, X)) vh_fail(c, "MatrixPreprocess|copy-option", "option -1 did not copy the matrix");
    return;
  }
  if (f->ave->size != p || f->scal->size != p) { vh_fail(c, "MatrixPreprocess|stats-size", "colaverage %zu colscaling %zu for %zu columns (option %d)", f->ave->size, f->scal->size, p, type); f->ok = 0; return; }
  if (!matrix_all_finite(f->T)) vh_fail(c, optkey(kb, sizeof kb, "MatrixPreprocess|non-finite", type), "NaN/Inf in the transformed matrix");
  for (j = 0; j < p; j++) {
    cstat *s = &f->cs[j];
    double gm = f->ave->data[j], gs = f->scal->data[j];
    ld mused = s->m, meanabs = s->sumabs / s->np, want, tolscale;
    ld ampl = type == 5 && s->m != 0 ? meanabs / fabsl(s->m) : 0;   /* level scaling divides by a mean known to eps*meanabs: relative error of the scale */
    int zero;
    /* stored average */
    if (s->maysnap && gm == 0 && s->m != 0) { f->snapped[j] = 1; mused = 0; vh_obs("colaverage_zero_snap_columns", 1); }   /* the documented alternative */
    else if (!near_(MX_MEAN, gm, s->m, meanabs)) {
      { vh_fail(c, "MatrixPreprocess|colaverage", "column %zu: stored %.17g, mean of the %zu present cells %.17Lg (column sum %.6Lg)", j, gm, s->np, s->m, s->sum); f->ok = 0; continue; }
    }
    /* stored scaling (Pareto in sd units so that a constant column is judged on one scale) */
    switch (type) {
      case 0: if (gs != 1.0) { vh_fail(c, optkey(kb, sizeof kb, "MatrixPreprocess|colscaling", type), "column %zu: %.17g expected 1", j, gs); f->ok = 0; } break;
      case 5: if (memcmp(&gs, &gm, sizeof gs)) { vh_fail(c, optkey(kb, sizeof kb, "MatrixPreprocess|colscaling", type), "column %zu: scaling %.17g is not the stored mean %.17g", j, gs, gm); f->ok = 0; } break;
      default:
        want = type == 3 ? s->sd : s->sc;
        tolscale = type == 2 ? s->rms : type == 4 ? fabsl(s->hi) + fabsl(s->lo) : s->sd + meanabs;
        if (!near_(s->constant ? MX_CONSTSCALE : MX_SCALE, type == 3 ? gs * gs : gs, want, type == 3 ? 2 * tolscale : tolscale)) {
          vh_fail(c, optkey(kb, sizeof kb, "MatrixPreprocess|colscaling", type), "column %zu: stored %.17g, reference %.17Lg (%zu present cells of %zu, sd %.6Lg rms %.6Lg min %.17Lg max %.17Lg)", j, gs, s->sc, s->np, n, s->sd, s->rms, s->lo, s->hi);
          f->ok = 0; continue;
        }
    }
    /* transformed cells */
    zero = s->sc == 0 || (type == 5 && mused == 0);
    vh_obs(zero ? "columns_zero_scale" : s->constant ? "columns_constant_nonzero_scale" : "columns_scaled", 1);
    {
      ld sres = 0, sres2 = 0, lo = INFINITY, hi = -INFINITY;
      int bad = 0;
      for (i = 0; i < n; i++) {
        double x = X->data[i][j], t = f->T->data[i][j];
        if (or_is_missing(x)) { if (t == 0) nleft0++; else nleftother++; continue; }
        if (zero) {
          if (t != 0 && !bad) { vh_fail(c, optkey(kb, sizeof kb, "MatrixPreprocess|zero-spread-column-not-zero", type), "column %zu (scaling value 0): t[%zu] = %.17g", j, i, t); bad = 1; }
        } else {
          ld e = s->constant ? 0 : f->snapped[j] ? ((ld)x - mused) / s->sc : LM(f->LT, i, j), sc = (fabsl((ld)x) + fabsl(s->m) + meanabs) / fabsl(s->sc) + fabsl(e) * ampl;
          if (!near_(s->constant ? MX_CONSTCOL : MX_CELL, t, e, sc) && !bad) {
            vh_fail(c, optkey(kb, sizeof kb, "MatrixPreprocess|transform-value", type), "t[%zu][%zu] = %.17g, (x - mean)/scale = %.17Lg (x %.17g mean %.17Lg scale %.17Lg, %zu of %zu cells present)", i, j, t, e, x, mused, s->sc, s->np, n);
            bad = 1;
          }
        }
        sres += t; sres2 += (ld)t * t; if (t < lo) lo = t; if (t > hi) hi = t;
      }
      if (bad) { f->ok = 0; continue; }
      /* the promise itself, on the library's output: mean 0 and the option's statistic */
      if (!zero && !s->constant) {
        ld mres = sres / s->np, vres = 0, sdres, target, cond = 1 + meanabs / s->sd + ampl, tsc = (2 * meanabs) / fabsl(s->sc);
        for (i = 0; i < n; i++) if (!or_is_missing(X->data[i][j])) { ld d = f->T->data[i][j] - mres; vres += d * d; }
        sdres = sqrtl(vres / (s->np - 1));
        ld dev = fabsl(mres) - fabsl(s->m - mused) / fabsl(s->sc);      /* a zero-snapped mean leaves the column mean at m/scale */
        if (dev < 0) dev = 0;
        if (!near_(MX_RESMEAN, (double)dev, 0, tsc))
          vh_fail(c, optkey(kb, sizeof kb, "MatrixPreprocess|result-column-mean-not-zero", type), "column %zu: mean of the transformed present cells %.6Lg", j, mres);
        target = s->sd / fabsl(s->sc);      /* 0: sd, 1: 1, 2: sd/rms, 3: sqrt(sd), 4: sd/range, 5: sd/|mean| */
        if (!near_(MX_RESSTAT, (double)sdres, target, target * cond))
          vh_fail(c, optkey(kb, sizeof kb, "MatrixPreprocess|promised-statistic", type), "column %zu: SD of the result %.17Lg, promised %.17Lg", j, sdres, target);
        if (type == 1 && !near_(MX_RESSTAT, (double)sdres, 1, cond)) vh_fail(c, optkey(kb, sizeof kb, "MatrixPreprocess|promised-statistic", type), "column %zu: SD of the autoscaled column %.17Lg", j, sdres);
        if (type == 4 && !near_(MX_RESSTAT, (double)(hi - lo), 1, cond)) vh_fail(c, optkey(kb, sizeof kb, "MatrixPreprocess|promised-statistic", type), "column %zu: range of the range-scaled column %.17Lg", j, hi - lo);
      }
    }
  }
  if (nleft0) vh_obs("missing_cells_left_zero", (double)nleft0);
  if (nleftother) vh_obs("missing_cells_left_nonzero", (double)nleftother);
}

/* ------------------------------------------------------------------------------------------ apply path */
static void judge_apply(vh_ctx *c, fitres *f, int type, const block *b)
{
  matrix *X = f->X, *T2, *Y, *TY;
  dvector *a0, *s0;
  size_t n = X->row, p = X->col, i, j, k, nbit = 0, ncmp = 0;
  char kb[96];
  int pre = vh_coin(c, 0.5) || type < 0;
  NewDVector(&a0, f->ave->size); NewDVector(&s0, f->scal->size);
  for (j = 0; j < f->ave->size; j++) a0->data[j] = f->ave->data[j];
  for (j = 0; j < f->scal->size; j++) s0->data[j] = f->scal->data[j];
  /* the same matrix */
  if (pre) { NewMatrix(&T2, n, p); if (type >= 0) MatrixSet(T2, POISON); } else initMatrix(&T2);
  MatrixPreprocess(X, type, f->ave, f->scal, T2);
  vh_obs(pre ? "apply_into_preallocated_output" : "apply_into_empty_output", 1);
  if (T2->row != n || T2->col != p) vh_fail(c, "MatrixPreprocess|apply-shape", "%zux%zu for %zux%zu", T2->row, T2->col, n, p);
  else {
    for (i = 0; i < n; i++) for (j = 0; j < p; j++) {
      double t = f->T->data[i][j], u = T2->data[i][j];
      if (type >= 0 && or_is_missing(X->data[i][j])) continue;
      ncmp++;
      if (!memcmp(&t, &u, sizeof t)) { nbit++; continue; }
      if (!near_(MX_APPLY_SAME, u, t, fabsl((ld)t) + (type >= 0 && fabsl((ld)f->scal->data[j]) >= 1e-3L ? (fabsl((ld)X->data[i][j]) + fabsl((ld)f->ave->data[j])) / fabsl((ld)f->scal->data[j]) : 0))) {
        vh_fail(c, optkey(kb, sizeof kb, "MatrixPreprocess|apply-same-differs-from-fit", type), "cell [%zu][%zu]: apply %.17g fit %.17g (x %.17g)", i, j, u, t, X->data[i][j]);
        i = n; break;
      }
    }
    vh_obs("apply_same_cells_compared", (double)ncmp); vh_obs("apply_same_cells_bit_identical", (double)nbit);
  }
  DelMatrix(&T2);
  if (dvector_maxdiff(a0, f->ave) != 0 || dvector_maxdiff(s0, f->scal) != 0) vh_fail(c, "MatrixPreprocess|apply-changed-stored-statistics", "colaverage/colscaling changed by the apply call");
  /* new rows: the affine map given by the stored statistics */
  k = (size_t)vh_int(c, 1, 8);
  NewMatrix(&Y, k, p);
  for (i = 0; i < k; i++) for (j = 0; j < p; j++) Y->data[i][j] = b->loc[j] + b->spr[j] * 3.0 * vh_gauss(c);
  if (pre) { NewMatrix(&TY, k, p); if (type >= 0) MatrixSet(TY, POISON); } else initMatrix(&TY);
  MatrixPreprocess(Y, type, f->ave, f->scal, TY);
  if (TY->row != k || TY->col != p) vh_fail(c, "MatrixPreprocess|apply-shape", "%zux%zu for %zux%zu new rows", TY->row, TY->col, k, p);
  else for (i = 0; i < k; i++) for (j = 0; j < p; j++) {
    ld y = Y->data[i][j], e, sc;
    if (type < 0) { e = y; sc = 0; }
    else {
      ld a = f->ave->data[j], s = f->scal->data[j];
      if (fabsl(s) < 1e-3L) { e = 0; sc = 0; } else { e = (y - a) / s; sc = (fabsl(y) + fabsl(a)) / fabsl(s); }
    }
    if (!near_(MX_APPLY_NEW, TY->data[i][j], e, sc)) {
      vh_fail(c, optkey(kb, sizeof kb, "MatrixPreprocess|apply-new-rows", type), "new row %zu column %zu: %.17g, (y - mean)/scale = %.17Lg (y %.17g mean %.17g scale %.17g)", i, j, TY->data[i][j], e, Y->data[i][j],
              type < 0 ? 0.0 : f->ave->data[j], type < 0 ? 0.0 : f->scal->data[j]);
      i = k; break;
    }
  }
  vh_obs("apply_new_rows", (double)k);
  DelMatrix(&Y); DelMatrix(&TY); DelDVector(&a0); DelDVector(&s0);
}

/* ------------------------------------------------------------------------------------------ missing cells */
/* column j with its missing cells removed: same statistics, same transformed cells */
static void judge_compact(vh_ctx *c, fitres *f, int type)
{
  matrix *X = f->X, *Z, *ZT;
  dvector *za, *zs;
  size_t n = X->row, p = X->col, i, j, q, np = 0, best = 0, bestmiss = 0, start = (size_t)vh_int(c, 0, (long)p - 1);
  char kb[96];
  if (type < 0) return;
  for (q = 0; q < p; q++) {   /* the column with the most missing cells, scanning from a random start */
    size_t jj = (start + q) % p, miss = 0;
    for (i = 0; i < n; i++) miss += (size_t)or_is_missing(X->data[i][jj]);
    if (q == 0 || miss > bestmiss) { best = jj; bestmiss = miss; }
  }
  j = best;
  for (i = 0; i < n; i++) np += (size_t)!or_is_missing(X->data[i][j]);
  NewMatrix(&Z, np, 1);
  for (i = 0, q = 0; i < n; i++) if (!or_is_missing(X->data[i][j])) Z->data[q++][0] = X->data[i][j];
  initDVector(&za); initDVector(&zs); NewMatrix(&ZT, np, 1);
  MatrixPreprocess(Z, type, za, zs, ZT);
  if (za->size != 1 || zs->size != 1) vh_fail(c, "MatrixPreprocess|stats-size", "single column: %zu %zu", za->size, zs->size);
  else {
    ld meanabs = f->cs[j].sumabs / f->cs[j].np;
    int bit = !memcmp(&za->data[0], &f->ave->data[j], sizeof(double)) && !memcmp(&zs->data[0], &f->scal->data[j], sizeof(double));
    if (!near_(MX_COMPACT, za->data[0], f->ave->data[j], meanabs) || !near_(MX_COMPACT, zs->data[0], f->scal->data[j], fabsl((ld)f->scal->data[j]) + meanabs))
      vh_fail(c, optkey(kb, sizeof kb, "MatrixPreprocess|missing-cells-influence-statistics", type), "column %zu with %zu missing cells: mean %.17g scaling %.17g; same column without them: %.17g %.17g", j, bestmiss, f->ave->data[j], f->scal->data[j], za->data[0], zs->data[0]);
    else for (i = 0, q = 0; i < n; i++) if (!or_is_missing(X->data[i][j])) {
      double t = f->T->data[i][j], u = ZT->data[q++][0];
      if (memcmp(&t, &u, sizeof t)) bit = 0;
      if (!near_(MX_COMPACT, t, u, fabsl((ld)u) + EPS)) { vh_fail(c, optkey(kb, sizeof kb, "MatrixPreprocess|missing-cells-influence-entries", type), "column %zu row %zu: %.17g with missing cells in the column, %.17g without", j, i, t, u); break; }
    }
    vh_obs(bestmiss ? "missing_removed_columns_compared" : "complete_columns_refitted_alone", 1);
    if (bit) vh_obs("missing_removed_columns_bit_identical", 1);
  }
  DelMatrix(&Z); DelMatrix(&ZT); DelDVector(&za); DelDVector(&zs);
}

/* two masks over the same values: every commonly present cell back-transforms to the same x with each fit's own statistics */
static void judge_pair(vh_ctx *c, fitres *fa, fitres *fb, int type)
{
  size_t n = fa->X->row, p = fa->X->col, i, j, ncmp = 0;
  char kb[96];
  if (type < 0) return;
  for (j = 0; j < p; j++) {
    ld sa = fa->scal->data[j], sb = fb->scal->data[j], ma = fa->ave->data[j], mb = fb->ave->data[j];
    if (fa->cs[j].constant || fb->cs[j].constant || fabsl(sa) < 1e-3L || fabsl(sb) < 1e-3L) continue;
    for (i = 0; i < n; i++) {
      double xa = fa->X->data[i][j], xb = fb->X->data[i][j];
      ld ba, bb, sc;
      if (or_is_missing(xa) || or_is_missing(xb)) continue;
      ba = (ld)fa->T->data[i][j] * sa + ma; bb = (ld)fb->T->data[i][j] * sb + mb;
      sc = fabsl((ld)xa) + fabsl(ma) + fabsl(mb) + fa->cs[j].sumabs / fa->cs[j].np;
      ncmp++;
      if (!near_(MX_PAIR, (double)ba, (ld)xa, sc) || !near_(MX_PAIR, (double)bb, (ld)xa, sc)) {
        vh_fail(c, optkey(kb, sizeof kb, "MatrixPreprocess|missing-mask-pair-inconsistent", type), "cell [%zu][%zu] x = %.17g: mask A gives t %.17g (mean %.17Lg scale %.17Lg), mask B gives t %.17g (mean %.17Lg scale %.17Lg)", i, j, xa,
                fa->T->data[i][j], ma, sa, fb->T->data[i][j], mb, sb);
        return;
      }
    }
  }
  vh_obs("mask_pair_cells_compared", (double)ncmp);
}

/* ------------------------------------------------------------------------------------------ column statistics */
static void judge_colstats(vh_ctx *c, fitres *f)
{
  matrix *X = f->X;
  size_t p = X->col, j;
  dvector *d;
  cstat *cs = calloc(p + 1, sizeof *cs);
  for (j = 0; j < p; j++) col_stat(f->LX, j, 1, &cs[j]);
  initDVector(&d); MatrixColAverage(X, d);
  if (d->size != p) vh_fail(c, "MatrixColAverage|shape", "%zu values for %zu columns", d->size, p);
  else for (j = 0; j < p; j++) if (!(cs[j].maysnap && d->data[j] == 0) && !near_(MX_CS_AVG, d->data[j], cs[j].m, cs[j].sumabs / cs[j].np)) {
    vh_fail(c, "MatrixColAverage|value", "column %zu: %.17g, mean of the %zu present cells %.17Lg", j, d->data[j], cs[j].np, cs[j].m); break; }
  DelDVector(&d);
  initDVector(&d); MatrixColSDEV(X, d);
  if (d->size != p) vh_fail(c, "MatrixColSDEV|shape", "%zu values for %zu columns", d->size, p);
  else for (j = 0; j < p; j++) if (!near_(MX_CS_SD, d->data[j], cs[j].sd, cs[j].sd + cs[j].sumabs / cs[j].np)) {
    vh_fail(c, "MatrixColSDEV|value", "column %zu: %.17g, sample SD of the %zu present cells %.17Lg", j, d->data[j], cs[j].np, cs[j].sd); break; }
  DelDVector(&d);
  initDVector(&d); MatrixColRMS(X, d);
  if (d->size != p) vh_fail(c, "MatrixColRMS|shape", "%zu values for %zu columns", d->size, p);
  else for (j = 0; j < p; j++) if (!near_(MX_CS_RMS, d->data[j], cs[j].rms, cs[j].rms)) {
    vh_fail(c, "MatrixColRMS|value", "column %zu: %.17g, RMS of the %zu present cells %.17Lg", j, d->data[j], cs[j].np, cs[j].rms); break; }
  DelDVector(&d);
  initDVector(&d); MatrixColVar(X, d);
  if (d->size != p) vh_fail(c, "MatrixColVar|shape", "%zu values for %zu columns", d->size, p);
  else for (j = 0; j < p; j++) { ld ma = cs[j].sumabs / cs[j].np; if (!near_(MX_CS_VAR, d->data[j], cs[j].sd * cs[j].sd, cs[j].sd * cs[j].sd + (cs[j].sd + cs[j].np * EPS * ma) * ma)) {
    vh_fail(c, "MatrixColVar|value", "column %zu: %.17g, sample variance of the %zu present cells %.17Lg", j, d->data[j], cs[j].np, cs[j].sd * cs[j].sd); break; } }
  DelDVector(&d);
  for (j = 0; j < p; j++) {
    double mn = POISON, mx = POISON;
    int r0 = or_is_missing(X->data[0][j]);
    MatrixColumnMinMax(X, j, &mn, &mx);
    vh_obs(r0 ? "minmax_columns_missing_in_row0" : "minmax_columns_row0_present", 1);
    if ((ld)mn != cs[j].lo || (ld)mx != cs[j].hi) {
      vh_fail(c, r0 ? "MatrixColumnMinMax|value|missing-in-row0" : "MatrixColumnMinMax|value|row0-present", "column %zu: min %.17g max %.17g, over the %zu present cells %.17Lg %.17Lg", j, mn, mx, cs[j].np, cs[j].lo, cs[j].hi);
      break;
    }
  }
  free(cs);
}

/* ------------------------------------------------------------------------------------------ tensor */
static void judge_tensor(vh_ctx *c, fitres **fr, size_t nb, int type)
{
  tensor *t, *tt;
  dvectorlist *la, *ls;
  size_t k, i, j;
  NewTensor(&t, nb); NewTensor(&tt, nb);
  for (k = 0; k < nb; k++) {
    matrix *X = fr[k]->X;
    NewTensorMatrix(t, k, X->row, X->col); NewTensorMatrix(tt, k, X->row, X->col);
    for (i = 0; i < X->row; i++) for (j = 0; j < X->col; j++) t->m[k]->data[i][j] = X->data[i][j];
  }
  initDVectorList(&la); initDVectorList(&ls);
  TensorPreprocess(t, type, la, ls, tt);
  if (la->size != nb || ls->size != nb) vh_fail(c, "TensorPreprocess|list-size", "%zu averages %zu scalings for %zu blocks", la->size, ls->size, nb);
  else for (k = 0; k < nb; k++) {
    if (dvector_maxdiff(la->d[k], fr[k]->ave) != 0 || dvector_maxdiff(ls->d[k], fr[k]->scal) != 0)
      vh_fail(c, "TensorPreprocess|block-statistics-differ", "block %zu of %zu (%zux%zu, option %d): stored statistics differ from MatrixPreprocess on the block", k, nb, fr[k]->X->row, fr[k]->X->col, type);
    if (!matrix_bitequal(tt->m[k], fr[k]->T))
      vh_fail(c, "TensorPreprocess|block-transform-differs", "block %zu of %zu (%zux%zu, option %d): max difference to MatrixPreprocess on the block %.3g", k, nb, fr[k]->X->row, fr[k]->X->col, type, matrix_maxdiff(tt->m[k], fr[k]->T));
    if (!matrix_bitequal(t->m[k], fr[k]->X)) vh_fail(c, "TensorPreprocess|input-modified", "block %zu changed", k);
  }
  vh_obs("tensor_blocks_compared", (double)nb);
  vh_hist("tensor_blocks", (long)nb);
  DelDVectorList(&la); DelDVectorList(&ls); DelTensor(&t); DelTensor(&tt);
}

/* ------------------------------------------------------------------------------------------ case */
static void run_case(vh_ctx *c)
{
  int type = (int)vh_int(c, -1, 5), rega, regb, i, dotensor = vh_coin(c, 0.3), r2, r3;
  size_t n = vh_coin(c, 0.25) ? (size_t)vh_int(c, 2, 6) : (size_t)vh_int(c, 2, 60), p = (size_t)vh_int(c, 1, 20), nb = 2, k, nmissA = 0, q;
  block b, extra[2];
  fitres fr[4], *frp[4];
  const char *why = "";
  static const char *REG[3] = { "none", "some", "row0" };

  for (i = 0; i < NMX; i++) g_mx[i] = 0;
  memset(fr, 0, sizeof fr); memset(extra, 0, sizeof extra);
  gen_block(c, &b, n, p, type, &rega, &regb);
  fr[0].X = materialise(c, &b, b.ma); fr[1].X = materialise(c, &b, b.mb);
  for (q = 0; q < n * p; q++) nmissA += b.ma[q];
  if (dotensor) {
    size_t want = (size_t)vh_int(c, 1, 4);    /* tensor of 1..4 blocks: A, B and up to two fresh blocks of other shapes */
    if (want == 1) nb = 1;
    for (k = 2; k < want; k++) {
      gen_block(c, &extra[k - 2], (size_t)vh_int(c, 2, 25), (size_t)vh_int(c, 1, 12), type, &r2, &r3);
      fr[k].X = materialise(c, &extra[k - 2], extra[k - 2].ma);
      nb = k + 1;
    }
  }
  vh_class(c, "n%s-p%s-opt%d-missing-%s-tensor%zu", n <= 2 ? "2" : n <= 5 ? "3-5" : n <= 20 ? "6-20" : "21-60", p == 1 ? "1" : p <= 5 ? "2-5" : "6-20", type, REG[rega], dotensor ? nb : (size_t)0);
  vh_desc(c, "rows=%zu cols=%zu option=%d missing cells A=%zu (%s) mask B %s tensor blocks=%zu x00=%.17g kinds=", n, p, type, nmissA, REG[rega], REG[regb], dotensor ? nb : (size_t)0, fr[0].X->data[0][0]);
  for (q = 0; q < p; q++) vh_desc(c, "%c", "NCZT"[b.kind[q]]);
  for (k = 0; k < (nb < 2 ? 2 : nb); k++) {
    ldm *L = ldm_of_matrix(fr[k].X);
    int ok = in_domain(L, type, &why);
    ldm_free(L);
    if (!ok) { vh_skip(c, "%s", why); goto out; }
  }
  for (k = 0; k < (nb < 2 ? 2 : nb); k++) {
    const block *bk = k < 2 ? &b : &extra[k - 2];
    fit_and_judge(c, &fr[k], type);
    frp[k] = &fr[k];
    if (!fr[k].ok) continue;
    judge_apply(c, &fr[k], type, bk);
    judge_compact(c, &fr[k], type);
    judge_colstats(c, &fr[k]);
  }
  if (fr[0].ok && fr[1].ok) judge_pair(c, &fr[0], &fr[1], type);
  if (dotensor) {
    int allok = 1;
    for (k = 0; k < nb; k++) allok &= fr[k].ok;
    if (allok) judge_tensor(c, frp, nb, type);
  }
  vh_hist("option", type);
  vh_obs(rega == 2 || regb == 2 ? "cases_with_missing_in_row0" : rega || regb ? "cases_with_missing_cells" : "cases_without_missing_cells", 1);
out:
  for (k = 0; k < 4; k++) fit_free(&fr[k]);
  block_free(&b); block_free(&extra[0]); block_free(&extra[1]);
  for (i = 0; i < NMX; i++) if (g_mx[i] > 0) vh_max(MXNAME[i], g_mx[i]);
}

const vh_driver VH_DRIVER = { "C10", ncases, run_case, NULL, 60 };
