/* c09.c - C09: CPCA super scores are the PCA scores of the block-scaled concatenated data.
 *
 * Workload: 2..4 blocks of 1..8 variables on 5..30 objects, scaling 0..5, 1..min(block width) components, generated
 *   mode A: shared latent factors of decaying strength + noise, per-column offsets and units, a few constant columns
 *   mode B: the block-scaled concatenation has a prescribed spectrum (U diag(s) V^T, ratios in [0.3,0.9]) for scaling 0.
 *
 * Oracles
 *   spectral : blocks preprocessed by the oracle (long double), divided by sqrt(width), concatenated -> C; Jacobi
 *              eigenpairs of C'C.  super score k = +/- C v_k, total_expvar k = 100 lambda_k / trace, super weight of
 *              block b = |v_k restricted to b|, block loading = +/- sqrt(width_b) v_k[b].
 *   PCA      : the library's own PCA() on C (the equivalence the source documents) at PCA's looser stopping rule.
 *   replay   : E_b := reference-preprocessed block; per component: super score = block scores x super weights,
 *              |w| = 1, p_b = E_b't/(t't), t_b = E_b p_b/(|p_b| sqrt(width_b)), E_b -= t p_b',
 *              block_expvar = 100 (1 - |E_b|^2/|E_b0|^2): cumulative, in [0,100], non-decreasing.
 *   predictor: CPCAScorePredictor(training tensor) = super scores / block scores.
 *   processor counts through H1 (second fit of the first component, predictor), thread starts kept in the hundreds.
 *
 * Tolerances: the CPCA loop is a power iteration on C C' that stops when |t_new - t_old|^2/(n |t_new|^2) < 1e-18:
 *   angle(t_k) <= unit_k := sqrt(n 1e-18)/(1 - rho_k^2)  (rho_k = s_{k+1}/s_k), errors of earlier deflations add up
 *   (cum_k); Rayleigh-type quantities are second order.  Same derivation with 1e-10 for PCA().  Checks use CANGLE x bound.
 */
#include "drv_util.h"

#define CANGLE 100.0
#define CVAR 100.0
#define DEPS 2.220446049250313e-16
/* documented thresholds (cpca.h / pca.h); deliberately not the library's macros */
#define DOC_CPCACONVERGENCE 1e-18
#define DOC_PCACONVERGENCE 1e-10

static long ncases(int tier) { return tier ? 40000 : 2500; }

static const size_t NPROCS[] = { 2, 3, 5, 8, 0 /* rows+3 */ };

static void rand_orthonormal_cols(vh_ctx *c, ldm *Q, int centre)
{
  size_t n = Q->r, r = Q->c, i, j, k; int pass;
  for (j = 0; j < r; j++) {
    for (;;) {
      ld nr = 0;
      for (i = 0; i < n; i++) LM(Q, i, j) = vh_gauss(c);
      for (pass = 0; pass < 2; pass++) {
        if (centre) { ld m = 0; for (i = 0; i < n; i++) m += LM(Q, i, j); m /= (ld)n; for (i = 0; i < n; i++) LM(Q, i, j) -= m; }
        for (k = 0; k < j; k++) {
          ld s = 0;
          for (i = 0; i < n; i++) s += LM(Q, i, k) * LM(Q, i, j);
          for (i = 0; i < n; i++) LM(Q, i, j) -= s * LM(Q, i, k);
        }
      }
      for (i = 0; i < n; i++) nr += LM(Q, i, j) * LM(Q, i, j);
      nr = sqrtl(nr);
      if (nr < 1e-2L) continue;
      for (i = 0; i < n; i++) LM(Q, i, j) /= nr;
      break;
    }
  }
}

/* per-component tick counter (H3, loop 2 = CPCA) */
static long g_ticks_comp[16];
static void tick_per_comp(int loop_id, size_t comp, double conv)
{
  (void)conv;
  g_ticks_total++;
  if (loop_id == 2 && comp < 16) g_ticks_comp[comp]++;
}

static tensor *tensor_of_blocks(ldm **B, size_t nb)
{
  tensor *t; size_t b, i, j;
  NewTensor(&t, nb);
  for (b = 0; b < nb; b++) {
    NewTensorMatrix(t, b, B[b]->r, B[b]->c);
    for (i = 0; i < B[b]->r; i++) for (j = 0; j < B[b]->c; j++) t->m[b]->data[i][j] = (double)LM(B[b], i, j);
  }
  return t;
}

/* unit / cumulative / Rayleigh-type bounds for stopping threshold tol.
   First order: angle(t_k) <= unit_k = sqrt(n tol)/(1-rho_k^2), cumulated over the earlier deflations.
   Eigenvalue (|t_old|^2): along every lower axis j (r_j = (s_j/s_k)^2) the relative error is (1-r_j) e_j^2 / r_j with
   (1-r_j)^2 e_j^2 <= n tol from the stopping rule and e_j = r_j x (component one step earlier, tan <= 4) capping it at 16 r_j;
   plus the leakage of the previous deflation <= unit_{k-1}^2. */
static void bounds(size_t n, size_t P, size_t npc, const ld *ev, double tol, double eta, double *cum, double *vt)
{
  double acc = 0, prev_unit = 0; size_t k, j;
  for (k = 0; k < npc; k++) {
    double rho2 = k + 1 < P && ev[k + 1] > 0 ? (double)(ev[k + 1] / ev[k]) : 0.0, unit = sqrt((double)n * tol) / (1.0 - rho2), a = 0;
    acc += unit; cum[k] = acc;
    for (j = k + 1; j < P; j++) {
      double rj = (double)(ev[j] / ev[k]), t1, t2;
      if (!(rj > 0)) continue;
      t1 = (double)n * tol / (rj * (1.0 - rj)); t2 = 16.0 * rj;
      a += t1 < t2 ? t1 : t2;
    }
    /* + rounding: two sums of n and n P squares of data that carry the relative error eta of the double-precision preprocessing */
    vt[k] = a + (k ? prev_unit * prev_unit : 0.0) + 4.0 * (double)(n + P) * DEPS + 4.0 * eta;
    prev_unit = unit;
  }
}

static void run_case(vh_ctx *c)
{
  size_t nb = (size_t)vh_int(c, 2, 4), n = (size_t)vh_int(c, 5, 30), w[4], off[5], P = 0, minw = 99, b, i, j, k, kmax, npc, nmean, nscale;
  int scaling = (int)vh_int(c, 0, 5), modeB = vh_coin(c, 0.4), attempt, bad_domain = 0, nconst = 0, smallunit, smallcol[4][8], nsmall = 0, bad_small = 0, between_guards = 0;
  double sutarget[4][8]; ld zsd[4][8];
  double mag = vh_logunif(c, -1.0, 2.5);
  ldm *Z[4], *B[4] = { 0 }, *T[4] = { 0 }, *E[4], *C, *A, *EV, *Uo;
  ld *mean[4], *scale[4], colloc[4][8], colunit[4][8], *ev, *sv, trace, e0sq[4], cfro, rs[4], rsC;
  int isconst[4][8];
  double *cum, *vt, *cump, *vtp, *flo, eta;
  tensor *x = NULL, *xb, *pbs;
  CPCAMODEL *m;
  matrix *ps;

  libsci_verif_nprocs = 1;
  for (b = 0; b < nb; b++) {
    w[b] = (size_t)(vh_coin(c, 0.2) ? vh_int(c, 1, 2) : vh_int(c, 1, 8));
    if (w[b] < minw) minw = w[b];
    off[b] = P; P += w[b];
  }
  off[nb] = P;
  if (vh_coin(c, 0.35)) {          /* make multi-component models frequent: widen every block to >= 2..4 */
    size_t lo = (size_t)vh_int(c, 2, 4);
    P = 0; minw = 99;
    for (b = 0; b < nb; b++) { if (w[b] < lo) w[b] = lo; if (w[b] < minw) minw = w[b]; off[b] = P; P += w[b]; }
    off[nb] = P;
  }
  /* ---- latent structure Z_b (n x w_b), unit scale ---- */
  if (modeB) {
    size_t rmax = n - 1 < P ? n - 1 : P, r = vh_coin(c, 0.4) ? rmax : (size_t)vh_int(c, 1, (long)rmax);
    ldm *U = ldm_new(n, r), *V = ldm_new(P, r);
    ld *s = calloc(r + 1, sizeof(ld));
    double lo = pow(1e-3, 1.0 / (double)r); if (lo < 0.3) lo = 0.3;
    s[0] = 1;
    for (k = 1; k < r; k++) s[k] = s[k - 1] * (vh_coin(c, 0.15) ? 0.9 : vh_range(c, lo, 0.9));
    rand_orthonormal_cols(c, U, 1); rand_orthonormal_cols(c, V, 0);
    for (b = 0; b < nb; b++) {
      Z[b] = ldm_new(n, w[b]);
      for (i = 0; i < n; i++) for (j = 0; j < w[b]; j++) {
        ld z = 0;
        for (k = 0; k < r; k++) z += LM(U, i, k) * s[k] * LM(V, off[b] + j, k);
        LM(Z[b], i, j) = z * sqrtl((ld)w[b]);      /* undone by the block scaling */
      }
    }
    ldm_free(U); ldm_free(V); free(s);
  } else {
    size_t nf = (size_t)vh_int(c, 1, n - 2 < 4 ? (long)n - 2 : 4), f;
    double decay = vh_range(c, 0.35, 0.75), a[4], sigma;
    ldm *F = ldm_new(n, nf);
    for (f = 0; f < nf; f++) { a[f] = pow(decay, (double)f); for (i = 0; i < n; i++) LM(F, i, f) = vh_gauss(c); }
    sigma = a[nf - 1] * vh_range(c, 0.02, 0.3);
    for (b = 0; b < nb; b++) {
      ldm *W = ldm_new(w[b], nf);
      for (j = 0; j < w[b]; j++) for (f = 0; f < nf; f++) LM(W, j, f) = vh_gauss(c);
      Z[b] = ldm_new(n, w[b]);
      for (i = 0; i < n; i++) for (j = 0; j < w[b]; j++) {
        ld z = sigma * vh_gauss(c);
        for (f = 0; f < nf; f++) z += a[f] * LM(F, i, f) * LM(W, j, f);
        LM(Z[b], i, j) = z / sqrtl((ld)n);
      }
      ldm_free(W);
    }
    ldm_free(F);
  }
  /* offsets, per-column units (mode A only: they would destroy the prescribed spectrum of mode B under scaling 0), constant columns */
  smallunit = !modeB && scaling >= 1 && vh_coin(c, 0.25);
  for (b = 0; b < nb; b++) for (j = 0; j < w[b]; j++) {
    ld m1 = 0, v1 = 0;
    for (i = 0; i < n; i++) m1 += LM(Z[b], i, j);
    m1 /= (ld)n;
    for (i = 0; i < n; i++) v1 += (LM(Z[b], i, j) - m1) * (LM(Z[b], i, j) - m1);
    zsd[b][j] = sqrtl(v1 / (ld)(n - 1)); if (!(zsd[b][j] > 0)) zsd[b][j] = 1;
  }
  for (b = 0; b < nb; b++) {
    size_t nc = 0;
    for (j = 0; j < w[b]; j++) {
      double sign = vh_coin(c, 0.5) ? 1.0 : -1.0;
      colloc[b][j] = vh_coin(c, 0.25) && scaling != 5 ? 0.0 : sign * vh_logunif(c, -1.0, 2.5);
      colunit[b][j] = modeB ? 1.0 : vh_logunif(c, -0.5, 1.0);
      isconst[b][j] = !modeB && w[b] >= 2 && nc + 1 < w[b] && vh_coin(c, 0.06);
      if (isconst[b][j]) { nc++; nconst++; }
      /* small-unit variables (second build session): C09's quantifier does not bound the units of a variable, and a stored scaling
         value between the library's fit-side (1e-3) and apply-side (1e-2) zero guards is exactly where a predictor that preprocesses
         differently from the fit goes wrong.  Such a column gets a standard deviation (and, for level scaling, a mean) in
         [2.5e-3, 6e-3], independent of the magnitude retry loop. */
      smallcol[b][j] = smallunit && !isconst[b][j] && vh_coin(c, 0.4);
      if (smallcol[b][j]) { nsmall++; sutarget[b][j] = vh_range(c, 2.5e-3, 6e-3); colloc[b][j] = (scaling == 5 || vh_coin(c, 0.5)) ? sign * vh_range(c, 2.5e-3, 6e-3) : 0.0; }
    }
    mean[b] = calloc(w[b] + 1, sizeof(ld)); scale[b] = calloc(w[b] + 1, sizeof(ld));
  }
  /* domain of the preprocessing step: every stored scaling value is exactly 0 (constant column) or >= 0.06 */
  for (attempt = 0; attempt < 10; attempt++, mag *= 4.0) {
    if (x) DelTensor(&x);
    bad_domain = 0; bad_small = 0; between_guards = 0;
    for (b = 0; b < nb; b++) {
      if (B[b]) ldm_free(B[b]);
      if (T[b]) ldm_free(T[b]);
      B[b] = ldm_new(n, w[b]); T[b] = ldm_new(n, w[b]);
      for (i = 0; i < n; i++) for (j = 0; j < w[b]; j++)
        LM(B[b], i, j) = colloc[b][j] + (isconst[b][j] ? 0 : smallcol[b][j] ? (ld)sutarget[b][j] / zsd[b][j] * LM(Z[b], i, j) : (ld)mag * colunit[b][j] * LM(Z[b], i, j));
    }
    x = tensor_of_blocks(B, nb);
    for (b = 0; b < nb; b++) {
      for (i = 0; i < n; i++) for (j = 0; j < w[b]; j++) LM(B[b], i, j) = x->m[b]->data[i][j];   /* the oracle sees the library's doubles */
      or_preprocess_fit(B[b], scaling, mean[b], scale[b], &nmean, &nscale, T[b]);
      for (j = 0; j < w[b]; j++) {
        ld sd; or_col_stats(B[b], j, NULL, &sd, NULL, NULL, NULL, NULL);
        if (isconst[b][j]) continue;
        if (smallcol[b][j]) {
          /* inside [2e-3, 8.5e-3] (between the guards, clear of both) or >= 0.012 (Pareto, range): never in [8.5e-3, 0.012) or below 2e-3 */
          ld v = scaling >= 1 ? fabsl(scale[b][j]) : sd;
          if (!(sd >= 2e-3L) || !((v >= 2e-3L && v <= 8.5e-3L) || v >= 0.012L)) bad_small = 1;
          if (scaling >= 1 && v <= 8.5e-3L) between_guards++;
          continue;
        }
        if (sd < 0.06L) bad_domain = 1;
        if (scaling >= 1 && fabsl(scale[b][j]) < 0.06L) bad_domain = 1;
      }
    }
    if (!bad_domain) break;
  }
  /* ---- spectral oracle on the block-scaled concatenation ---- */
  C = ldm_new(n, P);
  for (b = 0; b < nb; b++) for (i = 0; i < n; i++) for (j = 0; j < w[b]; j++) LM(C, i, off[b] + j) = LM(T[b], i, j) / sqrtl((ld)w[b]);
  A = ldm_ata(C); EV = ldm_new(P, P);
  ev = calloc(P + 1, sizeof(ld)); sv = calloc(P + 1, sizeof(ld));
  or_jacobi_eig(A, ev, EV);
  trace = 0; for (k = 0; k < P; k++) { trace += ev[k]; sv[k] = ev[k] > 0 ? sqrtl(ev[k]) : 0; }
  cfro = ldm_frob(C);
  /* rounding scale of the library's double-precision preprocessing: an entry (x - m)/s carries eps (|x| + mean|x|)/|s| from the
     subtraction and the average, and eps |E_ij| kappa_j from the scaling value (kappa = mean|x|/|mean| for level scaling, whose
     scaling value is the ill-conditioned average itself) */
  rsC = 0;
  for (b = 0; b < nb; b++) {
    rs[b] = 0;
    for (j = 0; j < w[b]; j++) {
      ld mabs = 0, sc = scaling >= 1 ? fabsl(scale[b][j]) : 1, kap;
      if (isconst[b][j] || sc == 0) continue;
      for (i = 0; i < n; i++) mabs += fabsl(LM(B[b], i, j));
      mabs /= (ld)n;
      kap = scaling == 5 ? mabs / fabsl(mean[b][j]) + 1 : 2;
      for (i = 0; i < n; i++) { ld e = (fabsl(LM(B[b], i, j)) + mabs) / sc + fabsl(LM(T[b], i, j)) * kap; rs[b] += e * e; }
    }
    rsC += rs[b] / (ld)w[b];
    rs[b] = sqrtl(rs[b]);
  }
  rsC = sqrtl(rsC);
  eta = DEPS * (double)(rsC / cfro);
  kmax = 0;
  for (k = 0; k < P && k + 1 < n; k++) {
    if (!(sv[k] >= 1e-3L * sv[0]) || sv[k] == 0) break;
    if (k + 1 < P && sv[k + 1] > 0.9L * sv[k]) break;
    kmax = k + 1;
  }
  {
    size_t wmax = 0; for (b = 0; b < nb; b++) if (w[b] > wmax) wmax = w[b];
    vh_class(c, "b%zu-n%d-minw%zu-maxw%d-sc%d-%s", nb, n < 9 ? 8 : n < 17 ? 16 : 30, minw > 3 ? 4 : minw, wmax <= 2 ? 2 : wmax <= 5 ? 5 : 8, scaling, modeB ? "spectrum" : "latent");
  }
  vh_desc(c, "objects=%zu blocks=%zu widths=", n, nb);
  for (b = 0; b < nb; b++) vh_desc(c, "%zu%s", w[b], b + 1 < nb ? "," : "");
  vh_desc(c, " scaling=%d mode=%s mag=%.6g const_cols=%d small_unit_cols=%d oracle_kmax=%zu x000=%.17g", scaling, modeB ? "prescribed-spectrum" : "latent-factors", mag, nconst, nsmall, kmax, x->m[0]->data[0][0]);
  if (bad_domain) { vh_skip(c, "column spread or scaling value in (0,0.06)"); goto out0; }
  if (bad_small) { vh_skip(c, "small-unit column outside its window"); goto out0; }
  if (nsmall) { vh_obs("cases_with_small_unit_columns", 1); vh_obs("stored_scalings_between_the_zero_guards", between_guards); }
  if (kmax == 0) { vh_skip(c, "leading singular values of the concatenation not separated (ratio > 0.9)"); goto out0; }
  npc = kmax < minw ? kmax : minw;
  if (npc > 1 && vh_coin(c, 0.3)) npc = (size_t)vh_int(c, 1, (long)npc);
  vh_desc(c, " npc=%zu", npc);
  vh_hist("scaling", scaling); vh_hist("npc", (long)npc); vh_hist("blocks", (long)nb);
  if (npc > 1) vh_obs("multi_component_models", 1);

  cum = calloc(npc, sizeof(double)); vt = calloc(npc, sizeof(double)); cump = calloc(npc, sizeof(double)); vtp = calloc(npc, sizeof(double)); flo = calloc(npc, sizeof(double));
  bounds(n, P, npc, ev, DOC_CPCACONVERGENCE, eta, cum, vt);
  bounds(n, P, npc, ev, DOC_PCACONVERGENCE, eta, cump, vtp);
  for (k = 0; k < npc; k++) {
    double rho = k + 1 < P ? (double)(sv[k + 1] / sv[k]) : 0.0;
    /* rounding of the double-precision preprocessing (rsC, see above) and of the iteration on data of norm |C|: relative to s_k,
       amplified by the gap */
    flo[k] = 4.0 * DEPS * ((double)rsC + sqrt((double)(n * P)) * (double)sv[0]) / ((double)sv[k] * (1.0 - rho));
  }

  /* ---- fit ---- */
  xb = tensor_of_blocks(B, nb);     /* pristine copy to detect input modification */
  NewCPCAModel(&m);
  memset(g_ticks_comp, 0, sizeof g_ticks_comp); g_ticks_total = 0;
  libsci_verif_tick_hook = tick_per_comp;
  libsci_verif_nprocs = 1;
  CPCA(x, scaling, npc, m);
  libsci_verif_tick_hook = NULL;
  drv_ticks_end("iters_per_component_log2", npc);
  libsci_verif_tick_hook = NULL;
  /* total_expvar is |t_old|^2 / ss.  After two or more iterations t_old is itself the output of a power step and its squared norm
     is a Rayleigh-type quotient (bound vt[] above).  When the loop stops in its very first iteration t_old is the start column,
     whose norm is only tied to |t_new| by the stopping rule itself: | |t_old| - |t_new| | <= sqrt(n tol) |t_new|, i.e. a first-order
     2 sqrt(n tol) on the eigenvalue (seen for two autoscaled one-variable blocks, whose second residual columns are equal) */
  for (k = 0; k < npc && k < 16; k++) if (g_ticks_comp[k] <= 1) { vt[k] += 2.0 * sqrt((double)n * DOC_CPCACONVERGENCE); vh_obs("components_converged_in_first_iteration", 1); }
  for (b = 0; b < nb; b++) if (!matrix_bitequal(x->m[b], xb->m[b])) { vh_fail(c, "CPCA|input-modified", "CPCA changed block %zu of its input tensor", b); break; }

  /* shapes */
  {
    int ok = m->super_scores->row == n && m->super_scores->col == npc && m->super_weights->row == nb && m->super_weights->col == npc &&
             m->block_scores->order == npc && m->block_loadings->order == nb && m->scaling_factor->size == nb &&
             m->total_expvar->size == npc && m->block_expvar->size == npc && m->colaverage->size == nb && m->colscaling->size == nb;
    for (k = 0; ok && k < npc; k++) ok = m->block_scores->m[k]->row == n && m->block_scores->m[k]->col == nb && m->block_expvar->d[k]->size == nb;
    for (b = 0; ok && b < nb; b++) ok = m->block_loadings->m[b]->row == w[b] && m->block_loadings->m[b]->col == npc &&
                                       m->colaverage->d[b]->size == w[b] && m->colscaling->d[b]->size == w[b];
    if (!ok) {
      vh_fail(c, "CPCA|shape", "super_scores %zux%zu super_weights %zux%zu block_scores order %zu block_loadings order %zu scaling_factor %zu total_expvar %zu block_expvar %zu (n=%zu blocks=%zu npc=%zu)",
              m->super_scores->row, m->super_scores->col, m->super_weights->row, m->super_weights->col, m->block_scores->order, m->block_loadings->order,
              m->scaling_factor->size, m->total_expvar->size, m->block_expvar->size, n, nb, npc);
      goto out1;
    }
  }
  {
    int fin = matrix_all_finite(m->super_scores) && matrix_all_finite(m->super_weights);
    for (k = 0; k < npc; k++) fin = fin && matrix_all_finite(m->block_scores->m[k]);
    for (b = 0; b < nb; b++) fin = fin && matrix_all_finite(m->block_loadings->m[b]);
    if (!fin) { vh_fail(c, "CPCA|non-finite", "non-finite score/weight/loading with a separated spectrum"); goto out1; }
  }
  /* block scaling factor and stored preprocessing statistics ("blocks preprocessed identically") */
  for (b = 0; b < nb; b++) {
    if (!(fabs(m->scaling_factor->data[b] - sqrt((double)w[b])) <= 1e-14 * sqrt((double)w[b])))
      vh_fail(c, "CPCA|scaling-factor", "block %zu of width %zu: scaling factor %.17g, expected sqrt(width) = %.17g", b, w[b], m->scaling_factor->data[b], sqrt((double)w[b]));
    for (j = 0; j < w[b]; j++) {
      double gm = m->colaverage->d[b]->data[j], gs = m->colscaling->d[b]->data[j], wm = (double)mean[b][j], ws = (double)scale[b][j];
      double gs2 = scaling == 3 ? gs * gs : gs, ws2 = scaling == 3 ? ws * ws : ws;    /* Pareto stores sqrt(sd): compare in sd units */
      if (!(fabs(gm - wm) <= 1e-12 * (fabs(wm) + (double)mag)) || !(fabs(gs2 - ws2) <= 1e-10 * (fabs(ws2) + fabs(wm) * (isconst[b][j] ? 1 : 0))))
        vh_fail(c, "CPCA|preprocessing-statistics", "block %zu column %zu: average %.17g (expected %.17g) scaling %.17g (expected %.17g)", b, j, gm, wm, gs, ws);
    }
  }

  /* ---- spectral oracle ---- */
  Uo = ldm_new(n, npc);      /* oracle scores C v_k, sign-aligned with the library */
  for (k = 0; k < npc; k++) {
    ld dot = 0, dt = 0; int sg;
    double bound = cum[k] + flo[k], dv, want = (double)(100 * ev[k] / trace);
    for (i = 0; i < n; i++) { ld t = 0; for (j = 0; j < P; j++) t += LM(C, i, j) * LM(EV, j, k); LM(Uo, i, k) = t; dot += t * m->super_scores->data[i][k]; }
    sg = dot < 0 ? -1 : 1;
    for (i = 0; i < n; i++) { LM(Uo, i, k) *= sg; dt += (LM(Uo, i, k) - m->super_scores->data[i][k]) * (LM(Uo, i, k) - m->super_scores->data[i][k]); }
    dt = sqrtl(dt) / sv[k];
    vh_max("max_superscore_vs_oracle_over_bound", (double)dt / bound);
    if (!((double)dt <= CANGLE * bound))
      vh_fail(c, "CPCA|super-score-vs-eigen-oracle", "component %zu: |t - (+/-) C v_k| / s_k = %.3Lg, bound %.3g (x%g head-room), s_k = %.6Lg", k, dt, bound, CANGLE, sv[k]);
    dv = fabs(m->total_expvar->data[k] - want) / want;
    vh_max("max_total_expvar_vs_oracle_over_bound", dv / vt[k]);
    if (!(dv <= CVAR * vt[k]))
      vh_fail(c, "CPCA|total-expvar-vs-eigenvalue", "component %zu: total_expvar %.15g, 100 eigenvalue/trace = %.15g, relative deviation %.3g, bound %.3g (x%g)", k, m->total_expvar->data[k], want, dv, vt[k], CVAR);
    /* super weight of block b = norm of the eigenvector restricted to the block; block loading = +/- sqrt(width) v_k[b]
       (from p_b = X_b't/t't with t = +/- C v_k and C'C v_k = s_k^2 v_k).  Loading-space angles are score-space angles / rho_k: use the cumulative unit bound (no rho^2 factor was taken) */
    for (b = 0; b < nb; b++) {
      ld vn = 0, dl = 0; double dw;
      for (j = 0; j < w[b]; j++) vn += LM(EV, off[b] + j, k) * LM(EV, off[b] + j, k);
      vn = sqrtl(vn);
      dw = fabs(m->super_weights->data[b][k] - (double)vn);
      vh_max("max_superweight_vs_oracle_over_bound", dw / bound);
      if (!(dw <= CANGLE * bound))
        vh_fail(c, "CPCA|super-weight-vs-eigen-oracle", "component %zu block %zu: super weight %.15g, |v_k[block]| = %.15Lg, bound %.3g (x%g)", k, b, m->super_weights->data[b][k], vn, bound, CANGLE);
      for (j = 0; j < w[b]; j++) {
        ld d = (ld)m->block_loadings->m[b]->data[j][k] / sqrtl((ld)w[b]) - sg * LM(EV, off[b] + j, k);
        dl += d * d;
      }
      dl = sqrtl(dl);
      vh_max("max_blockloading_vs_oracle_over_bound", (double)dl / bound);
      if (!((double)dl <= CANGLE * bound))
        vh_fail(c, "CPCA|block-loading-vs-eigen-oracle", "component %zu block %zu: |p_b/sqrt(width) - (+/-) v_k[block]| = %.3Lg, bound %.3g (x%g)", k, b, dl, bound, CANGLE);
    }
  }
  vh_obs("components_vs_oracle", (double)npc);

  /* ---- the library's own PCA on the concatenation (documented equivalence), at PCA's stopping rule ---- */
  {
    matrix *cm = matrix_of_ldm(C);
    PCAMODEL *pm; int psc = vh_coin(c, 0.5) ? 0 : -1;   /* C is centred already: re-centring (0) and as-is (-1) must agree */
    NewPCAModel(&pm);
    libsci_verif_nprocs = 1;
    PCA(cm, psc, npc, pm, NULL);
    if (pm->scores->row != n || pm->scores->col != npc || pm->varexp->size != npc) vh_fail(c, "CPCA|super-score-vs-PCA", "PCA model of the concatenation has the wrong shape");
    else for (k = 0; k < npc; k++) {
      ld dot = 0, dt = 0; int sg; double bound = cump[k] + cum[k] + flo[k], dv;
      for (i = 0; i < n; i++) dot += (ld)pm->scores->data[i][k] * m->super_scores->data[i][k];
      sg = dot < 0 ? -1 : 1;
      for (i = 0; i < n; i++) { ld d = (ld)pm->scores->data[i][k] * sg - m->super_scores->data[i][k]; dt += d * d; }
      dt = sqrtl(dt) / sv[k];
      vh_max("max_superscore_vs_PCA_over_bound", (double)dt / bound);
      if (!((double)dt <= CANGLE * bound))
        vh_fail(c, "CPCA|super-score-vs-PCA", "component %zu: |t_cpca - (+/-) t_pca| / s_k = %.3Lg, bound %.3g (x%g head-room)", k, dt, bound, CANGLE);
      dv = fabs(pm->varexp->data[k] - m->total_expvar->data[k]) / m->total_expvar->data[k];
      vh_max("max_total_expvar_vs_PCA_over_bound", dv / (vtp[k] + vt[k]));
      if (!(dv <= CVAR * (vtp[k] + vt[k])))
        vh_fail(c, "CPCA|total-expvar-vs-PCA", "component %zu: total_expvar %.12g, PCA varexp %.12g, relative deviation %.3g, bound %.3g (x%g)", k, m->total_expvar->data[k], pm->varexp->data[k], dv, vtp[k] + vt[k], CVAR);
    }
    vh_obs("pca_crosschecks", 1);
    DelPCAModel(&pm); DelMatrix(&cm);
  }

  /* ---- identity replay in long double ---- */
  for (b = 0; b < nb; b++) { ld f; E[b] = ldm_copy(T[b]); f = ldm_frob(E[b]); e0sq[b] = f * f; }
  {
    double conv = sqrt((double)n * DOC_CPCACONVERGENCE);   /* |t_new - t_old| / |t_new| at the stop */
    for (k = 0; k < npc; k++) {
      ld tt = 0, wn = 0, dcomp = 0, scomp = 0;
      for (i = 0; i < n; i++) tt += (ld)m->super_scores->data[i][k] * m->super_scores->data[i][k];
      /* super score = block scores x super weights */
      for (i = 0; i < n; i++) {
        ld s = 0, sa = 0;
        for (b = 0; b < nb; b++) { s += (ld)m->block_scores->m[k]->data[i][b] * m->super_weights->data[b][k]; sa += fabsl((ld)m->block_scores->m[k]->data[i][b] * m->super_weights->data[b][k]); }
        dcomp += (s - m->super_scores->data[i][k]) * (s - m->super_scores->data[i][k]); scomp += sa * sa;
      }
      dcomp = sqrtl(dcomp); scomp = sqrtl(scomp);
      vh_max("max_superscore_composition_over_eps_scale", (double)(dcomp / (DEPS * scomp)));
      if (!(dcomp <= 1e3 * DEPS * scomp))
        vh_fail(c, "CPCA|super-score-composition", "component %zu: |t - T_blocks w| = %.3Lg, scale %.3Lg", k, dcomp, scomp);
      for (b = 0; b < nb; b++) wn += (ld)m->super_weights->data[b][k] * m->super_weights->data[b][k];
      if (!(fabsl(sqrtl(wn) - 1) <= 1e-12L)) vh_fail(c, "CPCA|super-weight-norm", "component %zu: |w| = %.17Lg", k, sqrtl(wn));
      for (b = 0; b < nb; b++) {
        ld ef = ldm_frob(E[b]), pn = 0, dl = 0, etn = 0, dtb = 0, bev, dbe, esq = 0;
        ld *pr = calloc(w[b], sizeof(ld));
        /* p_b = E_b' t / t't */
        for (j = 0; j < w[b]; j++) {
          ld s = 0;
          for (i = 0; i < n; i++) s += LM(E[b], i, j) * m->super_scores->data[i][k];
          etn += s * s;
          pr[j] = s / tt;
          dl += (pr[j] - m->block_loadings->m[b]->data[j][k]) * (pr[j] - m->block_loadings->m[b]->data[j][k]);
          pn += (ld)m->block_loadings->m[b]->data[j][k] * m->block_loadings->m[b]->data[j][k];
        }
        etn = sqrtl(etn); dl = sqrtl(dl); pn = sqrtl(pn);
        {
          /* rounding of the library's double-precision preprocessing (rs[b]) and deflation history (|E_b0| eps per component),
             projected on t */
          ld sc = (rs[b] + (ld)(k + 1) * sqrtl(e0sq[b])) / sqrtl(tt);
          vh_max("max_blockloading_identity_over_eps_scale", (double)(dl / (DEPS * sc)));
          if (!(dl <= 1e3 * DEPS * sc)) vh_fail(c, "CPCA|block-loading-identity", "component %zu block %zu: |p_b - E_b't/t't| = %.3Lg, rounding scale %.3Lg (x eps x 1e3)", k, b, dl, sc);
        }
        /* t_b = E_b p_b / (|p_b| sqrt(width)); the stored block score was computed one iteration earlier (from t_old):
           Lipschitz constant of t -> t_b(t) in the direction of t is 2 |E_b|^2 / (|E_b' t^| sqrt(width)) */
        if (pn > 0) {
          for (i = 0; i < n; i++) {
            ld s = 0;
            for (j = 0; j < w[b]; j++) s += LM(E[b], i, j) * m->block_loadings->m[b]->data[j][k];
            s /= pn * sqrtl((ld)w[b]);
            dtb += (s - m->block_scores->m[k]->data[i][b]) * (s - m->block_scores->m[k]->data[i][b]);
          }
          dtb = sqrtl(dtb);
          {
            ld lip = 2 * ef * ef / (etn / sqrtl(tt) * sqrtl((ld)w[b]) + 1e-300L), tolb = lip * conv + 10 * DEPS * (rs[b] + sqrtl(e0sq[b])) * ef / (etn / sqrtl(tt) + 1e-300L);
            vh_max("max_blockscore_identity_over_bound", (double)(dtb / tolb));
            if (!(dtb <= CANGLE * tolb)) vh_fail(c, "CPCA|block-score-identity", "component %zu block %zu: |t_b - E_b p_b/(|p_b| sqrt(width))| = %.3Lg, bound %.3Lg (x%g)", k, b, dtb, tolb, CANGLE);
          }
        } else vh_fail(c, "CPCA|block-loading-identity", "component %zu block %zu: zero block loading", k, b);
        /* deflation with the super score and the stored block loading */
        for (i = 0; i < n; i++) for (j = 0; j < w[b]; j++) { LM(E[b], i, j) -= (ld)m->super_scores->data[i][k] * m->block_loadings->m[b]->data[j][k]; esq += LM(E[b], i, j) * LM(E[b], i, j); }
        bev = 100 * (1 - esq / e0sq[b]);
        dbe = fabsl(bev - m->block_expvar->d[k]->data[b]);
        {
          /* percent units; rounding of a ratio of two sums of squares of data carrying the preprocessing rounding rs[b] */
          ld tole = 100 * DEPS * (rs[b] / sqrtl(e0sq[b]) + sqrtl((ld)(n * w[b])));
          vh_max("max_block_expvar_vs_replay_over_eps_scale", (double)(dbe / tole));
          if (!(dbe <= 1e3 * tole)) vh_fail(c, "CPCA|block-expvar-value", "component %zu block %zu: block_expvar %.15g, 100 (1 - |E_b|^2/|E_b0|^2) = %.15Lg", k, b, m->block_expvar->d[k]->data[b], bev);
        }
        if (!(m->block_expvar->d[k]->data[b] >= -1e-9 && m->block_expvar->d[k]->data[b] <= 100 + 1e-9))
          vh_fail(c, "CPCA|block-expvar-range", "component %zu block %zu: block_expvar %.17g outside [0,100]", k, b, m->block_expvar->d[k]->data[b]);
        if (k > 0 && !(m->block_expvar->d[k]->data[b] >= m->block_expvar->d[k - 1]->data[b] - 1e-9))
          vh_fail(c, "CPCA|block-expvar-decreasing", "block %zu: cumulative block_expvar falls from %.15g (component %zu) to %.15g (component %zu)", b, m->block_expvar->d[k - 1]->data[b], k - 1, m->block_expvar->d[k]->data[b], k);
        /* spectral value of the same quantity: the part of block b outside the span of the first k+1 oracle scores (first order in the angle) */
        {
          ldm *R = ldm_copy(T[b]); size_t l; ld rs = 0, want;
          for (l = 0; l <= k; l++) {
            ld uu = 0;
            for (i = 0; i < n; i++) uu += LM(Uo, i, l) * LM(Uo, i, l);
            for (j = 0; j < w[b]; j++) { ld s = 0; for (i = 0; i < n; i++) s += LM(Uo, i, l) * LM(R, i, j); for (i = 0; i < n; i++) LM(R, i, j) -= LM(Uo, i, l) * s / uu; }
          }
          for (i = 0; i < n; i++) for (j = 0; j < w[b]; j++) rs += LM(R, i, j) * LM(R, i, j);
          want = 100 * (1 - rs / e0sq[b]);
          vh_max("max_block_expvar_vs_oracle_over_bound", (double)(fabsl(want - m->block_expvar->d[k]->data[b]) / (200 * (cum[k] + flo[k]) + 1e-10)));
          if (!(fabsl(want - m->block_expvar->d[k]->data[b]) <= CANGLE * (200 * (cum[k] + flo[k]) + 1e-10)))
            vh_fail(c, "CPCA|block-expvar-vs-eigen-oracle", "component %zu block %zu: block_expvar %.15g, from the oracle scores %.15Lg", k, b, m->block_expvar->d[k]->data[b], want);
          ldm_free(R);
        }
        free(pr);
      }
    }
  }
  for (b = 0; b < nb; b++) ldm_free(E[b]);

  /* ---- projection of the training tensor, under another processor count ---- */
  {
    size_t np = NPROCS[vh_int(c, 0, 4)], fan; double d, worst_b = 0;
    if (np == 0) np = n + 3;
    if (vh_coin(c, 0.3)) np = 1;
    fan = npc * (nb + 1) * np;
    while (np > 1 && fan > 200) { np = np > 8 ? 8 : np - 1; fan = npc * (nb + 1) * np; }
    ps = drv_out_matrix(c, n, npc, 1); initTensor(&pbs);
    libsci_verif_nprocs = np;
    CPCAScorePredictor(x, m, npc, ps, pbs);
    libsci_verif_nprocs = 1;
    vh_hist("predictor_nprocs", (long)np);
    if (ps->row != n || ps->col != npc || pbs->order != npc) vh_fail(c, "CPCAScorePredictor|shape", "super scores %zux%zu block score order %zu (n=%zu npc=%zu)", ps->row, ps->col, pbs->order, n, npc);
    else {
      /* the training block scores stem from the loadings of t_old, the predictor uses those of t_new (one power step later):
         relative difference <= sqrt(n 1e-18) x gap amplification, judged on the scale of the data */
      double tolp = (cum[npc - 1] + flo[npc - 1]) * (double)sv[0];
      d = matrix_maxdiff(ps, m->super_scores);
      vh_max("max_predictor_superscore_over_bound", d / tolp);
      if (!(d <= CANGLE * tolp)) vh_fail(c, "CPCAScorePredictor|training-super-scores", "max |predicted - training super score| = %.3g, bound %.3g (x%g), nprocs %zu", d, tolp, CANGLE, np);
      for (k = 0; k < npc; k++) {
        double db = pbs->m[k]->row == n && pbs->m[k]->col == nb ? matrix_maxdiff(pbs->m[k], m->block_scores->m[k]) : INFINITY;
        if (!(db <= worst_b)) worst_b = db;
      }
      /* block scores divide by |E_b' t^|: amplification by the smallest super weight */
      {
        double wmin = 1; for (k = 0; k < npc; k++) for (b = 0; b < nb; b++) if (fabs(m->super_weights->data[b][k]) < wmin) wmin = fabs(m->super_weights->data[b][k]);
        double tolb = tolp * 2.0 / (wmin + 1e-300);
        vh_max("max_predictor_blockscore_over_bound", worst_b / tolb);
        if (!(worst_b <= CANGLE * tolb)) vh_fail(c, "CPCAScorePredictor|training-block-scores", "max |predicted - training block score| = %.3g, bound %.3g (x%g), smallest super weight %.3g", worst_b, tolb, CANGLE, wmin);
      }
    }
    vh_obs("predictor_calls", 1);
    DelMatrix(&ps); DelTensor(&pbs);
  }

  /* ---- processor-count sweep of the fit: first component only (every iteration costs 2 blocks + 2 thread fan-outs) ---- */
  {
    size_t np = NPROCS[vh_int(c, 0, 4)]; double per_np;
    if (np == 0) np = n + 3;
    per_np = (double)((2 * nb + 2) * (size_t)g_ticks_comp[0] + nb);
    while (np > 2 && per_np * (double)np > 300.0) np = np > 8 ? 8 : np - 1;
    if (per_np * (double)np > 300.0) vh_obs("fit_sweep_skipped_for_thread_budget", 1);
    else {
      CPCAMODEL *m2; double ds = 0, dw = 0, dl = 0, dv; int bit = 1;
      NewCPCAModel(&m2);
      libsci_verif_nprocs = np;
      CPCA(x, scaling, 1, m2);
      libsci_verif_nprocs = 1;
      if (m2->super_scores->row != n || m2->super_scores->col != 1 || m2->super_weights->row != nb || m2->block_loadings->order != nb || m2->total_expvar->size != 1) ds = INFINITY;
      else {
        for (i = 0; i < n; i++) { double d = fabs(m2->super_scores->data[i][0] - m->super_scores->data[i][0]); if (!(d <= ds)) ds = d; if (d != 0) bit = 0; }
        for (b = 0; b < nb; b++) {
          double d = fabs(m2->super_weights->data[b][0] - m->super_weights->data[b][0]); if (!(d <= dw)) dw = d; if (d != 0) bit = 0;
          for (j = 0; j < w[b]; j++) { d = fabs(m2->block_loadings->m[b]->data[j][0] - m->block_loadings->m[b]->data[j][0]); if (!(d <= dl)) dl = d; if (d != 0) bit = 0; }
        }
        dv = fabs(m2->total_expvar->data[0] - m->total_expvar->data[0]);
        if (!(dv <= 1e-10)) ds = INFINITY;
        vh_obs(bit ? "nprocs_bit_identical" : "nprocs_not_bit_identical", 1);
      }
      vh_hist("fit_sweep_nprocs", (long)np);
      if (!(ds <= 1e-12 * (double)sv[0]) || !(dw <= 1e-12) || !(dl <= 1e-12))
        vh_fail(c, "CPCA|processor-count-dependence", "nprocs=%zu vs 1 (first component): super scores %.3g weights %.3g loadings %.3g", np, ds, dw, dl);
      DelCPCAModel(&m2);
    }
  }
  ldm_free(Uo);
out1:
  DelCPCAModel(&m);
  DelTensor(&xb);
  free(cum); free(vt); free(cump); free(vtp); free(flo);
out0:
  if (x) DelTensor(&x);
  for (b = 0; b < nb; b++) { ldm_free(Z[b]); ldm_free(B[b]); ldm_free(T[b]); free(mean[b]); free(scale[b]); }
  ldm_free(C); ldm_free(A); ldm_free(EV); free(ev); free(sv);
}

const vh_driver VH_DRIVER = { "C09", ncases, run_case, NULL, 120 };
