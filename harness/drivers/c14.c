/* c14.c - C14: containers stay memory-safe and shape-consistent under any operation history.
 *
 * Random histories of <= 40 operations over pools of 4 live objects per kind (dvector, uivector, ivector,
 * strvector, matrix, tensor, dvectorlist).  A shadow model (plain arrays owned by the driver) applies the
 * documented effect of every operation; after every operation every live container is compared with its shadow
 * (counts and every cell: old cells preserved, newly exposed cells zero).  The real calls run under ASan+UBSan.
 * Out-of-range accessors run in a nested child: they must return the documented sentinel / be a no-op, or end in
 * the library's own abort() without any sanitizer report.  Every written value is unique (a running counter),
 * so a misplaced or duplicated cell is unambiguous.  Copies are mutated right away to prove they are deep. */
/* glibc's <signal.h> declares a function ssignal(); the library typedefs ssignal: keep them apart */
#define ssignal libc_ssignal_unused
#include <signal.h>
#include <sys/wait.h>
#undef ssignal
#include <unistd.h>
#include <fcntl.h>
#include "drv_util.h"

void MatrixAppendUICol(matrix *m, uivector *col);   /* public function, missing from matrix.h (MatrixAppendUIRow is declared twice there) */

static long ncases(int tier) { if (getenv("VERIF_VALGRIND")) return 2000; return tier ? 200000 : 2500; }

#define POOL 4
#define MAXN 64

/* ------------------------------------------------------------------ shadows */
typedef struct { int live; size_t n; double v[MAXN]; } sh_dv;
typedef struct { int live; size_t n; size_t v[MAXN]; } sh_uv;
typedef struct { int live; size_t n; int v[MAXN]; } sh_iv;
typedef struct { int live; size_t n; char v[MAXN][40]; } sh_sv;
typedef struct { int live; size_t r, c; double v[MAXN][MAXN]; } sh_mx;
#define MAXORD 5
#define TDIM 10
typedef struct { size_t r, c; double v[TDIM][TDIM]; } sh_blk;
typedef struct { int live; size_t order; sh_blk b[MAXORD]; } sh_tn;
typedef struct { int live; size_t n; size_t len[8]; double v[8][12]; } sh_ls;

static dvector *DV[POOL]; static sh_dv SDV[POOL];
static uivector *UV[POOL]; static sh_uv SUV[POOL];
static ivector *IV[POOL]; static sh_iv SIV[POOL];
static strvector *SV[POOL]; static sh_sv SSV[POOL];
static matrix *MX[POOL]; static sh_mx SMX[POOL];
static tensor *TN[POOL]; static sh_tn STN[POOL];
static dvectorlist *LS[POOL]; static sh_ls SLS[POOL];

static double g_counter;
static double fresh(void) { g_counter += 1.0; return g_counter + 0.25; }
static char g_lastop[200];
static vh_ctx *g_c;
static int g_bad;

/* compare every live container with its shadow */
static void check_all(void)
{
  size_t k, i, j, b;
  for (k = 0; k < POOL; k++) {
    if (SDV[k].live) {
      if (DV[k]->size != SDV[k].n) { vh_fail(g_c, "dvector|size", "after %s: dvector %zu has size %zu, model %zu", g_lastop, k, DV[k]->size, SDV[k].n); g_bad = 1; }
      else for (i = 0; i < SDV[k].n; i++) if (DV[k]->data[i] != SDV[k].v[i]) { vh_fail(g_c, "dvector|cell", "after %s: dvector %zu [%zu] = %.17g, model %.17g", g_lastop, k, i, DV[k]->data[i], SDV[k].v[i]); g_bad = 1; break; }
    }
    if (SUV[k].live) {
      if (UV[k]->size != SUV[k].n) { vh_fail(g_c, "uivector|size", "after %s: uivector %zu has size %zu, model %zu", g_lastop, k, UV[k]->size, SUV[k].n); g_bad = 1; }
      else for (i = 0; i < SUV[k].n; i++) if (UV[k]->data[i] != SUV[k].v[i]) { vh_fail(g_c, "uivector|cell", "after %s: uivector %zu [%zu] = %zu, model %zu", g_lastop, k, i, UV[k]->data[i], SUV[k].v[i]); g_bad = 1; break; }
    }
    if (SIV[k].live) {
      if (IV[k]->size != SIV[k].n) { vh_fail(g_c, "ivector|size", "after %s: ivector %zu has size %zu, model %zu", g_lastop, k, IV[k]->size, SIV[k].n); g_bad = 1; }
      else for (i = 0; i < SIV[k].n; i++) if (IV[k]->data[i] != SIV[k].v[i]) { vh_fail(g_c, "ivector|cell", "after %s: ivector %zu [%zu] = %d, model %d", g_lastop, k, i, IV[k]->data[i], SIV[k].v[i]); g_bad = 1; break; }
    }
    if (SSV[k].live) {
      if (SV[k]->size != SSV[k].n) { vh_fail(g_c, "strvector|size", "after %s: strvector %zu has size %zu, model %zu", g_lastop, k, SV[k]->size, SSV[k].n); g_bad = 1; }
      else for (i = 0; i < SSV[k].n; i++) if (strcmp(SV[k]->data[i], SSV[k].v[i])) { vh_fail(g_c, "strvector|cell", "after %s: strvector %zu [%zu] = '%.30s', model '%s'", g_lastop, k, i, SV[k]->data[i], SSV[k].v[i]); g_bad = 1; break; }
    }
    if (SMX[k].live) {
      if (MX[k]->row != SMX[k].r || MX[k]->col != SMX[k].c) { vh_fail(g_c, "matrix|shape", "after %s: matrix %zu is %zux%zu, model %zux%zu", g_lastop, k, MX[k]->row, MX[k]->col, SMX[k].r, SMX[k].c); g_bad = 1; }
      else for (i = 0; i < SMX[k].r && !g_bad; i++) for (j = 0; j < SMX[k].c; j++) if (MX[k]->data[i][j] != SMX[k].v[i][j]) { vh_fail(g_c, "matrix|cell", "after %s: matrix %zu [%zu][%zu] = %.17g, model %.17g", g_lastop, k, i, j, MX[k]->data[i][j], SMX[k].v[i][j]); g_bad = 1; break; }
    }
    if (STN[k].live) {
      if (TN[k]->order != STN[k].order) { vh_fail(g_c, "tensor|order", "after %s: tensor %zu has order %zu, model %zu", g_lastop, k, TN[k]->order, STN[k].order); g_bad = 1; }
      else for (b = 0; b < STN[k].order && !g_bad; b++) {
        if (TN[k]->m[b]->row != STN[k].b[b].r || TN[k]->m[b]->col != STN[k].b[b].c) { vh_fail(g_c, "tensor|block-shape", "after %s: tensor %zu block %zu is %zux%zu, model %zux%zu", g_lastop, k, b, TN[k]->m[b]->row, TN[k]->m[b]->col, STN[k].b[b].r, STN[k].b[b].c); g_bad = 1; break; }
        for (i = 0; i < STN[k].b[b].r && !g_bad; i++) for (j = 0; j < STN[k].b[b].c; j++) if (TN[k]->m[b]->data[i][j] != STN[k].b[b].v[i][j]) { vh_fail(g_c, "tensor|cell", "after %s: tensor %zu block %zu [%zu][%zu] = %.17g, model %.17g", g_lastop, k, b, i, j, TN[k]->m[b]->data[i][j], STN[k].b[b].v[i][j]); g_bad = 1; break; }
      }
    }
    if (SLS[k].live) {
      if (LS[k]->size != SLS[k].n) { vh_fail(g_c, "dvectorlist|size", "after %s: list %zu has size %zu, model %zu", g_lastop, k, LS[k]->size, SLS[k].n); g_bad = 1; }
      else for (i = 0; i < SLS[k].n && !g_bad; i++) {
        if (LS[k]->d[i]->size != SLS[k].len[i]) { vh_fail(g_c, "dvectorlist|element-size", "after %s: list %zu element %zu has size %zu, model %zu", g_lastop, k, i, LS[k]->d[i]->size, SLS[k].len[i]); g_bad = 1; break; }
        for (j = 0; j < SLS[k].len[i]; j++) if (LS[k]->d[i]->data[j] != SLS[k].v[i][j]) { vh_fail(g_c, "dvectorlist|cell", "after %s: list %zu element %zu [%zu] differs", g_lastop, k, i, j); g_bad = 1; break; }
      }
    }
  }
}

/* ------------------------------------------------------------------ out-of-range accessors in a nested child */
/* returns: 0 returned normally with the expected sentinel/no effect, 1 clean abort, 2 sanitizer report, 3 returned wrong, 4 other signal */
static int g_oor_kind; static size_t g_oor_slot; static size_t g_oor_i, g_oor_j, g_oor_k;
static int oor_body(void)
{
  switch (g_oor_kind) {
    case 0: setDVectorValue(DV[g_oor_slot], g_oor_i, 1.0); return 3;      /* documented: abort */
    case 1: (void)getDVectorValue(DV[g_oor_slot], g_oor_i); return 3;
    case 2: { size_t n = UV[g_oor_slot]->size; setUIVectorValue(UV[g_oor_slot], g_oor_i, 7); return UV[g_oor_slot]->size == n ? 0 : 3; }   /* message, no effect */
    case 3: (void)getUIVectorValue(UV[g_oor_slot], g_oor_i); return 3;
    case 4: { size_t n = IV[g_oor_slot]->size; setIVectorValue(IV[g_oor_slot], g_oor_i, 7); return IV[g_oor_slot]->size == n ? 0 : 3; }
    case 5: (void)getIVectorValue(IV[g_oor_slot], g_oor_i); return 3;
    case 6: { matrix *m = MX[g_oor_slot]; size_t i, j; double s0 = 0, s1 = 0; for (i = 0; i < m->row; i++) for (j = 0; j < m->col; j++) s0 += m->data[i][j];
              setMatrixValue(m, g_oor_i, g_oor_j, 5.0); for (i = 0; i < m->row; i++) for (j = 0; j < m->col; j++) s1 += m->data[i][j]; return s0 == s1 ? 0 : 3; }
    case 7: { double v = getMatrixValue(MX[g_oor_slot], g_oor_i, g_oor_j); return v != v ? 0 : 3; }       /* NaN */
    case 8: { dvector *v = getMatrixRow(MX[g_oor_slot], g_oor_i); return v == NULL ? 0 : 3; }
    case 9: { dvector *v = getMatrixColumn(MX[g_oor_slot], g_oor_j); return v == NULL ? 0 : 3; }
    case 10: setTensorValue(TN[g_oor_slot], g_oor_k, g_oor_i, g_oor_j, 1.0); return 3;                     /* documented: abort */
    case 11: { double v = getTensorValue(TN[g_oor_slot], g_oor_k, g_oor_i, g_oor_j); return v != v ? 0 : 3; }
    case 12: { size_t n = DV[g_oor_slot]->size; DVectorRemoveAt(DV[g_oor_slot], g_oor_i); return DV[g_oor_slot]->size == n ? 0 : 3; }   /* documented no-op */
    case 13: { size_t n = UV[g_oor_slot]->size; UIVectorRemoveAt(UV[g_oor_slot], g_oor_i); return UV[g_oor_slot]->size == n ? 0 : 3; }
    case 14: { size_t n = IV[g_oor_slot]->size; IVectorRemoveAt(IV[g_oor_slot], g_oor_i); return IV[g_oor_slot]->size == n ? 0 : 3; }
  }
  return 3;
}
static const char *OORNAME[] = { "setDVectorValue", "getDVectorValue", "setUIVectorValue", "getUIVectorValue", "setIVectorValue", "getIVectorValue",
  "setMatrixValue", "getMatrixValue", "getMatrixRow", "getMatrixColumn", "setTensorValue", "getTensorValue", "DVectorRemoveAt", "UIVectorRemoveAt", "IVectorRemoveAt" };
static void run_oor(void)
{
  int fd[2], st = 0, rc; pid_t pid; char buf[4096]; ssize_t n, tot = 0;
  fflush(g_c->out);
  if (pipe(fd)) return;
  pid = fork();
  if (pid == 0) {
    close(fd[0]); dup2(fd[1], 1); dup2(fd[1], 2);
    rc = oor_body();
    fflush(stdout);
    _exit(rc);
  }
  close(fd[1]);
  while ((n = read(fd[0], buf + tot, sizeof buf - 1 - (size_t)tot)) > 0) { tot += n; if ((size_t)tot >= sizeof buf - 1) break; }
  buf[tot] = 0; close(fd[0]);
  waitpid(pid, &st, 0);
  vh_obs("out_of_range_accessor_calls", 1);
  if (strstr(buf, "Sanitizer") || strstr(buf, "runtime error")) {
    char key[120]; snprintf(key, sizeof key, "%s|out-of-range-access-touches-memory", OORNAME[g_oor_kind]);
    vh_fail(g_c, key, "%s with index (%zu,%zu,%zu) out of range produced a sanitizer report: %.300s", OORNAME[g_oor_kind], g_oor_k, g_oor_i, g_oor_j, buf); g_bad = 1;
  } else if (WIFSIGNALED(st) && WTERMSIG(st) == SIGABRT) vh_obs("out_of_range_clean_abort", 1);
  else if (WIFSIGNALED(st)) {
    char key[120]; snprintf(key, sizeof key, "%s|out-of-range-access-crashes", OORNAME[g_oor_kind]);
    vh_fail(g_c, key, "%s out of range died with signal %d", OORNAME[g_oor_kind], WTERMSIG(st)); g_bad = 1;
  } else if (WEXITSTATUS(st) == 0) vh_obs("out_of_range_sentinel_or_noop", 1);
  else if (WEXITSTATUS(st) == 1) {    /* UBSan exits with 1 after printing 'runtime error' - handled above; plain exit(1) is unexpected */
    char key[120]; snprintf(key, sizeof key, "%s|out-of-range-unexpected-exit", OORNAME[g_oor_kind]);
    vh_fail(g_c, key, "%s out of range exited with status 1: %.200s", OORNAME[g_oor_kind], buf); g_bad = 1;
  } else {
    char key[120]; snprintf(key, sizeof key, "%s|out-of-range-not-safe", OORNAME[g_oor_kind]);
    vh_fail(g_c, key, "%s out of range returned without the documented sentinel / changed the container", OORNAME[g_oor_kind]); g_bad = 1;
  }
}

/* ------------------------------------------------------------------ helpers */
static size_t rnd_len(vh_ctx *c, size_t cur, const char **rel)
{
  switch (vh_int(c, 0, 3)) {
    case 0: *rel = "zero"; return 0;
    case 1: *rel = "shorter"; return cur > 1 ? (size_t)vh_int(c, 1, (long)cur - 1) : 0;
    case 2: *rel = "equal"; return cur;
    default: *rel = "longer"; return cur + (size_t)vh_int(c, 1, 3);
  }
}
static dvector *mk_dv(size_t n, double *vals) { dvector *v; size_t i; NewDVector(&v, n); for (i = 0; i < n; i++) { vals[i] = fresh(); v->data[i] = vals[i]; } return v; }

#define OP(fmt, ...) do { snprintf(g_lastop, sizeof g_lastop, fmt, __VA_ARGS__); vh_desc(g_c, "%s;", g_lastop); } while (0)
#define OBSOP(name) vh_obs("op_" name, 1)

/* ------------------------------------------------------------------ operations per kind */
static void op_dvector(vh_ctx *c)
{
  size_t k = (size_t)vh_int(c, 0, POOL - 1), i;
  sh_dv *s = &SDV[k];
  if (!s->live) {
    if (vh_coin(c, 0.5)) { size_t n = (size_t)vh_int(c, 0, 6); OP("D%zu=New(%zu)", k, n); NewDVector(&DV[k], n); s->n = n; for (i = 0; i < n; i++) s->v[i] = 0; }
    else { OP("D%zu=init", k); initDVector(&DV[k]); s->n = 0; }
    s->live = 1; OBSOP("dvector_create"); return;
  }
  switch (vh_int(c, 0, 12)) {
    case 0: { size_t n = (size_t)vh_int(c, 0, 8); OP("D%zu.resize(%zu)", k, n); DVectorResize(DV[k], n); s->n = n; for (i = 0; i < n; i++) s->v[i] = 0; OBSOP("dvector_resize"); break; }
    case 1: case 2: if (s->n < MAXN - 8) { double v = fresh(); OP("D%zu.append", k); DVectorAppend(DV[k], v); s->v[s->n++] = v; OBSOP("dvector_append"); } break;
    case 3: if (s->n > 0) { size_t ix = (size_t)vh_int(c, 0, (long)s->n - 1); OP("D%zu.removeAt(%zu/%zu)", k, ix, s->n); DVectorRemoveAt(DV[k], ix); memmove(&s->v[ix], &s->v[ix + 1], (s->n - ix - 1) * sizeof(double)); s->n--; OBSOP("dvector_remove"); } break;
    case 4: { size_t d = (size_t)vh_int(c, 0, POOL - 1); if (d != k && SDV[d].live) { const char *rel = SDV[d].n == 0 ? "empty-dst" : SDV[d].n == s->n ? "same-size-dst" : "different-size-dst";
              OP("D%zu.copyTo(D%zu,%s,src=%zu)", k, d, rel, s->n); DVectorCopy(DV[k], DV[d]); SDV[d].n = s->n; memcpy(SDV[d].v, s->v, sizeof(double) * s->n);
              if (s->n) { double v = fresh(); DV[d]->data[0] = v; SDV[d].v[0] = v; }      /* mutate the copy: the source must not change */
              vh_obs(SDV[d].n == 0 ? "op_dvector_copy_empty_src" : "op_dvector_copy", 1); } break; }
    case 5: { size_t a = (size_t)vh_int(c, 0, POOL - 1), d = (size_t)vh_int(c, 0, POOL - 1); if (SDV[a].live && d != k && d != a && s->n + SDV[a].n < MAXN) {
              dvector *e; OP("D%zu=extend(D%zu,D%zu)", d, k, a); e = DVectorExtend(DV[k], DV[a]); if (SDV[d].live) DelDVector(&DV[d]); DV[d] = e; SDV[d].live = 1; SDV[d].n = s->n + SDV[a].n;
              memcpy(SDV[d].v, s->v, sizeof(double) * s->n); memcpy(SDV[d].v + s->n, SDV[a].v, sizeof(double) * SDV[a].n); OBSOP("dvector_extend"); } break; }
    case 6: if (s->n > 0) { size_t ix = (size_t)vh_int(c, 0, (long)s->n - 1); double v = fresh(); OP("D%zu.set(%zu)", k, ix); setDVectorValue(DV[k], ix, v); s->v[ix] = v; if (getDVectorValue(DV[k], ix) != v) { vh_fail(c, "dvector|get-after-set", "get returned another value"); g_bad = 1; } OBSOP("dvector_setget"); } break;
    case 7: { OP("D%zu.set(OOR %zu)", k, s->n + (size_t)vh_int(c, 0, 2)); g_oor_kind = 0; g_oor_slot = k; g_oor_i = s->n + (size_t)vh_int(c, 0, 2); run_oor(); break; }
    case 8: { OP("D%zu.get(OOR)", k); g_oor_kind = 1; g_oor_slot = k; g_oor_i = s->n + (size_t)vh_int(c, 0, 2); run_oor(); break; }
    case 9: { OP("D%zu.removeAt(OOR)", k); g_oor_kind = 12; g_oor_slot = k; g_oor_i = s->n + (size_t)vh_int(c, 0, 2); run_oor(); break; }
    case 10: { double v = fresh(); OP("D%zu.setAll", k); DVectorSet(DV[k], v); for (i = 0; i < s->n; i++) s->v[i] = v; OBSOP("dvector_setall"); break; }
    case 11: { size_t a, b; OP("D%zu.sort", k); DVectorSort(DV[k]); for (a = 0; a < s->n; a++) for (b = a + 1; b < s->n; b++) if (s->v[b] < s->v[a]) { double t = s->v[a]; s->v[a] = s->v[b]; s->v[b] = t; } OBSOP("dvector_sort"); break; }
    default: { OP("D%zu.del", k); DelDVector(&DV[k]); s->live = 0; OBSOP("dvector_delete"); break; }
  }
}

static void op_uivector(vh_ctx *c)
{
  size_t k = (size_t)vh_int(c, 0, POOL - 1), i;
  sh_uv *s = &SUV[k];
  if (!s->live) {
    if (vh_coin(c, 0.5)) { size_t n = (size_t)vh_int(c, 0, 6); OP("U%zu=New(%zu)", k, n); NewUIVector(&UV[k], n); s->n = n; for (i = 0; i < n; i++) s->v[i] = 0; }
    else { OP("U%zu=init", k); initUIVector(&UV[k]); s->n = 0; }
    s->live = 1; OBSOP("uivector_create"); return;
  }
  switch (vh_int(c, 0, 11)) {
    case 0: { size_t n = (size_t)vh_int(c, 0, 8); OP("U%zu.resize(%zu)", k, n); UIVectorResize(UV[k], n); s->n = n; for (i = 0; i < n; i++) s->v[i] = 0; OBSOP("uivector_resize"); break; }
    case 1: case 2: if (s->n < MAXN - 8) { size_t v = vh_coin(c, 0.15) ? ((size_t)1 << 33) + (size_t)vh_int(c, 0, 1000) : (size_t)vh_int(c, 0, 100000); OP("U%zu.append(%zu)", k, v); UIVectorAppend(UV[k], v); s->v[s->n++] = v; OBSOP("uivector_append"); } break;
    case 3: if (s->n > 0) { size_t ix = (size_t)vh_int(c, 0, (long)s->n - 1); OP("U%zu.removeAt(%zu/%zu)", k, ix, s->n); UIVectorRemoveAt(UV[k], ix); memmove(&s->v[ix], &s->v[ix + 1], (s->n - ix - 1) * sizeof(size_t)); s->n--; OBSOP("uivector_remove"); } break;
    case 4: { size_t a = (size_t)vh_int(c, 0, POOL - 1), d = (size_t)vh_int(c, 0, POOL - 1); if (SUV[a].live && d != k && d != a && s->n + SUV[a].n < MAXN) {
              uivector *e; OP("U%zu=extend(U%zu,U%zu)", d, k, a); e = UIVectorExtend(UV[k], UV[a]); if (SUV[d].live) DelUIVector(&UV[d]); UV[d] = e; SUV[d].live = 1; SUV[d].n = s->n + SUV[a].n;
              memcpy(SUV[d].v, s->v, sizeof(size_t) * s->n); memcpy(SUV[d].v + s->n, SUV[a].v, sizeof(size_t) * SUV[a].n); OBSOP("uivector_extend"); } break; }
    case 5: if (s->n > 0) { size_t ix = (size_t)vh_int(c, 0, (long)s->n - 1), v = (size_t)vh_int(c, 0, 100000); OP("U%zu.set(%zu)", k, ix); setUIVectorValue(UV[k], ix, v); s->v[ix] = v; if (getUIVectorValue(UV[k], ix) != v) { vh_fail(c, "uivector|get-after-set", "get returned another value"); g_bad = 1; } OBSOP("uivector_setget"); } break;
    case 6: { OP("U%zu.set(OOR)", k); g_oor_kind = 2; g_oor_slot = k; g_oor_i = s->n + (size_t)vh_int(c, 0, 2); run_oor(); break; }
    case 7: { OP("U%zu.get(OOR)", k); g_oor_kind = 3; g_oor_slot = k; g_oor_i = s->n + (size_t)vh_int(c, 0, 2); run_oor(); break; }
    case 8: { OP("U%zu.removeAt(OOR)", k); g_oor_kind = 13; g_oor_slot = k; g_oor_i = s->n + (size_t)vh_int(c, 0, 2); run_oor(); break; }
    case 9: { size_t a, b; OP("U%zu.sort", k); SortUIVector(UV[k]); for (a = 0; a < s->n; a++) for (b = a + 1; b < s->n; b++) if (s->v[b] < s->v[a]) { size_t t = s->v[a]; s->v[a] = s->v[b]; s->v[b] = t; } OBSOP("uivector_sort"); break; }
    case 10: if (s->n > 0) { size_t ix = (size_t)vh_int(c, 0, (long)s->n - 1), first = 0; int r; OP("U%zu.indexOf", k); r = UIVectorIndexOf(UV[k], s->v[ix]); while (s->v[first] != s->v[ix]) first++;
              if (r != (int)first || UIVectorHasValue(UV[k], s->v[ix]) != 0 || UIVectorHasValue(UV[k], 99999999999ULL) != 1) { vh_fail(c, "uivector|search", "IndexOf/HasValue wrong: got %d expected %zu", r, first); g_bad = 1; } OBSOP("uivector_search"); } break;
    default: { OP("U%zu.del", k); DelUIVector(&UV[k]); s->live = 0; OBSOP("uivector_delete"); break; }
  }
}

static void op_ivector(vh_ctx *c)
{
  size_t k = (size_t)vh_int(c, 0, POOL - 1), i;
  sh_iv *s = &SIV[k];
  if (!s->live) {
    if (vh_coin(c, 0.5)) { size_t n = (size_t)vh_int(c, 0, 6); OP("I%zu=New(%zu)", k, n); NewIVector(&IV[k], n); s->n = n; for (i = 0; i < n; i++) s->v[i] = 0; }
    else { OP("I%zu=init", k); initIVector(&IV[k]); s->n = 0; }
    s->live = 1; OBSOP("ivector_create"); return;
  }
  switch (vh_int(c, 0, 9)) {
    case 0: case 1: if (s->n < MAXN - 8) { int v = (int)vh_int(c, -100000, 100000); OP("I%zu.append(%d)", k, v); IVectorAppend(IV[k], v); s->v[s->n++] = v; OBSOP("ivector_append"); } break;
    case 2: if (s->n > 0) { size_t ix = (size_t)vh_int(c, 0, (long)s->n - 1); OP("I%zu.removeAt(%zu/%zu)", k, ix, s->n); IVectorRemoveAt(IV[k], ix); memmove(&s->v[ix], &s->v[ix + 1], (s->n - ix - 1) * sizeof(int)); s->n--; OBSOP("ivector_remove"); } break;
    case 3: { size_t a = (size_t)vh_int(c, 0, POOL - 1), d = (size_t)vh_int(c, 0, POOL - 1); if (SIV[a].live && d != k && d != a && s->n + SIV[a].n < MAXN) {
              ivector *e; OP("I%zu=extend(I%zu,I%zu)", d, k, a); e = IVectorExtend(IV[k], IV[a]); if (SIV[d].live) DelIVector(&IV[d]); IV[d] = e; SIV[d].live = 1; SIV[d].n = s->n + SIV[a].n;
              memcpy(SIV[d].v, s->v, sizeof(int) * s->n); memcpy(SIV[d].v + s->n, SIV[a].v, sizeof(int) * SIV[a].n); OBSOP("ivector_extend"); } break; }
    case 4: if (s->n > 0) { size_t ix = (size_t)vh_int(c, 0, (long)s->n - 1); int v = (int)vh_int(c, -1000, 1000); OP("I%zu.set(%zu)", k, ix); setIVectorValue(IV[k], ix, v); s->v[ix] = v; if (getIVectorValue(IV[k], ix) != v) { vh_fail(c, "ivector|get-after-set", "get returned another value"); g_bad = 1; } OBSOP("ivector_setget"); } break;
    case 5: { OP("I%zu.set(OOR)", k); g_oor_kind = 4; g_oor_slot = k; g_oor_i = s->n + (size_t)vh_int(c, 0, 2); run_oor(); break; }
    case 6: { OP("I%zu.get(OOR)", k); g_oor_kind = 5; g_oor_slot = k; g_oor_i = s->n + (size_t)vh_int(c, 0, 2); run_oor(); break; }
    case 7: { OP("I%zu.removeAt(OOR)", k); g_oor_kind = 14; g_oor_slot = k; g_oor_i = s->n + (size_t)vh_int(c, 0, 2); run_oor(); break; }
    case 8: { int v = (int)vh_int(c, -9, 9); OP("I%zu.setAll", k); IVectorSet(IV[k], v); for (i = 0; i < s->n; i++) s->v[i] = v; if (s->n && (IVectorHasValue(IV[k], v) != 0 || IVectorHasValue(IV[k], v + 1) != 1)) { vh_fail(c, "ivector|search", "HasValue wrong"); g_bad = 1; } OBSOP("ivector_setall"); break; }
    default: { OP("I%zu.del", k); DelIVector(&IV[k]); s->live = 0; OBSOP("ivector_delete"); break; }
  }
}

static void op_strvector(vh_ctx *c)
{
  size_t k = (size_t)vh_int(c, 0, POOL - 1), i;
  sh_sv *s = &SSV[k];
  char buf[40];
  if (!s->live) {
    if (vh_coin(c, 0.5)) { size_t n = (size_t)vh_int(c, 0, 4); OP("S%zu=New(%zu)", k, n); NewStrVector(&SV[k], n); s->n = n; for (i = 0; i < n; i++) s->v[i][0] = 0; }
    else { OP("S%zu=init", k); initStrVector(&SV[k]); s->n = 0; }
    s->live = 1; OBSOP("strvector_create"); return;
  }
  switch (vh_int(c, 0, 8)) {
    case 0: { size_t n = (size_t)vh_int(c, 0, 5); OP("S%zu.resize(%zu)", k, n); StrVectorResize(SV[k], n); s->n = n; for (i = 0; i < n; i++) s->v[i][0] = 0; OBSOP("strvector_resize"); break; }
    case 1: case 2: if (s->n < 20) { snprintf(buf, sizeof buf, "str-%.0f-%s", fresh(), vh_coin(c, 0.3) ? "a longer payload xx" : "x"); OP("S%zu.append", k); StrVectorAppend(SV[k], buf); strcpy(s->v[s->n++], buf); OBSOP("strvector_append"); } break;
    case 3: if (s->n < 20) { int v = (int)vh_int(c, -99999, 99999); OP("S%zu.appendInt", k); StrVectorAppendInt(SV[k], v); snprintf(s->v[s->n++], 40, "%d", v); OBSOP("strvector_append_int"); } break;
    case 4: if (s->n < 20) { double v = (double)vh_int(c, -999, 999) / 8.0; OP("S%zu.appendDouble", k); StrVectorAppendDouble(SV[k], v); snprintf(s->v[s->n++], 40, "%f", v); OBSOP("strvector_append_double"); } break;
    case 5: if (s->n > 0) { size_t ix = (size_t)vh_int(c, 0, (long)s->n - 1); snprintf(buf, sizeof buf, "set-%.0f", fresh()); OP("S%zu.setStr(%zu)", k, ix); setStr(SV[k], ix, buf); strcpy(s->v[ix], buf); if (strcmp(getStr(SV[k], ix), buf)) { vh_fail(c, "strvector|get-after-set", "getStr differs"); g_bad = 1; } OBSOP("strvector_setget"); } break;
    case 6: { size_t a = (size_t)vh_int(c, 0, POOL - 1), d = (size_t)vh_int(c, 0, POOL - 1); if (SSV[a].live && d != k && d != a && s->n + SSV[a].n < 20) {
              strvector *e; OP("S%zu=extend(S%zu,S%zu)", d, k, a); e = StrVectorExtend(SV[k], SV[a]); if (SSV[d].live) DelStrVector(&SV[d]); SV[d] = e; SSV[d].live = 1; SSV[d].n = s->n + SSV[a].n;
              { for (i = 0; i < s->n; i++) strcpy(SSV[d].v[i], s->v[i]); } { for (i = 0; i < SSV[a].n; i++) strcpy(SSV[d].v[s->n + i], SSV[a].v[i]); }
              if (SSV[d].n) { snprintf(buf, sizeof buf, "mut-%.0f", fresh()); setStr(SV[d], 0, buf); strcpy(SSV[d].v[0], buf); }    /* mutate the result: operands must not change */
              OBSOP("strvector_extend"); } break; }
    case 7: { strvector *tok; OP("S%zu.split", k); initStrVector(&tok); SplitString("  alpha;beta;;gamma ", ";", tok);
              if (tok->size != 3 || strcmp(tok->data[0], "alpha") || strcmp(tok->data[2], "gamma")) { vh_fail(c, "strvector|split", "SplitString gave %zu tokens", tok->size); g_bad = 1; } DelStrVector(&tok); OBSOP("strvector_split"); break; }
    default: { OP("S%zu.del", k); DelStrVector(&SV[k]); s->live = 0; OBSOP("strvector_delete"); break; }
  }
}

static void sh_mx_zero(sh_mx *s, size_t r, size_t c_) { size_t i, j; s->r = r; s->c = c_; for (i = 0; i < r; i++) for (j = 0; j < c_; j++) s->v[i][j] = 0; }

static void op_matrix(vh_ctx *c)
{
  size_t k = (size_t)vh_int(c, 0, POOL - 1), i, j;
  sh_mx *s = &SMX[k];
  const char *rel;
  if (!s->live) {
    if (vh_coin(c, 0.6)) { size_t r = (size_t)vh_int(c, 0, 5), cc = (size_t)vh_int(c, 0, 5); OP("M%zu=New(%zu,%zu)", k, r, cc); NewMatrix(&MX[k], r, cc); sh_mx_zero(s, r, cc); }
    else { OP("M%zu=init", k); initMatrix(&MX[k]); s->r = s->c = 0; }
    s->live = 1; OBSOP("matrix_create"); return;
  }
  switch (vh_int(c, 0, 19)) {
    case 0: { size_t r = (size_t)vh_int(c, 0, 6), cc = (size_t)vh_int(c, 0, 6); OP("M%zu.resize(%zu,%zu from %zux%zu)", k, r, cc, s->r, s->c); ResizeMatrix(MX[k], r, cc); sh_mx_zero(s, r, cc); OBSOP("matrix_resize"); break; }
    case 1: case 2: if (s->r < 20) { double vals[MAXN]; size_t n = rnd_len(c, s->c, &rel); dvector *v;
              if (n > 30) n = 30;
              v = mk_dv(n, vals); OP("M%zu.appendRow(len=%zu %s, shape %zux%zu)", k, n, rel, s->r, s->c); MatrixAppendRow(MX[k], v); DelDVector(&v);
              { size_t nc = s->c == 0 ? n : (n > s->c ? n : s->c); for (i = 0; i < s->r; i++) for (j = s->c; j < nc; j++) s->v[i][j] = 0; for (j = 0; j < nc; j++) s->v[s->r][j] = j < n ? vals[j] : 0; s->c = nc; s->r++; }
              { char nm[48]; snprintf(nm, sizeof nm, "op_matrix_append_row_%s", rel); vh_obs(nm, 1); } } break;
    case 3: case 4: if (s->c < 20) { double vals[MAXN]; size_t n = rnd_len(c, s->r, &rel); dvector *v;
              if (n > 30) n = 30;
              v = mk_dv(n, vals); OP("M%zu.appendCol(len=%zu %s, shape %zux%zu)", k, n, rel, s->r, s->c); MatrixAppendCol(MX[k], v); DelDVector(&v);
              { size_t nr = s->r == 0 ? n : (n > s->r ? n : s->r); for (i = s->r; i < nr; i++) for (j = 0; j < s->c; j++) s->v[i][j] = 0; for (i = 0; i < nr; i++) s->v[i][s->c] = i < n ? vals[i] : 0; s->r = nr; s->c++; }
              { char nm[48]; snprintf(nm, sizeof nm, "op_matrix_append_col_%s", rel); vh_obs(nm, 1); } } break;
    case 5: if (s->r < 20) { size_t n = rnd_len(c, s->c, &rel), vals[MAXN]; uivector *v; if (n > 30) n = 30; NewUIVector(&v, n); for (j = 0; j < n; j++) { vals[j] = (size_t)fresh(); v->data[j] = vals[j]; }
              OP("M%zu.appendUIRow(len=%zu %s, shape %zux%zu)", k, n, rel, s->r, s->c); MatrixAppendUIRow(MX[k], v); DelUIVector(&v);
              { size_t nc = s->c == 0 ? n : (n > s->c ? n : s->c); for (i = 0; i < s->r; i++) for (j = s->c; j < nc; j++) s->v[i][j] = 0; for (j = 0; j < nc; j++) s->v[s->r][j] = j < n ? (double)vals[j] : 0; s->c = nc; s->r++; }
              { char nm[48]; snprintf(nm, sizeof nm, "op_matrix_append_uirow_%s", rel); vh_obs(nm, 1); } } break;
    case 6: if (s->c < 20) { size_t n = rnd_len(c, s->r, &rel), vals[MAXN]; uivector *v; if (n > 30) n = 30; NewUIVector(&v, n); for (j = 0; j < n; j++) { vals[j] = (size_t)fresh(); v->data[j] = vals[j]; }
              OP("M%zu.appendUICol(len=%zu %s, shape %zux%zu)", k, n, rel, s->r, s->c); MatrixAppendUICol(MX[k], v); DelUIVector(&v);
              { size_t nr = s->r == 0 ? n : (n > s->r ? n : s->r); for (i = s->r; i < nr; i++) for (j = 0; j < s->c; j++) s->v[i][j] = 0; for (i = 0; i < nr; i++) s->v[i][s->c] = i < n ? (double)vals[i] : 0; s->r = nr; s->c++; }
              { char nm[48]; snprintf(nm, sizeof nm, "op_matrix_append_uicol_%s", rel); vh_obs(nm, 1); } } break;
    case 7: if (s->r > 0) { size_t ix = (size_t)vh_int(c, 0, (long)s->r - 1); OP("M%zu.deleteRow(%zu of %zux%zu)", k, ix, s->r, s->c); MatrixDeleteRowAt(MX[k], ix); for (i = ix; i + 1 < s->r; i++) memcpy(s->v[i], s->v[i + 1], sizeof(double) * MAXN); s->r--; OBSOP("matrix_delete_row"); } break;
    case 8: if (s->c > 0 ) { size_t ix = (size_t)vh_int(c, 0, (long)s->c - 1); OP("M%zu.deleteCol(%zu of %zux%zu)", k, ix, s->r, s->c); MatrixDeleteColAt(MX[k], ix); for (i = 0; i < s->r; i++) for (j = ix; j + 1 < s->c; j++) s->v[i][j] = s->v[i][j + 1]; s->c--; OBSOP("matrix_delete_col"); } break;
    case 9: case 10: if (s->r > 0 && s->c > 0) { size_t a = (size_t)vh_int(c, 0, (long)s->r - 1), b = (size_t)vh_int(c, 0, (long)s->c - 1); double v = fresh(); OP("M%zu.set(%zu,%zu)", k, a, b); setMatrixValue(MX[k], a, b, v); s->v[a][b] = v; if (getMatrixValue(MX[k], a, b) != v) { vh_fail(c, "matrix|get-after-set", "get returned another value"); g_bad = 1; } OBSOP("matrix_setget"); } break;
    case 11: { int rowbad = vh_coin(c, 0.5); OP("M%zu.set(OOR)", k); g_oor_kind = 6; g_oor_slot = k; g_oor_i = rowbad ? s->r + (size_t)vh_int(c, 0, 2) : (s->r ? s->r - 1 : 0); g_oor_j = rowbad ? (size_t)vh_int(c, 0, 3) : s->c + (size_t)vh_int(c, 0, 2); run_oor(); break; }
    case 12: { int rowbad = vh_coin(c, 0.5); OP("M%zu.get(OOR)", k); g_oor_kind = 7; g_oor_slot = k; g_oor_i = rowbad ? s->r + (size_t)vh_int(c, 0, 2) : (s->r ? s->r - 1 : 0); g_oor_j = rowbad ? (size_t)vh_int(c, 0, 3) : s->c + (size_t)vh_int(c, 0, 2); run_oor(); break; }
    case 13: { OP("M%zu.getRow/Col(OOR)", k); g_oor_kind = vh_coin(c, 0.5) ? 8 : 9; g_oor_slot = k; g_oor_i = s->r + (size_t)vh_int(c, 0, 2); g_oor_j = s->c + (size_t)vh_int(c, 0, 2); run_oor(); break; }
    case 14: if (s->r > 0 && s->c > 0) { size_t a = (size_t)vh_int(c, 0, (long)s->r - 1), b = (size_t)vh_int(c, 0, (long)s->c - 1); dvector *rw, *cl; OP("M%zu.getRow(%zu)/getCol(%zu)", k, a, b); rw = getMatrixRow(MX[k], a); cl = getMatrixColumn(MX[k], b);
              if (!rw || !cl || rw->size != s->c || cl->size != s->r) { vh_fail(c, "matrix|getRowCol-shape", "row/column vector has the wrong size"); g_bad = 1; }
              else { for (j = 0; j < s->c; j++) if (rw->data[j] != s->v[a][j]) { vh_fail(c, "matrix|getRow-value", "row copy differs"); g_bad = 1; break; } for (i = 0; i < s->r; i++) if (cl->data[i] != s->v[i][b]) { vh_fail(c, "matrix|getColumn-value", "column copy differs"); g_bad = 1; break; }
                     rw->data[0] = -1; cl->data[0] = -1; }     /* copies: mutating them must not reach the matrix */
              { if (rw) DelDVector(&rw); } { if (cl) DelDVector(&cl); } OBSOP("matrix_get_row_col"); } break;
    case 15: { size_t d = (size_t)vh_int(c, 0, POOL - 1); if (d != k && SMX[d].live) { rel = (SMX[d].r == 0 && SMX[d].c == 0 && MX[d]->data == NULL) ? "empty-dst" : (SMX[d].r == s->r && SMX[d].c == s->c) ? "same-shape-dst" : "different-shape-dst";
              OP("M%zu.copyTo(M%zu,%s,%zux%zu->%zux%zu)", k, d, rel, s->r, s->c, SMX[d].r, SMX[d].c); MatrixCopy(MX[k], &MX[d]); SMX[d].r = s->r; SMX[d].c = s->c; memcpy(SMX[d].v, s->v, sizeof s->v);
              if (s->r && s->c) { double v = fresh(); MX[d]->data[0][0] = v; SMX[d].v[0][0] = v; }
              { char nm[48]; snprintf(nm, sizeof nm, "op_matrix_copy_%s", rel); vh_obs(nm, 1); } } break; }
    case 16: { double v = fresh(); OP("M%zu.setAll", k); MatrixSet(MX[k], v); for (i = 0; i < s->r; i++) for (j = 0; j < s->c; j++) s->v[i][j] = v; OBSOP("matrix_setall"); break; }
    case 17: if (s->r > 0 && s->c > 0) { size_t col = (size_t)vh_int(c, 0, (long)s->c - 1), a, b; int rev = vh_coin(c, 0.5); OP("M%zu.%ssort(col %zu)", k, rev ? "reverse" : "", col); if (rev) MatrixReverseSort(MX[k], col); else MatrixSort(MX[k], col);
              /* all keys are unique counters unless the column was set-all: order rows of the model by key (stable for ties is not promised: only judge when keys are distinct) */
              { int distinct = 1; for (a = 0; a < s->r; a++) for (b = a + 1; b < s->r; b++) if (s->v[a][col] == s->v[b][col]) distinct = 0;
                if (distinct) { for (a = 0; a < s->r; a++) for (b = a + 1; b < s->r; b++) if (rev ? s->v[b][col] > s->v[a][col] : s->v[b][col] < s->v[a][col]) { double t[MAXN]; memcpy(t, s->v[a], sizeof t); memcpy(s->v[a], s->v[b], sizeof t); memcpy(s->v[b], t, sizeof t); } }
                else { for (a = 0; a < s->r; a++) for (b = 0; b < s->c; b++) s->v[a][b] = MX[k]->data[a][b]; for (a = 0; a + 1 < s->r; a++) if (rev ? s->v[a][col] < s->v[a + 1][col] : s->v[a][col] > s->v[a + 1][col]) { vh_fail(c, "matrix|sort-order", "rows not ordered by the key column"); g_bad = 1; } } }
              OBSOP("matrix_sort"); } break;
    case 18: if (s->r > 0 && s->c > 0) { OP("M%zu.valIn", k); if (ValInMatrix(MX[k], s->v[0][0]) != 1 || ValInMatrix(MX[k], -12345.5) != 0) { vh_fail(c, "matrix|ValInMatrix", "membership wrong"); g_bad = 1; } OBSOP("matrix_search"); } break;
    default: { OP("M%zu.del", k); DelMatrix(&MX[k]); s->live = 0; OBSOP("matrix_delete"); break; }
  }
}

static void op_tensor(vh_ctx *c)
{
  size_t k = (size_t)vh_int(c, 0, POOL - 1), i, j, b;
  sh_tn *s = &STN[k];
  const char *rel;
  if (!s->live) {
    if (vh_coin(c, 0.5)) { OP("T%zu=init", k); initTensor(&TN[k]); s->order = 0; }
    else { size_t o = (size_t)vh_int(c, 1, 3), r = (size_t)vh_int(c, 1, 4); OP("T%zu=New(%zu)+NewTensorMatrix", k, o); NewTensor(&TN[k], o); s->order = o;
           for (b = 0; b < o; b++) { size_t cc = (size_t)vh_int(c, 1, 4); NewTensorMatrix(TN[k], b, r, cc); s->b[b].r = r; s->b[b].c = cc; for (i = 0; i < r; i++) for (j = 0; j < cc; j++) s->b[b].v[i][j] = 0; } }
    s->live = 1; OBSOP("tensor_create"); return;
  }
  switch (vh_int(c, 0, 11)) {
    case 0: if (s->order < MAXORD) { size_t r = s->order ? s->b[s->order - 1].r : (size_t)vh_int(c, 1, 4), cc = (size_t)vh_int(c, 1, 4); OP("T%zu.addMatrix(%zu,%zu)", k, r, cc); AddTensorMatrix(TN[k], r, cc); b = s->order++; s->b[b].r = r; s->b[b].c = cc; for (i = 0; i < r; i++) for (j = 0; j < cc; j++) s->b[b].v[i][j] = 0; OBSOP("tensor_add_matrix"); } break;
    case 1: if (s->order < MAXORD) { size_t r = s->order ? s->b[s->order - 1].r : (size_t)vh_int(c, 1, 4), cc = (size_t)vh_int(c, 1, 4); matrix *m; if (r > TDIM - 4) break; NewMatrix(&m, r, cc); b = s->order; s->b[b].r = r; s->b[b].c = cc;
              for (i = 0; i < r; i++) for (j = 0; j < cc; j++) { m->data[i][j] = fresh(); s->b[b].v[i][j] = m->data[i][j]; }
              OP("T%zu.appendMatrix(%zux%zu)", k, r, cc); TensorAppendMatrix(TN[k], m); s->order++; m->data[0][0] = -7; DelMatrix(&m); OBSOP("tensor_append_matrix"); } break;
    case 2: if (s->order > 0) { b = (size_t)vh_int(c, 0, (long)s->order - 1); if (s->b[b].c < TDIM - 1) { double vals[MAXN]; size_t n = rnd_len(c, s->b[b].r, &rel); dvector *v; if (n > TDIM - 1) n = TDIM - 1; v = mk_dv(n, vals);
              OP("T%zu.appendColumn(block %zu,len=%zu %s, %zux%zu)", k, b, n, rel, s->b[b].r, s->b[b].c); TensorAppendColumn(TN[k], b, v); DelDVector(&v);
              { size_t nr = s->b[b].r == 0 ? n : (n > s->b[b].r ? n : s->b[b].r); for (i = s->b[b].r; i < nr; i++) for (j = 0; j < s->b[b].c; j++) s->b[b].v[i][j] = 0; for (i = 0; i < nr; i++) s->b[b].v[i][s->b[b].c] = i < n ? vals[i] : 0; s->b[b].r = nr; s->b[b].c++; }
              { char nm[48]; snprintf(nm, sizeof nm, "op_tensor_append_column_%s", rel); vh_obs(nm, 1); } } } break;
    case 3: if (s->order > 0) { b = (size_t)vh_int(c, 0, (long)s->order - 1); if (s->b[b].r < TDIM - 1) { double vals[MAXN]; size_t n = rnd_len(c, s->b[b].c, &rel); dvector *v; if (n > TDIM - 1) n = TDIM - 1; v = mk_dv(n, vals);
              OP("T%zu.appendRow(block %zu,len=%zu %s, %zux%zu)", k, b, n, rel, s->b[b].r, s->b[b].c);
              /* TensorAppendRow documents (error message) that the row must be as long as the block is wide: other lengths must
                 end in the library's own abort() - classified in a nested child - and the equal length must succeed */
              { pid_t pid; int st = 0, fdp[2]; char eb[2048]; ssize_t nn, tt = 0; fflush(g_c->out); if (pipe(fdp)) { DelDVector(&v); break; } pid = fork();
                if (pid == 0) { close(fdp[0]); dup2(fdp[1], 2); dup2(fdp[1], 1); TensorAppendRow(TN[k], b, v); _exit(0); }
                close(fdp[1]); while ((nn = read(fdp[0], eb + tt, sizeof eb - 1 - (size_t)tt)) > 0) { tt += nn; if ((size_t)tt >= sizeof eb - 1) break; } eb[tt] = 0; close(fdp[0]);
                waitpid(pid, &st, 0);
                if (strstr(eb, "Sanitizer") || strstr(eb, "runtime error")) { vh_fail(c, "TensorAppendRow|sanitizer-report", "appending a row of %zu values to a %zux%zu block: %.300s", n, s->b[b].r, s->b[b].c, eb); DelDVector(&v); g_bad = 1; break; }
                if (n == s->b[b].c) {
                  if (WIFSIGNALED(st) || WEXITSTATUS(st) != 0) { char key[96]; snprintf(key, sizeof key, "TensorAppendRow|valid-append-aborts%s", n == s->b[b].r ? "|len-equals-rowcount" : ""); vh_fail(c, key, "appending a row of %zu values to a %zux%zu block ends with status 0x%x", n, s->b[b].r, s->b[b].c, st); DelDVector(&v); g_bad = 1; break; }
                } else {
                  if (WIFSIGNALED(st) && WTERMSIG(st) == SIGABRT) { vh_obs("op_tensor_append_row_wrong_length_clean_abort", 1); DelDVector(&v); break; }
                  { vh_fail(c, "TensorAppendRow|wrong-length-accepted", "a row of %zu values was appended to a block %zu wide without the documented error", n, s->b[b].c); DelDVector(&v); g_bad = 1; break; }
                } }
              TensorAppendRow(TN[k], b, v); DelDVector(&v);
              { size_t nc = s->b[b].c == 0 ? n : (n > s->b[b].c ? n : s->b[b].c); for (i = 0; i < s->b[b].r; i++) for (j = s->b[b].c; j < nc; j++) s->b[b].v[i][j] = 0; for (j = 0; j < nc; j++) s->b[b].v[s->b[b].r][j] = j < n ? vals[j] : 0; s->b[b].c = nc; s->b[b].r++; }
              { char nm[48]; snprintf(nm, sizeof nm, "op_tensor_append_row_%s", rel); vh_obs(nm, 1); } } } break;
    case 4: case 5: if (s->order > 0) { b = (size_t)vh_int(c, 0, (long)s->order - 1); if (s->b[b].r && s->b[b].c) { size_t a = (size_t)vh_int(c, 0, (long)s->b[b].r - 1), q = (size_t)vh_int(c, 0, (long)s->b[b].c - 1); double v = fresh();
              OP("T%zu.set(%zu,%zu,%zu)", k, b, a, q); setTensorValue(TN[k], b, a, q, v); s->b[b].v[a][q] = v; if (getTensorValue(TN[k], b, a, q) != v) { vh_fail(c, "tensor|get-after-set", "get returned another value"); g_bad = 1; } OBSOP("tensor_setget"); } } break;
    case 6: { int w = (int)vh_int(c, 0, 2); OP("T%zu.set(OOR)", k); g_oor_kind = 10; g_oor_slot = k; g_oor_k = w == 0 ? s->order + (size_t)vh_int(c, 0, 1) : 0; if (s->order == 0) g_oor_k = (size_t)vh_int(c, 0, 1);
              g_oor_i = (w == 1 && s->order) ? s->b[0].r + 1 : 0; g_oor_j = (w == 2 && s->order) ? s->b[0].c + 1 : 0; if (w != 0 && s->order == 0) g_oor_k = 1; run_oor(); break; }
    case 7: { int w = (int)vh_int(c, 0, 2); OP("T%zu.get(OOR)", k); g_oor_kind = 11; g_oor_slot = k; g_oor_k = w == 0 ? s->order + (size_t)vh_int(c, 0, 1) : 0; if (s->order == 0) g_oor_k = (size_t)vh_int(c, 0, 1);
              g_oor_i = (w == 1 && s->order) ? s->b[0].r + 1 : 0; g_oor_j = (w == 2 && s->order) ? s->b[0].c + 1 : 0; if (w != 0 && s->order == 0) g_oor_k = 1; run_oor(); break; }
    case 8: { double v = fresh(); OP("T%zu.setAll", k); TensorSet(TN[k], v); for (b = 0; b < s->order; b++) for (i = 0; i < s->b[b].r; i++) for (j = 0; j < s->b[b].c; j++) s->b[b].v[i][j] = v; OBSOP("tensor_setall"); break; }
    case 9: case 10: { size_t d = (size_t)vh_int(c, 0, POOL - 1); if (d != k && STN[d].live) { int same = STN[d].order == s->order; for (b = 0; same && b < s->order; b++) if (STN[d].b[b].r != s->b[b].r || STN[d].b[b].c != s->b[b].c) same = 0;
              rel = TN[d]->m == NULL ? "empty-dst" : same ? "same-shape-dst" : STN[d].order == s->order ? "same-order-different-blocks-dst" : STN[d].order < s->order ? "lower-order-dst" : "higher-order-dst";
              OP("T%zu.copyTo(T%zu,%s,order %zu->%zu)", k, d, rel, s->order, STN[d].order); TensorCopy(TN[k], &TN[d]); memcpy(&STN[d], s, sizeof *s);
              if (s->order && s->b[0].r && s->b[0].c) { double v = fresh(); TN[d]->m[0]->data[0][0] = v; STN[d].b[0].v[0][0] = v; }
              { char nm[64]; snprintf(nm, sizeof nm, "op_tensor_copy_%s", rel); vh_obs(nm, 1); } } break; }
    default: { OP("T%zu.del", k); DelTensor(&TN[k]); s->live = 0; OBSOP("tensor_delete"); break; }
  }
}

static void op_list(vh_ctx *c)
{
  size_t k = (size_t)vh_int(c, 0, POOL - 1), j;
  sh_ls *s = &SLS[k];
  if (!s->live) { OP("L%zu=init", k); initDVectorList(&LS[k]); s->n = 0; s->live = 1; OBSOP("list_create"); return; }
  switch (vh_int(c, 0, 3)) {
    case 0: case 1: case 2: if (s->n < 8) { double vals[MAXN]; size_t n = (size_t)vh_int(c, 0, 10); dvector *v = mk_dv(n, vals); OP("L%zu.append(len %zu)", k, n); DVectorListAppend(LS[k], v); v->size ? (v->data[0] = -3) : 0; DelDVector(&v);
              s->len[s->n] = n; for (j = 0; j < n; j++) s->v[s->n][j] = vals[j]; s->n++; OBSOP("list_append"); } break;
    default: { OP("L%zu.del", k); DelDVectorList(&LS[k]); s->live = 0; OBSOP("list_delete"); break; }
  }
}

static void run_case(vh_ctx *c)
{
  size_t nops = (size_t)vh_int(c, 5, 40), o, k;
  int focus = (int)vh_int(c, 0, 7);       /* one kind gets most of the operations so that long histories on it occur */
  static const char *fname[] = { "mixed", "dvector", "uivector", "ivector", "strvector", "matrix", "tensor", "list" };
  g_c = c; g_bad = 0; g_counter = (double)(c->idx % 1000) * 1000.0;
  memset(SDV, 0, sizeof SDV); memset(SUV, 0, sizeof SUV); memset(SIV, 0, sizeof SIV); memset(SSV, 0, sizeof SSV); memset(SMX, 0, sizeof SMX); memset(STN, 0, sizeof STN); memset(SLS, 0, sizeof SLS);
  vh_class(c, "%s-len%s", fname[focus], nops < 12 ? "<12" : nops < 25 ? "12-24" : "25-40");
  vh_desc(c, "focus=%s ops=%zu: ", fname[focus], nops);
  for (o = 0; o < nops && !g_bad; o++) {
    int kind = (focus && vh_coin(c, 0.75)) ? focus : (int)vh_int(c, 1, 7);
    g_lastop[0] = 0;
    switch (kind) {
      case 1: op_dvector(c); break;
      case 2: op_uivector(c); break;
      case 3: op_ivector(c); break;
      case 4: op_strvector(c); break;
      case 5: op_matrix(c); break;
      case 6: op_tensor(c); break;
      default: op_list(c); break;
    }
    if (g_lastop[0]) { vh_obs("operations_executed", 1); check_all(); }
  }
  vh_hist("history_length", (long)(o / 5) * 5);
  /* release everything: double frees / use after free surface here under ASan */
  snprintf(g_lastop, sizeof g_lastop, "final-release");
  for (k = 0; k < POOL; k++) {
    if (SDV[k].live) DelDVector(&DV[k]);
    if (SUV[k].live) DelUIVector(&UV[k]);
    if (SIV[k].live) DelIVector(&IV[k]);
    if (SSV[k].live) DelStrVector(&SV[k]);
    if (SMX[k].live) DelMatrix(&MX[k]);
    if (STN[k].live) DelTensor(&TN[k]);
    if (SLS[k].live) DelDVectorList(&LS[k]);
  }
}

const vh_driver VH_DRIVER = { "C14", ncases, run_case, NULL, 60 };
