/* c14.c - C14: containers stay memory-safe and shape-consistent under any operation history.
 *
 * Random histories of <= 40 operations over pools of 4 live objects per kind (dvector, uivector, ivector,
 * strvector, matrix, tensor, dvectorlist).  A shadow model (plain arrays owned by the driver) applies the
 * documented effect of every operation; after every operation every live container is compared with its shadow
 * (counts and every cell: old cells preserved, newly exposed cells zero).  The real calls run under ASan+UBSan.
 * Out-of-range accessors run in a nested child: they must return the documented sentinel / be a no-op, or end in
 * the library's own abort() without any sanitizer report.  Every written value is unique (a running counter),
 * so a misplaced or duplicated cell is unambiguous.  Copies are mutated right away to prove they are deep.
 *
 * Every public container function of vector.h / matrix.h / tensor.h / list.h is in the histories (the numerical
 * kernels - products, norms, statistics, transposes, decompositions - belong to C10/C11/C12): besides the
 * create/resize/copy/append/delete/set/get/extend/sort operations also the whole-container setters (DVectorSet,
 * UIVectorSet, IVectorSet, MatrixSet, TensorSet), the searches (DVectorHasValue, UIVectorHasValue, UIVectorIndexOf,
 * IVectorHasValue, ValInMatrix, MatrixGetMaxValueIndex, MatrixGetMinValueIndex), the string helpers (Trim,
 * SplitString on generated text against a from-the-definition tokenizer), MatrixCheck / FindNan on injected
 * non-finite cells, GenIdentityMatrix, MatrixInitRandomInt / MatrixInitRandomFloat (shape unchanged, values in
 * [low, high)), TensorAppendMatrixAt, NewDVectorList, operations on the element vectors of a list, and the Print*
 * functions (stdout sent to /dev/null: they only read, the sanitizers watch the reads).  Calls the library documents
 * as errors (TensorAppendMatrix with another row count, TensorAppendMatrixAt inside the tensor, tensor appends and
 * NewTensorMatrix at an order that does not exist, getStr / setStr past the end) run in the nested child. */
/* glibc's <signal.h> declares a function ssignal(); the library typedefs ssignal: keep them apart */
#define ssignal libc_ssignal_unused
#include <signal.h>
#include <sys/wait.h>
#undef ssignal
#include <unistd.h>
#include <fcntl.h>
#include <ctype.h>
#include <sys/mman.h>
#include "drv_util.h"

/* MatrixInitRandomInt / MatrixInitRandomFloat seed the library generator from time(NULL): the executable's definition of time()
   wins for the library objects linked into it, and the clock is set from the case PRNG before those calls, so the values - and
   everything later operations make of them - are a pure function of (seed, case) */
static time_t g_clock = 1700000000;
time_t time(time_t *t) { if (t) *t = g_clock; return g_clock; }

void MatrixAppendUICol(matrix *m, uivector *col);   /* public function, missing from matrix.h (MatrixAppendUIRow is declared twice there) */

static long ncases(int tier) { if (getenv("VERIF_VALGRIND")) return 2000; return tier ? 200000 : 6000; }

#define POOL 4
#define MAXN 64

/* ------------------------------------------------------------------ shadows */
typedef struct { int live; size_t n; double v[MAXN]; } sh_dv;
typedef struct { int live; size_t n; size_t v[MAXN]; } sh_uv;
typedef struct { int live; size_t n; int v[MAXN]; } sh_iv;
#define SVLEN 352           /* "%f" of the largest double has 317 characters */
typedef struct { int live; size_t n; char v[MAXN][SVLEN]; } sh_sv;
typedef struct { int live; size_t r, c; double v[MAXN][MAXN]; } sh_mx;
#define MAXORD 5
#define TDIM 10
typedef struct { size_t r, c; double v[TDIM][TDIM]; } sh_blk;
typedef struct { int live; size_t order; sh_blk b[MAXORD]; } sh_tn;
typedef struct { int live; size_t n; size_t len[8]; double v[8][12]; } sh_ls;

static dvector *DV[POOL]; static sh_dv SDV[POOL];
static uivector *UV[POOL]; static sh_uv SUV[POOL];
static ivector *IV[POOL]; static sh_iv SIV[POOL];
static strvector *SV[POOL]; static sh_sv SSV[POOL];
static matrix *MX[POOL]; static sh_mx SMX[POOL];
static tensor *TN[POOL]; static sh_tn STN[POOL];
static dvectorlist *LS[POOL]; static sh_ls SLS[POOL];

/* every written value is unique within the case, and the sequence is not monotone (a fixed bijection of the running counter
   modulo a prime), so that sorting really moves elements and rows */
static double g_counter; static unsigned long g_nfresh;
static double fresh(void) { g_nfresh++; return g_counter + (double)((g_nfresh * 7919UL) % 10007UL) + 0.25; }
static char g_lastop[200];
static vh_ctx *g_c;
static int g_bad;

/* compare every live container with its shadow */
static void check_all(void)
{
  size_t k, i, j, b;
  for (k = 0; k < POOL; k++) {
    if (SDV[k].live) {
      if (DV[k]->size != SDV[k].n) { vh_fail(g_c, "dvector|size", "after %s: dvector %zu has size %zu, model %zu", g_lastop, k, DV[k]->size, SDV[k].n); g_bad = 1; }
      else for (i = 0; i < SDV[k].n; i++) if (DV[k]->data[i] != SDV[k].v[i]) { vh_fail(g_c, "dvector|cell", "after %s: dvector %zu [%zu] = %.17g, model %.17g", g_lastop, k, i, DV[k]->data[i], SDV[k].v[i]); g_bad = 1; break; }
    }
    if (SUV[k].live) {
      if (UV[k]->size != SUV[k].n) { vh_fail(g_c, "uivector|size", "after %s: uivector %zu has size %zu, model %zu", g_lastop, k, UV[k]->size, SUV[k].n); g_bad = 1; }
      else for (i = 0; i < SUV[k].n; i++) if (UV[k]->data[i] != SUV[k].v[i]) { vh_fail(g_c, "uivector|cell", "after %s: uivector %zu [%zu] = %zu, model %zu", g_lastop, k, i, UV[k]->data[i], SUV[k].v[i]); g_bad = 1; break; }
    }
    if (SIV[k].live) {
      if (IV[k]->size != SIV[k].n) { vh_fail(g_c, "ivector|size", "after %s: ivector %zu has size %zu, model %zu", g_lastop, k, IV[k]->size, SIV[k].n); g_bad = 1; }
      else for (i = 0; i < SIV[k].n; i++) if (IV[k]->data[i] != SIV[k].v[i]) { vh_fail(g_c, "ivector|cell", "after %s: ivector %zu [%zu] = %d, model %d", g_lastop, k, i, IV[k]->data[i], SIV[k].v[i]); g_bad = 1; break; }
    }
    if (SSV[k].live) {
      if (SV[k]->size != SSV[k].n) { vh_fail(g_c, "strvector|size", "after %s: strvector %zu has size %zu, model %zu", g_lastop, k, SV[k]->size, SSV[k].n); g_bad = 1; }
      else for (i = 0; i < SSV[k].n; i++) if (strcmp(SV[k]->data[i], SSV[k].v[i])) { vh_fail(g_c, "strvector|cell", "after %s: strvector %zu [%zu] = '%.30s', model '%s'", g_lastop, k, i, SV[k]->data[i], SSV[k].v[i]); g_bad = 1; break; }
    }
    if (SMX[k].live) {
      if (MX[k]->row != SMX[k].r || MX[k]->col != SMX[k].c) { vh_fail(g_c, "matrix|shape", "after %s: matrix %zu is %zux%zu, model %zux%zu", g_lastop, k, MX[k]->row, MX[k]->col, SMX[k].r, SMX[k].c); g_bad = 1; }
      else for (i = 0; i < SMX[k].r && !g_bad; i++) for (j = 0; j < SMX[k].c; j++) if (MX[k]->data[i][j] != SMX[k].v[i][j]) { vh_fail(g_c, "matrix|cell", "after %s: matrix %zu [%zu][%zu] = %.17g, model %.17g", g_lastop, k, i, j, MX[k]->data[i][j], SMX[k].v[i][j]); g_bad = 1; break; }
    }
    if (STN[k].live) {
      if (TN[k]->order != STN[k].order) { vh_fail(g_c, "tensor|order", "after %s: tensor %zu has order %zu, model %zu", g_lastop, k, TN[k]->order, STN[k].order); g_bad = 1; }
      else for (b = 0; b < STN[k].order && !g_bad; b++) {
        if (TN[k]->m[b]->row != STN[k].b[b].r || TN[k]->m[b]->col != STN[k].b[b].c) { vh_fail(g_c, "tensor|block-shape", "after %s: tensor %zu block %zu is %zux%zu, model %zux%zu", g_lastop, k, b, TN[k]->m[b]->row, TN[k]->m[b]->col, STN[k].b[b].r, STN[k].b[b].c); g_bad = 1; break; }
        for (i = 0; i < STN[k].b[b].r && !g_bad; i++) for (j = 0; j < STN[k].b[b].c; j++) if (TN[k]->m[b]->data[i][j] != STN[k].b[b].v[i][j]) { vh_fail(g_c, "tensor|cell", "after %s: tensor %zu block %zu [%zu][%zu] = %.17g, model %.17g", g_lastop, k, b, i, j, TN[k]->m[b]->data[i][j], STN[k].b[b].v[i][j]); g_bad = 1; break; }
      }
    }
    if (SLS[k].live) {
      if (LS[k]->size != SLS[k].n) { vh_fail(g_c, "dvectorlist|size", "after %s: list %zu has size %zu, model %zu", g_lastop, k, LS[k]->size, SLS[k].n); g_bad = 1; }
      else for (i = 0; i < SLS[k].n && !g_bad; i++) {
        if (LS[k]->d[i]->size != SLS[k].len[i]) { vh_fail(g_c, "dvectorlist|element-size", "after %s: list %zu element %zu has size %zu, model %zu", g_lastop, k, i, LS[k]->d[i]->size, SLS[k].len[i]); g_bad = 1; break; }
        for (j = 0; j < SLS[k].len[i]; j++) if (LS[k]->d[i]->data[j] != SLS[k].v[i][j]) { vh_fail(g_c, "dvectorlist|cell", "after %s: list %zu element %zu [%zu] differs", g_lastop, k, i, j); g_bad = 1; break; }
      }
    }
  }
}

/* ------------------------------------------------------------------ out-of-range accessors in a nested child */
/* returns: 0 returned normally with the expected sentinel/no effect, 1 clean abort, 2 sanitizer report, 3 returned wrong, 4 other signal */
static int g_oor_kind, g_oor_soft; static size_t g_oor_slot; static size_t g_oor_i, g_oor_j, g_oor_k;
static int oor_body(void)
{
  switch (g_oor_kind) {
    case 0: setDVectorValue(DV[g_oor_slot], g_oor_i, 1.0); return 3;      /* documented: abort */
    case 1: (void)getDVectorValue(DV[g_oor_slot], g_oor_i); return 3;
    case 2: { size_t n = UV[g_oor_slot]->size; setUIVectorValue(UV[g_oor_slot], g_oor_i, 7); return UV[g_oor_slot]->size == n ? 0 : 3; }   /* message, no effect */
    case 3: (void)getUIVectorValue(UV[g_oor_slot], g_oor_i); return 3;
    case 4: { size_t n = IV[g_oor_slot]->size; setIVectorValue(IV[g_oor_slot], g_oor_i, 7); return IV[g_oor_slot]->size == n ? 0 : 3; }
    case 5: (void)getIVectorValue(IV[g_oor_slot], g_oor_i); return 3;
    case 6: { matrix *m = MX[g_oor_slot]; size_t i, j; double s0 = 0, s1 = 0; for (i = 0; i < m->row; i++) for (j = 0; j < m->col; j++) s0 += m->data[i][j];
              setMatrixValue(m, g_oor_i, g_oor_j, 5.0); for (i = 0; i < m->row; i++) for (j = 0; j < m->col; j++) s1 += m->data[i][j]; return s0 == s1 ? 0 : 3; }
    case 7: { double v = getMatrixValue(MX[g_oor_slot], g_oor_i, g_oor_j); return v != v ? 0 : 3; }       /* NaN */
    case 8: { dvector *v = getMatrixRow(MX[g_oor_slot], g_oor_i); return v == NULL ? 0 : 3; }
    case 9: { dvector *v = getMatrixColumn(MX[g_oor_slot], g_oor_j); return v == NULL ? 0 : 3; }
    case 10: setTensorValue(TN[g_oor_slot], g_oor_k, g_oor_i, g_oor_j, 1.0); return 3;                     /* documented: abort */
    case 11: { double v = getTensorValue(TN[g_oor_slot], g_oor_k, g_oor_i, g_oor_j); return v != v ? 0 : 3; }
    case 12: { size_t n = DV[g_oor_slot]->size; DVectorRemoveAt(DV[g_oor_slot], g_oor_i); return DV[g_oor_slot]->size == n ? 0 : 3; }   /* documented no-op */
    case 13: { size_t n = UV[g_oor_slot]->size; UIVectorRemoveAt(UV[g_oor_slot], g_oor_i); return UV[g_oor_slot]->size == n ? 0 : 3; }
    case 14: { size_t n = IV[g_oor_slot]->size; IVectorRemoveAt(IV[g_oor_slot], g_oor_i); return IV[g_oor_slot]->size == n ? 0 : 3; }
    case 15: { char *p = getStr(SV[g_oor_slot], g_oor_i); return p == NULL ? 0 : 3; }                       /* no documented sentinel: NULL or an abort are safe */
    case 16: { size_t n = SV[g_oor_slot]->size; setStr(SV[g_oor_slot], g_oor_i, "out-of-range"); return SV[g_oor_slot]->size == n ? 0 : 3; }
    case 17: { size_t o = TN[g_oor_slot]->order; NewTensorMatrix(TN[g_oor_slot], g_oor_k, 2, 2); return TN[g_oor_slot]->order == o ? 0 : 3; }   /* message and no effect; abort for an order-0 tensor */
    case 18: { dvector *v; NewDVector(&v, g_oor_i); TensorAppendColumn(TN[g_oor_slot], g_oor_k, v); return 3; }   /* documented: abort */
    case 19: { dvector *v; NewDVector(&v, g_oor_i); TensorAppendRow(TN[g_oor_slot], g_oor_k, v); return 3; }      /* documented: abort */
    case 20: { matrix *m; NewMatrix(&m, g_oor_i, g_oor_j); TensorAppendMatrixAt(TN[g_oor_slot], g_oor_k, m); return 3; }   /* inside the tensor: "Module not developed", abort */
    case 21: { matrix *m; NewMatrix(&m, g_oor_i, g_oor_j); TensorAppendMatrix(TN[g_oor_slot], m); return 3; }     /* another row count than the last block: documented abort */
    case 22: { matrix *m; NewMatrix(&m, g_oor_i, g_oor_j); TensorAppendMatrixAt(TN[g_oor_slot], g_oor_k, m); return 3; }   /* at the end, another row count: abort of TensorAppendMatrix */
  }
  return 3;
}
static const char *OORNAME[] = { "setDVectorValue", "getDVectorValue", "setUIVectorValue", "getUIVectorValue", "setIVectorValue", "getIVectorValue",
  "setMatrixValue", "getMatrixValue", "getMatrixRow", "getMatrixColumn", "setTensorValue", "getTensorValue", "DVectorRemoveAt", "UIVectorRemoveAt", "IVectorRemoveAt",
  "getStr", "setStr", "NewTensorMatrix", "TensorAppendColumn", "TensorAppendRow", "TensorAppendMatrixAt", "TensorAppendMatrix", "TensorAppendMatrixAt" };
/* what the call violates: kinds 0..16 index past the end of the container ("out-of-range", keys unchanged), the others are
   calls the library documents as errors (its message + abort) */
static const char *oor_tag(int kind) { return kind <= 16 ? "out-of-range" : kind <= 19 ? "order-out-of-range" : kind == 20 ? "order-inside-tensor" : "row-count-mismatch"; }
static void run_oor(void)
{
  int fd[2], st = 0, rc, acc = g_oor_kind <= 16, bad0 = g_bad; pid_t pid; char buf[4096], key[160]; ssize_t n, tot = 0;
  const char *nm = OORNAME[g_oor_kind], *tag = oor_tag(g_oor_kind);
  fflush(g_c->out);
  if (pipe(fd)) return;
  pid = fork();
  if (pid == 0) {
    close(fd[0]); dup2(fd[1], 1); dup2(fd[1], 2);
    rc = oor_body();
    fflush(stdout);
    _exit(rc);
  }
  close(fd[1]);
  while ((n = read(fd[0], buf + tot, sizeof buf - 1 - (size_t)tot)) > 0) { tot += n; if ((size_t)tot >= sizeof buf - 1) break; }
  buf[tot] = 0; close(fd[0]);
  waitpid(pid, &st, 0);
  vh_obs(acc ? "out_of_range_accessor_calls" : "documented_error_calls", 1);
  { char on[96]; snprintf(on, sizeof on, "child_%s_%s", nm, tag); vh_obs(on, 1); }
  if (strstr(buf, "Sanitizer") || strstr(buf, "runtime error")) {
    snprintf(key, sizeof key, acc ? "%s|%s-access-touches-memory" : "%s|%s-touches-memory", nm, tag);
    vh_fail(g_c, key, "%s with index (%zu,%zu,%zu) %s produced a sanitizer report: %.300s", nm, g_oor_k, g_oor_i, g_oor_j, tag, buf); g_bad = 1;
  } else if (WIFSIGNALED(st) && WTERMSIG(st) == SIGABRT) vh_obs(acc ? "out_of_range_clean_abort" : "documented_error_clean_abort", 1);
  else if (WIFSIGNALED(st)) {
    snprintf(key, sizeof key, acc ? "%s|%s-access-crashes" : "%s|%s-crashes", nm, tag);
    vh_fail(g_c, key, "%s %s died with signal %d", nm, tag, WTERMSIG(st)); g_bad = 1;
  } else if (WEXITSTATUS(st) == 0) vh_obs(acc ? "out_of_range_sentinel_or_noop" : "documented_error_noop", 1);
  else if (WEXITSTATUS(st) == 1) {    /* UBSan exits with 1 after printing 'runtime error' - handled above; plain exit(1) is unexpected */
    snprintf(key, sizeof key, "%s|%s-unexpected-exit", nm, tag);
    vh_fail(g_c, key, "%s %s exited with status 1: %.200s", nm, tag, buf); g_bad = 1;
  } else {
    snprintf(key, sizeof key, "%s|%s-not-safe", nm, tag);
    vh_fail(g_c, key, "%s %s (%zu,%zu,%zu) returned without the documented sentinel / error, or changed the container", nm, tag, g_oor_k, g_oor_i, g_oor_j); g_bad = 1;
  }
  if (g_oor_soft) { g_bad = bad0; g_oor_soft = 0; }     /* the parent's containers are untouched: the history can go on after the report */
}

/* ------------------------------------------------------------------ helpers */
static size_t rnd_len(vh_ctx *c, size_t cur, const char **rel)
{
  switch (vh_int(c, 0, 3)) {
    case 0: *rel = "zero"; return 0;
    case 1: *rel = "shorter"; return cur > 1 ? (size_t)vh_int(c, 1, (long)cur - 1) : 0;
    case 2: *rel = "equal"; return cur;
    default: *rel = "longer"; return cur + (size_t)vh_int(c, 1, 3);
  }
}
static dvector *mk_dv(size_t n, double *vals) { dvector *v; size_t i; NewDVector(&v, n); for (i = 0; i < n; i++) { vals[i] = fresh(); v->data[i] = vals[i]; } return v; }

#define OP(fmt, ...) do { snprintf(g_lastop, sizeof g_lastop, fmt, __VA_ARGS__); vh_desc(g_c, "%s;", g_lastop); } while (0)
#define OBSOP(name) vh_obs("op_" name, 1)
#define FN(name) vh_obs("fn_" name, 1)             /* public functions reached by the operations added for "every public container function" */

/* the Print* functions and FindNan write to stdout: send fd 1 to /dev/null (or to a memory file that is read back) while they
   run, so that they do run - under the sanitizers - and the record stream stays clean */
static int g_null_fd = -1;
static int quiet_begin(int capture_fd)
{
  int saved;
  fflush(stdout); if (g_c->out && g_c->out != stdout) fflush(g_c->out);
  if (g_null_fd < 0) g_null_fd = open("/dev/null", O_WRONLY);
  saved = dup(1);
  if (saved >= 0) dup2(capture_fd >= 0 ? capture_fd : g_null_fd, 1);
  return saved;
}
static void quiet_end(int saved) { fflush(stdout); if (saved >= 0) { dup2(saved, 1); close(saved); } }
static int g_cap_fd = -1;      /* an unlinked temporary file, reused: what FindNan printed is read back from it */
static int cap_fd(void)
{
  if (g_cap_fd < 0) { FILE *f = tmpfile(); if (f) { g_cap_fd = dup(fileno(f)); fclose(f); } }
  if (g_cap_fd >= 0 && (ftruncate(g_cap_fd, 0) != 0 || lseek(g_cap_fd, 0, SEEK_SET) != 0)) { close(g_cap_fd); g_cap_fd = -1; }
  return g_cap_fd;
}
static size_t cap_read(char *buf, size_t cap)
{
  ssize_t n = 0;
  if (g_cap_fd >= 0 && lseek(g_cap_fd, 0, SEEK_SET) == 0) n = read(g_cap_fd, buf, cap - 1);
  if (n < 0) n = 0;
  buf[n] = 0; return (size_t)n;
}
static int cmp_dbl(const void *a, const void *b) { double x = *(const double *)a, y = *(const double *)b; return (x > y) - (x < y); }

/* text for Trim / SplitString: word characters, characters of the separator set and white space in random order */
static size_t gen_text(vh_ctx *c, char *buf, size_t maxlen, const char *sep)
{
  static const char word[] = "abcXYZ019_-.", ws[] = " \t\n\r\v\f";
  size_t n = 0, target = (size_t)vh_int(c, 0, (long)maxlen), ns = strlen(sep);
  int pad = (int)vh_int(c, 0, 3);                 /* bit 0: leading white space, bit 1: trailing white space */
  if ((pad & 1) && n < target) buf[n++] = ws[vh_int(c, 0, 5)];
  while (n < target) {
    long w = vh_int(c, 0, 9);
    buf[n++] = w < 6 ? word[vh_int(c, 0, (long)sizeof word - 2)] : (w < 8 && ns) ? sep[vh_int(c, 0, (long)ns - 1)] : w < 8 ? 'q' : ws[vh_int(c, 0, 5)];
  }
  if ((pad & 2) && n > 0) buf[n - 1] = ws[vh_int(c, 0, 5)];
  buf[n] = 0;
  return n;
}
/* Trim by its definition: leading and trailing white space removed, the rest untouched */
static void model_trim(const char *in, char *out)
{
  size_t a = 0, b = strlen(in);
  while (a < b && isspace((unsigned char)in[a])) a++;
  while (b > a && isspace((unsigned char)in[b - 1])) b--;
  memcpy(out, in + a, b - a); out[b - a] = 0;
}
/* SplitString by its definition: the trimmed text cut at every character of sep, empty pieces dropped; returns the token count */
static size_t model_split(const char *in, const char *sep, char tok[][SVLEN], size_t maxtok)
{
  char t[80]; size_t n = 0, i, len = 0;
  model_trim(in, t);
  for (i = 0; ; i++) {
    if (t[i] == 0 || strchr(sep, t[i])) { if (len && n < maxtok) { tok[n][len] = 0; n++; } len = 0; if (t[i] == 0) break; }
    else if (n < maxtok && len < 39) tok[n][len++] = t[i];
  }
  return n;
}
static char *heap_str(const char *s) { size_t n = strlen(s) + 1; char *p = malloc(n); memcpy(p, s, n); return p; }   /* exact allocation: the red zone starts right behind the terminator */

/* ------------------------------------------------------------------ operations per kind */
static void op_dvector(vh_ctx *c)
{
  size_t k = (size_t)vh_int(c, 0, POOL - 1), i;
  sh_dv *s = &SDV[k];
  if (!s->live) {
    if (vh_coin(c, 0.5)) { size_t n = (size_t)vh_int(c, 0, 6); OP("D%zu=New(%zu)", k, n); NewDVector(&DV[k], n); s->n = n; for (i = 0; i < n; i++) s->v[i] = 0; }
    else { OP("D%zu=init", k); initDVector(&DV[k]); s->n = 0; }
    s->live = 1; OBSOP("dvector_create"); return;
  }
  switch (vh_int(c, 0, 14)) {
    case 0: { size_t n = (size_t)vh_int(c, 0, 8); OP("D%zu.resize(%zu)", k, n); DVectorResize(DV[k], n); s->n = n; for (i = 0; i < n; i++) s->v[i] = 0; OBSOP("dvector_resize"); break; }
    case 1: case 2: if (s->n < MAXN - 8) { double v = fresh(); OP("D%zu.append", k); DVectorAppend(DV[k], v); s->v[s->n++] = v; OBSOP("dvector_append"); } break;
    case 3: if (s->n > 0) { size_t ix = (size_t)vh_int(c, 0, (long)s->n - 1); OP("D%zu.removeAt(%zu/%zu)", k, ix, s->n); DVectorRemoveAt(DV[k], ix); memmove(&s->v[ix], &s->v[ix + 1], (s->n - ix - 1) * sizeof(double)); s->n--; OBSOP("dvector_remove"); } break;
    case 4: { size_t d = (size_t)vh_int(c, 0, POOL - 1); if (d != k && SDV[d].live) { const char *rel = SDV[d].n == 0 ? "empty-dst" : SDV[d].n == s->n ? "same-size-dst" : "different-size-dst";
              OP("D%zu.copyTo(D%zu,%s,src=%zu)", k, d, rel, s->n); DVectorCopy(DV[k], DV[d]); SDV[d].n = s->n; memcpy(SDV[d].v, s->v, sizeof(double) * s->n);
              if (s->n) { double v = fresh(); DV[d]->data[0] = v; SDV[d].v[0] = v; }      /* mutate the copy: the source must not change */
              vh_obs(SDV[d].n == 0 ? "op_dvector_copy_empty_src" : "op_dvector_copy", 1); } break; }
    case 5: { size_t a = (size_t)vh_int(c, 0, POOL - 1), d = (size_t)vh_int(c, 0, POOL - 1); if (SDV[a].live && d != k && d != a && s->n + SDV[a].n < MAXN) {
              dvector *e; OP("D%zu=extend(D%zu,D%zu)", d, k, a); e = DVectorExtend(DV[k], DV[a]); if (SDV[d].live) DelDVector(&DV[d]); DV[d] = e; SDV[d].live = 1; SDV[d].n = s->n + SDV[a].n;
              memcpy(SDV[d].v, s->v, sizeof(double) * s->n); memcpy(SDV[d].v + s->n, SDV[a].v, sizeof(double) * SDV[a].n); OBSOP("dvector_extend"); } break; }
    case 6: if (s->n > 0) { size_t ix = (size_t)vh_int(c, 0, (long)s->n - 1); double v = fresh(); OP("D%zu.set(%zu)", k, ix); setDVectorValue(DV[k], ix, v); s->v[ix] = v; if (getDVectorValue(DV[k], ix) != v) { vh_fail(c, "dvector|get-after-set", "get returned another value"); g_bad = 1; } OBSOP("dvector_setget"); } break;
    case 7: { OP("D%zu.set(OOR %zu)", k, s->n + (size_t)vh_int(c, 0, 2)); g_oor_kind = 0; g_oor_slot = k; g_oor_i = s->n + (size_t)vh_int(c, 0, 2); run_oor(); break; }
    case 8: { OP("D%zu.get(OOR)", k); g_oor_kind = 1; g_oor_slot = k; g_oor_i = s->n + (size_t)vh_int(c, 0, 2); run_oor(); break; }
    case 9: { OP("D%zu.removeAt(OOR)", k); g_oor_kind = 12; g_oor_slot = k; g_oor_i = s->n + (size_t)vh_int(c, 0, 2); run_oor(); break; }
    case 10: { double v = fresh(); OP("D%zu.setAll", k); DVectorSet(DV[k], v); for (i = 0; i < s->n; i++) s->v[i] = v; OBSOP("dvector_setall"); break; }
    case 11: { size_t a, b;
               /* near ties (second build session): distinct values closer than 1e-3, out of order - a sort must order them exactly */
               if (s->n >= 2 && vh_coin(c, 0.35)) { double base = fresh(); size_t pos[MAXN]; vh_perm(c, pos, s->n); for (a = 0; a < s->n; a++) { s->v[a] = base + 1e-4 * (double)pos[a] / (double)s->n; DV[k]->data[a] = s->v[a]; } OBSOP("dvector_sort_near_ties"); }
               OP("D%zu.sort", k); DVectorSort(DV[k]); for (a = 0; a < s->n; a++) for (b = a + 1; b < s->n; b++) if (s->v[b] < s->v[a]) { double t = s->v[a]; s->v[a] = s->v[b]; s->v[b] = t; } OBSOP("dvector_sort"); break; }
    case 12: { int r; OP("D%zu.hasValue(n=%zu)", k, s->n);      /* documented: 0 = present, 1 = absent; the comparison has a tolerance of 1e-3 */
              if (s->n) { size_t ix = (size_t)vh_int(c, 0, (long)s->n - 1); r = DVectorHasValue(DV[k], s->v[ix]); if (r != 0) { vh_fail(c, "DVectorHasValue|present-value-reported-absent", "element %zu = %.17g of a vector of %zu: returned %d", ix, s->v[ix], s->n, r); g_bad = 1; } }
              { double x = (s->n ? s->v[vh_int(c, 0, (long)s->n - 1)] : 0.0) + 0.5; int nearv = 0; for (i = 0; i < s->n; i++) if (fabs(s->v[i] - x) <= 2e-3) nearv = 1;
                r = DVectorHasValue(DV[k], x); if (!nearv && r != 1) { vh_fail(c, "DVectorHasValue|absent-value-reported-present", "%.17g is no element of the vector of %zu: returned %d", x, s->n, r); g_bad = 1; } }
              OBSOP("dvector_search"); FN("DVectorHasValue"); break; }
    case 13: { int q; OP("D%zu.print(n=%zu)", k, s->n); q = quiet_begin(-1); PrintDVector(DV[k]); quiet_end(q); OBSOP("dvector_print"); FN("PrintDVector"); break; }
    default: { OP("D%zu.del", k); DelDVector(&DV[k]); s->live = 0; OBSOP("dvector_delete"); break; }
  }
}

static void op_uivector(vh_ctx *c)
{
  size_t k = (size_t)vh_int(c, 0, POOL - 1), i;
  sh_uv *s = &SUV[k];
  if (!s->live) {
    if (vh_coin(c, 0.5)) { size_t n = (size_t)vh_int(c, 0, 6); OP("U%zu=New(%zu)", k, n); NewUIVector(&UV[k], n); s->n = n; for (i = 0; i < n; i++) s->v[i] = 0; }
    else { OP("U%zu=init", k); initUIVector(&UV[k]); s->n = 0; }
    s->live = 1; OBSOP("uivector_create"); return;
  }
  switch (vh_int(c, 0, 14)) {
    case 0: { size_t n = (size_t)vh_int(c, 0, 8); OP("U%zu.resize(%zu)", k, n); UIVectorResize(UV[k], n); s->n = n; for (i = 0; i < n; i++) s->v[i] = 0; OBSOP("uivector_resize"); break; }
    case 1: case 2: if (s->n < MAXN - 8) { size_t v = vh_coin(c, 0.15) ? ((size_t)1 << 33) + (size_t)vh_int(c, 0, 1000) : (size_t)vh_int(c, 0, 100000); OP("U%zu.append(%zu)", k, v); UIVectorAppend(UV[k], v); s->v[s->n++] = v; OBSOP("uivector_append"); } break;
    case 3: if (s->n > 0) { size_t ix = (size_t)vh_int(c, 0, (long)s->n - 1); OP("U%zu.removeAt(%zu/%zu)", k, ix, s->n); UIVectorRemoveAt(UV[k], ix); memmove(&s->v[ix], &s->v[ix + 1], (s->n - ix - 1) * sizeof(size_t)); s->n--; OBSOP("uivector_remove"); } break;
    case 4: { size_t a = (size_t)vh_int(c, 0, POOL - 1), d = (size_t)vh_int(c, 0, POOL - 1); if (SUV[a].live && d != k && d != a && s->n + SUV[a].n < MAXN) {
              uivector *e; OP("U%zu=extend(U%zu,U%zu)", d, k, a); e = UIVectorExtend(UV[k], UV[a]); if (SUV[d].live) DelUIVector(&UV[d]); UV[d] = e; SUV[d].live = 1; SUV[d].n = s->n + SUV[a].n;
              memcpy(SUV[d].v, s->v, sizeof(size_t) * s->n); memcpy(SUV[d].v + s->n, SUV[a].v, sizeof(size_t) * SUV[a].n); OBSOP("uivector_extend"); } break; }
    case 5: if (s->n > 0) { size_t ix = (size_t)vh_int(c, 0, (long)s->n - 1), v = (size_t)vh_int(c, 0, 100000); OP("U%zu.set(%zu)", k, ix); setUIVectorValue(UV[k], ix, v); s->v[ix] = v; if (getUIVectorValue(UV[k], ix) != v) { vh_fail(c, "uivector|get-after-set", "get returned another value"); g_bad = 1; } OBSOP("uivector_setget"); } break;
    case 6: { OP("U%zu.set(OOR)", k); g_oor_kind = 2; g_oor_slot = k; g_oor_i = s->n + (size_t)vh_int(c, 0, 2); run_oor(); break; }
    case 7: { OP("U%zu.get(OOR)", k); g_oor_kind = 3; g_oor_slot = k; g_oor_i = s->n + (size_t)vh_int(c, 0, 2); run_oor(); break; }
    case 8: { OP("U%zu.removeAt(OOR)", k); g_oor_kind = 13; g_oor_slot = k; g_oor_i = s->n + (size_t)vh_int(c, 0, 2); run_oor(); break; }
    case 9: { size_t a, b; OP("U%zu.sort", k); SortUIVector(UV[k]); for (a = 0; a < s->n; a++) for (b = a + 1; b < s->n; b++) if (s->v[b] < s->v[a]) { size_t t = s->v[a]; s->v[a] = s->v[b]; s->v[b] = t; } OBSOP("uivector_sort"); break; }
    case 10: if (s->n > 0) { size_t ix = (size_t)vh_int(c, 0, (long)s->n - 1), first = 0; int r; OP("U%zu.indexOf", k); r = UIVectorIndexOf(UV[k], s->v[ix]); while (s->v[first] != s->v[ix]) first++;
              if (r != (int)first || UIVectorHasValue(UV[k], s->v[ix]) != 0 || UIVectorHasValue(UV[k], 99999999999ULL) != 1) { vh_fail(c, "uivector|search", "IndexOf/HasValue wrong: got %d expected %zu", r, first); g_bad = 1; } OBSOP("uivector_search"); } break;
    case 11: { size_t v = vh_coin(c, 0.15) ? ((size_t)1 << 33) + (size_t)vh_int(c, 0, 1000) : (size_t)vh_int(c, 0, 100000); OP("U%zu.setAll(%zu)", k, v); UIVectorSet(UV[k], v); for (i = 0; i < s->n; i++) s->v[i] = v; OBSOP("uivector_setall"); FN("UIVectorSet"); break; }
    case 12: { size_t x = (s->n && vh_coin(c, 0.5)) ? s->v[vh_int(c, 0, (long)s->n - 1)] : (size_t)vh_int(c, 0, 100000), first = s->n; int r, h;     /* any value: IndexOf = first position or -1, HasValue = 0 present / 1 absent */
              OP("U%zu.search(%zu, n=%zu)", k, x, s->n); for (i = s->n; i-- > 0; ) if (s->v[i] == x) first = i;
              r = UIVectorIndexOf(UV[k], x); h = UIVectorHasValue(UV[k], x);
              if (r != (first < s->n ? (int)first : -1)) { vh_fail(c, "UIVectorIndexOf|wrong-index", "value %zu in a vector of %zu: returned %d, first position %s%zu", x, s->n, r, first < s->n ? "" : "none/", first); g_bad = 1; }
              if (h != (first < s->n ? 0 : 1)) { vh_fail(c, "UIVectorHasValue|wrong-answer", "value %zu in a vector of %zu (%s): returned %d", x, s->n, first < s->n ? "present" : "absent", h); g_bad = 1; }
              OBSOP("uivector_search_any"); FN("UIVectorHasValue"); FN("UIVectorIndexOf"); break; }
    case 13: { int q; OP("U%zu.print(n=%zu)", k, s->n); q = quiet_begin(-1); PrintUIVector(UV[k]); quiet_end(q); OBSOP("uivector_print"); FN("PrintUIVector"); break; }
    default: { OP("U%zu.del", k); DelUIVector(&UV[k]); s->live = 0; OBSOP("uivector_delete"); break; }
  }
}

static void op_ivector(vh_ctx *c)
{
  size_t k = (size_t)vh_int(c, 0, POOL - 1), i;
  sh_iv *s = &SIV[k];
  if (!s->live) {
    if (vh_coin(c, 0.5)) { size_t n = (size_t)vh_int(c, 0, 6); OP("I%zu=New(%zu)", k, n); NewIVector(&IV[k], n); s->n = n; for (i = 0; i < n; i++) s->v[i] = 0; }
    else { OP("I%zu=init", k); initIVector(&IV[k]); s->n = 0; }
    s->live = 1; OBSOP("ivector_create"); return;
  }
  switch (vh_int(c, 0, 11)) {
    case 0: case 1: if (s->n < MAXN - 8) { int v = (int)vh_int(c, -100000, 100000); OP("I%zu.append(%d)", k, v); IVectorAppend(IV[k], v); s->v[s->n++] = v; OBSOP("ivector_append"); } break;
    case 2: if (s->n > 0) { size_t ix = (size_t)vh_int(c, 0, (long)s->n - 1); OP("I%zu.removeAt(%zu/%zu)", k, ix, s->n); IVectorRemoveAt(IV[k], ix); memmove(&s->v[ix], &s->v[ix + 1], (s->n - ix - 1) * sizeof(int)); s->n--; OBSOP("ivector_remove"); } break;
    case 3: { size_t a = (size_t)vh_int(c, 0, POOL - 1), d = (size_t)vh_int(c, 0, POOL - 1); if (SIV[a].live && d != k && d != a && s->n + SIV[a].n < MAXN) {
              ivector *e; OP("I%zu=extend(I%zu,I%zu)", d, k, a); e = IVectorExtend(IV[k], IV[a]); if (SIV[d].live) DelIVector(&IV[d]); IV[d] = e; SIV[d].live = 1; SIV[d].n = s->n + SIV[a].n;
              memcpy(SIV[d].v, s->v, sizeof(int) * s->n); memcpy(SIV[d].v + s->n, SIV[a].v, sizeof(int) * SIV[a].n); OBSOP("ivector_extend"); } break; }
    case 4: if (s->n > 0) { size_t ix = (size_t)vh_int(c, 0, (long)s->n - 1); int v = (int)vh_int(c, -1000, 1000); OP("I%zu.set(%zu)", k, ix); setIVectorValue(IV[k], ix, v); s->v[ix] = v; if (getIVectorValue(IV[k], ix) != v) { vh_fail(c, "ivector|get-after-set", "get returned another value"); g_bad = 1; } OBSOP("ivector_setget"); } break;
    case 5: { OP("I%zu.set(OOR)", k); g_oor_kind = 4; g_oor_slot = k; g_oor_i = s->n + (size_t)vh_int(c, 0, 2); run_oor(); break; }
    case 6: { OP("I%zu.get(OOR)", k); g_oor_kind = 5; g_oor_slot = k; g_oor_i = s->n + (size_t)vh_int(c, 0, 2); run_oor(); break; }
    case 7: { OP("I%zu.removeAt(OOR)", k); g_oor_kind = 14; g_oor_slot = k; g_oor_i = s->n + (size_t)vh_int(c, 0, 2); run_oor(); break; }
    case 8: { int v = (int)vh_int(c, -9, 9); OP("I%zu.setAll", k); IVectorSet(IV[k], v); for (i = 0; i < s->n; i++) s->v[i] = v; if (s->n && (IVectorHasValue(IV[k], v) != 0 || IVectorHasValue(IV[k], v + 1) != 1)) { vh_fail(c, "ivector|search", "HasValue wrong"); g_bad = 1; } OBSOP("ivector_setall"); break; }
    case 9: { int x = (s->n && vh_coin(c, 0.5)) ? s->v[vh_int(c, 0, (long)s->n - 1)] : (int)vh_int(c, -100000, 100000), present = 0, h;
              OP("I%zu.hasValue(%d, n=%zu)", k, x, s->n); for (i = 0; i < s->n; i++) if (s->v[i] == x) present = 1;
              h = IVectorHasValue(IV[k], x); if (h != (present ? 0 : 1)) { vh_fail(c, "IVectorHasValue|wrong-answer", "value %d in a vector of %zu (%s): returned %d", x, s->n, present ? "present" : "absent", h); g_bad = 1; }
              OBSOP("ivector_search_any"); FN("IVectorHasValue"); break; }
    case 10: { int q; OP("I%zu.print(n=%zu)", k, s->n); q = quiet_begin(-1); PrintIVector(IV[k]); quiet_end(q); OBSOP("ivector_print"); FN("PrintIVector"); break; }
    default: { OP("I%zu.del", k); DelIVector(&IV[k]); s->live = 0; OBSOP("ivector_delete"); break; }
  }
}

static void op_strvector(vh_ctx *c)
{
  size_t k = (size_t)vh_int(c, 0, POOL - 1), i;
  sh_sv *s = &SSV[k];
  char buf[SVLEN];
  if (!s->live) {
    if (vh_coin(c, 0.5)) { size_t n = (size_t)vh_int(c, 0, 4); OP("S%zu=New(%zu)", k, n); NewStrVector(&SV[k], n); s->n = n; for (i = 0; i < n; i++) s->v[i][0] = 0; }
    else { OP("S%zu=init", k); initStrVector(&SV[k]); s->n = 0; }
    s->live = 1; OBSOP("strvector_create"); return;
  }
  switch (vh_int(c, 0, 12)) {
    case 0: { size_t n = (size_t)vh_int(c, 0, 5); OP("S%zu.resize(%zu)", k, n); StrVectorResize(SV[k], n); s->n = n; for (i = 0; i < n; i++) s->v[i][0] = 0; OBSOP("strvector_resize"); break; }
    case 1: case 2: if (s->n < 20) { snprintf(buf, sizeof buf, "str-%.0f-%s", fresh(), vh_coin(c, 0.3) ? "a longer payload xx" : "x"); OP("S%zu.append", k); StrVectorAppend(SV[k], buf); strcpy(s->v[s->n++], buf); OBSOP("strvector_append"); } break;
    case 3: if (s->n < 20) { int v = (int)vh_int(c, -99999, 99999); if (vh_coin(c, 0.1)) v = vh_coin(c, 0.5) ? 2147483647 : (-2147483647 - 1); OP("S%zu.appendInt", k); StrVectorAppendInt(SV[k], v); snprintf(s->v[s->n++], SVLEN, "%d", v); OBSOP("strvector_append_int"); } break;
    case 4: if (s->n < 20) { double v = (double)vh_int(c, -999, 999) / 8.0;
              /* any double is a valid argument: a fifth of the appends uses huge or tiny magnitudes ("%f" then prints up to 317 characters) and extreme ints */
              if (vh_coin(c, 0.2)) { v = (vh_coin(c, 0.5) ? 1.0 : -1.0) * pow(10.0, vh_range(c, -30.0, 308.0)) * vh_range(c, 1.0, 9.9); OBSOP("strvector_append_double_extreme"); }
              OP("S%zu.appendDouble", k); StrVectorAppendDouble(SV[k], v); snprintf(s->v[s->n++], SVLEN, "%f", v); OBSOP("strvector_append_double"); } break;
    case 5: if (s->n > 0) { size_t ix = (size_t)vh_int(c, 0, (long)s->n - 1); snprintf(buf, sizeof buf, "set-%.0f", fresh()); OP("S%zu.setStr(%zu)", k, ix); setStr(SV[k], ix, buf); strcpy(s->v[ix], buf); if (strcmp(getStr(SV[k], ix), buf)) { vh_fail(c, "strvector|get-after-set", "getStr differs"); g_bad = 1; } OBSOP("strvector_setget"); } break;
    case 6: { size_t a = (size_t)vh_int(c, 0, POOL - 1), d = (size_t)vh_int(c, 0, POOL - 1); if (SSV[a].live && d != k && d != a && s->n + SSV[a].n < 20) {
              strvector *e; OP("S%zu=extend(S%zu,S%zu)", d, k, a); e = StrVectorExtend(SV[k], SV[a]); if (SSV[d].live) DelStrVector(&SV[d]); SV[d] = e; SSV[d].live = 1; SSV[d].n = s->n + SSV[a].n;
              { for (i = 0; i < s->n; i++) strcpy(SSV[d].v[i], s->v[i]); } { for (i = 0; i < SSV[a].n; i++) strcpy(SSV[d].v[s->n + i], SSV[a].v[i]); }
              if (SSV[d].n) { snprintf(buf, sizeof buf, "mut-%.0f", fresh()); setStr(SV[d], 0, buf); strcpy(SSV[d].v[0], buf); }    /* mutate the result: operands must not change */
              OBSOP("strvector_extend"); } break; }
    case 7: { strvector *tok; OP("S%zu.split", k); initStrVector(&tok); SplitString("  alpha;beta;;gamma ", ";", tok);
              if (tok->size != 3 || strcmp(tok->data[0], "alpha") || strcmp(tok->data[2], "gamma")) { vh_fail(c, "strvector|split", "SplitString gave %zu tokens", tok->size); g_bad = 1; } DelStrVector(&tok); OBSOP("strvector_split"); break; }
    case 8: if (s->n <= 20) {     /* SplitString appends the tokens of a generated text to a live vector of the pool (empty or not) */
              static const char *seps[] = { "", ";", ",;", " ", ";\t|", ":" };
              const char *sep = seps[vh_int(c, 0, 5)]; char text[48], tok[24][SVLEN], *ht, *hs; size_t nt, t;
              gen_text(c, text, 39, sep); nt = model_split(text, sep, tok, 24);
              OP("S%zu.split(len=%zu,nsep=%zu,tokens=%zu,into n=%zu)", k, strlen(text), strlen(sep), nt, s->n);
              ht = heap_str(text); hs = heap_str(sep); SplitString(ht, hs, SV[k]);
              if (strcmp(ht, text) || strcmp(hs, sep)) { vh_fail(c, "SplitString|operand-modified", "the text or the separator set was changed by the call"); g_bad = 1; }
              free(ht); free(hs);
              for (t = 0; t < nt; t++) strcpy(s->v[s->n++], tok[t]);
              vh_obs(nt == 0 ? "op_strvector_split_generated_no_token" : nt == 1 ? "op_strvector_split_generated_one_token" : "op_strvector_split_generated_many_tokens", 1); FN("SplitString"); FN("Trim"); } break;
    case 9: { char text[48], want[48], *r;   /* Trim works in place: on an element of the vector (exact allocation of setStr), else on a heap copy; NULL and "" are documented inputs */
              gen_text(c, text, 30, ";");  model_trim(text, want);
              if (s->n > 0) { size_t ix = (size_t)vh_int(c, 0, (long)s->n - 1); OP("S%zu.trimAt(%zu,len=%zu->%zu)", k, ix, strlen(text), strlen(want)); setStr(SV[k], ix, text); r = Trim(getStr(SV[k], ix));
                if (r != SV[k]->data[ix]) { vh_fail(c, "Trim|returns-another-pointer", "Trim did not return its argument"); g_bad = 1; } strcpy(s->v[ix], want); }
              else { char *h = heap_str(text); OP("S%zu.trim(len=%zu->%zu)", k, strlen(text), strlen(want)); r = Trim(h);
                if (r != h) { vh_fail(c, "Trim|returns-another-pointer", "Trim did not return its argument"); g_bad = 1; }
                else if (strcmp(h, want)) { vh_fail(c, "Trim|wrong-result", "a text of %zu characters was trimmed to '%.40s', definition '%s'", strlen(text), h, want); g_bad = 1; }
                free(h); }
              if (Trim(NULL) != NULL) { vh_fail(c, "Trim|null-not-returned", "Trim(NULL) is not NULL"); g_bad = 1; }
              { char *e = heap_str(""); if (Trim(e) != e || e[0] != 0) { vh_fail(c, "Trim|empty-string-changed", "Trim(\"\") did not return the empty string"); g_bad = 1; } free(e); }
              OBSOP("strvector_trim"); vh_hist("trim_removed_chars", (long)(strlen(text) - strlen(want))); FN("Trim"); break; }
    case 10: { int q; OP("S%zu.print(n=%zu)", k, s->n); q = quiet_begin(-1); PrintStrVector(SV[k]); quiet_end(q); OBSOP("strvector_print"); FN("PrintStrVector"); break; }
    case 11: { int set = vh_coin(c, 0.5); OP("S%zu.%sStr(OOR,n=%zu)", k, set ? "set" : "get", s->n); g_oor_kind = set ? 16 : 15; g_oor_slot = k; g_oor_k = g_oor_j = 0; g_oor_i = s->n + (size_t)vh_int(c, 0, 2); g_oor_soft = 1; run_oor(); break; }
    default: { OP("S%zu.del", k); DelStrVector(&SV[k]); s->live = 0; OBSOP("strvector_delete"); break; }
  }
}

static void sh_mx_zero(sh_mx *s, size_t r, size_t c_) { size_t i, j; s->r = r; s->c = c_; for (i = 0; i < r; i++) for (j = 0; j < c_; j++) s->v[i][j] = 0; }

static void op_matrix(vh_ctx *c)
{
  size_t k = (size_t)vh_int(c, 0, POOL - 1), i, j;
  sh_mx *s = &SMX[k];
  const char *rel;
  if (!s->live) {
    if (vh_coin(c, 0.6)) { size_t r = (size_t)vh_int(c, 0, 5), cc = (size_t)vh_int(c, 0, 5); OP("M%zu=New(%zu,%zu)", k, r, cc); NewMatrix(&MX[k], r, cc); sh_mx_zero(s, r, cc); }
    else { OP("M%zu=init", k); initMatrix(&MX[k]); s->r = s->c = 0; }
    s->live = 1; OBSOP("matrix_create"); return;
  }
  switch (vh_int(c, 0, 26)) {
    case 0: { size_t r = (size_t)vh_int(c, 0, 6), cc = (size_t)vh_int(c, 0, 6); OP("M%zu.resize(%zu,%zu from %zux%zu)", k, r, cc, s->r, s->c); ResizeMatrix(MX[k], r, cc); sh_mx_zero(s, r, cc); OBSOP("matrix_resize"); break; }
    case 1: case 2: if (s->r < 20) { double vals[MAXN]; size_t n = rnd_len(c, s->c, &rel); dvector *v;
              if (n > 30) n = 30;
              v = mk_dv(n, vals); OP("M%zu.appendRow(len=%zu %s, shape %zux%zu)", k, n, rel, s->r, s->c); MatrixAppendRow(MX[k], v); DelDVector(&v);
              { size_t nc = s->c == 0 ? n : (n > s->c ? n : s->c); for (i = 0; i < s->r; i++) for (j = s->c; j < nc; j++) s->v[i][j] = 0; for (j = 0; j < nc; j++) s->v[s->r][j] = j < n ? vals[j] : 0; s->c = nc; s->r++; }
              { char nm[48]; snprintf(nm, sizeof nm, "op_matrix_append_row_%s", rel); vh_obs(nm, 1); } } break;
    case 3: case 4: if (s->c < 20) { double vals[MAXN]; size_t n = rnd_len(c, s->r, &rel); dvector *v;
              if (n > 30) n = 30;
              v = mk_dv(n, vals); OP("M%zu.appendCol(len=%zu %s, shape %zux%zu)", k, n, rel, s->r, s->c); MatrixAppendCol(MX[k], v); DelDVector(&v);
              { size_t nr = s->r == 0 ? n : (n > s->r ? n : s->r); for (i = s->r; i < nr; i++) for (j = 0; j < s->c; j++) s->v[i][j] = 0; for (i = 0; i < nr; i++) s->v[i][s->c] = i < n ? vals[i] : 0; s->r = nr; s->c++; }
              { char nm[48]; snprintf(nm, sizeof nm, "op_matrix_append_col_%s", rel); vh_obs(nm, 1); } } break;
    case 5: if (s->r < 20) { size_t n = rnd_len(c, s->c, &rel), vals[MAXN]; uivector *v; if (n > 30) n = 30; NewUIVector(&v, n); for (j = 0; j < n; j++) { vals[j] = (size_t)fresh(); v->data[j] = vals[j]; }
              OP("M%zu.appendUIRow(len=%zu %s, shape %zux%zu)", k, n, rel, s->r, s->c); MatrixAppendUIRow(MX[k], v); DelUIVector(&v);
              { size_t nc = s->c == 0 ? n : (n > s->c ? n : s->c); for (i = 0; i < s->r; i++) for (j = s->c; j < nc; j++) s->v[i][j] = 0; for (j = 0; j < nc; j++) s->v[s->r][j] = j < n ? (double)vals[j] : 0; s->c = nc; s->r++; }
              { char nm[48]; snprintf(nm, sizeof nm, "op_matrix_append_uirow_%s", rel); vh_obs(nm, 1); } } break;
    case 6: if (s->c < 20) { size_t n = rnd_len(c, s->r, &rel), vals[MAXN]; uivector *v; if (n > 30) n = 30; NewUIVector(&v, n); for (j = 0; j < n; j++) { vals[j] = (size_t)fresh(); v->data[j] = vals[j]; }
              OP("M%zu.appendUICol(len=%zu %s, shape %zux%zu)", k, n, rel, s->r, s->c); MatrixAppendUICol(MX[k], v); DelUIVector(&v);
              { size_t nr = s->r == 0 ? n : (n > s->r ? n : s->r); for (i = s->r; i < nr; i++) for (j = 0; j < s->c; j++) s->v[i][j] = 0; for (i = 0; i < nr; i++) s->v[i][s->c] = i < n ? (double)vals[i] : 0; s->r = nr; s->c++; }
              { char nm[48]; snprintf(nm, sizeof nm, "op_matrix_append_uicol_%s", rel); vh_obs(nm, 1); } } break;
    case 7: if (s->r > 0) { size_t ix = (size_t)vh_int(c, 0, (long)s->r - 1); OP("M%zu.deleteRow(%zu of %zux%zu)", k, ix, s->r, s->c); MatrixDeleteRowAt(MX[k], ix); for (i = ix; i + 1 < s->r; i++) memcpy(s->v[i], s->v[i + 1], sizeof(double) * MAXN); s->r--; OBSOP("matrix_delete_row"); } break;
    case 8: if (s->c > 0 ) { size_t ix = (size_t)vh_int(c, 0, (long)s->c - 1); OP("M%zu.deleteCol(%zu of %zux%zu)", k, ix, s->r, s->c); MatrixDeleteColAt(MX[k], ix); for (i = 0; i < s->r; i++) for (j = ix; j + 1 < s->c; j++) s->v[i][j] = s->v[i][j + 1]; s->c--; OBSOP("matrix_delete_col"); } break;
    case 9: case 10: if (s->r > 0 && s->c > 0) { size_t a = (size_t)vh_int(c, 0, (long)s->r - 1), b = (size_t)vh_int(c, 0, (long)s->c - 1); double v = fresh(); OP("M%zu.set(%zu,%zu)", k, a, b); setMatrixValue(MX[k], a, b, v); s->v[a][b] = v; if (getMatrixValue(MX[k], a, b) != v) { vh_fail(c, "matrix|get-after-set", "get returned another value"); g_bad = 1; } OBSOP("matrix_setget"); } break;
    case 11: { int rowbad = vh_coin(c, 0.5); OP("M%zu.set(OOR)", k); g_oor_kind = 6; g_oor_slot = k; g_oor_i = rowbad ? s->r + (size_t)vh_int(c, 0, 2) : (s->r ? s->r - 1 : 0); g_oor_j = rowbad ? (size_t)vh_int(c, 0, 3) : s->c + (size_t)vh_int(c, 0, 2); run_oor(); break; }
    case 12: { int rowbad = vh_coin(c, 0.5); OP("M%zu.get(OOR)", k); g_oor_kind = 7; g_oor_slot = k; g_oor_i = rowbad ? s->r + (size_t)vh_int(c, 0, 2) : (s->r ? s->r - 1 : 0); g_oor_j = rowbad ? (size_t)vh_int(c, 0, 3) : s->c + (size_t)vh_int(c, 0, 2); run_oor(); break; }
    case 13: { OP("M%zu.getRow/Col(OOR)", k); g_oor_kind = vh_coin(c, 0.5) ? 8 : 9; g_oor_slot = k; g_oor_i = s->r + (size_t)vh_int(c, 0, 2); g_oor_j = s->c + (size_t)vh_int(c, 0, 2); run_oor(); break; }
    case 14: if (s->r > 0 && s->c > 0) { size_t a = (size_t)vh_int(c, 0, (long)s->r - 1), b = (size_t)vh_int(c, 0, (long)s->c - 1); dvector *rw, *cl; OP("M%zu.getRow(%zu)/getCol(%zu)", k, a, b); rw = getMatrixRow(MX[k], a); cl = getMatrixColumn(MX[k], b);
              if (!rw || !cl || rw->size != s->c || cl->size != s->r) { vh_fail(c, "matrix|getRowCol-shape", "row/column vector has the wrong size"); g_bad = 1; }
              else { for (j = 0; j < s->c; j++) if (rw->data[j] != s->v[a][j]) { vh_fail(c, "matrix|getRow-value", "row copy differs"); g_bad = 1; break; } for (i = 0; i < s->r; i++) if (cl->data[i] != s->v[i][b]) { vh_fail(c, "matrix|getColumn-value", "column copy differs"); g_bad = 1; break; }
                     rw->data[0] = -1; cl->data[0] = -1; }     /* copies: mutating them must not reach the matrix */
              { if (rw) DelDVector(&rw); } { if (cl) DelDVector(&cl); } OBSOP("matrix_get_row_col"); } break;
    case 15: { size_t d = (size_t)vh_int(c, 0, POOL - 1); if (d != k && SMX[d].live) { rel = (SMX[d].r == 0 && SMX[d].c == 0 && MX[d]->data == NULL) ? "empty-dst" : (SMX[d].r == s->r && SMX[d].c == s->c) ? "same-shape-dst" : "different-shape-dst";
              OP("M%zu.copyTo(M%zu,%s,%zux%zu->%zux%zu)", k, d, rel, s->r, s->c, SMX[d].r, SMX[d].c); MatrixCopy(MX[k], &MX[d]); SMX[d].r = s->r; SMX[d].c = s->c; memcpy(SMX[d].v, s->v, sizeof s->v);
              if (s->r && s->c) { double v = fresh(); MX[d]->data[0][0] = v; SMX[d].v[0][0] = v; }
              { char nm[48]; snprintf(nm, sizeof nm, "op_matrix_copy_%s", rel); vh_obs(nm, 1); } } break; }
    case 16: { double v = fresh(); OP("M%zu.setAll", k); MatrixSet(MX[k], v); for (i = 0; i < s->r; i++) for (j = 0; j < s->c; j++) s->v[i][j] = v; OBSOP("matrix_setall"); break; }
    case 17: if (s->r > 0 && s->c > 0) { size_t col = (size_t)vh_int(c, 0, (long)s->c - 1), a, b; int rev = vh_coin(c, 0.5); long prep = vh_int(c, 0, 3);
              /* the key column as the history left it (often zeros or one row), or rewritten through setMatrixValue with distinct values / with values that tie */
              if (prep) for (a = 0; a < s->r; a++) { double v = prep == 3 ? (double)vh_int(c, 0, 2) : fresh(); setMatrixValue(MX[k], a, col, v); s->v[a][col] = v; }
              OP("M%zu.%ssort(col %zu of %zux%zu,%s)", k, rev ? "reverse" : "", col, s->r, s->c, prep == 0 ? "keys as found" : prep == 3 ? "tied keys written" : "distinct keys written"); if (rev) MatrixReverseSort(MX[k], col); else MatrixSort(MX[k], col);
              /* all keys are unique counters unless the column was set-all: order rows of the model by key (stable for ties is not promised: only judge when keys are distinct) */
              { int distinct = 1, moved = 0; for (a = 0; a < s->r; a++) for (b = a + 1; b < s->r; b++) if (s->v[a][col] == s->v[b][col]) distinct = 0;
                if (distinct) { for (a = 0; a < s->r; a++) for (b = a + 1; b < s->r; b++) if (rev ? s->v[b][col] > s->v[a][col] : s->v[b][col] < s->v[a][col]) { double t[MAXN]; memcpy(t, s->v[a], sizeof t); memcpy(s->v[a], s->v[b], sizeof t); memcpy(s->v[b], t, sizeof t); moved = 1; }
                                vh_obs(moved ? (rev ? "op_matrix_reverse_sort_rows_moved" : "op_matrix_sort_rows_moved") : "op_matrix_sort_already_ordered", 1); }
                else { unsigned char used[MAXN]; memset(used, 0, sizeof used);     /* ties: the order among equal keys is free, but the rows must still be the same rows */
                       for (a = 0; a < s->r && !g_bad; a++) { int found = 0; for (b = 0; b < s->r; b++) if (!used[b] && !memcmp(s->v[a], MX[k]->data[b], sizeof(double) * s->c)) { used[b] = 1; found = 1; break; }
                         if (!found) { vh_fail(c, "matrix|sort-rows-not-a-permutation", "row %zu of the %zux%zu matrix is no longer present after sorting by column %zu (tied keys)", a, s->r, s->c, col); g_bad = 1; } }
                       vh_obs("op_matrix_sort_tied_keys", 1);
                       for (a = 0; a < s->r; a++) for (b = 0; b < s->c; b++) s->v[a][b] = MX[k]->data[a][b];
                       for (a = 0; a + 1 < s->r; a++) if (rev ? s->v[a][col] < s->v[a + 1][col] : s->v[a][col] > s->v[a + 1][col]) { vh_fail(c, "matrix|sort-order", "rows not ordered by the key column"); g_bad = 1; } } }
              OBSOP("matrix_sort"); } break;
    case 18: if (s->r > 0 && s->c > 0) { OP("M%zu.valIn", k); if (ValInMatrix(MX[k], s->v[0][0]) != 1 || ValInMatrix(MX[k], -12345.5) != 0) { vh_fail(c, "matrix|ValInMatrix", "membership wrong"); g_bad = 1; } OBSOP("matrix_search"); } break;
    case 19: {  /* FindNan reports the NaN cells, MatrixCheck replaces NaN and +-Inf by the missing-value code; everything else stays */
              size_t nn = (s->r && s->c) ? (size_t)vh_int(c, 0, 3) : 0, t, pa[3], pb[3]; long pk[3]; int q, cfd; char cap[1024]; static unsigned char mark[MAXN][MAXN];
              for (t = 0; t < nn; t++) { pa[t] = (size_t)vh_int(c, 0, (long)s->r - 1); pb[t] = (size_t)vh_int(c, 0, (long)s->c - 1); pk[t] = vh_int(c, 0, 2); }
              OP("M%zu.findNan+check(%zux%zu,%zu non-finite cells)", k, s->r, s->c, nn);
              for (t = 0; t < nn; t++) { MX[k]->data[pa[t]][pb[t]] = pk[t] == 0 ? (double)NAN : pk[t] == 1 ? (double)INFINITY : -(double)INFINITY; mark[pa[t]][pb[t]] = (unsigned char)(1 + pk[t]); s->v[pa[t]][pb[t]] = (double)MISSING; }
              cfd = cap_fd(); q = quiet_begin(cfd); FindNan(MX[k]); quiet_end(q);
              if (cfd >= 0 && q >= 0) { char *ln = cap; size_t nrep = 0, nexp = 0; int okpos = 1; cap_read(cap, sizeof cap);
                for (i = 0; i < s->r; i++) for (j = 0; j < s->c; j++) if (mark[i][j] == 1) { int a = -1, b = -1; nexp++;
                  if (!ln || sscanf(ln, "%*[^0-9]%d %d", &a, &b) != 2 || a != (int)i || b != (int)j) okpos = 0; else nrep++;
                  if (ln) { ln = strchr(ln, '\n'); if (ln) ln++; } }
                if (ln && *ln) okpos = 0;      /* more lines than NaN cells */
                if (!okpos) { vh_fail(c, "FindNan|reported-positions-differ", "%zu NaN cells in the %zux%zu matrix, %zu reported in place; output '%.200s'", nexp, s->r, s->c, nrep, cap); g_bad = 1; }
                vh_obs("findnan_positions_compared", (double)nexp); }
              MatrixCheck(MX[k]);
              for (t = 0; t < nn; t++) { if (MX[k]->data[pa[t]][pb[t]] != (double)MISSING && !g_bad) { vh_fail(c, "MatrixCheck|non-finite-cell-not-replaced", "cell [%zu][%zu] held %s and is %.17g after MatrixCheck (missing-value code %d)", pa[t], pb[t], pk[t] == 0 ? "NaN" : "Inf", MX[k]->data[pa[t]][pb[t]], MISSING); g_bad = 1; } mark[pa[t]][pb[t]] = 0; }
              vh_obs(nn ? "op_matrix_check_with_nonfinite" : "op_matrix_check_all_finite", 1); FN("MatrixCheck"); FN("FindNan"); break; }
    case 20: { int q; OP("M%zu.print(%zux%zu)", k, s->r, s->c); q = quiet_begin(-1); PrintMatrix(MX[k]); quiet_end(q); OBSOP("matrix_print"); FN("PrintMatrix"); break; }
    case 21: { int low = (int)vh_int(c, -50, 50), high = low + (int)vh_int(c, 1, 100);    /* documented: random integers; shape unchanged, low <= value < high */
              g_clock = (time_t)(1700000000L + vh_int(c, 0, 1000000000L));
              OP("M%zu.initRandomInt(%d,%d on %zux%zu)", k, low, high, s->r, s->c); MatrixInitRandomInt(MX[k], low, high);
              if (MX[k]->row != s->r || MX[k]->col != s->c) { vh_fail(c, "MatrixInitRandomInt|shape-changed", "%zux%zu became %zux%zu", s->r, s->c, MX[k]->row, MX[k]->col); g_bad = 1; }
              else for (i = 0; i < s->r && !g_bad; i++) for (j = 0; j < s->c; j++) { double v = MX[k]->data[i][j];
                if (!(v >= low && v < high)) { vh_fail(c, "MatrixInitRandomInt|value-outside-low-high", "[%zu][%zu] = %.17g with low %d high %d", i, j, v, low, high); g_bad = 1; break; }
                if (v != floor(v)) { vh_fail(c, "MatrixInitRandomInt|value-not-integer", "[%zu][%zu] = %.17g", i, j, v); g_bad = 1; break; }
                vh_max("max_random_int_fraction_of_range", (v - low) / (double)(high - low)); s->v[i][j] = v; }
              OBSOP("matrix_init_random_int"); FN("MatrixInitRandomInt"); break; }
    case 22: { double low = vh_range(c, -100.0, 100.0), high = low + vh_range(c, 0.5, 200.0);
              g_clock = (time_t)(1700000000L + vh_int(c, 0, 1000000000L));
              OP("M%zu.initRandomFloat(%.3f,%.3f on %zux%zu)", k, low, high, s->r, s->c); MatrixInitRandomFloat(MX[k], low, high);
              if (MX[k]->row != s->r || MX[k]->col != s->c) { vh_fail(c, "MatrixInitRandomFloat|shape-changed", "%zux%zu became %zux%zu", s->r, s->c, MX[k]->row, MX[k]->col); g_bad = 1; }
              else for (i = 0; i < s->r && !g_bad; i++) for (j = 0; j < s->c; j++) { double v = MX[k]->data[i][j];
                if (!(v >= low && v < high)) { vh_fail(c, "MatrixInitRandomFloat|value-outside-low-high", "[%zu][%zu] = %.17g with low %.17g high %.17g", i, j, v, low, high); g_bad = 1; break; }
                vh_max("max_random_float_fraction_of_range", (v - low) / (high - low)); s->v[i][j] = v; }
              OBSOP("matrix_init_random_float"); FN("MatrixInitRandomFloat"); break; }
    case 23: { int content = 0, soft = 0;   /* documented: "Generate the identity matrix"; the code leaves a non-square matrix alone */
              for (i = 0; i < s->r; i++) for (j = 0; j < s->c; j++) if (i != j && s->v[i][j] != 0) content = 1;
              OP("M%zu.genIdentity(%zux%zu,%s)", k, s->r, s->c, content ? "off-diagonal content" : "off-diagonal zero"); GenIdentityMatrix(MX[k]);
              if (MX[k]->row != s->r || MX[k]->col != s->c) { vh_fail(c, "GenIdentityMatrix|shape-changed", "%zux%zu became %zux%zu", s->r, s->c, MX[k]->row, MX[k]->col); g_bad = 1; }
              else if (s->r != s->c) { for (i = 0; i < s->r && !g_bad; i++) for (j = 0; j < s->c; j++) if (MX[k]->data[i][j] != s->v[i][j]) { vh_fail(c, "GenIdentityMatrix|non-square-matrix-changed", "[%zu][%zu] of the %zux%zu matrix changed from %.17g to %.17g", i, j, s->r, s->c, s->v[i][j], MX[k]->data[i][j]); g_bad = 1; break; } }
              else { for (i = 0; i < s->r && !g_bad && !soft; i++) for (j = 0; j < s->c; j++) {
                  if (i == j && MX[k]->data[i][j] != 1.0) { vh_fail(c, "GenIdentityMatrix|diagonal-not-one", "[%zu][%zu] = %.17g in the %zux%zu matrix", i, j, MX[k]->data[i][j], s->r, s->c); g_bad = 1; break; }
                  if (i != j && MX[k]->data[i][j] != 0.0) { vh_fail(c, "GenIdentityMatrix|off-diagonal-not-zero|matrix-had-content", "[%zu][%zu] = %.17g after GenIdentityMatrix on a %zux%zu matrix that held %.17g there: the result is not the identity matrix", i, j, MX[k]->data[i][j], s->r, s->c, s->v[i][j]); soft = 1; break; } }
                /* the report above does not end the history: the model follows what the library left in the off-diagonal cells */
                for (i = 0; i < s->r; i++) for (j = 0; j < s->c; j++) s->v[i][j] = i == j ? 1.0 : (soft ? MX[k]->data[i][j] : 0.0); }
              vh_obs(s->r != s->c ? "op_matrix_identity_non_square" : content ? "op_matrix_identity_square_with_content" : "op_matrix_identity_square_zero_offdiagonal", 1); FN("GenIdentityMatrix"); break; }
    case 24: if (s->r > 0 && s->c > 0) {   /* documented: "find the maximum/minimum value in matrix and return the row and col indexes"; a pointer may be NULL.
                                            Older versions of the library compared with a tolerance of 1e-3: judged when distinct values are further apart */
              double vals[MAXN * MAXN], vmax, vmin; size_t nv = 0, rr = 777, cc = 777; int separated = 1, mx = vh_coin(c, 0.5), which = (int)vh_int(c, 0, 3), hit = 0, first_row_only = 1;
              size_t *prow = which == 1 ? NULL : &rr, *pcol = which == 2 ? NULL : &cc;
              for (i = 0; i < s->r; i++) for (j = 0; j < s->c; j++) vals[nv++] = s->v[i][j];
              qsort(vals, nv, sizeof(double), cmp_dbl); vmin = vals[0]; vmax = vals[nv - 1];
              for (i = 0; i + 1 < nv; i++) if (vals[i + 1] != vals[i] && vals[i + 1] - vals[i] <= 2e-3) separated = 0;
              OP("M%zu.arg%s(%zux%zu%s%s)", k, mx ? "max" : "min", s->r, s->c, prow ? "" : ",row=NULL", pcol ? "" : ",col=NULL");
              if (mx) MatrixGetMaxValueIndex(MX[k], prow, pcol); else MatrixGetMinValueIndex(MX[k], prow, pcol);
              if ((prow && rr >= s->r) || (pcol && cc >= s->c)) { vh_fail(c, mx ? "MatrixGetMaxValueIndex|index-out-of-range" : "MatrixGetMinValueIndex|index-out-of-range", "(%zu,%zu) for a %zux%zu matrix", rr, cc, s->r, s->c); g_bad = 1; }
              else if (separated) { double want = mx ? vmax : vmin;
                for (i = 0; i < s->r; i++) for (j = 0; j < s->c; j++) if (s->v[i][j] == want) { if ((!prow || i == rr) && (!pcol || j == cc)) hit = 1; if (i > 0) first_row_only = 0; }
                if (!hit) { char key[96]; snprintf(key, sizeof key, "%s|not-the-%s%s", mx ? "MatrixGetMaxValueIndex" : "MatrixGetMinValueIndex", mx ? "maximum" : "minimum", first_row_only ? "|extreme-value-in-first-row" : "");
                  char sr[24], sc[24]; if (prow) snprintf(sr, sizeof sr, "%zu", rr); else strcpy(sr, "NULL"); if (pcol) snprintf(sc, sizeof sc, "%zu", cc); else strcpy(sc, "NULL");
                  vh_fail(c, key, "%zux%zu matrix: returned (row,col) = (%s,%s), cell value %.17g, but the %s is %.17g%s", s->r, s->c, sr, sc, (prow && pcol) ? s->v[rr][cc] : (double)NAN, mx ? "maximum" : "minimum", want, first_row_only ? " (held only by cells of the first row)" : ""); }
                vh_obs("op_matrix_argextreme_judged", 1); }
              else vh_obs("op_matrix_argextreme_values_within_tolerance_not_judged", 1);
              if (mx) FN("MatrixGetMaxValueIndex"); else FN("MatrixGetMinValueIndex"); } break;
    case 25: if (s->r > 0 && s->c > 0) { size_t a = (size_t)vh_int(c, 0, (long)s->r - 1), b = (size_t)vh_int(c, 0, (long)s->c - 1); long w = vh_int(c, 0, 2); double v = w == 0 ? (double)NAN : w == 1 ? (double)INFINITY : -(double)INFINITY;
              /* setMatrixValue stores the missing-value code for NaN / Inf (its own rule; MatrixCheck does the same) */
              OP("M%zu.set(%zu,%zu,%s)", k, a, b, w == 0 ? "NaN" : "Inf"); setMatrixValue(MX[k], a, b, v); s->v[a][b] = (double)MISSING; OBSOP("matrix_set_nonfinite"); } break;
    default: { OP("M%zu.del", k); DelMatrix(&MX[k]); s->live = 0; OBSOP("matrix_delete"); break; }
  }
}

static void op_tensor(vh_ctx *c)
{
  size_t k = (size_t)vh_int(c, 0, POOL - 1), i, j, b;
  sh_tn *s = &STN[k];
  const char *rel;
  if (!s->live) {
    if (vh_coin(c, 0.5)) { OP("T%zu=init", k); initTensor(&TN[k]); s->order = 0; }
    else { size_t o = (size_t)vh_int(c, 1, 3), r = (size_t)vh_int(c, 1, 4); OP("T%zu=New(%zu)+NewTensorMatrix", k, o); NewTensor(&TN[k], o); s->order = o;
           for (b = 0; b < o; b++) { size_t cc = (size_t)vh_int(c, 1, 4); NewTensorMatrix(TN[k], b, r, cc); s->b[b].r = r; s->b[b].c = cc; for (i = 0; i < r; i++) for (j = 0; j < cc; j++) s->b[b].v[i][j] = 0; } }
    s->live = 1; OBSOP("tensor_create"); return;
  }
  switch (vh_int(c, 0, 16)) {
    case 0: if (s->order < MAXORD) { size_t r = s->order ? s->b[s->order - 1].r : (size_t)vh_int(c, 1, 4), cc = (size_t)vh_int(c, 1, 4); OP("T%zu.addMatrix(%zu,%zu)", k, r, cc); AddTensorMatrix(TN[k], r, cc); b = s->order++; s->b[b].r = r; s->b[b].c = cc; for (i = 0; i < r; i++) for (j = 0; j < cc; j++) s->b[b].v[i][j] = 0; OBSOP("tensor_add_matrix"); } break;
    case 1: if (s->order < MAXORD) { size_t r = s->order ? s->b[s->order - 1].r : (size_t)vh_int(c, 1, 4), cc = (size_t)vh_int(c, 1, 4); matrix *m; if (r > TDIM - 4) break; NewMatrix(&m, r, cc); b = s->order; s->b[b].r = r; s->b[b].c = cc;
              for (i = 0; i < r; i++) for (j = 0; j < cc; j++) { m->data[i][j] = fresh(); s->b[b].v[i][j] = m->data[i][j]; }
              OP("T%zu.appendMatrix(%zux%zu)", k, r, cc); TensorAppendMatrix(TN[k], m); s->order++; if (r && cc) m->data[0][0] = -7; DelMatrix(&m); OBSOP("tensor_append_matrix"); } break;
    case 2: if (s->order > 0) { b = (size_t)vh_int(c, 0, (long)s->order - 1); if (s->b[b].c < TDIM - 1) { double vals[MAXN]; size_t n = rnd_len(c, s->b[b].r, &rel); dvector *v; if (n > TDIM - 1) n = TDIM - 1; v = mk_dv(n, vals);
              OP("T%zu.appendColumn(block %zu,len=%zu %s, %zux%zu)", k, b, n, rel, s->b[b].r, s->b[b].c); TensorAppendColumn(TN[k], b, v); DelDVector(&v);
              { size_t nr = s->b[b].r == 0 ? n : (n > s->b[b].r ? n : s->b[b].r); for (i = s->b[b].r; i < nr; i++) for (j = 0; j < s->b[b].c; j++) s->b[b].v[i][j] = 0; for (i = 0; i < nr; i++) s->b[b].v[i][s->b[b].c] = i < n ? vals[i] : 0; s->b[b].r = nr; s->b[b].c++; }
              { char nm[48]; snprintf(nm, sizeof nm, "op_tensor_append_column_%s", rel); vh_obs(nm, 1); } } } break;
    case 3: if (s->order > 0) { b = (size_t)vh_int(c, 0, (long)s->order - 1); if (s->b[b].r < TDIM - 1) { double vals[MAXN]; size_t n = rnd_len(c, s->b[b].c, &rel); dvector *v; if (n > TDIM - 1) n = TDIM - 1; v = mk_dv(n, vals);
              OP("T%zu.appendRow(block %zu,len=%zu %s, %zux%zu)", k, b, n, rel, s->b[b].r, s->b[b].c);
              /* TensorAppendRow documents (error message) that the row must be as long as the block is wide: other lengths must
                 end in the library's own abort() - classified in a nested child - and the equal length must succeed */
              { pid_t pid; int st = 0, fdp[2]; char eb[2048]; ssize_t nn, tt = 0; fflush(g_c->out); if (pipe(fdp)) { DelDVector(&v); break; } pid = fork();
                if (pid == 0) { close(fdp[0]); dup2(fdp[1], 2); dup2(fdp[1], 1); TensorAppendRow(TN[k], b, v); _exit(0); }
                close(fdp[1]); while ((nn = read(fdp[0], eb + tt, sizeof eb - 1 - (size_t)tt)) > 0) { tt += nn; if ((size_t)tt >= sizeof eb - 1) break; } eb[tt] = 0; close(fdp[0]);
                waitpid(pid, &st, 0);
                if (strstr(eb, "Sanitizer") || strstr(eb, "runtime error")) { vh_fail(c, "TensorAppendRow|sanitizer-report", "appending a row of %zu values to a %zux%zu block: %.300s", n, s->b[b].r, s->b[b].c, eb); DelDVector(&v); g_bad = 1; break; }
                if (n == s->b[b].c) {
                  if (WIFSIGNALED(st) || WEXITSTATUS(st) != 0) { char key[96]; snprintf(key, sizeof key, "TensorAppendRow|valid-append-aborts%s", n == s->b[b].r ? "|len-equals-rowcount" : ""); vh_fail(c, key, "appending a row of %zu values to a %zux%zu block ends with status 0x%x", n, s->b[b].r, s->b[b].c, st); DelDVector(&v); g_bad = 1; break; }
                } else {
                  if (WIFSIGNALED(st) && WTERMSIG(st) == SIGABRT) { vh_obs("op_tensor_append_row_wrong_length_clean_abort", 1); DelDVector(&v); break; }
                  { vh_fail(c, "TensorAppendRow|wrong-length-accepted", "a row of %zu values was appended to a block %zu wide without the documented error", n, s->b[b].c); DelDVector(&v); g_bad = 1; break; }
                } }
              TensorAppendRow(TN[k], b, v); DelDVector(&v);
              { size_t nc = s->b[b].c == 0 ? n : (n > s->b[b].c ? n : s->b[b].c); for (i = 0; i < s->b[b].r; i++) for (j = s->b[b].c; j < nc; j++) s->b[b].v[i][j] = 0; for (j = 0; j < nc; j++) s->b[b].v[s->b[b].r][j] = j < n ? vals[j] : 0; s->b[b].c = nc; s->b[b].r++; }
              { char nm[48]; snprintf(nm, sizeof nm, "op_tensor_append_row_%s", rel); vh_obs(nm, 1); } } } break;
    case 4: case 5: if (s->order > 0) { b = (size_t)vh_int(c, 0, (long)s->order - 1); if (s->b[b].r && s->b[b].c) { size_t a = (size_t)vh_int(c, 0, (long)s->b[b].r - 1), q = (size_t)vh_int(c, 0, (long)s->b[b].c - 1); double v = fresh();
              OP("T%zu.set(%zu,%zu,%zu)", k, b, a, q); setTensorValue(TN[k], b, a, q, v); s->b[b].v[a][q] = v; if (getTensorValue(TN[k], b, a, q) != v) { vh_fail(c, "tensor|get-after-set", "get returned another value"); g_bad = 1; } OBSOP("tensor_setget"); } } break;
    case 6: { int w = (int)vh_int(c, 0, 2); OP("T%zu.set(OOR)", k); g_oor_kind = 10; g_oor_slot = k; g_oor_k = w == 0 ? s->order + (size_t)vh_int(c, 0, 1) : 0; if (s->order == 0) g_oor_k = (size_t)vh_int(c, 0, 1);
              g_oor_i = (w == 1 && s->order) ? s->b[0].r + 1 : 0; g_oor_j = (w == 2 && s->order) ? s->b[0].c + 1 : 0; if (w != 0 && s->order == 0) g_oor_k = 1; run_oor(); break; }
    case 7: { int w = (int)vh_int(c, 0, 2); OP("T%zu.get(OOR)", k); g_oor_kind = 11; g_oor_slot = k; g_oor_k = w == 0 ? s->order + (size_t)vh_int(c, 0, 1) : 0; if (s->order == 0) g_oor_k = (size_t)vh_int(c, 0, 1);
              g_oor_i = (w == 1 && s->order) ? s->b[0].r + 1 : 0; g_oor_j = (w == 2 && s->order) ? s->b[0].c + 1 : 0; if (w != 0 && s->order == 0) g_oor_k = 1; run_oor(); break; }
    case 8: { double v = fresh(); OP("T%zu.setAll", k); TensorSet(TN[k], v); for (b = 0; b < s->order; b++) for (i = 0; i < s->b[b].r; i++) for (j = 0; j < s->b[b].c; j++) s->b[b].v[i][j] = v; OBSOP("tensor_setall"); break; }
    case 9: case 10: { size_t d = (size_t)vh_int(c, 0, POOL - 1); if (d != k && STN[d].live) { int same = STN[d].order == s->order; for (b = 0; same && b < s->order; b++) if (STN[d].b[b].r != s->b[b].r || STN[d].b[b].c != s->b[b].c) same = 0;
              rel = TN[d]->m == NULL ? "empty-dst" : same ? "same-shape-dst" : STN[d].order == s->order ? "same-order-different-blocks-dst" : STN[d].order < s->order ? "lower-order-dst" : "higher-order-dst";
              OP("T%zu.copyTo(T%zu,%s,order %zu->%zu)", k, d, rel, s->order, STN[d].order); TensorCopy(TN[k], &TN[d]); memcpy(&STN[d], s, sizeof *s);
              if (s->order && s->b[0].r && s->b[0].c) { double v = fresh(); TN[d]->m[0]->data[0][0] = v; STN[d].b[0].v[0][0] = v; }
              { char nm[64]; snprintf(nm, sizeof nm, "op_tensor_copy_%s", rel); vh_obs(nm, 1); } } break; }
    case 11: if (s->order < MAXORD) {   /* TensorAppendMatrixAt at or behind the end appends (as TensorAppendMatrix); an empty tensor also takes blocks without rows or columns */
              size_t at = s->order + (size_t)vh_int(c, 0, 2), r, cc; matrix *m; int zero = s->order == 0 && vh_coin(c, 0.2);
              r = s->order ? s->b[s->order - 1].r : zero ? (size_t)vh_int(c, 0, 1) : (size_t)vh_int(c, 1, 4); cc = zero ? (size_t)vh_int(c, 0, 2) : (size_t)vh_int(c, 1, 4);
              if (r > TDIM - 4) break;
              NewMatrix(&m, r, cc); b = s->order; s->b[b].r = r; s->b[b].c = cc;
              for (i = 0; i < r; i++) for (j = 0; j < cc; j++) { m->data[i][j] = fresh(); s->b[b].v[i][j] = m->data[i][j]; }
              OP("T%zu.appendMatrixAt(%zu of order %zu,%zux%zu)", k, at, s->order, r, cc); TensorAppendMatrixAt(TN[k], at, m); s->order++; if (r && cc) m->data[0][0] = -7; DelMatrix(&m);
              vh_obs(at == b ? "op_tensor_append_matrix_at_end" : "op_tensor_append_matrix_at_behind_end", 1); if (r == 0 || cc == 0) vh_obs("op_tensor_append_matrix_zero_dimension", 1); FN("TensorAppendMatrixAt"); } break;
    case 12: if (s->order > 0) {        /* calls the library documents as errors: a block inside the tensor ("not developed"), a block with another row count */
              long w = vh_int(c, 0, 2); size_t lr = s->b[s->order - 1].r; const char *rl = "equal";
              g_oor_slot = k; g_oor_j = (size_t)vh_int(c, 1, 3);
              if (w == 0) { g_oor_kind = 20; g_oor_k = (size_t)vh_int(c, 0, (long)s->order - 1); g_oor_i = lr; }
              else { g_oor_kind = w == 1 ? 21 : 22; g_oor_k = s->order + (size_t)vh_int(c, 0, 1); g_oor_i = rnd_len(c, lr, &rl); if (g_oor_i == lr) { g_oor_i = lr + 1; rl = "longer"; } }
              OP("T%zu.%s(ERR %s,at %zu of order %zu,rows %zu %s vs %zu)", k, OORNAME[g_oor_kind], oor_tag(g_oor_kind), g_oor_k, s->order, g_oor_i, rl, lr); run_oor(); FN("TensorAppendMatrixAt"); } break;
    case 13: { int q; OP("T%zu.print(order %zu)", k, s->order); q = quiet_begin(-1); PrintTensor(TN[k]); quiet_end(q); OBSOP("tensor_print"); FN("PrintTensor"); break; }
    case 14: { long w = vh_int(c, 0, 2); g_oor_kind = 17 + (int)w; g_oor_slot = k; g_oor_k = s->order + (size_t)vh_int(c, 0, 2); g_oor_i = (size_t)vh_int(c, 0, 3); g_oor_j = 0;
              OP("T%zu.%s(OOR order %zu of %zu)", k, OORNAME[g_oor_kind], g_oor_k, s->order); run_oor(); break; }
    case 15: if (s->order > 0) { b = (size_t)vh_int(c, 0, (long)s->order - 1); if (s->b[b].r && s->b[b].c) { size_t a = (size_t)vh_int(c, 0, (long)s->b[b].r - 1), q = (size_t)vh_int(c, 0, (long)s->b[b].c - 1); long w = vh_int(c, 0, 2);
              OP("T%zu.set(%zu,%zu,%zu,%s)", k, b, a, q, w == 0 ? "NaN" : "Inf"); setTensorValue(TN[k], b, a, q, w == 0 ? (double)NAN : w == 1 ? (double)INFINITY : -(double)INFINITY); s->b[b].v[a][q] = (double)MISSING; OBSOP("tensor_set_nonfinite"); } } break;
    default: { OP("T%zu.del", k); DelTensor(&TN[k]); s->live = 0; OBSOP("tensor_delete"); break; }
  }
}

static void op_list(vh_ctx *c)
{
  size_t k = (size_t)vh_int(c, 0, POOL - 1), i, j;
  sh_ls *s = &SLS[k];
  if (!s->live) {
    if (vh_coin(c, 0.5)) { OP("L%zu=init", k); initDVectorList(&LS[k]); s->n = 0; }
    else {   /* NewDVectorList allocates the slots only (as NewTensor does): every slot is filled right away with a vector of its own */
      size_t n = (size_t)vh_int(c, 0, 3); OP("L%zu=New(%zu)+fill", k, n); NewDVectorList(&LS[k], n); s->n = n;
      for (i = 0; i < n; i++) { size_t len = (size_t)vh_int(c, 0, 6); if (vh_coin(c, 0.3)) { initDVector(&LS[k]->d[i]); len = 0; } else NewDVector(&LS[k]->d[i], len);
        s->len[i] = len; for (j = 0; j < len; j++) { s->v[i][j] = fresh(); LS[k]->d[i]->data[j] = s->v[i][j]; } }
      FN("NewDVectorList"); vh_obs(n ? "op_list_create_with_slots" : "op_list_create_zero_slots", 1); }
    s->live = 1; OBSOP("list_create"); return;
  }
  switch (vh_int(c, 0, 7)) {
    case 0: case 1: case 2: if (s->n < 8) { double vals[MAXN]; size_t n = (size_t)vh_int(c, 0, 10); dvector *v = mk_dv(n, vals); OP("L%zu.append(len %zu)", k, n); DVectorListAppend(LS[k], v); v->size ? (v->data[0] = -3) : 0; DelDVector(&v);
              s->len[s->n] = n; for (j = 0; j < n; j++) s->v[s->n][j] = vals[j]; s->n++; OBSOP("list_append"); } break;
    /* the elements are vectors of their own: the vector operations on one element must leave the other elements and the list alone */
    case 3: if (s->n > 0) { size_t e = (size_t)vh_int(c, 0, (long)s->n - 1); if (s->len[e] > 0) { size_t ix = (size_t)vh_int(c, 0, (long)s->len[e] - 1); double v = fresh(); OP("L%zu[%zu].set(%zu)", k, e, ix); setDVectorValue(LS[k]->d[e], ix, v); s->v[e][ix] = v; OBSOP("list_element_set"); } } break;
    case 4: if (s->n > 0) { size_t e = (size_t)vh_int(c, 0, (long)s->n - 1); if (s->len[e] < 12) { double v = fresh(); OP("L%zu[%zu].append(len %zu)", k, e, s->len[e]); DVectorAppend(LS[k]->d[e], v); s->v[e][s->len[e]++] = v; OBSOP("list_element_append"); } } break;
    case 5: if (s->n > 0) { size_t e = (size_t)vh_int(c, 0, (long)s->n - 1); if (s->len[e] > 0) { size_t ix = (size_t)vh_int(c, 0, (long)s->len[e] - 1); OP("L%zu[%zu].removeAt(%zu/%zu)", k, e, ix, s->len[e]); DVectorRemoveAt(LS[k]->d[e], ix); memmove(&s->v[e][ix], &s->v[e][ix + 1], (s->len[e] - ix - 1) * sizeof(double)); s->len[e]--; OBSOP("list_element_remove"); } } break;
    case 6: { int q; OP("L%zu.printElements(%zu)", k, s->n); q = quiet_begin(-1); for (i = 0; i < s->n; i++) PrintDVector(LS[k]->d[i]); quiet_end(q); OBSOP("list_print_elements"); break; }
    default: { OP("L%zu.del", k); DelDVectorList(&LS[k]); s->live = 0; OBSOP("list_delete"); break; }
  }
}

static void run_case(vh_ctx *c)
{
  size_t nops = (size_t)vh_int(c, 5, 40), o, k;
  int focus = (int)vh_int(c, 0, 7);       /* one kind gets most of the operations so that long histories on it occur */
  static const char *fname[] = { "mixed", "dvector", "uivector", "ivector", "strvector", "matrix", "tensor", "list" };
  g_c = c; g_bad = 0; g_counter = (double)(c->idx % 1000) * 20000.0; g_nfresh = 0;
  memset(SDV, 0, sizeof SDV); memset(SUV, 0, sizeof SUV); memset(SIV, 0, sizeof SIV); memset(SSV, 0, sizeof SSV); memset(SMX, 0, sizeof SMX); memset(STN, 0, sizeof STN); memset(SLS, 0, sizeof SLS);
  vh_class(c, "%s-len%s", fname[focus], nops < 12 ? "<12" : nops < 25 ? "12-24" : "25-40");
  vh_desc(c, "focus=%s ops=%zu: ", fname[focus], nops);
  for (o = 0; o < nops && !g_bad; o++) {
    int kind = (focus && vh_coin(c, 0.75)) ? focus : (int)vh_int(c, 1, 7);
    g_lastop[0] = 0;
    switch (kind) {
      case 1: op_dvector(c); break;
      case 2: op_uivector(c); break;
      case 3: op_ivector(c); break;
      case 4: op_strvector(c); break;
      case 5: op_matrix(c); break;
      case 6: op_tensor(c); break;
      default: op_list(c); break;
    }
    if (g_lastop[0]) { vh_obs("operations_executed", 1); check_all(); }
  }
  vh_hist("history_length", (long)(o / 5) * 5);
  vh_max("max_unique_values_written_per_case", (double)g_nfresh);      /* unique while below 10007 */
  /* release everything: double frees / use after free surface here under ASan */
  snprintf(g_lastop, sizeof g_lastop, "final-release");
  for (k = 0; k < POOL; k++) {
    if (SDV[k].live) DelDVector(&DV[k]);
    if (SUV[k].live) DelUIVector(&UV[k]);
    if (SIV[k].live) DelIVector(&IV[k]);
    if (SSV[k].live) DelStrVector(&SV[k]);
    if (SMX[k].live) DelMatrix(&MX[k]);
    if (STN[k].live) DelTensor(&TN[k]);
    if (SLS[k].live) DelDVectorList(&LS[k]);
  }
}

const vh_driver VH_DRIVER = { "C14", ncases, run_case, NULL, 60 };
