/* c16.c - C16: a saved model reads back equal to the model last written, whatever came before.
 * Monitor: shadow map path -> deep copy (snapshot) of the last model written there, over histories of
 * 1..5 writes on 1..2 paths mixing PCA / CPCA / PLS models of different sizes and data scales 10^-9..10^9.
 * After every write the file is read into a fresh model of the same kind and judged field by field
 * (dimensions, values, emptiness), functionally (predictions on fresh data) and the in-memory model is
 * compared bit by bit before/after Write*.  The other path is re-read too: it must still hold its own
 * last model.  Files live in a per-case mkdtemp directory on tmpfs. */
#include "drv_util.h"
#include <dirent.h>
#include <errno.h>
#include <sys/resource.h>
#include <sys/stat.h>
#include <unistd.h>

static long ncases(int tier) { return tier ? 20000 : 2000; }

enum { K_PCA = 0, K_CPCA = 1, K_PLS = 2 };
static const char *KN[] = { "PCA", "CPCA", "PLS" };

/* ------------------------------------------------------------------ snapshots (deep copies) */
typedef struct { size_t r, c; double *d; } blk;
typedef struct { const char *name; char type; size_t nb; blk *b; int in_file; } fld;
typedef struct { int kind; size_t nf; fld f[40]; } snap;

static fld *snap_new_field(snap *s, const char *name, char type, size_t nb, int in_file)
{
  fld *f = &s->f[s->nf++];
  f->name = name; f->type = type; f->nb = nb; f->in_file = in_file;
  f->b = calloc(nb ? nb : 1, sizeof(blk));
  return f;
}
static void blk_of_matrix(blk *b, matrix *m)
{
  size_t i, j;
  b->r = m->row; b->c = m->col;
  b->d = malloc((b->r * b->c + 1) * sizeof(double));
  for (i = 0; i < m->row; i++) for (j = 0; j < m->col; j++) b->d[i * m->col + j] = m->data[i][j];
}
static void blk_of_vector(blk *b, dvector *v)
{
  b->r = v->size; b->c = 1;
  b->d = malloc((v->size + 1) * sizeof(double));
  if (v->size) memcpy(b->d, v->data, v->size * sizeof(double));
}
static void snap_vec(snap *s, const char *name, dvector *v, int in_file) { blk_of_vector(&snap_new_field(s, name, 'v', 1, in_file)->b[0], v); }
static void snap_mat(snap *s, const char *name, matrix *m, int in_file) { blk_of_matrix(&snap_new_field(s, name, 'm', 1, in_file)->b[0], m); }
static void snap_ten(snap *s, const char *name, tensor *t, int in_file)
{
  fld *f = snap_new_field(s, name, 't', t->order, in_file); size_t k;
  for (k = 0; k < t->order; k++) blk_of_matrix(&f->b[k], t->m[k]);
}
static void snap_lst(snap *s, const char *name, dvectorlist *l, int in_file)
{
  fld *f = snap_new_field(s, name, 'l', l->size, in_file); size_t k;
  for (k = 0; k < l->size; k++) blk_of_vector(&f->b[k], l->d[k]);
}
static void snap_free(snap *s)
{
  size_t i, k;
  if (!s) return;
  for (i = 0; i < s->nf; i++) { for (k = 0; k < s->f[i].nb; k++) free(s->f[i].b[k].d); free(s->f[i].b); }
  free(s);
}
static snap *snap_of(int kind, void *model)
{
  snap *s = calloc(1, sizeof *s);
  s->kind = kind;
  if (kind == K_PCA) {
    PCAMODEL *m = model;
    snap_mat(s, "scores", m->scores, 1); snap_mat(s, "loadings", m->loadings, 1); snap_vec(s, "varexp", m->varexp, 1);
    snap_vec(s, "colaverage", m->colaverage, 1); snap_vec(s, "colscaling", m->colscaling, 1);
    snap_mat(s, "dmodx", m->dmodx, 0);       /* not part of the file format: only the write-does-not-modify clause looks at it */
  }
  else if (kind == K_CPCA) {
    CPCAMODEL *m = model;
    snap_ten(s, "block_scores", m->block_scores, 1); snap_ten(s, "block_loadings", m->block_loadings, 1);
    snap_mat(s, "super_scores", m->super_scores, 1); snap_mat(s, "super_weights", m->super_weights, 1);
    snap_vec(s, "scaling_factor", m->scaling_factor, 1); snap_vec(s, "total_expvar", m->total_expvar, 1);
    snap_lst(s, "block_expvar", m->block_expvar, 1); snap_lst(s, "colaverage", m->colaverage, 1); snap_lst(s, "colscaling", m->colscaling, 1);
  }
  else {
    PLSMODEL *m = model;
    snap_mat(s, "xscores", m->xscores, 1); snap_mat(s, "xloadings", m->xloadings, 1); snap_mat(s, "xweights", m->xweights, 1);
    snap_mat(s, "yscores", m->yscores, 1); snap_mat(s, "yloadings", m->yloadings, 1);
    snap_vec(s, "b", m->b, 1); snap_vec(s, "xvarexp", m->xvarexp, 1);
    snap_vec(s, "xcolaverage", m->xcolaverage, 1); snap_vec(s, "xcolscaling", m->xcolscaling, 1);
    snap_vec(s, "ycolaverage", m->ycolaverage, 1); snap_vec(s, "ycolscaling", m->ycolscaling, 1);
    snap_mat(s, "recalculated_y", m->recalculated_y, 1); snap_mat(s, "recalc_residuals", m->recalc_residuals, 1);
    snap_mat(s, "predicted_y", m->predicted_y, 1); snap_mat(s, "pred_residuals", m->pred_residuals, 1);
    snap_mat(s, "r2y_recalculated", m->r2y_recalculated, 1); snap_mat(s, "r2y_validation", m->r2y_validation, 1);
    snap_mat(s, "q2y", m->q2y, 1); snap_mat(s, "sdep", m->sdep, 1); snap_mat(s, "sdec", m->sdec, 1); snap_mat(s, "bias", m->bias, 1);
    snap_ten(s, "roc_recalculated", m->roc_recalculated, 1); snap_ten(s, "roc_validation", m->roc_validation, 1);
    snap_mat(s, "roc_auc_recalculated", m->roc_auc_recalculated, 1); snap_mat(s, "roc_auc_validation", m->roc_auc_validation, 1);
    snap_ten(s, "precision_recall_recalculated", m->precision_recall_recalculated, 1); snap_ten(s, "precision_recall_validation", m->precision_recall_validation, 1);
    snap_mat(s, "precision_recall_ap_recalculated", m->precision_recall_ap_recalculated, 1);
    snap_mat(s, "precision_recall_ap_validation", m->precision_recall_ap_validation, 1);
    snap_mat(s, "yscrambling", m->yscrambling, 1);
  }
  return s;
}
static int snap_finite(const snap *s)
{
  size_t i, k, e;
  for (i = 0; i < s->nf; i++) for (k = 0; k < s->f[i].nb; k++) for (e = 0; e < s->f[i].b[k].r * s->f[i].b[k].c; e++) if (!isfinite(s->f[i].b[k].d[e])) return 0;
  return 1;
}
static size_t snap_numbers(const snap *s)
{
  size_t i, k, t = 0;
  for (i = 0; i < s->nf; i++) if (s->f[i].in_file) for (k = 0; k < s->f[i].nb; k++) t += s->f[i].b[k].r * s->f[i].b[k].c;
  return t;
}
static double snap_min_nonzero(const snap *s)
{
  size_t i, k, e; double m = INFINITY;
  for (i = 0; i < s->nf; i++) if (s->f[i].in_file) for (k = 0; k < s->f[i].nb; k++) for (e = 0; e < s->f[i].b[k].r * s->f[i].b[k].c; e++) {
    double v = fabs(s->f[i].b[k].d[e]);
    if (v > 0 && v < m) m = v;
  }
  return m;
}
/* first field whose bits differ (all fields, also those not serialised), NULL when identical */
static const char *snap_bitdiff(const snap *a, const snap *b)
{
  size_t i, k;
  for (i = 0; i < a->nf; i++) {
    if (a->f[i].nb != b->f[i].nb) return a->f[i].name;
    for (k = 0; k < a->f[i].nb; k++) {
      const blk *x = &a->f[i].b[k], *y = &b->f[i].b[k];
      if (x->r != y->r || x->c != y->c) return a->f[i].name;
      if (x->r * x->c != 0 && memcmp(x->d, y->d, x->r * x->c * sizeof(double))) return a->f[i].name;
    }
  }
  return NULL;
}

/* ------------------------------------------------------------------ model construction */
static matrix *gen_data(vh_ctx *c, size_t n, size_t p, int k10, int need_offset)
{
  matrix *m; size_t i, j;
  double u = pow(10.0, (double)k10);
  NewMatrix(&m, n, p);
  for (j = 0; j < p; j++) {
    double sc = vh_range(c, 0.3, 3.0), loc = vh_coin(c, 0.4) ? 0.0 : vh_range(c, -3, 3);
    if (need_offset) loc = (vh_coin(c, 0.5) ? 1 : -1) * vh_range(c, 1.0, 3.0);
    for (i = 0; i < n; i++) m->data[i][j] = u * (loc + sc * vh_gauss(c));
  }
  return m;
}
static void fill_random(vh_ctx *c, matrix *m, double u)
{
  size_t i, j;
  for (i = 0; i < m->row; i++) for (j = 0; j < m->col; j++) m->data[i][j] = u * vh_range(c, -1, 1);
}
static int pick_scaling(vh_ctx *c, int k10, int allow_none)
{
  /* the library zeroes columns whose stored scaling value is below 1e-3 (fit) / 1e-2 (apply): data of magnitude
     below 1 is fitted with centering only (or not preprocessed at all), which is what the library supports there */
  if (k10 < 0) return allow_none && vh_coin(c, 0.4) ? -1 : 0;
  return (int)vh_int(c, allow_none ? -1 : 0, 5);
}

/* data exponent k in -9..9: uniform, with extra weight on the two ends of the range */
static int draw_exponent(vh_ctx *c)
{
  static const int ends[] = { -9, -8, 8, 9 };
  return vh_coin(c, 0.3) ? ends[vh_int(c, 0, 3)] : (int)vh_int(c, -9, 9);
}

typedef struct {
  int kind, k10, ky, scaling, yscaling, variant;
  size_t n, p, ny, ncomp, nblocks;
  void *model;
  snap *s;
} slot;

static void slot_clear(slot *s)
{
  if (!s->model) return;
  if (s->kind == K_PCA) { PCAMODEL *m = s->model; DelPCAModel(&m); }
  else if (s->kind == K_CPCA) { CPCAMODEL *m = s->model; DelCPCAModel(&m); }
  else { PLSMODEL *m = s->model; DelPLSModel(&m); }
  snap_free(s->s);
  memset(s, 0, sizeof *s);
}

static void build_pca(vh_ctx *c, slot *s)
{
  PCAMODEL *m; matrix *x; size_t lim;
  s->n = (size_t)vh_int(c, 3, 8); s->p = (size_t)vh_int(c, 2, 5);
  s->scaling = pick_scaling(c, s->k10, 1);
  /* boundary lengths (third seeded wave): the writer stores every field as one column of numbers, so any blocking of the INSERTs shows at
     particular lengths.  Every 12th PCA model is wide: its variable count walks a list of round numbers and their neighbours (the stored
     vectors then have p, p + 2 (loadings incl. the two dimensions) ... numbers); models of "different sizes" are not bounded by the quantifier. */
  if (c->idx % 12 == 5) {
    static const size_t B[] = { 62, 64, 98, 100, 126, 128, 198, 200, 248, 250, 254, 256, 298, 300, 398, 400, 498, 500, 510, 512, 598, 600, 748, 750, 998, 1000, 1022, 1024 };
    size_t nb = sizeof B / sizeof B[0], pick = (size_t)((c->idx / 12) % (long)(nb * 3));
    s->p = B[pick / 3] + (pick % 3) - 1;          /* B-1, B, B+1 */
    s->n = 3;
    vh_obs("wide_pca_models_at_boundary_lengths", 1);
  }
  lim = s->n - 1 < s->p ? s->n - 1 : s->p; if (lim > 3) lim = 3;
  s->ncomp = (size_t)vh_int(c, 1, (long)lim);
  x = gen_data(c, s->n, s->p, s->k10, s->scaling == 5);
  NewPCAModel(&m);
  PCA(x, s->scaling, s->ncomp, m, NULL);
  DelMatrix(&x);
  s->model = m;
}
static void build_cpca(vh_ctx *c, slot *s)
{
  CPCAMODEL *m; tensor *x; size_t k, lim;
  s->n = (size_t)vh_int(c, 3, 7); s->nblocks = (size_t)vh_int(c, 1, 3);
  s->scaling = pick_scaling(c, s->k10, 0);
  lim = s->n - 1;
  initTensor(&x);
  for (k = 0; k < s->nblocks; k++) {
    size_t pk = (size_t)vh_int(c, 2, 4);
    matrix *b = gen_data(c, s->n, pk, s->k10, s->scaling == 5);
    TensorAppendMatrix(x, b);
    DelMatrix(&b);
    if (pk < lim) lim = pk;
    s->p += pk;
  }
  if (lim > 2) lim = 2;
  s->ncomp = (size_t)vh_int(c, 1, (long)lim);
  NewCPCAModel(&m);
  CPCA(x, s->scaling, s->ncomp, m);
  DelTensor(&x);
  s->model = m;
}
static void build_pls(vh_ctx *c, slot *s)
{
  PLSMODEL *m; matrix *x, *y; size_t i, j, a, lim;
  int ky = vh_coin(c, 0.15) ? (int)vh_int(c, -9, 9) : s->k10, ysc;   /* mostly one exponent for the whole data set; sometimes X and Y in different units */
  double uy = pow(10.0, (double)ky), ux = pow(10.0, (double)s->k10);
  s->n = (size_t)vh_int(c, 4, 8); s->p = (size_t)vh_int(c, 2, 4); s->ny = (size_t)vh_int(c, 1, 2);
  s->scaling = pick_scaling(c, s->k10, 0); ysc = pick_scaling(c, ky, 0);
  s->ky = ky; s->yscaling = ysc;
  lim = s->p < s->n - 2 ? s->p : s->n - 2; if (lim > 3) lim = 3;
  s->ncomp = (size_t)vh_int(c, 1, (long)lim);
  s->variant = (int)vh_int(c, 0, 2);
  x = gen_data(c, s->n, s->p, s->k10, s->scaling == 5);
  NewMatrix(&y, s->n, s->ny);
  for (j = 0; j < s->ny; j++) {
    double off = ysc == 5 ? (vh_coin(c, 0.5) ? 2.0 : -2.0) : vh_coin(c, 0.5) ? 0.0 : vh_range(c, -2, 2);
    for (i = 0; i < s->n; i++) {
      double v = off + 0.5 * vh_gauss(c);
      for (a = 0; a < s->p; a++) v += (a % 2 ? -0.7 : 0.9) * (double)(j + 1) * x->data[i][a] / ux / (double)s->p;
      y->data[i][j] = uy * v;
    }
  }
  NewPLSModel(&m);
  PLS(x, y, s->ncomp, s->scaling, ysc, m, NULL);
  if (s->variant >= 1) {
    /* the fields a validation run fills: predictions, residuals, statistic tables, y-scrambling table */
    PLSYPredictorAllLV(x, m, NULL, m->predicted_y);
    ResizeMatrix(m->pred_residuals, m->predicted_y->row, m->predicted_y->col);
    for (i = 0; i < m->predicted_y->row; i++) for (j = 0; j < m->predicted_y->col; j++) m->pred_residuals->data[i][j] = m->predicted_y->data[i][j] - y->data[i][j % s->ny];
    PLSRegressionStatistics(y, m->recalculated_y, m->r2y_recalculated, m->sdec, m->bias);
    PLSRegressionStatistics(y, m->predicted_y, m->q2y, m->sdep, NULL);
    ResizeMatrix(m->r2y_validation, s->ncomp, s->ny); fill_random(c, m->r2y_validation, 1.0);
    ResizeMatrix(m->yscrambling, (size_t)vh_int(c, 1, 5), 2 * s->ny + 1); fill_random(c, m->yscrambling, 1.0);
  }
  if (s->variant == 2) {
    /* discriminant-analysis fields: the real statistics on a binarised response, and irregular synthetic tensors */
    matrix *yb; size_t k, ord;
    NewMatrix(&yb, s->n, s->ny);
    for (j = 0; j < s->ny; j++) {
      double mid = 0;
      for (i = 0; i < s->n; i++) mid += y->data[i][j] / (double)s->n;
      for (i = 0; i < s->n; i++) yb->data[i][j] = y->data[i][j] > mid ? 1.0 : 0.0;
    }
    PLSDiscriminantAnalysisStatistics(yb, m->recalculated_y, m->roc_recalculated, m->roc_auc_recalculated, m->precision_recall_recalculated, m->precision_recall_ap_recalculated);
    DelMatrix(&yb);
    ord = (size_t)vh_int(c, 1, 3);
    for (k = 0; k < ord; k++) { AddTensorMatrix(m->roc_validation, (size_t)vh_int(c, 1, 4), (size_t)vh_int(c, 1, 4)); fill_random(c, m->roc_validation->m[k], 1.0); }
    ord = (size_t)vh_int(c, 1, 3);
    for (k = 0; k < ord; k++) { AddTensorMatrix(m->precision_recall_validation, (size_t)vh_int(c, 1, 4), (size_t)vh_int(c, 1, 4)); fill_random(c, m->precision_recall_validation->m[k], uy); }
    ResizeMatrix(m->roc_auc_validation, s->ncomp, s->ny); fill_random(c, m->roc_auc_validation, 1.0);
    ResizeMatrix(m->precision_recall_ap_validation, s->ncomp, s->ny); fill_random(c, m->precision_recall_ap_validation, 1.0);
  }
  DelMatrix(&x); DelMatrix(&y);
  s->model = m;
}

/* ------------------------------------------------------------------ files */
static char g_base[256];
static long g_reads;

static void rm_tree(const char *dir)
{
  DIR *d = opendir(dir); struct dirent *e; char p[600];
  if (d) {
    while ((e = readdir(d))) {
      if (!strcmp(e->d_name, ".") || !strcmp(e->d_name, "..")) continue;
      snprintf(p, sizeof p, "%s/%s", dir, e->d_name); unlink(p);
    }
    closedir(d);
  }
  rmdir(dir);
}
static int usable_dir(const char *d)
{
  struct stat st;
  return d && *d && stat(d, &st) == 0 && S_ISDIR(st.st_mode) && access(d, W_OK | X_OK) == 0;
}
static void init(int tier)
{
  struct rlimit rl;
  DIR *d; struct dirent *e;
  (void)tier;
  libsci_verif_nprocs = 1;
  if (getrlimit(RLIMIT_NOFILE, &rl) == 0 && rl.rlim_cur < rl.rlim_max) { rl.rlim_cur = rl.rlim_max; setrlimit(RLIMIT_NOFILE, &rl); }
  if (usable_dir("/dev/shm")) snprintf(g_base, sizeof g_base, "/dev/shm");
  else if (usable_dir(getenv("TMPDIR"))) snprintf(g_base, sizeof g_base, "%s", getenv("TMPDIR"));
  else snprintf(g_base, sizeof g_base, "/tmp");
  /* directories left behind by worker processes that died inside a case (sanitizer abort in a broken library) */
  d = opendir(g_base);
  if (d) {
    while ((e = readdir(d))) {
      int pid = 0; char p[600]; struct stat st;
      if (sscanf(e->d_name, "verif-c16-%d-", &pid) != 1 || pid <= 0 || pid == (int)getpid()) continue;
      snprintf(p, sizeof p, "/proc/%d", pid);
      if (stat(p, &st) != 0 && errno == ENOENT) {
        snprintf(p, sizeof p, "%s/%s", g_base, e->d_name); rm_tree(p);
      }
    }
    closedir(d);
  }
}
static long open_descriptors(void)
{
  DIR *d = opendir("/proc/self/fd"); long n = 0;
  if (!d) return -1;
  while (readdir(d)) n++;
  closedir(d);
  return n;
}

/* ------------------------------------------------------------------ judging a read */
static const char *kbucket(int k) { return k <= -4 ? "k<=-4" : k >= 4 ? "k>=4" : "|k|<=3"; }

/* returns 1 when every serialised field has the written dimensions (so that the predictors may be run) */
static int compare_read(vh_ctx *c, const slot *w, const snap *rd, const char *ctx)
{
  const snap *ws = w->s;
  char key[96];
  size_t i, k, e;
  int dims_ok = 1;
  for (i = 0; i < ws->nf; i++) {
    const fld *a = &ws->f[i], *b = &rd->f[i];
    size_t na = 0, nb = 0;
    int this_ok = 1;
    if (!a->in_file) continue;
    for (k = 0; k < a->nb; k++) na += a->b[k].r * a->b[k].c;
    for (k = 0; k < b->nb; k++) nb += b->b[k].r * b->b[k].c;
    if (na == 0 && (nb != 0 || b->nb != a->nb)) {
      snprintf(key, sizeof key, "Write%s/Read%s|empty-field-not-empty", KN[w->kind], KN[w->kind]);
      vh_fail(c, key, "%s: field %s was written empty and reads back with %zu block(s), %zu number(s)", ctx, a->name, b->nb, nb);
      dims_ok = 0; continue;
    }
    if (na == 0) vh_obs("empty_fields_read_back", 1);
    if (a->nb != b->nb) this_ok = 0;
    else for (k = 0; k < a->nb; k++) if (a->b[k].r != b->b[k].r || a->b[k].c != b->b[k].c) this_ok = 0;
    if (!this_ok) {
      snprintf(key, sizeof key, "Write%s/Read%s|field-dimensions", KN[w->kind], KN[w->kind]);
      vh_fail(c, key, "%s: field %s written as %zu block(s) first %zux%zu (%zu numbers), read as %zu block(s) first %zux%zu (%zu numbers)", ctx, a->name,
              a->nb, a->nb ? a->b[0].r : 0, a->nb ? a->b[0].c : 0, na, b->nb, b->nb ? b->b[0].r : 0, b->nb ? b->b[0].c : 0, nb);
      dims_ok = 0; continue;
    }
    for (k = 0; k < a->nb && this_ok; k++) for (e = 0; e < a->b[k].r * a->b[k].c; e++) {
      double x = a->b[k].d[e], y = b->b[k].d[e], tol = 1e-15 * (fabs(x) > 1 ? fabs(x) : 1.0), d = fabs(x - y);
      vh_max("ratio_value_dev_over_tol", d / tol);
      if (fabs(x) >= 1) vh_max("max_value_rel_dev_large", d / fabs(x)); else vh_max("max_value_abs_dev_small", d);
      if (!(d <= tol)) {
        snprintf(key, sizeof key, "Write%s/Read%s|field-value", KN[w->kind], KN[w->kind]);
        vh_fail(c, key, "%s: field %s block %zu element %zu written %.17g read %.17g (|diff| %.3g > %.3g)", ctx, a->name, k, e, x, y, d, tol);
        this_ok = 0; break;
      }
    }
    vh_obs("fields_compared", 1);
  }
  vh_obs("numbers_compared", (double)snap_numbers(ws));
  return dims_ok;
}

static void judge_prediction(vh_ctx *c, const slot *w, const char *what, matrix *a, matrix *b, const char *ctx)
{
  char key[96], name[64];
  double sc = matrix_maxabs(a), d = matrix_maxdiff(a, b);
  snprintf(name, sizeof name, "max_prediction_rel_dev_%s%s", kbucket(w->k10), snap_min_nonzero(w->s) < 1e-6 ? "_numbers<1e-6" : "");
  if (sc > 0) vh_max(name, d / sc);
  if (!(d <= 1e-9 * sc)) {
    /* input-class predicate of the key: does the saved model hold non-zero numbers below 1e-6 (so that 18 decimals keep < 12 significant digits)? */
    double mn = snap_min_nonzero(w->s);
    snprintf(key, sizeof key, "Write%s/Read%s|prediction-differs%s", KN[w->kind], KN[w->kind], mn < 1e-6 ? "|model-has-numbers-below-1e-6" : "");
    vh_fail(c, key, "%s: %s of the model read back deviates %.3g from the saved model's (max |prediction| %.3g, relative %.3g > 1e-9; %zux%zu vs %zux%zu; smallest non-zero number in the saved model %.3g)", ctx, what, d, sc, d / sc, a->row, a->col, b->row, b->col, mn);
  }
  vh_obs("prediction_comparisons", 1);
}

static void read_and_check(vh_ctx *c, const slot *w, const char *path, const char *ctx)
{
  snap *rd;
  size_t nfresh = (size_t)vh_int(c, 1, 4), k;
  g_reads++;
  if (w->kind == K_PCA) {
    PCAMODEL *m2, *m = w->model;
    NewPCAModel(&m2); ReadPCA((char *)path, m2);
    rd = snap_of(K_PCA, m2);
    if (compare_read(c, w, rd, ctx)) {
      matrix *x = gen_data(c, nfresh, w->p, w->k10, 0), *p1, *p2;
      initMatrix(&p1); initMatrix(&p2);
      PCAScorePredictor(x, m, w->ncomp, p1); PCAScorePredictor(x, m2, w->ncomp, p2);
      judge_prediction(c, w, "PCAScorePredictor", p1, p2, ctx);
      DelMatrix(&p1); DelMatrix(&p2); DelMatrix(&x);
    }
    DelPCAModel(&m2);
  }
  else if (w->kind == K_CPCA) {
    CPCAMODEL *m2, *m = w->model;
    NewCPCAModel(&m2); ReadCPCA((char *)path, m2);
    rd = snap_of(K_CPCA, m2);
    if (compare_read(c, w, rd, ctx)) {
      tensor *x, *b1, *b2; matrix *s1, *s2;
      initTensor(&x);
      for (k = 0; k < m->block_loadings->order; k++) { matrix *b = gen_data(c, nfresh, m->block_loadings->m[k]->row, w->k10, 0); TensorAppendMatrix(x, b); DelMatrix(&b); }
      initTensor(&b1); initTensor(&b2); initMatrix(&s1); initMatrix(&s2);
      CPCAScorePredictor(x, m, w->ncomp, s1, b1); CPCAScorePredictor(x, m2, w->ncomp, s2, b2);
      judge_prediction(c, w, "CPCAScorePredictor super scores", s1, s2, ctx);
      if (b1->order != b2->order) vh_fail(c, "WriteCPCA/ReadCPCA|prediction-differs", "%s: %zu vs %zu predicted block-score matrices", ctx, b1->order, b2->order);
      else for (k = 0; k < b1->order; k++) judge_prediction(c, w, "CPCAScorePredictor block scores", b1->m[k], b2->m[k], ctx);
      DelTensor(&b1); DelTensor(&b2); DelMatrix(&s1); DelMatrix(&s2); DelTensor(&x);
    }
    DelCPCAModel(&m2);
  }
  else {
    PLSMODEL *m2, *m = w->model;
    NewPLSModel(&m2); ReadPLS((char *)path, m2);
    rd = snap_of(K_PLS, m2);
    if (compare_read(c, w, rd, ctx)) {
      matrix *x = gen_data(c, nfresh, w->p, w->k10, 0), *y1, *y2;
      initMatrix(&y1); initMatrix(&y2);
      PLSYPredictorAllLV(x, m, NULL, y1); PLSYPredictorAllLV(x, m2, NULL, y2);
      judge_prediction(c, w, "PLSYPredictorAllLV", y1, y2, ctx);
      DelMatrix(&y1); DelMatrix(&y2); DelMatrix(&x);
    }
    DelPLSModel(&m2);
  }
  snap_free(rd);
  vh_obs("reads", 1);
}

static void run_case(vh_ctx *c)
{
  int npaths = (int)vh_int(c, 1, 2), nw = (int)vh_int(c, 1, 5), step, i;
  slot sl[2];
  char dir[320], path[2][360], seq[64] = "", ctx[160];
  int kinds_seen = 0, overwrote_same = 0, overwrote_other = 0, shrank = 0;
  long fds;
  struct rlimit rl;

  memset(sl, 0, sizeof sl);
  if (!g_base[0]) init(c->tier);
  fds = open_descriptors();
  vh_max("max_open_descriptors", (double)fds);
  if (getrlimit(RLIMIT_NOFILE, &rl) == 0 && fds >= 0 && (rlim_t)fds + 40 > rl.rlim_cur) {
    vh_class(c, "fd-budget"); vh_inconclusive(c, "descriptor budget exhausted (%ld open; the library leaks one SQLite handle per Read*)", fds);
    return;
  }
  snprintf(dir, sizeof dir, "%s/verif-c16-%d-XXXXXX", g_base, (int)getpid());
  if (!mkdtemp(dir)) { vh_class(c, "no-tmpdir"); vh_inconclusive(c, "mkdtemp(%s): %s", dir, strerror(errno)); return; }
  for (i = 0; i < 2; i++) snprintf(path[i], sizeof path[i], "%s/model%d.sqlite", dir, i);
  vh_desc(c, "history paths=%d writes=%d:", npaths, nw);

  for (step = 0; step < nw; step++) {
    int pi = (int)vh_int(c, 0, npaths - 1), kind, k10 = draw_exponent(c);
    slot ns;
    snap *before, *after;
    const char *diff;
    size_t prev_numbers = sl[pi].s ? snap_numbers(sl[pi].s) : 0;
    int prev_kind = sl[pi].model ? sl[pi].kind : -1;
    kind = (prev_kind >= 0 && vh_coin(c, 0.4)) ? prev_kind : (int)vh_int(c, 0, 2);
    memset(&ns, 0, sizeof ns);
    ns.kind = kind; ns.k10 = k10;
    if (kind == K_PCA) build_pca(c, &ns); else if (kind == K_CPCA) build_cpca(c, &ns); else build_pls(c, &ns);
    before = snap_of(kind, ns.model);
    vh_desc(c, " [%d] %s->path%d k=%d n=%zu p=%zu comp=%zu sc=%d", step, KN[kind], pi, k10, ns.n, ns.p, ns.ncomp, ns.scaling);
    if (kind == K_PLS) vh_desc(c, " ky=%d ysc=%d ny=%zu%s", ns.ky, ns.yscaling, ns.ny, ns.variant == 0 ? " fit-only" : ns.variant == 1 ? " +validation" : " +validation+DA");
    vh_desc(c, " numbers=%zu min|v|=%.3g", snap_numbers(before), snap_min_nonzero(before));
    if (!snap_finite(before)) {
      snap_free(before); ns.s = NULL; slot_clear(&ns);
      vh_skip(c, "fitted %s model is not finite", KN[kind]);
      break;
    }
    if (strlen(seq) + 2 < sizeof seq) { size_t l = strlen(seq); seq[l] = "PCL"[kind]; seq[l + 1] = (char)('0' + pi); seq[l + 2] = 0; }
    if (kind == K_PCA) WritePCA(path[pi], ns.model); else if (kind == K_CPCA) WriteCPCA(path[pi], ns.model); else WritePLS(path[pi], ns.model);
    after = snap_of(kind, ns.model);
    diff = snap_bitdiff(before, after);
    if (diff) {
      char key[64]; snprintf(key, sizeof key, "Write%s|model-modified", KN[kind]);
      vh_fail(c, key, "step %d: field %s of the in-memory model changed during the write", step, diff);
    }
    snap_free(after);
    ns.s = before;
    if (prev_kind == kind) overwrote_same++;
    else if (prev_kind >= 0) overwrote_other++;
    if (prev_kind >= 0 && snap_numbers(before) < prev_numbers) shrank++;
    kinds_seen |= 1 << kind;
    slot_clear(&sl[pi]);
    sl[pi] = ns;
    vh_obs("writes", 1);
    vh_hist("numbers_per_model_log2", (long)floor(log2((double)snap_numbers(before) + 1)));
    vh_hist("data_exponent", k10);
    if (kind == K_PCA) vh_obs("pca_models", 1); else if (kind == K_CPCA) vh_obs("cpca_models", 1); else vh_obs("pls_models", 1);
    snprintf(ctx, sizeof ctx, "step %d (%s after %s on this path, sequence %s)", step, KN[kind], prev_kind < 0 ? "nothing" : KN[prev_kind], seq);
    read_and_check(c, &sl[pi], path[pi], ctx);
    if (npaths == 2 && sl[1 - pi].model && vh_coin(c, 0.6)) {
      /* a write to one path must not disturb what the other path holds */
      snprintf(ctx, sizeof ctx, "step %d re-read of the other path (%s) after writing %s elsewhere, sequence %s", step, KN[sl[1 - pi].kind], KN[kind], seq);
      read_and_check(c, &sl[1 - pi], path[1 - pi], ctx);
      vh_obs("other_path_rereads", 1);
    }
  }
  vh_obs("overwrites_same_kind", overwrote_same); vh_obs("overwrites_other_kind", overwrote_other); vh_obs("overwrites_by_smaller_model", shrank);
  vh_class(c, "paths%d-writes%d-kinds%d-same%d-cross%d-%s", npaths, nw, (kinds_seen & 1) + ((kinds_seen >> 1) & 1) + ((kinds_seen >> 2) & 1),
           overwrote_same > 2 ? 2 : overwrote_same, overwrote_other > 2 ? 2 : overwrote_other, shrank ? "shrunk" : "grew");
  for (i = 0; i < 2; i++) slot_clear(&sl[i]);
  rm_tree(dir);
}

const vh_driver VH_DRIVER = { "C16", ncases, run_case, init, 120 };
