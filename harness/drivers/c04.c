/* c04.c - C04: PLS regression is a correct least-squares family.
 *
 * Monitor (oracle = reference preprocessing + Householder-QR least squares in long double):
 *   - inner relation: b_k = u_k't_k / t_k't_k, and b_k q_jk = t_k'Y_pre_j / t_k't_k (each latent variable is the
 *     least-squares regression of the preprocessed responses on its score);
 *   - OLS limit: with nlv = rank(X_pre) the recalculated responses equal the back-transform of X_pre X_pre^+ Y_pre;
 *   - per response RSS_a (a = 0..nlv, RSS_0 = spread of the preprocessed response) never increases,
 *     PLSRegressionStatistics R2 = 1 - RSS/TSS and is non-decreasing in a;
 *   - one response: PLSBetasCoeff(model, a) = W (P'W)^-1 b, and x_pre . beta (back-transformed) = PLSScorePredictor ->
 *     PLSYPredictor at a LVs on training rows and on unseen rows;
 *   - one centred response: y -> c*y + d maps recalculated and predicted responses the same way.
 * asan build. */
#include "drv_util.h"

static long ncases(int tier) { return tier ? 300000 : 60000; }

/* GEN-BEGIN (generator shared verbatim by c03.c and c04.c) */
#define EPS 2.220446049250313e-16

typedef struct {
  size_t n, p, ny;
  int xs, ys;
  matrix *mx, *my;
  ldm *X, *Y, *Xp, *Yp;
  ld *xm, *xsc, *ym, *ysc;
  size_t nxm, nxsc, nym, nysc;
  ld kappa, smin;
  double noise;
  int corr, lowdim, icpt, regime, ortho, yorth;
  size_t yorth_col;
  const char *skip;
} gcase;

static void gcase_free(gcase *g)
{
  if (g->mx) DelMatrix(&g->mx);
  if (g->my) DelMatrix(&g->my);
  ldm_free(g->X); ldm_free(g->Y); ldm_free(g->Xp); ldm_free(g->Yp);
  free(g->xm); free(g->xsc); free(g->ym); free(g->ysc);
}

/* two-pass modified Gram-Schmidt on the columns; 0 when a column vanishes */
static int mgs_cols(ldm *A)
{
  size_t i, j, k; int pass;
  for (j = 0; j < A->c; j++) {
    ld nr = 0;
    for (pass = 0; pass < 2; pass++)
      for (k = 0; k < j; k++) {
        ld s = 0;
        for (i = 0; i < A->r; i++) s += LM(A, i, k) * LM(A, i, j);
        for (i = 0; i < A->r; i++) LM(A, i, j) -= s * LM(A, i, k);
      }
    for (i = 0; i < A->r; i++) nr += LM(A, i, j) * LM(A, i, j);
    nr = sqrtl(nr);
    if (nr < 1e-6L) return 0;
    for (i = 0; i < A->r; i++) LM(A, i, j) /= nr;
  }
  return 1;
}

static const double NOISE_LEVELS[5] = { 0.0, 1e-6, 1e-2, 1.0, 10.0 };

/* X (n x p, full column rank after the reference preprocessing, condition number <= kmax) and
   Y = X_pre B + noise (ny responses, correlated / differently scaled, distinct offsets) */
static void gen_case(vh_ctx *c, gcase *g, size_t pmax, size_t nymax, double kmax)
{
  size_t n, p, ny, i, j, k;
  int pair = (int)(c->idx % 49), xs = pair / 7 - 1, ys = pair % 7 - 1, centred = xs >= 0;
  ldm *U, *Q, *Z, *Us = NULL;
  ld *s, *sv;
  double ktarget, base, width, ratio;

  memset(g, 0, sizeof *g);
  g->xs = xs; g->ys = ys;
  g->regime = (int)vh_int(c, 0, 3);
  n = (size_t)vh_int(c, 6, 40);
  if (g->regime == 0) { size_t hi = n / 2 < pmax ? n / 2 : pmax; p = (size_t)vh_int(c, 1, (long)hi); }                 /* tall */
  else if (g->regime == 1) {                                                                                       /* as wide as the rank allows */
    size_t lim;
    n = (size_t)vh_int(c, 6, (long)pmax + 3);
    lim = (centred ? n - 1 : n) - (size_t)vh_int(c, 0, 1);
    p = lim < pmax ? lim : pmax;
  }
  else if (g->regime == 2) p = (size_t)vh_int(c, 1, 2);                                                              /* one or two predictors */
  else { size_t hi = n - 2 < pmax ? n - 2 : pmax; p = (size_t)vh_int(c, 1, (long)hi); }
  { double r = vh_unif(c); ny = r < 0.35 ? 1 : r < 0.6 ? 2 : r < 0.8 ? 3 : 4; if (ny > nymax) ny = nymax; }
  g->n = n; g->p = p; g->ny = ny;

  /* ---- X = loc + (U diag(s) Q') D ---- */
  U = ldm_new(n, p);
  for (i = 0; i < n * p; i++) U->a[i] = vh_gauss(c);
  if (centred) for (j = 0; j < p; j++) { ld m = 0; for (i = 0; i < n; i++) m += LM(U, i, j); m /= n; for (i = 0; i < n; i++) LM(U, i, j) -= m; }
  if (!mgs_cols(U)) { g->skip = "degenerate gaussian basis"; ldm_free(U); return; }
  Q = ldm_new(p, p);
  or_random_orthogonal(Q, gauss_cb, c);
  s = calloc(p, sizeof(ld));
  ktarget = vh_logunif(c, 0.0, log10(kmax) - 0.7);
  for (k = 0; k < p; k++) s[k] = (ld)(pow(ktarget, p > 1 ? -(double)k / (double)(p - 1) : 0.0) * vh_range(c, 0.8, 1.25));
  /* orthogonal design (X_pre'X_pre ~ c I for most scalings): the PLS sequence is complete after one latent variable,
     the following ones have nothing left to model although nlv <= rank */
  g->ortho = (p >= 2 && vh_coin(c, 0.04));
  if (g->ortho) for (k = 0; k < p; k++) s[k] = 1;
  Z = ldm_new(n, p);
  for (i = 0; i < n; i++) for (j = 0; j < p; j++) { ld a = 0; for (k = 0; k < p; k++) a += LM(U, i, k) * s[k] * LM(Q, j, k); LM(Z, i, j) = a; }
  base = vh_range(c, -1.0, 1.0);
  width = (xs == 1 || xs == 2 || xs == 4) ? vh_range(c, 0.0, 3.0) : vh_range(c, 0.0, 1.0);
  if (g->ortho && xs != 1) width = 0;
  ratio = vh_logunif(c, -0.5, 1.5);
  g->icpt = (xs == -1 && p >= 2 && vh_coin(c, 0.15));
  NewMatrix(&g->mx, n, p);
  for (j = 0; j < p; j++) {
    ld nz = 0; double target, sdj, loc;
    for (k = 0; k < p; k++) nz += s[k] * s[k] * LM(Q, j, k) * LM(Q, j, k);
    sdj = (double)sqrtl(nz / (ld)(n - 1));
    target = pow(10.0, base + width * vh_unif(c));
    if (target < 0.08) target = 0.08;
    if (xs == 2 || xs == 5) loc = (vh_coin(c, 0.5) ? 1 : -1) * target * ratio * vh_range(c, 0.7, 1.4);   /* similar mean/spread ratio per column */
    else if (xs == -1) loc = vh_coin(c, 0.4) ? 0.0 : vh_range(c, -2.0, 2.0) * target;
    else loc = vh_coin(c, 0.25) ? 0.0 : (vh_coin(c, 0.5) ? 1 : -1) * target * vh_logunif(c, -1.0, 2.0);
    if (xs == 5 && fabs(loc) < 0.1) loc = loc < 0 ? -0.1 : 0.1;
    for (i = 0; i < n; i++) g->mx->data[i][j] = loc + (double)LM(Z, i, j) * target / sdj;
    if (g->icpt && j == 0) { double c0 = (vh_coin(c, 0.5) ? 1 : -1) * vh_logunif(c, -0.5, 1.0); for (i = 0; i < n; i++) g->mx->data[i][0] = c0; }
  }
  ldm_free(U); ldm_free(Q); ldm_free(Z); free(s);
  /* disparate units (second build session, side PRNG stream): an unscaled X block in units 1e4..1e7 next to responses of ordinary size makes the
     inner-relation coefficients b_k ~ |y|/|t| as small as 1e-9: nothing in the property bounds the units of X */
  {
    vh_ctx cc = *c; cc.s[1] ^= 0xA0761D6478BD642FULL; cc.s[3] += 0x77ULL; (void)vh_u64(&cc); (void)vh_u64(&cc);
    if ((xs == -1 || xs == 0) && vh_coin(&cc, 0.12)) { double f = pow(10.0, vh_range(&cc, 4.0, 7.0)); for (i = 0; i < n; i++) for (j = 0; j < p; j++) g->mx->data[i][j] *= f; vh_obs("cases_with_large_unit_x_block", 1); }
  }

  g->X = ldm_of_matrix(g->mx);
  g->xm = calloc(p + 1, sizeof(ld)); g->xsc = calloc(p + 1, sizeof(ld));
  g->Xp = ldm_new(n, p);
  or_preprocess_fit(g->X, xs, g->xm, g->xsc, &g->nxm, &g->nxsc, g->Xp);
  for (j = 0; j < p; j++) {
    ld sd, sum = 0;
    or_col_stats(g->X, j, NULL, &sd, NULL, NULL, NULL, NULL);
    for (i = 0; i < n; i++) sum += LM(g->X, i, j);
    if (xs >= 0 && sd < 0.05L) g->skip = "x column spread below 0.05";
    if (xs >= 1 && fabsl(g->xsc[j]) < 0.05L) g->skip = "x scaling value below 0.05";
    if (xs >= 0 && fabsl(sum) < 1e-4L && fabsl(sum) > 1e-11L * sd) g->skip = "x column sum within the library's zero-mean snap window";
  }
  sv = calloc(p, sizeof(ld));
  Us = ldm_new(n, p);
  or_svd(g->Xp, sv, Us, NULL);
  g->kappa = sv[p - 1] > 0 ? sv[0] / sv[p - 1] : INFINITY;
  g->smin = sv[p - 1];
  if (!(g->kappa <= (ld)kmax)) g->skip = "condition number of preprocessed X above the limit";

  /* ---- Y ---- */
  {
    ldm *S = ldm_new(n, ny);
    double r = vh_unif(c);
    g->noise = NOISE_LEVELS[r < 0.15 ? 0 : r < 0.3 ? 1 : r < 0.6 ? 2 : r < 0.85 ? 3 : 4];
    g->lowdim = (p >= 3 && g->noise > 0 && vh_coin(c, 0.15));
    /* a first response without any information about X (orthogonal to the columns of X_pre and to the constant), given the
       largest spread so that NIPALS starts from it; the other responses are ordinary */
    g->yorth = (ny >= 2 && n >= p + 4 && vh_coin(c, 0.04));
    g->corr = (ny > 1 && !g->yorth && vh_coin(c, 0.4));
    if (g->lowdim) {
      size_t rdim = (size_t)vh_int(c, 1, (long)p - 1);
      for (j = 0; j < ny; j++) for (k = 0; k < rdim; k++) { ld co = vh_gauss(c); for (i = 0; i < n; i++) LM(S, i, j) += co * LM(Us, i, k); }
    } else {
      for (j = 0; j < ny; j++) for (k = 0; k < p; k++) { ld co = vh_gauss(c); for (i = 0; i < n; i++) LM(S, i, j) += co * LM(g->Xp, i, k); }
    }
    for (j = 0; j < ny; j++) {      /* unit spread signal + noise */
      ld m = 0, v = 0;
      for (i = 0; i < n; i++) m += LM(S, i, j);
      m /= n;
      for (i = 0; i < n; i++) v += (LM(S, i, j) - m) * (LM(S, i, j) - m);
      v = sqrtl(v / (n - 1));
      if (v < 1e-9L) { g->skip = "signal without spread"; v = 1; }
      for (i = 0; i < n; i++) LM(S, i, j) = LM(S, i, j) / v + (ld)(g->noise * vh_gauss(c));
    }
    if (g->yorth) {
      ld *v = calloc(n, sizeof(ld)); int pass;
      for (i = 0; i < n; i++) v[i] = vh_gauss(c);
      for (pass = 0; pass < 3; pass++) {
        ld m = 0;
        for (i = 0; i < n; i++) m += v[i];
        m /= n;
        for (i = 0; i < n; i++) v[i] -= m;
        for (k = 0; k < p; k++) { ld d = 0; for (i = 0; i < n; i++) d += v[i] * LM(Us, i, k); for (i = 0; i < n; i++) v[i] -= d * LM(Us, i, k); }
      }
      g->yorth_col = (size_t)vh_int(c, 0, (long)ny - 1);      /* the uninformative dominant response may sit at any index */
      for (i = 0; i < n; i++) LM(S, i, g->yorth_col) = v[i];
      free(v);
    }
    if (g->corr) for (j = 1; j < ny; j++) { double sg = vh_coin(c, 0.5) ? 1 : -1, own = vh_range(c, 0.05, 0.5); for (i = 0; i < n; i++) LM(S, i, j) = sg * LM(S, i, 0) + own * LM(S, i, j); }
    NewMatrix(&g->my, n, ny);
    {
      int shift = (ys == 5 || vh_coin(c, 0.3));
      for (j = 0; j < ny; j++) {
        ld m = 0, v = 0; double unit = vh_logunif(c, -1.0, 2.5), off = 100.0 * (double)(j + (shift ? 1 : 0));
        /* a response of ordinary spread whose mean is small but not zero (2e-4..8e-4; third seeded wave, side PRNG stream): the column sum is
           far outside the library's documented 1e-6 zero-snap, so the mean must be removed like any other */
        { vh_ctx cc = *c; cc.s[3] ^= 0x6A09E667F3BCC909ULL + (uint64_t)j; (void)vh_u64(&cc); (void)vh_u64(&cc); if (ys != 5 && vh_coin(&cc, 0.1)) { off = (vh_coin(&cc, 0.5) ? 1 : -1) * vh_range(&cc, 2e-4, 8e-4); vh_obs("responses_with_a_small_nonzero_mean", 1); } }
        if (unit < 0.1) unit = 0.1;
        if (g->yorth) unit = j == g->yorth_col ? 400.0 : unit > 100.0 ? 100.0 : unit;
        for (i = 0; i < n; i++) m += LM(S, i, j);
        m /= n;
        for (i = 0; i < n; i++) v += (LM(S, i, j) - m) * (LM(S, i, j) - m);
        v = sqrtl(v / (n - 1));
        if (v < 1e-9L) { g->skip = "response without spread"; v = 1; }
        for (i = 0; i < n; i++) g->my->data[i][j] = off + (double)((LM(S, i, j) - m) / v) * unit;
      }
    }
    ldm_free(S);
  }
  ldm_free(Us); free(sv);
  g->Y = ldm_of_matrix(g->my);
  g->ym = calloc(ny + 1, sizeof(ld)); g->ysc = calloc(ny + 1, sizeof(ld));
  g->Yp = ldm_new(n, ny);
  or_preprocess_fit(g->Y, ys, g->ym, g->ysc, &g->nym, &g->nysc, g->Yp);
  for (j = 0; j < ny; j++) {
    ld sd, sum = 0;
    or_col_stats(g->Y, j, NULL, &sd, NULL, NULL, NULL, NULL);
    for (i = 0; i < n; i++) sum += LM(g->Y, i, j);
    if (sd < 0.05L) g->skip = "response spread below 0.05";
    if (ys >= 1 && fabsl(g->ysc[j]) < 0.05L) g->skip = "y scaling value below 0.05";
    if (ys >= 0 && fabsl(sum) < 1e-4L && fabsl(sum) > 1e-11L * sd) g->skip = "y column sum within the library's zero-mean snap window";
  }
}

/* GEN-END */

static int shape_is(matrix *m, size_t r, size_t cc) { return m->row == r && m->col == cc; }

static ld colnorm(matrix *m, size_t k) { ld s = 0; size_t i; for (i = 0; i < m->row; i++) s += (ld)m->data[i][k] * m->data[i][k]; return sqrtl(s); }

static PLSMODEL *fit_pls(matrix *mx, matrix *my, size_t nlv, int xs, int ys)
{
  PLSMODEL *m;
  NewPLSModel(&m);
  PLS(mx, my, nlv, xs, ys, m, NULL);
  return m;
}

static int model_ok(vh_ctx *c, PLSMODEL *m, size_t n, size_t p, size_t ny, size_t nlv, const char *tag)
{
  size_t k; int fin; char key[96];
  if (!shape_is(m->xscores, n, nlv) || !shape_is(m->xloadings, p, nlv) || !shape_is(m->xweights, p, nlv) || !shape_is(m->yscores, n, nlv) ||
      !shape_is(m->yloadings, ny, nlv) || m->b->size != nlv || !shape_is(m->recalculated_y, n, ny * nlv)) {
    snprintf(key, sizeof key, "PLS|shape%s", tag);
    vh_fail(c, key, "T %zux%zu P %zux%zu W %zux%zu U %zux%zu Q %zux%zu b %zu recalc %zux%zu for n=%zu p=%zu ny=%zu nlv=%zu",
            m->xscores->row, m->xscores->col, m->xloadings->row, m->xloadings->col, m->xweights->row, m->xweights->col, m->yscores->row, m->yscores->col,
            m->yloadings->row, m->yloadings->col, m->b->size, m->recalculated_y->row, m->recalculated_y->col, n, p, ny, nlv);
    return 0;
  }
  fin = matrix_all_finite(m->xscores) && matrix_all_finite(m->xloadings) && matrix_all_finite(m->xweights) && matrix_all_finite(m->yscores) &&
        matrix_all_finite(m->yloadings) && matrix_all_finite(m->recalculated_y);
  for (k = 0; k < nlv; k++) if (!isfinite(m->b->data[k])) fin = 0;
  if (!fin) { snprintf(key, sizeof key, "PLS|non-finite%s", tag); vh_fail(c, key, "non-finite model field with nlv <= rank"); return 0; }
  return 1;
}

static void run_case(vh_ctx *c)
{
  gcase g;
  size_t n, p, ny, nlv, nreal, nf, i, j, k, a;
  libsci_verif_nprocs = (c->idx & 1) ? 1 : 0;      /* the machine may report a single processor (H1): PLS must not care */
  PLSMODEL *m = NULL;
  matrix *mx0, *my0, *mxf = NULL;
  ldm *E = NULL;
  ld SX = 0, *SY = NULL, *SYp = NULL, *sdy = NULL, *tn = NULL, *wn = NULL, *ampT = NULL, *ampW = NULL, *rss = NULL, *tss = NULL;
  int noise_idx;

  gen_case(c, &g, 10, 3, 1e3);
  n = g.n; p = g.p; ny = g.ny;
  for (noise_idx = 0; noise_idx < 4 && NOISE_LEVELS[noise_idx] != g.noise; noise_idx++) ;
  vh_class(c, "n%s-p%s-ny%zu-xs%d-ys%d-noise%d", n < 10 ? "6-9" : n < 20 ? "10-19" : "20-40", p == 1 ? "1" : p < 5 ? "2-4" : "5-10", ny, g.xs, g.ys, noise_idx);
  vh_desc(c, "rows=%zu cols=%zu responses=%zu xscaling=%d yscaling=%d regime=%d noise=%g corr=%d lowdim=%d intercept_col=%d orthogonal_design=%d uninformative_first_response=%d kappa=%.3Lg",
          n, p, ny, g.xs, g.ys, g.regime, g.noise, g.corr, g.lowdim, g.icpt, g.ortho, g.yorth, g.kappa);
  if (g.skip) { vh_skip(c, "%s", g.skip); gcase_free(&g); return; }
  nlv = vh_coin(c, 0.7) ? p : (size_t)vh_int(c, 1, (long)p);
  { char base[160]; snprintf(base, sizeof base, "%s", c->cls); vh_class(c, "%s-nlv%s", base, nlv == p ? "=rank" : "<rank"); }
  vh_desc(c, " nlv=%zu x00=%.17g y00=%.17g", nlv, g.mx->data[0][0], g.my->data[0][0]);
  mx0 = matrix_dup(g.mx); my0 = matrix_dup(g.my);
  /* unseen objects: column mean + f * spread * gauss, f in {0.5, 1, 3} (interpolating to extrapolating) */
  nf = (size_t)vh_int(c, 1, 6);
  NewMatrix(&mxf, nf, p);
  for (i = 0; i < nf; i++) {
    double f = i % 3 == 0 ? 1.0 : i % 3 == 1 ? 0.5 : 3.0;
    for (j = 0; j < p; j++) { ld mu, sd; or_col_stats(g.X, j, &mu, &sd, NULL, NULL, NULL, NULL); mxf->data[i][j] = (double)mu + f * (double)sd * vh_gauss(c); }
  }

  drv_ticks_begin();
  m = fit_pls(g.mx, g.my, nlv, g.xs, g.ys);
  drv_ticks_end("nipals_iters_per_lv_log2", nlv);
  libsci_verif_tick_hook = NULL;
  vh_obs("models_fitted", 1);
  vh_hist("scaling_pair_xs_ys", (long)((g.xs + 1) * 7 + (g.ys + 1)));
  vh_hist("noise_level", noise_idx);
  vh_hist("responses", (long)ny);
  if (matrix_maxdiff(g.mx, mx0) != 0 || matrix_maxdiff(g.my, my0) != 0) vh_fail(c, "PLS|input-modified", "PLS changed an input matrix");
  if (!model_ok(c, m, n, p, ny, nlv, "")) goto out;

  /* ---- scales ---- */
  for (i = 0; i < n; i++) for (j = 0; j < p; j++) {
    ld sc = g.nxsc ? fabsl(g.xsc[j]) : 1, v = (fabsl(LM(g.X, i, j)) + (g.nxm ? fabsl(g.xm[j]) : 0)) / sc;
    SX += v * v;
  }
  SX = sqrtl(SX);
  SY = calloc(ny, sizeof(ld)); SYp = calloc(ny, sizeof(ld)); sdy = calloc(ny, sizeof(ld)); tss = calloc(ny, sizeof(ld));
  for (j = 0; j < ny; j++) {
    ld sc = g.nysc ? fabsl(g.ysc[j]) : 1, mu = g.nym ? fabsl(g.ym[j]) : 0, mean, s2 = 0;
    or_col_stats(g.Y, j, &mean, &sdy[j], NULL, NULL, NULL, NULL);
    for (i = 0; i < n; i++) {
      ld v = fabsl(LM(g.Y, i, j));
      if (v + mu > SY[j]) SY[j] = v + mu;
      s2 += ((v + mu) / sc) * ((v + mu) / sc);
      tss[j] += (LM(g.Y, i, j) - mean) * (LM(g.Y, i, j) - mean);
    }
    SYp[j] = sqrtl(s2);
  }
  tn = calloc(nlv, sizeof(ld)); wn = calloc(nlv, sizeof(ld)); ampT = calloc(nlv, sizeof(ld)); ampW = calloc(nlv, sizeof(ld));
  for (k = 0; k < nlv; k++) { tn[k] = colnorm(m->xscores, k); wn[k] = colnorm(m->xweights, k); }
  /* null latent variables (t = w = 0, b = 0): the library's "nothing left to model"; they add nothing to any prediction, so
     every clause below still applies - in particular the OLS limit decides whether giving up was right */
  nreal = nlv;
  for (k = 0; k < nlv; k++) {
    if (tn[k] == 0 && wn[k] == 0 && m->b->data[k] == 0) { if (nreal == nlv) nreal = k; vh_obs("null_latent_variables", 1); continue; }
    if (!(tn[k] > 0) || !(wn[k] > 0) || nreal != nlv) { vh_fail(c, "PLS|zero-component", "LV %zu has |t|=%.3Lg |w|=%.3Lg b=%.3g (first null LV: %zu) with nlv <= rank", k + 1, tn[k], wn[k], m->b->data[k], nreal + 1); goto out; }
  }
  /* amplification factors from a long-double replay of the deflation (see c03.c): score direction SX|w|/|t|, weight direction SX|u|/|E'u| */
  E = ldm_copy(g.Xp);
  for (k = 0; k < nlv; k++) {
    ld eun = 0, un = colnorm(m->yscores, k);
    for (j = 0; j < p; j++) { ld s = 0; for (i = 0; i < n; i++) s += LM(E, i, j) * m->yscores->data[i][k]; eun += s * s; }
    ampW[k] = k < nreal ? SX * un / (sqrtl(eun) + 1e-300L) : INFINITY;
    ampT[k] = k < nreal ? SX * wn[k] / tn[k] : SX / g.smin;
    if (ampT[k] > SX / g.smin) ampT[k] = SX / g.smin;   /* |E_{k-1} w|/|w| >= sigma_min(X_pre) by interlacing */
    if (k) { if (ampW[k - 1] > ampW[k]) ampW[k] = ampW[k - 1]; if (ampT[k - 1] > ampT[k]) ampT[k] = ampT[k - 1]; }   /* cumulative maxima */
    for (i = 0; i < n; i++) for (j = 0; j < p; j++) LM(E, i, j) -= (ld)m->xscores->data[i][k] * m->xloadings->data[j][k];
  }

  if (getenv("C04_TRACE")) {
    for (k = 0; k < nlv; k++) {
      fprintf(stderr, "LV %zu |t|=%.3Lg |w|=%.3Lg b=%.3g |u|=%.3Lg q=", k + 1, tn[k], wn[k], m->b->data[k], colnorm(m->yscores, k));
      for (j = 0; j < ny; j++) fprintf(stderr, "%.3g ", m->yloadings->data[j][k]);
      fprintf(stderr, " cos(t,prev)=");
      for (i = 0; i < k; i++) { ld d = 0; size_t r; for (r = 0; r < n; r++) d += (ld)m->xscores->data[r][i] * m->xscores->data[r][k]; fprintf(stderr, "%.2Lg ", d / (tn[i] * tn[k])); }
      fprintf(stderr, "\n");
    }
  }
  /* ---- (A) inner relation b_k = u_k't_k/t_k't_k; (B) b_k q_jk = t_k'Y_pre_j/t_k't_k ---- */
  for (k = 0; k < nreal; k++) {
    ld ut = 0, un = colnorm(m->yscores, k), d, unit;
    for (i = 0; i < n; i++) ut += (ld)m->yscores->data[i][k] * m->xscores->data[i][k];
    d = fabsl(ut / (tn[k] * tn[k]) - m->b->data[k]);
    unit = EPS * (un / tn[k] + fabsl((ld)m->b->data[k]));
    vh_max("max_b_vs_utt_over_eps_scale", (double)(d / unit));
    if (d > 1e4 * unit) vh_fail(c, "PLS|inner-relation-b", "LV %zu: b = %.17g but u't/t't = %.17Lg", k + 1, m->b->data[k], ut / (tn[k] * tn[k]));
    for (j = 0; j < ny; j++) {
      ld ty = 0;
      for (i = 0; i < n; i++) ty += (ld)m->xscores->data[i][k] * LM(g.Yp, i, j);
      d = fabsl(ty / (tn[k] * tn[k]) - (ld)m->b->data[k] * m->yloadings->data[j][k]);
      unit = EPS * SYp[j] / tn[k] * (1 + ampT[k]);
      vh_max("max_bq_vs_regression_on_score_over_eps_amp", (double)(d / unit));
      if (d > 1e4 * unit) vh_fail(c, "PLS|lv-is-least-squares-on-score", "LV %zu response %zu: b q = %.17Lg but t'y_pre/t't = %.17Lg (|y_pre|/|t| = %.3Lg, amplification %.3Lg)",
                                  k + 1, j, (ld)m->b->data[k] * m->yloadings->data[j][k], ty / (tn[k] * tn[k]), SYp[j] / tn[k], ampT[k]);
    }
  }

  /* ---- (C) RSS non-increasing, (D) R2 definition and monotonicity ---- */
  rss = calloc((nlv + 1) * ny, sizeof(ld));
  for (j = 0; j < ny; j++) {
    for (i = 0; i < n; i++) { ld r0 = g.nym ? LM(g.Y, i, j) - g.ym[j] : LM(g.Y, i, j); rss[j] += r0 * r0; }
    for (a = 1; a <= nlv; a++) for (i = 0; i < n; i++) { ld r = (ld)m->recalculated_y->data[i][ny * (a - 1) + j] - LM(g.Y, i, j); rss[a * ny + j] += r * r; }
    for (a = 1; a <= nlv; a++) {
      ld inc = rss[a * ny + j] - rss[(a - 1) * ny + j];
      ld unit = EPS * SY[j] * sqrtl((ld)n) * (sqrtl(rss[(a - 1) * ny + j]) + EPS * SY[j] * sqrtl((ld)n));
      vh_max("max_rss_increase_over_eps_scale", (double)(inc / unit));
      if (inc > 1e4 * unit) vh_fail(c, "PLS|rss-increases", "response %zu: RSS with %zu LVs = %.17Lg > RSS with %zu LVs = %.17Lg", j, a, rss[a * ny + j], a - 1, rss[(a - 1) * ny + j]);
      vh_obs("rss_steps_checked", 1);
    }
  }
  {
    matrix *cc, *rm, *bi;
    initMatrix(&cc); initMatrix(&rm); initMatrix(&bi);
    PLSRegressionStatistics(g.my, m->recalculated_y, cc, rm, bi);
    if (!shape_is(cc, nlv, ny)) vh_fail(c, "PLSRegressionStatistics|shape", "ccoeff %zux%zu for nlv=%zu ny=%zu", cc->row, cc->col, nlv, ny);
    else for (j = 0; j < ny; j++) {
      ld cond = SY[j] / sdy[j] + (ld)n;
      for (a = 1; a <= nlv; a++) {
        ld ref = 1 - rss[a * ny + j] / tss[j], d = fabsl(ref - cc->data[a - 1][j]), unit = EPS * cond * (1 + rss[a * ny + j] / tss[j]);
        vh_max("max_r2_vs_definition_over_eps_scale", (double)(d / unit));
        if (!(d <= 1e4 * unit)) vh_fail(c, "PLSRegressionStatistics|r2-definition", "response %zu, %zu LVs: R2 = %.17g but 1 - RSS/TSS = %.17Lg", j, a, cc->data[a - 1][j], ref);
        if (a > 1) {
          ld dec = (ld)cc->data[a - 2][j] - cc->data[a - 1][j];
          unit = EPS * cond * (1 + rss[(a - 1) * ny + j] / tss[j]);
          vh_max("max_r2_decrease_over_eps_scale", (double)(dec / unit));
          if (!(dec <= 1e4 * unit)) vh_fail(c, "PLSRegressionStatistics|r2-decreases", "response %zu: R2(%zu LVs) = %.17g < R2(%zu LVs) = %.17g", j, a, cc->data[a - 1][j], a - 1, cc->data[a - 2][j]);
        }
        if (g.ys >= 0 && !(cc->data[a - 1][j] <= 1 + 1e4 * (double)unit)) vh_fail(c, "PLSRegressionStatistics|r2-above-one", "response %zu, %zu LVs: R2 = %.17g", j, a, cc->data[a - 1][j]);
      }
    }
    DelMatrix(&cc); DelMatrix(&rm); DelMatrix(&bi);
  }
  if (matrix_maxdiff(g.my, my0) != 0) vh_fail(c, "PLSRegressionStatistics|input-modified", "PLSRegressionStatistics changed the true responses");

  /* ---- (E) OLS limit at nlv = rank ---- */
  if (nlv == p) {
    ldm *B = or_lstsq(g.Xp, g.Yp);
    if (!B) vh_obs("ols_reference_unavailable", 1);
    else {
      for (j = 0; j < ny; j++) {
        ld sc = g.nysc ? g.ysc[j] : 1, mu = g.nym ? g.ym[j] : 0, worst = 0;
        for (i = 0; i < n; i++) {
          ld f = 0, d;
          for (k = 0; k < p; k++) f += LM(g.Xp, i, k) * LM(B, k, j);
          d = fabsl(f * sc + mu - m->recalculated_y->data[i][ny * (p - 1) + j]);
          if (!(d <= worst)) worst = d;
        }
        {
          /* fit = sum_k t_k t_k'Y/t_k't_k is the projector on span(X_pre) up to the loss of orthogonality of T (cosines ~ eps * ampT).
             When the library stopped early (null latent variables) its documented rule is |X_k'Y_k| <= 1e-12 |X_k| |Y_k|: the part of Y_k
             still inside span(X_k) is then at most 1e-12 |X_k| |Y_k| / sigma_min(X_pre), in response units times |scale_j| */
          ld tol = 1e4 * EPS * SY[j] * (1 + ampT[p - 1]), stop = 1e-12L * (ldm_frob(g.Xp) / g.smin) * ldm_frob(g.Yp) * fabsl(sc);
          if (nreal < nlv) { tol += 100 * stop; vh_max("max_ols_limit_after_early_stop_over_stopping_rule", (double)(worst / stop)); vh_obs("ols_limit_columns_after_early_stop", 1); }
          else vh_max("max_ols_limit_over_eps_scale_ampT", (double)(worst / (EPS * SY[j] * (1 + ampT[p - 1]))));
          vh_max("max_ols_limit_rel", (double)(worst / SY[j]));
          if (!(worst <= tol)) vh_fail(c, "PLS|ols-limit", "response %zu: max |PLS fit with nlv=rank=%zu - OLS fit| = %.3Lg (scale %.3Lg, kappa %.3Lg, amplification %.3Lg, real LVs %zu, tolerance %.3Lg)", j, p, worst, SY[j], g.kappa, ampT[p - 1], nreal, tol);
        }
        vh_obs("ols_limit_columns_checked", 1);
      }
      ldm_free(B);
    }
  }
  vh_obs("models_judged", 1);
  if (ny > 1) vh_obs("multi_response_models", 1);

  /* ---- (F) one response: coefficient form = score-based predictor, training and unseen rows ---- */
  if (ny == 1) {
    ld sc = g.nysc ? g.ysc[0] : 1, mu = g.nym ? g.ym[0] : 0;
    for (a = 1; a <= nlv; a++) {
      dvector *bet; ldm *PW = ldm_new(a, a), *inv = NULL; ld wf = 0, bf = 0, invf = 0, pwf, amp; int set;
      /* the coefficient vector in three states: empty, stale with the right length (a vector reused for a = 1, 2, ...), stale with another length */
      { unsigned how = (unsigned)((c->idx + (long)a) % 3); size_t z; if (how == 0) initDVector(&bet); else { NewDVector(&bet, how == 1 ? p : p + 2); for (z = 0; z < bet->size; z++) bet->data[z] = 3.5 - (double)z; vh_obs(how == 1 ? "betas_output_stale_same_length" : "betas_output_stale_other_length", 1); } }
      PLSBetasCoeff(m, a, bet);
      if (bet->size != p) { vh_fail(c, "PLSBetasCoeff|size", "%zu coefficients for %zu variables", bet->size, p); DelDVector(&bet); ldm_free(PW); break; }
      /* null latent variables contribute nothing: the coefficient form is W_r (P_r'W_r)^-1 b_r over the real ones (identity block otherwise) */
      for (i = 0; i < a; i++) for (j = 0; j < a; j++) {
        ld s = 0;
        for (k = 0; k < p; k++) s += (ld)m->xloadings->data[k][i] * m->xweights->data[k][j];
        LM(PW, i, j) = (i < nreal && j < nreal) ? s : (i == j ? 1 : 0);
      }
      if (a > nreal) vh_obs("beta_requests_spanning_null_lvs", 1);
      for (k = 0; k < p; k++) for (j = 0; j < a; j++) wf += (ld)m->xweights->data[k][j] * m->xweights->data[k][j];
      for (j = 0; j < a; j++) bf += (ld)m->b->data[j] * m->b->data[j];
      wf = sqrtl(wf); bf = sqrtl(bf); pwf = ldm_frob(PW);
      if (!or_lu_inverse(PW, &inv)) { vh_obs("pw_singular_in_oracle", 1); DelDVector(&bet); ldm_free(PW); continue; }
      invf = ldm_frob(inv);
      amp = wf * invf * bf * (1 + pwf * invf);        /* forward error bound of W (P'W)^-1 b with an inverse computed in double */
      {
        ld worst = 0;
        for (k = 0; k < p; k++) {
          ld s = 0, d;
          for (i = 0; i < a; i++) for (j = 0; j < a; j++) s += (ld)m->xweights->data[k][i] * LM(inv, i, j) * m->b->data[j];
          d = fabsl(s - bet->data[k]);
          if (!(d <= worst)) worst = d;
        }
        vh_max("max_betas_vs_formula_over_eps_amp", (double)(worst / (EPS * amp)));
        if (!(worst <= 1e4 * EPS * amp)) vh_fail(c, "PLSBetasCoeff|formula", "%zu LVs: max |beta - W (P'W)^-1 b| = %.3Lg (|W||inv||b| cond = %.3Lg)", a, worst, amp);
      }
      for (set = 0; set < 2; set++) {
        matrix *rows = set ? mxf : g.mx, *ts, *yp; ld worst = 0, wunit = 1; size_t nr = rows->row;
        initMatrix(&ts); initMatrix(&yp);
        PLSScorePredictor(rows, m, a, ts);
        PLSYPredictor(ts, m, a, yp);
        if (!shape_is(yp, nr, 1)) vh_fail(c, "PLSYPredictor|shape", "%zux%zu for %zu rows, one response", yp->row, yp->col, nr);
        else for (i = 0; i < nr; i++) {
          ld s = 0, xn = 0, d, unit;
          for (k = 0; k < p; k++) {
            ld xp = g.nxm ? ((ld)rows->data[i][k] - g.xm[k]) / g.xsc[k] : (ld)rows->data[i][k];
            ld xa = g.nxm ? (fabsl((ld)rows->data[i][k]) + fabsl(g.xm[k])) / fabsl(g.xsc[k]) : fabsl((ld)rows->data[i][k]);
            s += xp * bet->data[k]; xn += xa * xa;
          }
          d = fabsl(s * sc + mu - yp->data[i][0]);
          unit = EPS * (fabsl(sc) * sqrtl(xn) * amp + SY[0] + fabsl(s * sc));     /* SY: the response data carry eps * (max|y| + |mean|) themselves */
          if (!(d / unit <= worst)) { worst = d / unit; wunit = unit; }
        }
        vh_max(set ? "max_beta_vs_score_prediction_unseen_over_eps_amp" : "max_beta_vs_score_prediction_training_over_eps_amp", (double)worst);
        if (!(worst <= 1e4)) vh_fail(c, set ? "PLSBetasCoeff|prediction-unseen" : "PLSBetasCoeff|prediction-training",
                                     "%zu LVs: x_pre.beta (back-transformed) differs from the score-based prediction by %.3Lg (rounding unit %.3Lg)", a, worst * wunit, wunit);
        DelMatrix(&ts); DelMatrix(&yp);
        vh_obs(set ? "beta_predictions_unseen" : "beta_predictions_training", 1);
      }
      DelDVector(&bet); ldm_free(PW); ldm_free(inv);
    }
  }

  /* ---- (G) one centred response: y -> c y + d ---- */
  if (ny == 1 && g.ys >= 0) {
    double cc = (vh_coin(c, 0.5) ? 1 : -1) * vh_logunif(c, -2.0, 2.0), dd = vh_coin(c, 0.2) ? 0.0 : (vh_coin(c, 0.5) ? 1 : -1) * vh_logunif(c, -1.0, 3.0);
    matrix *my2; ldm *Y2, *Y2p; ld m2[2], s2[2], sum = 0, sd2; size_t nm, ns; const char *why = NULL;
    if (fabs(cc) * (double)sdy[0] < 0.1) cc = (cc < 0 ? -1 : 1) * 0.1 / (double)sdy[0];
    NewMatrix(&my2, n, 1);
    for (i = 0; i < n; i++) my2->data[i][0] = cc * g.my->data[i][0] + dd;
    Y2 = ldm_of_matrix(my2); Y2p = ldm_new(n, 1);
    or_preprocess_fit(Y2, g.ys, m2, s2, &nm, &ns, Y2p);
    or_col_stats(Y2, 0, NULL, &sd2, NULL, NULL, NULL, NULL);
    for (i = 0; i < n; i++) sum += LM(Y2, i, 0);
    if (sd2 < 0.05L) why = "spread";
    if (g.ys >= 1 && fabsl(s2[0]) < 0.05L) why = "scaling value";
    if (fabsl(sum) < 1e-4L && fabsl(sum) > 1e-11L * sd2) why = "zero-mean snap window";
    if (why) vh_obs("affine_transform_outside_domain", 1);
    else {
      PLSMODEL *mb = fit_pls(g.mx, my2, nlv, g.xs, g.ys);
      if (model_ok(c, mb, n, p, 1, nlv, "-transformed-response")) {
        matrix *y1, *y2; ld S = fabsl((ld)cc) * SY[0] + fabsl((ld)dd);
        initMatrix(&y1); initMatrix(&y2);
        PLSYPredictorAllLV(mxf, m, NULL, y1);
        PLSYPredictorAllLV(mxf, mb, NULL, y2);
        for (a = 1; a <= nlv; a++) {
          ld amp = 1 + ampW[a - 1] * ampT[a - 1], worst = 0, worstf = 0, Sf = S;
          if (amp > 1e8L) { vh_obs("affine_lv_unjudged_amplification_above_1e8", 1); continue; }
          for (i = 0; i < n; i++) { ld d = fabsl((ld)cc * m->recalculated_y->data[i][a - 1] + dd - mb->recalculated_y->data[i][a - 1]); if (!(d <= worst)) worst = d; }
          if (shape_is(y1, nf, nlv) && shape_is(y2, nf, nlv)) for (i = 0; i < nf; i++) {
            ld d = fabsl((ld)cc * y1->data[i][a - 1] + dd - y2->data[i][a - 1]), v = fabsl((ld)cc * y1->data[i][a - 1]) + fabsl((ld)dd);
            if (v > Sf) Sf = v;
            if (!(d <= worstf)) worstf = d;
          }
          else { vh_fail(c, "PLSYPredictorAllLV|shape", "%zux%zu / %zux%zu for %zu rows, nlv %zu", y1->row, y1->col, y2->row, y2->col, nf, nlv); break; }
          vh_max("max_affine_training_over_eps_scale_amp", (double)(worst / (EPS * S * amp)));
          vh_max("max_affine_unseen_over_eps_scale_amp", (double)(worstf / (EPS * Sf * amp * 3)));
          if (!(worst <= 1e4 * EPS * S * amp)) vh_fail(c, "PLS|affine-equivariance-training", "%zu LVs, y -> %.6g y + %.6g: max |c yhat + d - yhat'| = %.3Lg (scale %.3Lg, amplification %.3Lg)", a, cc, dd, worst, S, amp);
          if (!(worstf <= 3e4 * EPS * Sf * amp)) vh_fail(c, "PLS|affine-equivariance-unseen", "%zu LVs, y -> %.6g y + %.6g: max |c yhat + d - yhat'| = %.3Lg on unseen rows (scale %.3Lg, amplification %.3Lg)", a, cc, dd, worstf, Sf, amp);
          vh_obs("affine_lv_checked", 1);
        }
        DelMatrix(&y1); DelMatrix(&y2);
      }
      DelPLSModel(&mb);
      vh_obs("affine_pairs", 1);
    }
    DelMatrix(&my2); ldm_free(Y2); ldm_free(Y2p);
  }
  if (matrix_maxdiff(g.mx, mx0) != 0) vh_fail(c, "PLS|input-modified-by-predictors", "a predictor changed the training matrix");
out:
  ldm_free(E);
  free(SY); free(SYp); free(sdy); free(tss); free(tn); free(wn); free(ampT); free(ampW); free(rss);
  if (m) DelPLSModel(&m);
  DelMatrix(&mx0); DelMatrix(&my0); DelMatrix(&mxf);
  gcase_free(&g);
}

const vh_driver VH_DRIVER = { "C04", ncases, run_case, NULL, 60 };
