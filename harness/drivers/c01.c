/* c01.c - C01: PCA is an exact orthogonal decomposition that accounts for all the variance.
 * Monitor: identity replay of the fitted model in long double against reference-preprocessed
 * data, variance bookkeeping, back-transform / re-projection, processor-count sweep (H1),
 * iteration counts (H3).  Runs in the asan build (and a smaller sweep in the tsan build). */
#include "drv_util.h"

#define PCACONVERGENCE_DOC 1e-10   /* the documented stopping threshold, not the macro of the tree under test */
static long ncases(int tier) { return vh_is_tsan() ? (tier ? 1500 : 160) : (tier ? 150000 : 3000); }

static const size_t NPROCS[] = { 2, 3, 5, 8, 24, 0 /* rows+3 */ };

static void fit(matrix *mx, int scaling, size_t npc, size_t nprocs, PCAMODEL **m)
{
  NewPCAModel(m);
  libsci_verif_nprocs = nprocs;
  PCA(mx, scaling, npc, *m, NULL);
  libsci_verif_nprocs = 1;
}

static void run_case(vh_ctx *c)
{
  size_t n = (size_t)vh_int(c, 2, 60), p = (size_t)vh_int(c, 1, 25), i, j, k, npc, rank;
  int shape = (int)vh_int(c, 0, 3), scaling = (int)vh_int(c, -1, 5);
  size_t nconst = 0, nmean, nscale, nprocs, npc2; double discarded_tail = 0;
  ldm *X, *T, *E;
  ld *mean, *scale, e0norm;
  matrix *mx, *mx_before, *ps, *back, *res;
  PCAMODEL *m, *m2;
  int bad_domain = 0;
  double tolv;

  if (shape == 0) { if (p > n) { size_t t = n; n = p < 2 ? 2 : p; p = t; } }        /* tall */
  else if (shape == 1) { if (n > p && n <= 25) { size_t t = n; n = p < 2 ? 2 : p; p = t; } }  /* wide when possible */
  else if (shape == 2) { p = n <= 25 ? n : p; }                                      /* square */
  X = ldm_new(n, p);
  for (j = 0; j < p; j++) {
    double loc = vh_coin(c, 0.3) ? 0.0 : vh_range(c, -1.0, 1.0) * vh_logunif(c, -1, 3);
    double sc = vh_logunif(c, -1.0, 3.0);
    int constant = p > 1 && vh_coin(c, 0.12);
    if (scaling == 5 && fabs(loc) < 0.1) loc = (vh_coin(c, 0.5) ? 1 : -1) * vh_range(c, 0.1, 50.0);
    if (constant) nconst++;
    for (i = 0; i < n; i++) LM(X, i, j) = constant ? (ld)loc : (ld)(loc + sc * vh_gauss(c));
  }
  /* second build session: two regimes in which the preprocessed data (or a late residual) is small in ABSOLUTE terms although the
     rank is full - nearly collinear columns, and columns far from the origin under RMS / level scaling (which divide by ~|location|) */
  {
  vh_ctx cc = *c;      /* a side stream: the draws of the older cases (and the recorded witness cases) stay what they were */
  cc.s[0] ^= 0x9E3779B97F4A7C15ULL; cc.s[1] += 0x1234567ULL; (void)vh_u64(&cc); (void)vh_u64(&cc);
  if (p >= 2 && n >= 4 && vh_coin(&cc, 0.08)) {
    size_t j1 = (size_t)vh_int(&cc, 0, (long)p - 1), j2 = (j1 + 1 + (size_t)vh_int(&cc, 0, (long)p - 2)) % p; ld a = vh_range(&cc, 0.5, 2.0) * (vh_coin(&cc, 0.5) ? 1 : -1), m1 = 0, sd1 = 0, del;
    for (i = 0; i < n; i++) { m1 += LM(X, i, j1); } m1 /= (ld)n;
    for (i = 0; i < n; i++) { sd1 += (LM(X, i, j1) - m1) * (LM(X, i, j1) - m1); } sd1 = sqrtl(sd1 / (ld)(n - 1));
    if (sd1 > 0) { del = sd1 * (ld)vh_logunif(&cc, -6, -3); for (i = 0; i < n; i++) LM(X, i, j2) = (scaling == 5 ? m1 : 0) + a * (LM(X, i, j1) - m1) + del * (ld)vh_gauss(&cc) + (scaling == 5 ? 0 : m1); vh_obs("cases_with_nearly_collinear_columns", 1); }
  }
  if ((scaling == 2 || scaling == 5) && vh_coin(&cc, 0.15)) {
    for (j = 0; j < p; j++) { ld far = (vh_coin(&cc, 0.5) ? 1 : -1) * (ld)vh_logunif(&cc, 3, 5), m1 = 0, sd1 = 0; for (i = 0; i < n; i++) { m1 += LM(X, i, j); } m1 /= (ld)n; for (i = 0; i < n; i++) { sd1 += (LM(X, i, j) - m1) * (LM(X, i, j) - m1); } sd1 = sqrtl(sd1 / (ld)(n > 1 ? n - 1 : 1));
      if (sd1 > 0) for (i = 0; i < n; i++) LM(X, i, j) += far * sd1 - m1; }
    vh_obs("cases_with_columns_far_from_the_origin", 1);
  }
  }
  mx = matrix_of_ldm(X);
  for (i = 0; i < n; i++) for (j = 0; j < p; j++) LM(X, i, j) = mx->data[i][j];   /* oracle sees the doubles the library sees */
  mx_before = matrix_dup(mx);
  mean = calloc(p + 1, sizeof(ld)); scale = calloc(p + 1, sizeof(ld));
  T = ldm_new(n, p);
  or_preprocess_fit(X, scaling, mean, scale, &nmean, &nscale, T);
  /* domain of the property: every column spread (and every stored scaling value) is exactly 0 or >= 0.02;
     we keep a margin (0.05) from the library's two zero guards */
  for (j = 0; j < p; j++) {
    ld sd; or_col_stats(X, j, NULL, &sd, NULL, NULL, NULL, NULL);
    if (sd != 0 && sd < 0.05L) bad_domain = 1;
    if (scaling >= 1 && scale[j] != 0 && fabsl(scale[j]) < 0.05L) bad_domain = 1;
    if (scaling == 5 && sd != 0 && fabsl(mean[j]) < 0.05L) bad_domain = 1;
  }
  rank = or_rank(T, 1e-9L);
  { /* what the numerical rank leaves out, in the units of the data: the singular values below 1e-9 sigma_1 are no component a caller asks for,
       but a back-transform of `rank` components legitimately misses them (thorough seed 31 case 84096: a nearly collinear pair beside a column
       with a level-scaled amplitude of 2e4) */
    size_t mn = n < p ? n : p; ld *sv = calloc(mn + 1, sizeof(ld)), t2 = 0, ms = 1;
    or_svd(T, sv, NULL, NULL);
    for (j = rank; j < mn; j++) t2 += sv[j] * sv[j];
    for (j = 0; j < nscale; j++) if (fabsl(scale[j]) > ms) ms = fabsl(scale[j]);
    discarded_tail = (double)(sqrtl(t2) * ms); free(sv);
  }
  vh_class(c, "n%zu-p%zu-sc%d-%s", n < 5 ? n : n < 15 ? 10 : n < 35 ? 30 : 60, p < 4 ? p : p < 10 ? 8 : 25, scaling,
           n > p ? "tall" : n == p ? "square" : "wide");
  vh_desc(c, "rows=%zu cols=%zu scaling=%d const_cols=%zu rank=%zu", n, p, scaling, nconst, rank);
  if (bad_domain) { vh_skip(c, "column spread in (0,0.05)"); goto out0; }
  if (rank == 0) { vh_skip(c, "rank 0"); goto out0; }
  npc = vh_coin(c, 0.4) ? rank : (size_t)vh_int(c, 1, (long)rank);
  k = (size_t)vh_int(c, 0, 5);
  nprocs = NPROCS[k] ? NPROCS[k] : n + 3;
  vh_desc(c, " npc=%zu nprocs=%zu x00=%.17g", npc, nprocs, mx->data[0][0]);

  drv_ticks_begin();
  fit(mx, scaling, npc, 1, &m);
  drv_ticks_end("iters_per_component_log2", npc);
  libsci_verif_tick_hook = NULL;
  /* the second fit (other processor count) extracts only the first 1-2 components - NIPALS components are
     sequential, so they must equal the leading columns of the full model - because every tick costs two thread
     fan-outs and a thread start under the sanitizers costs ~0.3 ms; the fan-out budget is ~300 threads per case */
  npc2 = npc < 2 ? npc : (size_t)(1 + (c->idx & 1));
  {
    double est = (double)g_ticks_total * (double)npc2 / (double)npc;
    while (nprocs > 2 && 2.0 * (double)nprocs * est > 300.0) nprocs = nprocs > 8 ? 8 : nprocs - 1;
    if (2.0 * (double)nprocs * est > 300.0 && (c->idx & 7)) nprocs = 1;
  }
  if (matrix_maxdiff(mx, mx_before) != 0) vh_fail(c, "PCA|input-modified", "PCA changed its input matrix");
  if (m->scores->row != n || m->scores->col != npc || m->loadings->row != p || m->loadings->col != npc || m->varexp->size != npc) {
    vh_fail(c, "PCA|shape", "scores %zux%zu loadings %zux%zu varexp %zu for n=%zu p=%zu npc=%zu", m->scores->row, m->scores->col,
            m->loadings->row, m->loadings->col, m->varexp->size, n, p, npc);
    goto out1;
  }
  if (!matrix_all_finite(m->scores) || !matrix_all_finite(m->loadings)) { vh_fail(c, "PCA|non-finite", "non-finite score/loading with npc<=rank"); goto out1; }
  /* stored statistics */
  if (m->colaverage->size != nmean || m->colscaling->size != nscale) vh_fail(c, "PCA|stats-size", "colaverage %zu colscaling %zu expected %zu %zu", m->colaverage->size, m->colscaling->size, nmean, nscale);
  else for (j = 0; j < nmean; j++) {
    if (!vh_close(m->colaverage->data[j], (double)mean[j], 1e-12, fabs((double)mean[j])) && fabs(m->colaverage->data[j] - (double)mean[j]) > 1e-6)
      vh_fail(c, "PCA|colaverage", "col %zu average %.17g expected %.17g", j, m->colaverage->data[j], (double)mean[j]);
    {
      /* Pareto stores sqrt(sd): compare in sd units so that the rounding of a constant column's mean (sd ~ eps*|mean|) is judged on one scale */
      double got = scaling == 3 ? m->colscaling->data[j] * m->colscaling->data[j] : m->colscaling->data[j];
      double want = scaling == 3 ? (double)(scale[j] * scale[j]) : (double)scale[j];
      if (!vh_close(got, want, 1e-10, fabs(want) + fabs((double)mean[j])))
        vh_fail(c, "PCA|colscaling", "col %zu scaling %.17g expected %.17g", j, m->colscaling->data[j], (double)scale[j]);
    }
  }
  /* identity replay */
  E = ldm_copy(T);
  e0norm = ldm_frob(E);
  {
    ld ss = e0norm * e0norm, sumve = 0;
    double worst_orth = 0, worst_t = 0, worst_res = 0;
    tolv = 400.0 * sqrt((double)n * PCACONVERGENCE);
    for (k = 0; k < npc; k++) {
      ld pn = 0, tt = 0, ve;
      for (j = 0; j < p; j++) pn += (ld)m->loadings->data[j][k] * m->loadings->data[j][k];
      if (fabsl(sqrtl(pn) - 1) > 1e-10L) vh_fail(c, "PCA|loading-norm", "|p_%zu| = %.17Lg", k, sqrtl(pn));
      for (i = 0; i < k; i++) {
        ld d = 0;
        for (j = 0; j < p; j++) d += (ld)m->loadings->data[j][k] * m->loadings->data[j][i];
        /* rounding left in E_{k-1} p_i (~eps |E0|) is amplified by |E0|/|t_k| when p_k is normalised */
        {
          ld tk = 0, amp; size_t r;
          for (r = 0; r < n; r++) tk += (ld)m->scores->data[r][k] * m->scores->data[r][k];
          amp = e0norm / (sqrtl(tk) + 1e-300L);
          if ((double)(fabsl(d) / amp) > worst_orth) worst_orth = (double)(fabsl(d) / amp);
          if (fabsl(d) > 1e-12L * amp + 1e-13L) vh_fail(c, "PCA|loading-orthogonality", "p_%zu . p_%zu = %.3Lg (|E0|/|t_k| = %.3Lg)", k, i, d, amp);
        }
      }
      /* t_k = E_{k-1} p_k */
      for (i = 0; i < n; i++) {
        ld s = 0, d;
        for (j = 0; j < p; j++) s += LM(E, i, j) * m->loadings->data[j][k];
        d = fabsl(s - m->scores->data[i][k]);
        if ((double)(d / e0norm) > worst_t) worst_t = (double)(d / e0norm);
        if (d > 1e-9L * e0norm) { vh_fail(c, "PCA|score-projection", "t[%zu][%zu]=%.17g but E p = %.17Lg (|E0|=%.3Lg)", i, k, m->scores->data[i][k], s, e0norm); break; }
      }
      for (i = 0; i < n; i++) { tt += (ld)m->scores->data[i][k] * m->scores->data[i][k]; for (j = 0; j < p; j++) LM(E, i, j) -= (ld)m->scores->data[i][k] * m->loadings->data[j][k]; }
      /* residual orthogonal to every extracted loading */
      for (i = 0; i <= k; i++) {
        ld worst = 0; size_t r;
        for (r = 0; r < n; r++) { ld s = 0; for (j = 0; j < p; j++) s += LM(E, r, j) * m->loadings->data[j][i]; if (fabsl(s) > worst) worst = fabsl(s); }
        if ((double)(worst / e0norm) > worst_res) worst_res = (double)(worst / e0norm);
        if (worst > 1e-8L * e0norm) vh_fail(c, "PCA|residual-orthogonality", "after %zu comps |E p_%zu|max = %.3Lg (|E0|=%.3Lg)", k + 1, i, worst, e0norm);
      }
      ve = m->varexp->data[k];
      if (!(ve >= -1e-9)) vh_fail(c, "PCA|varexp-negative", "varexp[%zu]=%.17g", k, (double)ve);
      if (k > 0 && m->varexp->data[k] > m->varexp->data[k - 1] + 0.02) {
        /* input class of the inversion: was component k-1 started from a column (almost) orthogonal to the dominant axis of its residual? */
        ldm *Ek = ldm_copy(T); size_t a, b, q; double rho2, cos0, thr;
        for (q = 0; q + 1 < k; q++) for (a = 0; a < n; a++) for (b = 0; b < p; b++) LM(Ek, a, b) -= (ld)m->scores->data[a][q] * m->loadings->data[b][q];
        cos0 = nipals_start_cos(Ek, &rho2); thr = nipals_wrong_axis_threshold(n, PCACONVERGENCE_DOC, rho2);
        ldm_free(Ek);
        vh_fail(c, cos0 <= thr ? "PCA|varexp-increasing|start-column-orthogonal-to-dominant-axis" : "PCA|varexp-increasing", "varexp[%zu]=%.10g > varexp[%zu]=%.10g (start column of component %zu: |cos| to the dominant axis %.3g, class threshold %.3g, eigenvalue ratio %.4f)", k, m->varexp->data[k], k - 1, m->varexp->data[k - 1], k - 1, cos0, thr, rho2);
      }
      if (fabsl(ve - 100 * tt / ss) > tolv * (double)(tt / ss) + 1e-9) vh_fail(c, "PCA|varexp-bookkeeping", "varexp[%zu]=%.12g but 100 t't/ss=%.12Lg", k, (double)ve, 100 * tt / ss);
      vh_max("max_varexp_vs_ttss_rel", (double)(fabsl(ve - 100 * tt / ss) / (100 * tt / ss + 1e-300L)));
      sumve += ve;
    }
    vh_max("max_loading_dot_over_amplification", worst_orth); vh_max("max_score_projection_rel", worst_t); vh_max("max_residual_orth_rel", worst_res);
    if (sumve > 100 + tolv + 1e-6) vh_fail(c, "PCA|varexp-sum-above-100", "sum varexp = %.12Lg", sumve);
    if (npc == rank) {
      vh_max("max_fullrank_varexp_sum_dev", (double)fabsl(sumve - 100));
      if (fabsl(sumve - 100) > tolv + 1e-6) vh_fail(c, "PCA|varexp-sum-fullrank", "npc=rank=%zu but sum varexp = %.12Lg", rank, sumve);
      /* back-transform reproduces the original */
      back = drv_out_matrix(c, n, p, 1);
      PCAIndVarPredictor(m->scores, m->loadings, m->colaverage, m->colscaling, npc, back);
      {
        double xs = matrix_maxabs(mx) + 1e-300, d = matrix_maxdiff(back, mx);
        vh_max("max_backtransform_rel", d / xs); vh_max("max_backtransform_allowance_for_discarded_singular_values_rel", discarded_tail / xs);
        if (!(d <= 1e-7 * xs + 4 * discarded_tail)) vh_fail(c, "PCAIndVarPredictor|fullrank-reconstruction", "max |x - backtransform| = %.3g (max|x| = %.3g)", d, xs);
      }
      DelMatrix(&back);
    }
  }
  /* re-projection of the training matrix */
  ps = drv_out_matrix(c, n, npc, 2);
  PCAScorePredictor(mx, m, npc, ps);
  {
    double d = matrix_maxdiff(ps, m->scores);
    vh_max("max_reprojection_rel", d / (double)e0norm);
    if (!(d <= 1e-8 * (double)e0norm)) vh_fail(c, "PCAScorePredictor|training-reprojection", "max |predicted - training score| = %.3g (|E0|=%.3Lg)", d, e0norm);
  }
  DelMatrix(&ps);
  /* residual matrix accessor */
  res = drv_out_matrix(c, n, p, 3);
  GetResidualMatrix(mx, m, npc, res);
  if (res->row != n || res->col != p) vh_fail(c, "GetResidualMatrix|shape", "%zux%zu", res->row, res->col);
  else {
    double worst = 0;
    for (i = 0; i < n; i++) for (j = 0; j < p; j++) { double d = fabs(res->data[i][j] - (double)LM(E, i, j)); if (!(d <= worst)) worst = d; }
    if (!(worst <= 1e-8 * (double)e0norm)) vh_fail(c, "GetResidualMatrix|value", "max deviation from E_npc = %.3g", worst);
  }
  DelMatrix(&res);
  ldm_free(E);
  /* processor-count sweep: same model for any worker count */
  { char base[160]; snprintf(base, sizeof base, "%s", c->cls); vh_class(c, "%s-npc%s-np%s", base, npc == rank ? "=rank" : "<rank", nprocs > n ? ">rows" : nprocs == 1 ? "1" : nprocs == 2 ? "2" : nprocs <= 5 ? "3-5" : "6-24"); }
  if (nprocs > 1) {
    double ds, dl, dv;
    fit(mx, scaling, npc2, nprocs, &m2);
    ds = dl = dv = 0;
    if (m2->scores->col != npc2 || m2->loadings->col != npc2 || m2->varexp->size != npc2) ds = INFINITY;
    else {
      int bit = 1;
      for (k = 0; k < npc2; k++) {
        for (i = 0; i < n; i++) { double d = fabs(m2->scores->data[i][k] - m->scores->data[i][k]); if (!(d <= ds)) ds = d; if (d != 0) bit = 0; }
        for (j = 0; j < p; j++) { double d = fabs(m2->loadings->data[j][k] - m->loadings->data[j][k]); if (!(d <= dl)) dl = d; if (d != 0) bit = 0; }
        { double d = fabs(m2->varexp->data[k] - m->varexp->data[k]); if (!(d <= dv)) dv = d; }
      }
      vh_obs(bit ? "nprocs_bit_identical" : "nprocs_not_bit_identical", 1);
    }
    if (!(ds <= 1e-12 * (double)e0norm) || !(dl <= 1e-12) || !(dv <= 1e-10))
      vh_fail(c, "PCA|processor-count-dependence", "nprocs=%zu vs 1 (first %zu comps): scores %.3g loadings %.3g varexp %.3g", nprocs, npc2, ds, dl, dv);
    DelPCAModel(&m2);
  }
out1:
  DelPCAModel(&m);
out0:
  DelMatrix(&mx); DelMatrix(&mx_before);
  ldm_free(X); ldm_free(T); free(mean); free(scale);
}

const vh_driver VH_DRIVER = { "C01", ncases, run_case, NULL, 120 };
