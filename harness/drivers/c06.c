/* c06.c - C06: validation results are deterministic under every thread schedule and count.
 *
 * Monitors (DESIGN.md section 4, C06):
 *  mode SCHED  (plain build)  controlled scheduler: every thread the library creates is registered through an
 *              interposed pthread_create; at each RNG entry (hook H2) a worker parks; when all live workers of
 *              the batch are parked or finished exactly one is released, chosen by the schedule under test.
 *              Schedules are enumerated exhaustively by stateless DFS (small configs) or sampled (larger).
 *              Oracles per schedule: output == sequential output; stream monitor (each worker consumes exactly
 *              the xorshift/LCG stream of its own seed).
 *  mode DELAY  (plain build)  free-running workers with injected yields/sleeps at the RNG hook; counts the
 *              distinct global RNG-call orders actually seen; outputs bit-identical across repeats.
 *  mode SWEEP  (plain + tsan) thread-count sweep 1..8 / divisors: equal to rounding, bit-identity recorded.
 *  mode TSAN   (tsan build)   the same library calls free-running under ThreadSanitizer, plus an intruder
 *              thread that seeds and draws random numbers while a validation runs: zero reports expected.
 */
#include "drv_util.h"
#include <pthread.h>
#include <dlfcn.h>
#include <sched.h>
#include <unistd.h>
#include <time.h>

/* ================================================================== workload */
typedef struct {
  int learner;            /* 0 PLS 1 MLR 2 LDA */
  size_t n, p, ny, groups, iters, nlv;
  matrix *mx, *my;
} wl_t;

static void wl_make(vh_ctx *c, wl_t *w, int learner, size_t n, size_t p, size_t ny, size_t groups, size_t iters)
{
  size_t i, j;
  w->learner = learner; w->n = n; w->p = p; w->ny = learner == 2 ? 1 : ny; w->groups = groups; w->iters = iters;
  w->nlv = learner == 0 ? (p < 2 ? 1 : 2) : 0;
  NewMatrix(&w->mx, n, p); NewMatrix(&w->my, n, w->ny);
  for (i = 0; i < n; i++) {
    for (j = 0; j < p; j++) w->mx->data[i][j] = vh_gauss(c) * (1.0 + (double)j) + (double)(i % 3);
    for (j = 0; j < w->ny; j++) w->my->data[i][j] = learner == 2 ? (double)(i % 2) : (2.0 * w->mx->data[i][0] - (p > 1 ? w->mx->data[i][1] : 0.0) + 0.3 * vh_gauss(c) + 10.0 * (double)j);
  }
  if (learner == 2) for (i = 0; i < n; i++) for (j = 0; j < p; j++) w->mx->data[i][j] += 4.0 * (double)(i % 2) * (j == 0);
}
static void wl_free(wl_t *w) { DelMatrix(&w->mx); DelMatrix(&w->my); }

static void wl_bootstrap(wl_t *w, size_t nthreads, matrix *pred)
{
  MODELINPUT in = initModelInput();
  static const AlgorithmType algo[] = { _PLS_, _MLR_, _LDA_ };
  in.mx = w->mx; in.my = w->my; in.nlv = w->nlv; in.xautoscaling = 1; in.yautoscaling = 0;
  BootstrapRandomGroupsCV(&in, w->groups, w->iters, algo[w->learner], pred, NULL, nthreads, NULL, 0);
}
/* NaN-aware comparison: returns max abs diff (NaN == NaN); INFINITY on shape mismatch or NaN vs number */
static double cmp_nan(matrix *a, matrix *b, int *bit)
{
  size_t i, j; double s = 0;
  *bit = 1;
  if (a->row != b->row || a->col != b->col) { *bit = 0; return INFINITY; }
  for (i = 0; i < a->row; i++) for (j = 0; j < a->col; j++) {
    double x = a->data[i][j], y = b->data[i][j], d;
    if (x != x && y != y) continue;
    if (x != x || y != y) { *bit = 0; return INFINITY; }
    if (memcmp(&x, &y, sizeof x)) *bit = 0;
    d = fabs(x - y); if (d > s) s = d;
  }
  return s;
}

/* ================================================================== wall-clock monitor and per-thread RNG chain monitor (all builds)
 * The executable's definition of time() wins for the library objects linked into it.  The fake clock advances on
 * every read, so a routine whose result depends on the wall clock (a zero generator state falls back to time(NULL))
 * returns different results in two runs, and the read itself is counted: a read by a non-intruder thread while a
 * judged (seeded) routine runs is a determinism violation that does not wait for the clock to tick. */
static __thread int t_is_intruder;
static long g_clock_reads, g_clock_tick;
time_t time(time_t *t)
{
  long v = __atomic_add_fetch(&g_clock_tick, 7919, __ATOMIC_RELAXED);
  time_t r = (time_t)(1700000000L + v);
  if (!t_is_intruder) __atomic_add_fetch(&g_clock_reads, 1, __ATOMIC_RELAXED);
  if (t) *t = r;
  return r;
}
/* chain monitor: within one thread every consumed generator state is the LCG successor of the state (or seed) the
 * same thread saw at its previous RNG event - "the seeded stream consumed by one worker is never perturbed by another" */
static __thread uint32_t ch_next; static __thread int ch_have;
static long g_chain_events, g_chain_breaks, g_zero_states;
static uint32_t g_break_saw, g_break_want;
static void chain_event(int fn, uint32_t st)
{
  __atomic_add_fetch(&g_chain_events, 1, __ATOMIC_RELAXED);
  if (fn == 0) { ch_next = or_lcg(st); ch_have = ch_next != 0; return; }   /* the documented generator defines no successor that is 0 */
  if (ch_have && st != ch_next) { if (__atomic_add_fetch(&g_chain_breaks, 1, __ATOMIC_RELAXED) == 1) { g_break_saw = st; g_break_want = ch_next; } }
  if (st == 0) { if (!t_is_intruder) __atomic_add_fetch(&g_zero_states, 1, __ATOMIC_RELAXED); ch_have = 0; return; }   /* falls back to the clock */
  ch_next = or_lcg(st); ch_have = ch_next != 0;
}
static uint64_t g_jit; static int g_jitter;
static void other_hook(int fn, uint32_t st)
{
  chain_event(fn, st);
  if (g_jitter) {
    uint64_t r = __atomic_add_fetch(&g_jit, 0x9E3779B97F4A7C15ULL, __ATOMIC_RELAXED); r ^= r >> 29; r *= 0xBF58476D1CE4E5B9ULL; r ^= r >> 32;
    if ((r & 3) == 0) sched_yield(); else if ((r & 31) == 1) usleep((useconds_t)((r >> 8) % 120));
  }
}

/* ================================================================== scheduler (not in the tsan build) */
#if !defined(__SANITIZE_THREAD__)
#define MAXP 12
#define MAXEV 4096
#define INTRUDER 10

enum { ST_NONE, ST_RUNNING, ST_PARKED, ST_FINISHED };

typedef struct { int fn; uint32_t st; } ev_t;
static struct {
  pthread_mutex_t mu; pthread_cond_t cv;
  int active;                 /* scheduler on */
  int mode;                   /* 1 controlled, 2 delay-injection */
  int freerun;                /* give up controlling (event cap reached) */
  int perturbed;              /* event cap reached */
  int expect;                 /* library workers per batch */
  int batches_expected, batches_done;
  int created;                /* library workers created in the current batch */
  int state[MAXP];            /* slots 0..expect-1 library workers of the batch, INTRUDER = intruder */
  int granted;
  long nevents, event_cap;
  /* schedule */
  int prefix[MAXEV], nprefix;            /* forced choices */
  int trace_choice[MAXEV], trace_enabled[MAXEV], ntrace;
  int sample;                 /* 1 = random beyond prefix */
  uint64_t rs;
  /* per participant streams: logical worker id = batch*expect + slot */
  ev_t stream[64][256]; int nstream[64];
  uint64_t order_hash;
  int intr_enabled;
} S = { PTHREAD_MUTEX_INITIALIZER, PTHREAD_COND_INITIALIZER };

static __thread int t_slot = -1;          /* slot of the calling thread, -1 = not a participant */
static pthread_key_t g_key; static int g_key_ok;
static int (*real_create)(pthread_t *, const pthread_attr_t *, void *(*)(void *), void *);

static uint64_t srnd(void) { S.rs ^= S.rs << 13; S.rs ^= S.rs >> 7; S.rs ^= S.rs << 17; return S.rs; }

static int quiescent(void)
{
  int i;
  if (S.created < S.expect) return 0;                       /* batch not completely created yet */
  for (i = 0; i < S.expect; i++) if (S.state[i] == ST_RUNNING) return 0;
  if (S.intr_enabled && S.state[INTRUDER] == ST_RUNNING) return 0;
  {
    int alllibdone = 1;
    for (i = 0; i < S.expect; i++) if (S.state[i] != ST_FINISHED) alllibdone = 0;
    /* between two batches nothing is decided: the next batch must exist first */
    if (alllibdone && S.batches_done < S.batches_expected) return 0;
  }
  return 1;
}
static void maybe_decide(void)
{
  int en[MAXP], n = 0, i, pick;
  if (S.freerun || S.granted >= 0 || !quiescent()) return;
  for (i = 0; i < S.expect; i++) if (S.state[i] == ST_PARKED) en[n++] = i;
  if (S.intr_enabled && S.state[INTRUDER] == ST_PARKED) en[n++] = INTRUDER;
  if (n == 0) return;
  if (S.ntrace < S.nprefix) pick = S.prefix[S.ntrace] < n ? S.prefix[S.ntrace] : n - 1;
  else pick = S.sample ? (int)(srnd() % (uint64_t)n) : 0;
  if (S.ntrace < MAXEV) { S.trace_choice[S.ntrace] = pick; S.trace_enabled[S.ntrace] = n; S.ntrace++; }
  S.granted = en[pick];
  pthread_cond_broadcast(&S.cv);
}
static void record_event(int slot, int fn, uint32_t st)
{
  int lid = slot == INTRUDER ? 63 : (S.batches_done * S.expect + slot);
  if (lid >= 0 && lid < 64 && S.nstream[lid] < 256) { S.stream[lid][S.nstream[lid]].fn = fn; S.stream[lid][S.nstream[lid]].st = st; S.nstream[lid]++; }
  S.order_hash = (S.order_hash ^ (uint64_t)(lid * 4 + fn + 1)) * 1099511628211ULL;
  S.nevents++;
}
static void worker_finished(void *p)
{
  int slot = (int)(intptr_t)p - 1;
  pthread_mutex_lock(&S.mu);
  if (slot >= 0) {
    S.state[slot] = ST_FINISHED;
    if (slot != INTRUDER) {
      int i, all = 1;
      for (i = 0; i < S.expect; i++) if (S.state[i] != ST_FINISHED) all = 0;
      if (all && S.created == S.expect) S.batches_done++;
    }
    maybe_decide();
  }
  pthread_mutex_unlock(&S.mu);
}
typedef struct { void *(*fn)(void *); void *arg; int slot; } tramp_t;
static void *trampoline(void *a)
{
  tramp_t t = *(tramp_t *)a;
  free(a);
  t_slot = t.slot;
  pthread_setspecific(g_key, (void *)(intptr_t)(t.slot + 1));
  return t.fn(t.arg);       /* worker_finished runs as TLS destructor (also after pthread_exit) */
}
/* interposed: the executable's definition wins over libc's for the library objects linked into it */
int pthread_create(pthread_t *th, const pthread_attr_t *attr, void *(*fn)(void *), void *arg)
{
  if (!real_create) real_create = (int (*)(pthread_t *, const pthread_attr_t *, void *(*)(void *), void *))dlsym(RTLD_NEXT, "pthread_create");
  if (S.active && t_slot == -1 && !S.freerun) {
    tramp_t *t = malloc(sizeof *t);
    int i, all = 1;
    pthread_mutex_lock(&S.mu);
    for (i = 0; i < S.expect; i++) if (S.state[i] != ST_FINISHED) all = 0;
    if (S.created == S.expect && all) { S.created = 0; for (i = 0; i < S.expect; i++) S.state[i] = ST_NONE; }   /* next batch */
    t->fn = fn; t->arg = arg; t->slot = S.created;
    S.state[S.created] = ST_RUNNING;
    S.created++;
    pthread_mutex_unlock(&S.mu);
    return real_create(th, attr, trampoline, t);
  }
  return real_create(th, attr, fn, arg);
}
static void sched_hook(int fn, uint32_t st)
{
  int slot = t_slot;
  chain_event(fn, st);
  if (!S.active || slot < 0) return;
  if (S.mode == 3) { pthread_mutex_lock(&S.mu); record_event(slot, fn, st); pthread_mutex_unlock(&S.mu); return; }   /* counting only */
  if (S.mode == 2) {                         /* delay injection: perturb timing, record the order */
    uint64_t r;
    pthread_mutex_lock(&S.mu);
    r = srnd();
    record_event(slot, fn, st);
    pthread_mutex_unlock(&S.mu);
    if ((r & 3) == 0) sched_yield(); else if ((r & 15) == 1) usleep((useconds_t)(r >> 8) % 200);
    return;
  }
  pthread_mutex_lock(&S.mu);
  if (S.freerun) { record_event(slot, fn, st); pthread_mutex_unlock(&S.mu); return; }
  if (S.nevents >= S.event_cap) {             /* stream perturbed: stop controlling so that the call can finish */
    S.perturbed = 1; S.freerun = 1; S.granted = -1;
    record_event(slot, fn, st);
    pthread_cond_broadcast(&S.cv);
    pthread_mutex_unlock(&S.mu);
    return;
  }
  S.state[slot] = ST_PARKED;
  maybe_decide();
  while (S.granted != slot && !S.freerun) pthread_cond_wait(&S.cv, &S.mu);
  if (S.granted == slot) S.granted = -1;
  S.state[slot] = ST_RUNNING;
  record_event(slot, fn, st);
  pthread_mutex_unlock(&S.mu);
}
typedef struct { int calls; uint32_t seed; } intr_arg;
static void *intruder_main(void *a)
{
  intr_arg *ia = a; int i;
  t_slot = INTRUDER;
  pthread_setspecific(g_key, (void *)(intptr_t)(INTRUDER + 1));
  srand_(ia->seed);
  for (i = 1; i < ia->calls; i++) (void)randInt(0, 1000);
  return NULL;
}
static void sched_begin(int mode, int expect, int batches, int intruder, long cap, uint64_t rs, int sample)
{
  int i;
  if (!g_key_ok) { pthread_key_create(&g_key, worker_finished); g_key_ok = 1; }
  S.mode = mode; S.freerun = 0; S.perturbed = 0; S.expect = expect; S.batches_expected = batches; S.batches_done = 0;
  S.created = 0; S.granted = -1; S.nevents = 0; S.event_cap = cap; S.ntrace = 0; S.sample = sample; S.rs = rs | 1;
  S.order_hash = 1469598103934665603ULL; S.intr_enabled = intruder;
  for (i = 0; i < MAXP; i++) S.state[i] = ST_NONE;
  for (i = 0; i < 64; i++) S.nstream[i] = 0;
  libsci_verif_rng_hook = sched_hook;
  S.active = 1;
}
static void sched_end(void) { S.active = 0; libsci_verif_rng_hook = NULL; }

/* expected seed of logical worker lid (batch b, slot th): group + rows + ycols + iterations + th + b*nthreads */
static uint32_t worker_seed(wl_t *w, size_t nthreads, int lid)
{
  size_t b = (size_t)lid / nthreads, th = (size_t)lid % nthreads;
  return (uint32_t)(w->groups + w->mx->row + w->my->col + w->iters + th + b * nthreads);
}
/* stream monitor: the values each worker consumed are the LCG chain of its own seed */
static int stream_check(vh_ctx *c, wl_t *w, size_t nthreads, int nworkers, char *why, size_t whylen)
{
  int lid, k;
  for (lid = 0; lid < nworkers; lid++) {
    uint32_t seed = worker_seed(w, nthreads, lid), expect;
    if (S.nstream[lid] == 0) { snprintf(why, whylen, "worker %d made no RNG call", lid); return 0; }
    if (S.stream[lid][0].fn != 0 || S.stream[lid][0].st != seed) { snprintf(why, whylen, "worker %d first RNG event fn=%d value=%u, expected srand_(%u)", lid, S.stream[lid][0].fn, S.stream[lid][0].st, seed); return 0; }
    expect = or_lcg(seed);
    for (k = 1; k < S.nstream[lid]; k++) {
      if (expect == 0) break;                 /* zero state falls back to time(): not judged */
      if (S.stream[lid][k].fn == 0) { expect = or_lcg(S.stream[lid][k].st); continue; }
      if (S.stream[lid][k].st != expect) { snprintf(why, whylen, "worker %d RNG call %d consumed state %u, its own stream has %u there", lid, k, S.stream[lid][k].st, expect); return 0; }
      expect = or_lcg(expect);
    }
  }
  (void)c;
  return 1;
}

/* number of RNG events of the sequential run (one worker at a time), counted through the hook */
static long count_seq_events(wl_t *w)
{
  matrix *tmp; long n;
  initMatrix(&tmp);
  sched_begin(3, 1, (int)w->iters, 0, 1L << 40, 1, 0);
  wl_bootstrap(w, 1, tmp);
  n = S.nevents;
  sched_end();
  DelMatrix(&tmp);
  return n;
}

/* one controlled execution; returns 0 if an oracle failed */
static int run_schedule(vh_ctx *c, wl_t *w, size_t nthreads, int intruder, matrix *ref, const char *cfgname, long seq_events, int sample, uint64_t rs)
{
  matrix *pred; pthread_t it; intr_arg ia = { intruder, 4242 };
  int bit, ok = 1; double d; char why[256];
  int batches = (int)(w->iters / nthreads);
  initMatrix(&pred);
  sched_begin(1, (int)nthreads, batches, intruder, 4 * seq_events + 64, rs, sample);
  if (intruder) { pthread_mutex_lock(&S.mu); S.state[INTRUDER] = ST_RUNNING; pthread_mutex_unlock(&S.mu); real_create(&it, NULL, intruder_main, &ia); }
  wl_bootstrap(w, nthreads, pred);
  if (intruder) { pthread_mutex_lock(&S.mu); maybe_decide(); pthread_mutex_unlock(&S.mu); pthread_join(it, NULL); }
  sched_end();
  vh_obs("schedules_executed", 1);
  vh_obs("hook_rng_events", (double)S.nevents);
  if (S.perturbed) { vh_fail(c, "BootstrapRandomGroupsCV|rng-stream-perturbed|event-cap", "%s: more than %ld RNG events where the sequential run has %ld: a worker's rejection sampling was fed by another worker's stream", cfgname, S.event_cap, seq_events); ok = 0; }
  if (ok && !stream_check(c, w, nthreads, (int)w->iters, why, sizeof why)) { vh_fail(c, "BootstrapRandomGroupsCV|rng-stream-perturbed|stream-monitor", "%s: %s", cfgname, why); ok = 0; }
  d = cmp_nan(pred, ref, &bit);
  if (!(d <= 1e-12 * (1.0 + matrix_maxabs(ref)))) { vh_fail(c, "BootstrapRandomGroupsCV|schedule-dependent-output", "%s: max |controlled run - sequential run| = %g", cfgname, d); ok = 0; }
  else vh_obs(bit ? "schedule_output_bit_identical" : "schedule_output_equal_to_rounding", 1);
  DelMatrix(&pred);
  return ok;
}
#endif /* !tsan */

/* ================================================================== case kinds */
/* DFS configurations: (learner, objects, vars, groups, workers/iterations, intruder) */
typedef struct { int learner; size_t n, p, groups, nth, iters; int intruder; /* number of RNG calls of the intruder, 0 = none */ int tier; } dfs_cfg;
static const dfs_cfg DFS[] = {
  { 1, 3, 1, 3, 2, 2, 0, 0 }, { 1, 4, 1, 2, 2, 2, 0, 0 }, { 0, 4, 2, 2, 2, 2, 0, 0 }, { 1, 3, 1, 3, 2, 2, 2, 0 },
  { 1, 2, 1, 2, 3, 3, 0, 1 }, { 1, 3, 1, 3, 2, 4, 0, 1 }, { 1, 3, 1, 3, 2, 2, 4, 1 }, { 0, 3, 1, 3, 3, 3, 0, 1 },
};
#define NDFS ((long)(sizeof DFS / sizeof DFS[0]))
/* each DFS config is split by its first two choices into W*W prefixes (W = participants) so that the cores share it */
static long dfs_w(const dfs_cfg *d) { return (long)d->nth + (d->intruder ? 1 : 0); }
static long n_dfs(int tier) { long k = 0, i; for (i = 0; i < NDFS; i++) if (DFS[i].tier <= tier) k += dfs_w(&DFS[i]) * dfs_w(&DFS[i]); return k; }
static long n_sample(int tier) { return tier ? 3000 : 120; }
static long n_delay(int tier) { return tier ? 600 : 48; }
static long n_sweep(int tier) { return tier ? 2000 : 96; }
static long n_tsan(int tier) { return tier ? 320 : 48; }
static long n_other(int tier) { return vh_is_tsan() ? (tier ? 330 : 44) : (tier ? 3300 : 220); }
static long ncases(int tier)
{
  if (vh_is_tsan()) return n_tsan(tier) + (tier ? 200 : 32) + n_other(tier);
  return n_dfs(tier) + n_sample(tier) + n_delay(tier) + n_sweep(tier) + n_other(tier);
}

#if !defined(__SANITIZE_THREAD__)
static void case_dfs(vh_ctx *c, long k)
{
  long i, acc = 0, pre = 0;
  const dfs_cfg *d = NULL;
  wl_t w; matrix *ref; char name[128];
  long seq_events, nsched = 0;
  int stack_choice[MAXEV], stack_en[MAXEV], depth, p0, p1, ok = 1;
  for (i = 0; i < NDFS; i++) if (DFS[i].tier <= c->tier) { long ww = dfs_w(&DFS[i]) * dfs_w(&DFS[i]); if (k < acc + ww) { d = &DFS[i]; pre = k - acc; break; } acc += ww; }
  if (!d) { vh_skip(c, "no config"); return; }
  p0 = (int)(pre / dfs_w(d)); p1 = (int)(pre % dfs_w(d));
  {
    vh_ctx cc = *c; cc.idx = 1000 + (d - DFS); cc.s[0] = 0x1234 + (uint64_t)(d - DFS); cc.s[1] = 77; cc.s[2] = c->seed; cc.s[3] = 99;   /* same data for every prefix of a config */
    wl_make(&cc, &w, d->learner, d->n, d->p, 1, d->groups, d->iters);
  }
  snprintf(name, sizeof name, "learner=%d objects=%zu vars=%zu groups=%zu workers=%zu iterations=%zu intruder=%d prefix=%d,%d", d->learner, d->n, d->p, d->groups, d->nth, d->iters, d->intruder, p0, p1);
  vh_class(c, "dfs-l%d-n%zu-g%zu-w%zu-it%zu-intr%d", d->learner, d->n, d->groups, d->nth, d->iters, d->intruder);
  vh_desc(c, "exhaustive DFS over RNG-call interleavings: %s", name);
  /* sequential reference and its event count */
  initMatrix(&ref);
  wl_bootstrap(&w, 1, ref);
  seq_events = count_seq_events(&w);
  seq_events += d->intruder;
  /* stateless DFS restricted to executions whose first two choices are (p0, p1) */
  depth = 0;
  for (;;) {
    int j, feasible = 1;
    for (j = 0; j < depth; j++) S.prefix[j] = stack_choice[j];
    S.nprefix = depth;
    if (depth < 2) { S.prefix[0] = p0; S.prefix[1] = p1; S.nprefix = 2; }
    if (!run_schedule(c, &w, d->nth, d->intruder, ref, name, seq_events, 0, 1)) { ok = 0; }
    /* the forced prefix may ask for a choice index that did not exist: then this prefix is empty */
    if (S.ntrace >= 1 && p0 >= S.trace_enabled[0]) feasible = 0;
    if (S.ntrace >= 2 && p1 >= S.trace_enabled[1]) feasible = 0;
    if (S.ntrace < 2 && (p0 > 0 || p1 > 0)) feasible = 0;
    if (!feasible) { vh_obs("schedules_executed", -1); if (nsched == 0) vh_skip(c, "empty schedule prefix"); break; }
    nsched++;
    if (!ok) break;                      /* first deviation ends the enumeration: the tree is unbounded on a shared stream */
    for (j = 0; j < S.ntrace && j < MAXEV; j++) { stack_choice[j] = S.trace_choice[j]; stack_en[j] = S.trace_enabled[j]; }
    depth = S.ntrace;
    while (depth > 2 && stack_choice[depth - 1] + 1 >= stack_en[depth - 1]) depth--;
    if (depth <= 2) break;               /* subtree of this prefix exhausted */
    stack_choice[depth - 1]++;
    if (nsched > 400000) { vh_inconclusive(c, "DFS budget exceeded"); break; }
  }
  S.nprefix = 0;
  vh_obs("dfs_schedules_enumerated", (double)nsched);
  vh_obs("dfs_prefixes_completed", ok ? 1 : 0);
  { char nm[64]; snprintf(nm, sizeof nm, "dfs_schedules_cfg%ld", (long)(d - DFS)); vh_obs(nm, (double)nsched); }
  vh_desc(c, " -> %ld schedules, %ld RNG events per sequential run", nsched, seq_events);
  DelMatrix(&ref); wl_free(&w);
}

static void case_sample(vh_ctx *c)
{
  int learner = (int)vh_int(c, 0, 2), intruder = vh_coin(c, 0.3) ? (int)vh_int(c, 2, 6) : 0, r, ok = 1;
  size_t nth = (size_t)vh_int(c, 2, 8), rounds = (size_t)vh_int(c, 1, 2), n = (size_t)vh_int(c, learner == 2 ? 12 : 6, 24), p = (size_t)vh_int(c, 1, 4), groups = (size_t)vh_int(c, 2, 5);
  wl_t w; matrix *ref; char name[160]; long seq_events;
  wl_make(c, &w, learner, n, p, (size_t)vh_int(c, 1, 2), groups, nth * rounds);
  snprintf(name, sizeof name, "learner=%d objects=%zu vars=%zu groups=%zu workers=%zu iterations=%zu intruder=%d", learner, n, p, groups, nth, nth * rounds, intruder);
  vh_class(c, "sampled-l%d-w%zu-r%zu-intr%d", learner, nth, rounds, intruder ? 1 : 0);
  vh_desc(c, "random schedules: %s", name);
  initMatrix(&ref);
  wl_bootstrap(&w, 1, ref);
  seq_events = count_seq_events(&w) + intruder;
  for (r = 0; r < 6 && ok; r++) {
    S.nprefix = 0;
    ok = run_schedule(c, &w, nth, intruder, ref, name, seq_events, 1, vh_u64(c));
    { char nm[40]; snprintf(nm, sizeof nm, "%016llx", (unsigned long long)S.order_hash); vh_hist("sampled_interleaving_hash_mod64", (long)(S.order_hash % 64)); (void)nm; }
  }
  DelMatrix(&ref); wl_free(&w);
}

static void case_delay(vh_ctx *c)
{
  int learner = (int)vh_int(c, 0, 2), r, bit;
  size_t nth = (size_t)vh_int(c, 2, 6), n = (size_t)vh_int(c, learner == 2 ? 12 : 6, 16), groups = (size_t)vh_int(c, 2, 4);
  wl_t w; matrix *ref, *first = NULL; uint64_t seen[16]; int nseen = 0;
  wl_make(c, &w, learner, n, (size_t)vh_int(c, 1, 3), 1, groups, nth);
  vh_class(c, "delay-l%d-w%zu", learner, nth);
  vh_desc(c, "free-running with injected delays: learner=%d objects=%zu groups=%zu workers=%zu", learner, n, groups, nth);
  initMatrix(&ref); wl_bootstrap(&w, 1, ref);
  for (r = 0; r < 10; r++) {
    matrix *pred; int i, known = 0; double d;
    initMatrix(&pred);
    sched_begin(2, (int)nth, 1, 0, 1L << 40, vh_u64(c), 1);
    wl_bootstrap(&w, nth, pred);
    sched_end();
    for (i = 0; i < nseen; i++) if (seen[i] == S.order_hash) known = 1;
    if (!known && nseen < 16) seen[nseen++] = S.order_hash;
    d = cmp_nan(pred, ref, &bit);
    if (!(d <= 1e-12 * (1.0 + matrix_maxabs(ref)))) vh_fail(c, "BootstrapRandomGroupsCV|delay-dependent-output", "run %d with %zu workers differs from the sequential run by %g", r, nth, d);
    if (first) { int b2; cmp_nan(pred, first, &b2); if (!b2) vh_fail(c, "BootstrapRandomGroupsCV|not-bit-identical-between-runs", "repeat %d differs bitwise from repeat 0 (same inputs, same thread count)", r); DelMatrix(&pred); }
    else first = pred;
  }
  vh_obs("delay_runs", 10); vh_obs("delay_distinct_interleavings_seen", nseen);
  if (first) DelMatrix(&first);
  DelMatrix(&ref); wl_free(&w);
}
#endif

/* thread-count sweep (both builds) */
static void case_sweep(vh_ctx *c)
{
  int learner = (int)vh_int(c, 0, 2), which = (int)vh_int(c, 0, 2), bit;
  size_t iters = (size_t)vh_int(c, 1, 12), n = (size_t)vh_int(c, learner == 2 ? 12 : 6, 20), groups = (size_t)vh_int(c, 2, 5), t;
  wl_t w; matrix *ref;
  MODELINPUT in = initModelInput();
  static const AlgorithmType algo[] = { _PLS_, _MLR_, _LDA_ };
  wl_make(c, &w, learner, n, (size_t)vh_int(c, 1, 4), (size_t)vh_int(c, 1, 2), groups, iters);
  in.mx = w.mx; in.my = w.my; in.nlv = w.nlv; in.xautoscaling = 1; in.yautoscaling = 0;
  /* the result must not depend on how many processors the machine reports either (H1): 1, 2, 3, 5 or the real count */
  { static const size_t NP[] = { 0, 1, 2, 3, 5 }; libsci_verif_nprocs = NP[vh_int(c, 0, 4)]; vh_hist("sweep_reported_processors", (long)libsci_verif_nprocs); }
  vh_class(c, "sweep-%s-l%d-it%zu", which == 0 ? "bootstrap" : which == 1 ? "loo" : "yscrambling", learner, iters);
  vh_desc(c, "thread-count sweep: %s learner=%d objects=%zu groups=%zu iterations=%zu", which == 0 ? "BootstrapRandomGroupsCV" : which == 1 ? "LeaveOneOut" : "YScrambling", learner, n, groups, iters);
  initMatrix(&ref);
  if (which == 0) wl_bootstrap(&w, 1, ref);
  else if (which == 1) LeaveOneOut(&in, algo[learner], ref, NULL, 1, NULL, 0);
  else { ValidationArg va = initValidationArg(); va.vtype = BootstrapRGCV; va.rgcv_group = groups; va.rgcv_iterations = 2; if (learner == 2) { in.nlv = 0; } YScrambling(&in, algo[learner == 2 ? 1 : learner], va, iters, ref, 1, NULL); }
  for (t = 2; t <= 8; t++) {
    matrix *pred; double d;
    if (which == 0 && iters % t) continue;
    if (vh_is_tsan() && t > 4) break;
    initMatrix(&pred);
    if (which == 0) wl_bootstrap(&w, t, pred);
    else if (which == 1) LeaveOneOut(&in, algo[learner], pred, NULL, t, NULL, 0);
    else { ValidationArg va = initValidationArg(); va.vtype = BootstrapRGCV; va.rgcv_group = groups; va.rgcv_iterations = 2; YScrambling(&in, algo[learner == 2 ? 1 : learner], va, iters, pred, t, NULL); }
    d = cmp_nan(pred, ref, &bit);
    vh_obs("sweep_thread_counts_compared", 1);
    vh_obs(bit ? "sweep_bit_identical" : "sweep_equal_to_rounding_only", 1);
    if (!(d <= 1e-10 * (1.0 + matrix_maxabs(ref)))) vh_fail(c, which == 0 ? "BootstrapRandomGroupsCV|thread-count-dependence" : which == 1 ? "LeaveOneOut|thread-count-dependence" : "YScrambling|thread-count-dependence", "%zu threads vs 1: max difference %g", t, d);
    DelMatrix(&pred);
  }
  libsci_verif_nprocs = 0;
  DelMatrix(&ref); wl_free(&w);
}

/* ================================================================== other seeded routines (both builds)
 * "every other routine that draws pseudo-random numbers after seeding": ensemble PLS (bagging), cross-validation of
 * ensemble models, PCA rank validation, k-means cross-validation, k-means with random / k-means++ start after
 * srand_(seed), y-scrambling, and the two seedable split generators.  Each routine is run (a) on the main thread with
 * one worker = reference, (b) again after the calling thread's generator was left in another state by unrelated
 * calls, (c) from a freshly created thread, (d) with an intruder thread seeding and drawing concurrently, with
 * delays injected at every RNG call, at a different worker count.  (a)-(c) must be bit-identical, (d) bit-identical
 * between repeats and equal to rounding to (a).  The wall-clock monitor and the chain monitor watch all of it. */
enum { R_EPLS_BAG, R_CV_EPLS_BOOT, R_CV_EPLS_LOO, R_PCARANK, R_KMEANSCV, R_KMEANS_RANDOM, R_KMEANS_PP, R_YSCR_LOO, R_YSCR_BOOT, R_SPLIT, R_KFOLDGEN, R_NROUT };
static const char *RNAME[] = { "EPLS", "BootstrapRandomGroupsCV(EPLS)", "LeaveOneOut(EPLS)", "PCARankValidation", "KMeansRandomGroupsCV", "KMeans(random-start)", "KMeans(kmeans++-start)", "YScrambling(LOO)", "YScrambling(BootstrapRGCV)", "train_test_split", "random_kfold_group_generator" };
typedef struct { int r; wl_t *w; size_t nthreads; uint32_t seed; int kinit; size_t k; matrix *out; } rt_t;

static void dvec_to_matrix(dvector *v, matrix *out) { size_t i; ResizeMatrix(out, v->size, 1); for (i = 0; i < v->size; i++) out->data[i][0] = v->data[i]; }
static void run_routine(rt_t *a)
{
  wl_t *w = a->w; matrix *out = a->out;
  MODELINPUT in = initModelInput();
  ELearningParameters ep = initElearningParameters();
  in.mx = w->mx; in.my = w->my; in.nlv = w->nlv ? w->nlv : 1; in.xautoscaling = 1; in.yautoscaling = 0;
  ep.algorithm = Bagging; ep.n_models = 4; ep.trainsize = 0.7; ep.r_fix = 1;
  switch (a->r) {
  case R_EPLS_BAG: {
    EPLSMODEL *m; NewEPLSModel(&m);
    EPLS(w->mx, w->my, in.nlv, 1, 0, m, ep, NULL);
    EPLSYPRedictorAllLV(w->mx, m, Averaging, NULL, &out);
    DelEPLSModel(&m);
    break; }
  case R_CV_EPLS_BOOT: BootstrapRandomGroupsCV(&in, w->groups, w->iters, _EPLS_, out, NULL, a->nthreads, NULL, 2, ep, Averaging); break;
  case R_CV_EPLS_LOO: LeaveOneOut(&in, _EPLS_, out, NULL, a->nthreads, NULL, 2, ep, Averaging); break;
  case R_PCARANK: { dvector *r2; initDVector(&r2); libsci_verif_nprocs = 2; /* PCA's matrix-vector kernels fan out over all processors otherwise */ PCARankValidation(w->mx, w->p < 2 ? 1 : 2, 1, w->groups, w->iters, r2, NULL); dvec_to_matrix(r2, out); DelDVector(&r2); libsci_verif_nprocs = 0; break; }
  case R_KMEANSCV: { dvector *ss; initDVector(&ss); KMeansRandomGroupsCV(w->mx, a->k, a->kinit, w->groups, w->iters, ss, a->nthreads); dvec_to_matrix(ss, out); DelDVector(&ss); break; }
  case R_KMEANS_RANDOM: case R_KMEANS_PP: {
    uivector *lab; matrix *cent; size_t i, j;
    initUIVector(&lab); initMatrix(&cent);
    srand_(a->seed);
    KMeans(w->mx, a->k, a->r == R_KMEANS_RANDOM ? 0 : 1, lab, cent, a->nthreads);
    ResizeMatrix(out, lab->size + cent->row, cent->col + 1);
    for (i = 0; i < lab->size; i++) out->data[i][0] = (double)lab->data[i];
    for (i = 0; i < cent->row; i++) for (j = 0; j < cent->col; j++) out->data[lab->size + i][j + 1] = cent->data[i][j];
    DelUIVector(&lab); DelMatrix(&cent);
    break; }
  case R_YSCR_LOO: case R_YSCR_BOOT: {
    ValidationArg va = initValidationArg();
    va.vtype = a->r == R_YSCR_LOO ? LOO : BootstrapRGCV; va.rgcv_group = w->groups; va.rgcv_iterations = 2;
    YScrambling(&in, w->learner == 1 ? _MLR_ : _PLS_, va, w->iters, out, a->nthreads, NULL);
    break; }
  case R_SPLIT: {
    matrix *xt, *yt, *xs, *ys; uivector *ids; unsigned int sd = a->seed; size_t i, j;
    initMatrix(&xt); initMatrix(&yt); initMatrix(&xs); initMatrix(&ys); initUIVector(&ids);
    train_test_split(w->mx, w->my, 0.3, xt, yt, xs, ys, ids, &sd);
    ResizeMatrix(out, ids->size + xt->row, 1 + w->mx->col);
    for (i = 0; i < ids->size; i++) out->data[i][0] = (double)ids->data[i];
    for (i = 0; i < xt->row; i++) for (j = 0; j < xt->col; j++) out->data[ids->size + i][1 + j] = xt->data[i][j];
    DelMatrix(&xt); DelMatrix(&yt); DelMatrix(&xs); DelMatrix(&ys); DelUIVector(&ids);
    break; }
  case R_KFOLDGEN: { unsigned int sd = a->seed; random_kfold_group_generator(out, w->groups, w->n, &sd); break; }
  }
}
static void *routine_thread(void *p) { run_routine((rt_t *)p); return NULL; }
static int g_ointr_stop; static size_t g_other_np;
static void *other_intruder(void *a)
{
  matrix *m; uint32_t k = 1; (void)a;
  t_is_intruder = 1;
  NewMatrix(&m, 3, 3);
  while (!__atomic_load_n(&g_ointr_stop, __ATOMIC_ACQUIRE)) { srand_(k++); (void)randInt(0, 100); (void)randDouble(0.0, 1.0); (void)rand_(); if ((k & 7) == 0) MatrixInitRandomInt(m, 0, 9); }
  DelMatrix(&m);
  return NULL;
}
/* pre-image of the zero generator state: seed s with lcg^(k+1)(s) == 0, i.e. draw number k after srand_(s) meets state 0 */
static uint32_t zero_preimage(int k)
{
  const uint32_t a = 0x7AFB2C23u, c = 0x894C3u; uint32_t inv = 1, x = 0; int i;
  for (i = 0; i < 5; i++) inv *= 2u - a * inv;            /* Newton: inverse of a modulo 2^32 */
  for (i = 0; i <= k; i++) x = (x - c) * inv;
  return x;
}
static void case_other(vh_ctx *c, long kk)
{
  int r = (int)(kk % R_NROUT), v, bit, hostile = 0;
  int learner = (r == R_YSCR_LOO || r == R_YSCR_BOOT) ? (int)vh_int(c, 0, 1) : 0;
  size_t n = (size_t)vh_int(c, 10, 22), p = (size_t)vh_int(c, 2, 4), groups = (size_t)vh_int(c, 2, 4), iters = (size_t)vh_int(c, 1, 3) * 2, t2 = (size_t)vh_int(c, 2, 4);
  wl_t w; rt_t a; matrix *ref, *first = NULL; pthread_t th, it; long reads0, breaks0, zeros0;
  char kclock[96], kchain[96], kbit[96], kthr[96], krun[96];
  if (r == R_CV_EPLS_BOOT && iters % t2) t2 = 2;
  if (vh_is_tsan()) { n = (size_t)vh_int(c, 10, 12); iters = 2; if (r == R_CV_EPLS_BOOT || r == R_CV_EPLS_LOO) t2 = 2; }
  wl_make(c, &w, learner, n, p, 1, groups, iters);
  a.r = r; a.w = &w; a.nthreads = 1; a.kinit = (int)vh_int(c, 0, 3); a.k = (size_t)vh_int(c, 2, 3);
  a.seed = (uint32_t)vh_u64(c);
  if ((r == R_SPLIT || r == R_KFOLDGEN || r == R_KMEANS_RANDOM || r == R_KMEANS_PP) && vh_coin(c, 0.5)) { hostile = 1; a.seed = zero_preimage((int)vh_int(c, 0, 5)); }
  else if (vh_coin(c, 0.3)) a.seed = (uint32_t)vh_int(c, 0, 40);
  snprintf(kclock, sizeof kclock, "%s|wall-clock-read-after-seeding", RNAME[r]);
  snprintf(kchain, sizeof kchain, "%s|rng-stream-perturbed|chain-monitor", RNAME[r]);
  snprintf(kbit, sizeof kbit, "%s|not-bit-identical-between-runs", RNAME[r]);
  snprintf(kthr, sizeof kthr, "%s|thread-count-dependence", RNAME[r]);
  snprintf(krun, sizeof krun, "%s|depends-on-caller-state-or-concurrent-calls", RNAME[r]);
  vh_class(c, "other-%d-t%zu-h%d", r, t2, hostile);
  vh_obs("zero_preimage_seeds_tried", hostile);
  vh_desc(c, "other seeded routine %s: objects=%zu vars=%zu groups=%zu iterations=%zu threads=%zu seed=%u%s init=%d k=%zu", RNAME[r], n, p, groups, iters, t2, a.seed, hostile ? " (pre-image of the zero state)" : "", a.kinit, a.k);
  reads0 = __atomic_load_n(&g_clock_reads, __ATOMIC_RELAXED); breaks0 = __atomic_load_n(&g_chain_breaks, __ATOMIC_RELAXED); zeros0 = __atomic_load_n(&g_zero_states, __ATOMIC_RELAXED);
  libsci_verif_rng_hook = other_hook; g_jitter = 0;
  initMatrix(&ref); a.out = ref;
  g_other_np = (size_t)vh_int(c, 0, 3);        /* reported processors during the concurrent variants: real count, 1, 2 or 3 */
  srand_(1u);                                  /* a defined state for the calling thread */
  run_routine(&a);
  for (v = vh_is_tsan() ? 2 : 0; v < (vh_is_tsan() ? 4 : 5); v++) {    /* the race detector needs the concurrent runs only */
    matrix *out; double d; int k, conc = v >= 2;
    initMatrix(&out); a.out = out; a.nthreads = conc ? t2 : 1;
    libsci_verif_nprocs = conc && r != R_PCARANK ? g_other_np : 0;
    if (v == 0) { srand_((uint32_t)vh_u64(c)); for (k = (int)vh_int(c, 0, 9); k > 0; k--) (void)randInt(0, 7); run_routine(&a); }      /* caller's generator elsewhere */
    else if (v == 1) { pthread_create(&th, NULL, routine_thread, &a); pthread_join(th, NULL); }                                  /* fresh thread */
    else {                                                                                                                     /* concurrency + delays */
      __atomic_store_n(&g_ointr_stop, 0, __ATOMIC_RELEASE); g_jitter = 1; g_jit = vh_u64(c);
      pthread_create(&it, NULL, other_intruder, NULL);
      run_routine(&a);
      __atomic_store_n(&g_ointr_stop, 1, __ATOMIC_RELEASE); pthread_join(it, NULL); g_jitter = 0;
    }
    vh_obs("other_routine_runs", 1);
    d = cmp_nan(out, ref, &bit);
    if (!conc) { if (!bit) vh_fail(c, krun, "%s: max difference to the reference run %g", v == 0 ? "after unrelated generator use by the caller" : "called from a fresh thread", d); }
    else {
      if (!(d <= 1e-10 * (1.0 + matrix_maxabs(ref)))) vh_fail(c, kthr, "%zu workers with a concurrent intruder vs 1 worker: max difference %g", t2, d);
      if (first) { int b2; cmp_nan(out, first, &b2); if (!b2) vh_fail(c, kbit, "repeat %d with %zu workers differs bitwise from the first such run", v - 2, t2); }
      vh_obs(bit ? "other_bit_identical_to_sequential" : "other_equal_to_rounding_only", 1);
    }
    if (conc && !first) first = out; else DelMatrix(&out);
  }
  libsci_verif_rng_hook = NULL; libsci_verif_nprocs = 0;
  if (first) DelMatrix(&first);
  { long nr = __atomic_load_n(&g_clock_reads, __ATOMIC_RELAXED) - reads0, nb = __atomic_load_n(&g_chain_breaks, __ATOMIC_RELAXED) - breaks0, nz = __atomic_load_n(&g_zero_states, __ATOMIC_RELAXED) - zeros0;
    vh_obs("clock_reads_in_seeded_routines", (double)nr); vh_obs("zero_generator_states_met", (double)nz);
    if (nr > 0) vh_fail(c, kclock, "%ld wall-clock reads by the routine's threads (%ld zero generator states met): the result depends on time(NULL)", nr, nz);
    if (nb > 0) vh_fail(c, kchain, "%ld RNG events consumed a state that is not the successor of the same thread's previous state (saw %u, own stream has %u)", nb, g_break_saw, g_break_want); }
  DelMatrix(&ref); wl_free(&w);
}

/* free-running under TSan with an intruder thread */
static int g_intr_stop;   /* accessed with atomics: the harness must not race itself under TSan */
static void *tsan_intruder(void *a)
{
  matrix *m; (void)a;
  NewMatrix(&m, 4, 4);
  while (!__atomic_load_n(&g_intr_stop, __ATOMIC_ACQUIRE)) { srand_(12345u); (void)randInt(0, 100); (void)randDouble(0.0, 1.0); MatrixInitRandomFloat(m, 0.0, 1.0); }
  DelMatrix(&m);
  return NULL;
}
static void case_tsan(vh_ctx *c)
{
  int learner = (int)vh_int(c, 0, 2), which = (int)vh_int(c, 0, 3), intr = vh_coin(c, 0.5), r, bit;
  size_t nth = (size_t)vh_int(c, 2, 6), n = (size_t)vh_int(c, learner == 2 ? 12 : 6, 16), groups = (size_t)vh_int(c, 2, 4);
  wl_t w; matrix *ref; pthread_t it;
  MODELINPUT in = initModelInput();
  static const AlgorithmType algo[] = { _PLS_, _MLR_, _LDA_ };
  wl_make(c, &w, learner, n, (size_t)vh_int(c, 1, 3), 1, groups, nth * (size_t)vh_int(c, 1, 2));
  in.mx = w.mx; in.my = w.my; in.nlv = w.nlv; in.xautoscaling = 1; in.yautoscaling = 0;
  vh_class(c, "tsan-%d-l%d-w%zu-intr%d", which, learner, nth, intr);
  vh_desc(c, "free-running under the race detector: workload=%d learner=%d objects=%zu workers=%zu intruder=%d", which, learner, n, nth, intr);
  initMatrix(&ref);
  if (which == 0) wl_bootstrap(&w, 1, ref);
  __atomic_store_n(&g_intr_stop, 0, __ATOMIC_RELEASE);
  if (intr) pthread_create(&it, NULL, tsan_intruder, NULL);
  for (r = 0; r < 3; r++) {
    matrix *pred; initMatrix(&pred);
    if (which == 0) { double d; wl_bootstrap(&w, nth, pred); d = cmp_nan(pred, ref, &bit); if (!(d <= 1e-12 * (1.0 + matrix_maxabs(ref)))) vh_fail(c, "BootstrapRandomGroupsCV|free-run-differs-from-sequential", "%zu workers%s: max difference %g", nth, intr ? " with intruder" : "", d); }
    else if (which == 1) LeaveOneOut(&in, algo[learner], pred, NULL, nth, NULL, 0);
    else if (which == 2) { ValidationArg va = initValidationArg(); va.vtype = LOO; YScrambling(&in, algo[learner == 2 ? 1 : learner], va, 2, pred, nth, NULL); }
    else { uivector *lab; matrix *cent; initUIVector(&lab); initMatrix(&cent); srand_(7); KMeans(w.mx, 2, (int)vh_int(c, 0, 3), lab, cent, nth); DelUIVector(&lab); DelMatrix(&cent); }
    vh_obs("tsan_library_calls", 1);
    DelMatrix(&pred);
  }
  __atomic_store_n(&g_intr_stop, 1, __ATOMIC_RELEASE);
  if (intr) pthread_join(it, NULL);
  DelMatrix(&ref); wl_free(&w);
}

static void run_case(vh_ctx *c)
{
  long k = c->idx;
  if (vh_is_tsan()) { if (k < n_tsan(c->tier)) case_tsan(c); else if (k < n_tsan(c->tier) + (c->tier ? 200 : 32)) case_sweep(c); else case_other(c, k - n_tsan(c->tier) - (c->tier ? 200 : 32)); return; }
#if !defined(__SANITIZE_THREAD__)
  if (k < n_dfs(c->tier)) { case_dfs(c, k); return; }
  k -= n_dfs(c->tier);
  if (k < n_sample(c->tier)) { case_sample(c); return; }
  k -= n_sample(c->tier);
  if (k < n_delay(c->tier)) { case_delay(c); return; }
  k -= n_delay(c->tier);
  if (k < n_sweep(c->tier)) { case_sweep(c); return; }
  k -= n_sweep(c->tier);
  case_other(c, k);
#endif
}

const vh_driver VH_DRIVER = { "C06", ncases, run_case, NULL, 600 };
