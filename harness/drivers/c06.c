/* c06.c - C06: validation results are deterministic under every thread schedule and count.
 *
 * Monitors (DESIGN.md section 4, C06):
 *  mode SCHED  (plain build)  controlled scheduler: every thread the library creates is registered through an
 *              interposed pthread_create; at each RNG entry (hook H2) a worker parks; when all live workers of
 *              the batch are parked or finished exactly one is released, chosen by the schedule under test.
 *              Schedules are enumerated exhaustively by stateless DFS (small configs) or sampled (larger).
 *              Oracles per schedule: output == sequential output; stream monitor (each worker consumes exactly
 *              the xorshift/LCG stream of its own seed).
 *  mode DELAY  (plain build)  free-running workers with injected yields/sleeps at the RNG hook; counts the
 *              distinct global RNG-call orders actually seen; outputs bit-identical across repeats.
 *  mode SWEEP  (plain + tsan) thread-count sweep 1..8 / divisors: equal to rounding, bit-identity recorded.
 *  mode TSAN   (tsan build)   the same library calls free-running under ThreadSanitizer, plus an intruder
 *              thread that seeds and draws random numbers while a validation runs: zero reports expected.
 */
#include "drv_util.h"
#include <pthread.h>
#include <dlfcn.h>
#include <sched.h>
#include <unistd.h>

/* ================================================================== workload */
typedef struct {
  int learner;            /* 0 PLS 1 MLR 2 LDA */
  size_t n, p, ny, groups, iters, nlv;
  matrix *mx, *my;
} wl_t;

static void wl_make(vh_ctx *c, wl_t *w, int learner, size_t n, size_t p, size_t ny, size_t groups, size_t iters)
{
  size_t i, j;
  w->learner = learner; w->n = n; w->p = p; w->ny = learner == 2 ? 1 : ny; w->groups = groups; w->iters = iters;
  w->nlv = learner == 0 ? (p < 2 ? 1 : 2) : 0;
  NewMatrix(&w->mx, n, p); NewMatrix(&w->my, n, w->ny);
  for (i = 0; i < n; i++) {
    for (j = 0; j < p; j++) w->mx->data[i][j] = vh_gauss(c) * (1.0 + (double)j) + (double)(i % 3);
    for (j = 0; j < w->ny; j++) w->my->data[i][j] = learner == 2 ? (double)(i % 2) : (2.0 * w->mx->data[i][0] - (p > 1 ? w->mx->data[i][1] : 0.0) + 0.3 * vh_gauss(c) + 10.0 * (double)j);
  }
  if (learner == 2) for (i = 0; i < n; i++) for (j = 0; j < p; j++) w->mx->data[i][j] += 4.0 * (double)(i % 2) * (j == 0);
}
static void wl_free(wl_t *w) { DelMatrix(&w->mx); DelMatrix(&w->my); }

static void wl_bootstrap(wl_t *w, size_t nthreads, matrix *pred)
{
  MODELINPUT in = initModelInput();
  static const AlgorithmType algo[] = { _PLS_, _MLR_, _LDA_ };
  in.mx = w->mx; in.my = w->my; in.nlv = w->nlv; in.xautoscaling = 1; in.yautoscaling = 0;
  BootstrapRandomGroupsCV(&in, w->groups, w->iters, algo[w->learner], pred, NULL, nthreads, NULL, 0);
}
/* NaN-aware comparison: returns max abs diff (NaN == NaN); INFINITY on shape mismatch or NaN vs number */
static double cmp_nan(matrix *a, matrix *b, int *bit)
{
  size_t i, j; double s = 0;
  *bit = 1;
  if (a->row != b->row || a->col != b->col) { *bit = 0; return INFINITY; }
  for (i = 0; i < a->row; i++) for (j = 0; j < a->col; j++) {
    double x = a->data[i][j], y = b->data[i][j], d;
    if (x != x && y != y) continue;
    if (x != x || y != y) { *bit = 0; return INFINITY; }
    if (memcmp(&x, &y, sizeof x)) *bit = 0;
    d = fabs(x - y); if (d > s) s = d;
  }
  return s;
}

/* ================================================================== scheduler (not in the tsan build) */
#if !defined(__SANITIZE_THREAD__)
#define MAXP 12
#define MAXEV 4096
#define INTRUDER 10

enum { ST_NONE, ST_RUNNING, ST_PARKED, ST_FINISHED };

typedef struct { int fn; uint32_t st; } ev_t;
static struct {
  pthread_mutex_t mu; pthread_cond_t cv;
  int active;                 /* scheduler on */
  int mode;                   /* 1 controlled, 2 delay-injection */
  int freerun;                /* give up controlling (event cap reached) */
  int perturbed;              /* event cap reached */
  int expect;                 /* library workers per batch */
  int batches_expected, batches_done;
  int created;                /* library workers created in the current batch */
  int state[MAXP];            /* slots 0..expect-1 library workers of the batch, INTRUDER = intruder */
  int granted;
  long nevents, event_cap;
  /* schedule */
  int prefix[MAXEV], nprefix;            /* forced choices */
  int trace_choice[MAXEV], trace_enabled[MAXEV], ntrace;
  int sample;                 /* 1 = random beyond prefix */
  uint64_t rs;
  /* per participant streams: logical worker id = batch*expect + slot */
  ev_t stream[64][256]; int nstream[64];
  uint64_t order_hash;
  int intr_enabled;
} S = { PTHREAD_MUTEX_INITIALIZER, PTHREAD_COND_INITIALIZER };

static __thread int t_slot = -1;          /* slot of the calling thread, -1 = not a participant */
static pthread_key_t g_key; static int g_key_ok;
static int (*real_create)(pthread_t *, const pthread_attr_t *, void *(*)(void *), void *);

static uint64_t srnd(void) { S.rs ^= S.rs << 13; S.rs ^= S.rs >> 7; S.rs ^= S.rs << 17; return S.rs; }

static int quiescent(void)
{
  int i;
  if (S.created < S.expect) return 0;                       /* batch not completely created yet */
  for (i = 0; i < S.expect; i++) if (S.state[i] == ST_RUNNING) return 0;
  if (S.intr_enabled && S.state[INTRUDER] == ST_RUNNING) return 0;
  {
    int alllibdone = 1;
    for (i = 0; i < S.expect; i++) if (S.state[i] != ST_FINISHED) alllibdone = 0;
    /* between two batches nothing is decided: the next batch must exist first */
    if (alllibdone && S.batches_done < S.batches_expected) return 0;
  }
  return 1;
}
static void maybe_decide(void)
{
  int en[MAXP], n = 0, i, pick;
  if (S.freerun || S.granted >= 0 || !quiescent()) return;
  for (i = 0; i < S.expect; i++) if (S.state[i] == ST_PARKED) en[n++] = i;
  if (S.intr_enabled && S.state[INTRUDER] == ST_PARKED) en[n++] = INTRUDER;
  if (n == 0) return;
  if (S.ntrace < S.nprefix) pick = S.prefix[S.ntrace] < n ? S.prefix[S.ntrace] : n - 1;
  else pick = S.sample ? (int)(srnd() % (uint64_t)n) : 0;
  if (S.ntrace < MAXEV) { S.trace_choice[S.ntrace] = pick; S.trace_enabled[S.ntrace] = n; S.ntrace++; }
  S.granted = en[pick];
  pthread_cond_broadcast(&S.cv);
}
static void record_event(int slot, int fn, uint32_t st)
{
  int lid = slot == INTRUDER ? 63 : (S.batches_done * S.expect + slot);
  if (lid >= 0 && lid < 64 && S.nstream[lid] < 256) { S.stream[lid][S.nstream[lid]].fn = fn; S.stream[lid][S.nstream[lid]].st = st; S.nstream[lid]++; }
  S.order_hash = (S.order_hash ^ (uint64_t)(lid * 4 + fn + 1)) * 1099511628211ULL;
  S.nevents++;
}
static void worker_finished(void *p)
{
  int slot = (int)(intptr_t)p - 1;
  pthread_mutex_lock(&S.mu);
  if (slot >= 0) {
    S.state[slot] = ST_FINISHED;
    if (slot != INTRUDER) {
      int i, all = 1;
      for (i = 0; i < S.expect; i++) if (S.state[i] != ST_FINISHED) all = 0;
      if (all && S.created == S.expect) S.batches_done++;
    }
    maybe_decide();
  }
  pthread_mutex_unlock(&S.mu);
}
typedef struct { void *(*fn)(void *); void *arg; int slot; } tramp_t;
static void *trampoline(void *a)
{
  tramp_t t = *(tramp_t *)a;
  free(a);
  t_slot = t.slot;
  pthread_setspecific(g_key, (void *)(intptr_t)(t.slot + 1));
  return t.fn(t.arg);       /* worker_finished runs as TLS destructor (also after pthread_exit) */
}
/* interposed: the executable's definition wins over libc's for the library objects linked into it */
int pthread_create(pthread_t *th, const pthread_attr_t *attr, void *(*fn)(void *), void *arg)
{
  if (!real_create) real_create = (int (*)(pthread_t *, const pthread_attr_t *, void *(*)(void *), void *))dlsym(RTLD_NEXT, "pthread_create");
  if (S.active && t_slot == -1 && !S.freerun) {
    tramp_t *t = malloc(sizeof *t);
    int i, all = 1;
    pthread_mutex_lock(&S.mu);
    for (i = 0; i < S.expect; i++) if (S.state[i] != ST_FINISHED) all = 0;
    if (S.created == S.expect && all) { S.created = 0; for (i = 0; i < S.expect; i++) S.state[i] = ST_NONE; }   /* next batch */
    t->fn = fn; t->arg = arg; t->slot = S.created;
    S.state[S.created] = ST_RUNNING;
    S.created++;
    pthread_mutex_unlock(&S.mu);
    return real_create(th, attr, trampoline, t);
  }
  return real_create(th, attr, fn, arg);
}
static void sched_hook(int fn, uint32_t st)
{
  int slot = t_slot;
  if (!S.active || slot < 0) return;
  if (S.mode == 3) { pthread_mutex_lock(&S.mu); record_event(slot, fn, st); pthread_mutex_unlock(&S.mu); return; }   /* counting only */
  if (S.mode == 2) {                         /* delay injection: perturb timing, record the order */
    uint64_t r;
    pthread_mutex_lock(&S.mu);
    r = srnd();
    record_event(slot, fn, st);
    pthread_mutex_unlock(&S.mu);
    if ((r & 3) == 0) sched_yield(); else if ((r & 15) == 1) usleep((useconds_t)(r >> 8) % 200);
    return;
  }
  pthread_mutex_lock(&S.mu);
  if (S.freerun) { record_event(slot, fn, st); pthread_mutex_unlock(&S.mu); return; }
  if (S.nevents >= S.event_cap) {             /* stream perturbed: stop controlling so that the call can finish */
    S.perturbed = 1; S.freerun = 1; S.granted = -1;
    record_event(slot, fn, st);
    pthread_cond_broadcast(&S.cv);
    pthread_mutex_unlock(&S.mu);
    return;
  }
  S.state[slot] = ST_PARKED;
  maybe_decide();
  while (S.granted != slot && !S.freerun) pthread_cond_wait(&S.cv, &S.mu);
  if (S.granted == slot) S.granted = -1;
  S.state[slot] = ST_RUNNING;
  record_event(slot, fn, st);
  pthread_mutex_unlock(&S.mu);
}
typedef struct { int calls; uint32_t seed; } intr_arg;
static void *intruder_main(void *a)
{
  intr_arg *ia = a; int i;
  t_slot = INTRUDER;
  pthread_setspecific(g_key, (void *)(intptr_t)(INTRUDER + 1));
  srand_(ia->seed);
  for (i = 1; i < ia->calls; i++) (void)randInt(0, 1000);
  return NULL;
}
static void sched_begin(int mode, int expect, int batches, int intruder, long cap, uint64_t rs, int sample)
{
  int i;
  if (!g_key_ok) { pthread_key_create(&g_key, worker_finished); g_key_ok = 1; }
  S.mode = mode; S.freerun = 0; S.perturbed = 0; S.expect = expect; S.batches_expected = batches; S.batches_done = 0;
  S.created = 0; S.granted = -1; S.nevents = 0; S.event_cap = cap; S.ntrace = 0; S.sample = sample; S.rs = rs | 1;
  S.order_hash = 1469598103934665603ULL; S.intr_enabled = intruder;
  for (i = 0; i < MAXP; i++) S.state[i] = ST_NONE;
  for (i = 0; i < 64; i++) S.nstream[i] = 0;
  libsci_verif_rng_hook = sched_hook;
  S.active = 1;
}
static void sched_end(void) { S.active = 0; libsci_verif_rng_hook = NULL; }

/* expected seed of logical worker lid (batch b, slot th): group + rows + ycols + iterations + th + b*nthreads */
static uint32_t worker_seed(wl_t *w, size_t nthreads, int lid)
{
  size_t b = (size_t)lid / nthreads, th = (size_t)lid % nthreads;
  return (uint32_t)(w->groups + w->mx->row + w->my->col + w->iters + th + b * nthreads);
}
/* stream monitor: the values each worker consumed are the LCG chain of its own seed */
static int stream_check(vh_ctx *c, wl_t *w, size_t nthreads, int nworkers, char *why, size_t whylen)
{
  int lid, k;
  for (lid = 0; lid < nworkers; lid++) {
    uint32_t seed = worker_seed(w, nthreads, lid), expect;
    if (S.nstream[lid] == 0) { snprintf(why, whylen, "worker %d made no RNG call", lid); return 0; }
    if (S.stream[lid][0].fn != 0 || S.stream[lid][0].st != seed) { snprintf(why, whylen, "worker %d first RNG event fn=%d value=%u, expected srand_(%u)", lid, S.stream[lid][0].fn, S.stream[lid][0].st, seed); return 0; }
    expect = or_lcg(seed);
    for (k = 1; k < S.nstream[lid]; k++) {
      if (expect == 0) break;                 /* zero state falls back to time(): not judged */
      if (S.stream[lid][k].fn == 0) { expect = or_lcg(S.stream[lid][k].st); continue; }
      if (S.stream[lid][k].st != expect) { snprintf(why, whylen, "worker %d RNG call %d consumed state %u, its own stream has %u there", lid, k, S.stream[lid][k].st, expect); return 0; }
      expect = or_lcg(expect);
    }
  }
  (void)c;
  return 1;
}

/* number of RNG events of the sequential run (one worker at a time), counted through the hook */
static long count_seq_events(wl_t *w)
{
  matrix *tmp; long n;
  initMatrix(&tmp);
  sched_begin(3, 1, (int)w->iters, 0, 1L << 40, 1, 0);
  wl_bootstrap(w, 1, tmp);
  n = S.nevents;
  sched_end();
  DelMatrix(&tmp);
  return n;
}

/* one controlled execution; returns 0 if an oracle failed */
static int run_schedule(vh_ctx *c, wl_t *w, size_t nthreads, int intruder, matrix *ref, const char *cfgname, long seq_events, int sample, uint64_t rs)
{
  matrix *pred; pthread_t it; intr_arg ia = { intruder, 4242 };
  int bit, ok = 1; double d; char why[256];
  int batches = (int)(w->iters / nthreads);
  initMatrix(&pred);
  sched_begin(1, (int)nthreads, batches, intruder, 4 * seq_events + 64, rs, sample);
  if (intruder) { pthread_mutex_lock(&S.mu); S.state[INTRUDER] = ST_RUNNING; pthread_mutex_unlock(&S.mu); real_create(&it, NULL, intruder_main, &ia); }
  wl_bootstrap(w, nthreads, pred);
  if (intruder) { pthread_mutex_lock(&S.mu); maybe_decide(); pthread_mutex_unlock(&S.mu); pthread_join(it, NULL); }
  sched_end();
  vh_obs("schedules_executed", 1);
  vh_obs("hook_rng_events", (double)S.nevents);
  if (S.perturbed) { vh_fail(c, "BootstrapRandomGroupsCV|rng-stream-perturbed|event-cap", "%s: more than %ld RNG events where the sequential run has %ld: a worker's rejection sampling was fed by another worker's stream", cfgname, S.event_cap, seq_events); ok = 0; }
  if (ok && !stream_check(c, w, nthreads, (int)w->iters, why, sizeof why)) { vh_fail(c, "BootstrapRandomGroupsCV|rng-stream-perturbed|stream-monitor", "%s: %s", cfgname, why); ok = 0; }
  d = cmp_nan(pred, ref, &bit);
  if (!(d <= 1e-12 * (1.0 + matrix_maxabs(ref)))) { vh_fail(c, "BootstrapRandomGroupsCV|schedule-dependent-output", "%s: max |controlled run - sequential run| = %g", cfgname, d); ok = 0; }
  else vh_obs(bit ? "schedule_output_bit_identical" : "schedule_output_equal_to_rounding", 1);
  DelMatrix(&pred);
  return ok;
}
#endif /* !tsan */

/* ================================================================== case kinds */
/* DFS configurations: (learner, objects, vars, groups, workers/iterations, intruder) */
typedef struct { int learner; size_t n, p, groups, nth, iters; int intruder; /* number of RNG calls of the intruder, 0 = none */ int tier; } dfs_cfg;
static const dfs_cfg DFS[] = {
  { 1, 3, 1, 3, 2, 2, 0, 0 }, { 1, 4, 1, 2, 2, 2, 0, 0 }, { 0, 4, 2, 2, 2, 2, 0, 0 }, { 1, 3, 1, 3, 2, 2, 2, 0 },
  { 1, 2, 1, 2, 3, 3, 0, 1 }, { 1, 3, 1, 3, 2, 4, 0, 1 }, { 1, 3, 1, 3, 2, 2, 4, 1 }, { 0, 3, 1, 3, 3, 3, 0, 1 },
};
#define NDFS ((long)(sizeof DFS / sizeof DFS[0]))
/* each DFS config is split by its first two choices into W*W prefixes (W = participants) so that the cores share it */
static long dfs_w(const dfs_cfg *d) { return (long)d->nth + (d->intruder ? 1 : 0); }
static long n_dfs(int tier) { long k = 0, i; for (i = 0; i < NDFS; i++) if (DFS[i].tier <= tier) k += dfs_w(&DFS[i]) * dfs_w(&DFS[i]); return k; }
static long n_sample(int tier) { return tier ? 3000 : 120; }
static long n_delay(int tier) { return tier ? 600 : 48; }
static long n_sweep(int tier) { return tier ? 2000 : 96; }
static long n_tsan(int tier) { return tier ? 320 : 48; }
static long ncases(int tier)
{
  if (vh_is_tsan()) return n_tsan(tier) + (tier ? 200 : 32);
  return n_dfs(tier) + n_sample(tier) + n_delay(tier) + n_sweep(tier);
}

#if !defined(__SANITIZE_THREAD__)
static void case_dfs(vh_ctx *c, long k)
{
  long i, acc = 0, pre = 0;
  const dfs_cfg *d = NULL;
  wl_t w; matrix *ref; char name[128];
  long seq_events, nsched = 0;
  int stack_choice[MAXEV], stack_en[MAXEV], depth, p0, p1, ok = 1;
  for (i = 0; i < NDFS; i++) if (DFS[i].tier <= c->tier) { long ww = dfs_w(&DFS[i]) * dfs_w(&DFS[i]); if (k < acc + ww) { d = &DFS[i]; pre = k - acc; break; } acc += ww; }
  if (!d) { vh_skip(c, "no config"); return; }
  p0 = (int)(pre / dfs_w(d)); p1 = (int)(pre % dfs_w(d));
  {
    vh_ctx cc = *c; cc.idx = 1000 + (d - DFS); cc.s[0] = 0x1234 + (uint64_t)(d - DFS); cc.s[1] = 77; cc.s[2] = c->seed; cc.s[3] = 99;   /* same data for every prefix of a config */
    wl_make(&cc, &w, d->learner, d->n, d->p, 1, d->groups, d->iters);
  }
  snprintf(name, sizeof name, "learner=%d objects=%zu vars=%zu groups=%zu workers=%zu iterations=%zu intruder=%d prefix=%d,%d", d->learner, d->n, d->p, d->groups, d->nth, d->iters, d->intruder, p0, p1);
  vh_class(c, "dfs-l%d-n%zu-g%zu-w%zu-it%zu-intr%d", d->learner, d->n, d->groups, d->nth, d->iters, d->intruder);
  vh_desc(c, "exhaustive DFS over RNG-call interleavings: %s", name);
  /* sequential reference and its event count */
  initMatrix(&ref);
  wl_bootstrap(&w, 1, ref);
  seq_events = count_seq_events(&w);
  seq_events += d->intruder;
  /* stateless DFS restricted to executions whose first two choices are (p0, p1) */
  depth = 0;
  for (;;) {
    int j, feasible = 1;
    for (j = 0; j < depth; j++) S.prefix[j] = stack_choice[j];
    S.nprefix = depth;
    if (depth < 2) { S.prefix[0] = p0; S.prefix[1] = p1; S.nprefix = 2; }
    if (!run_schedule(c, &w, d->nth, d->intruder, ref, name, seq_events, 0, 1)) { ok = 0; }
    /* the forced prefix may ask for a choice index that did not exist: then this prefix is empty */
    if (S.ntrace >= 1 && p0 >= S.trace_enabled[0]) feasible = 0;
    if (S.ntrace >= 2 && p1 >= S.trace_enabled[1]) feasible = 0;
    if (S.ntrace < 2 && (p0 > 0 || p1 > 0)) feasible = 0;
    if (!feasible) { vh_obs("schedules_executed", -1); if (nsched == 0) vh_skip(c, "empty schedule prefix"); break; }
    nsched++;
    if (!ok) break;                      /* first deviation ends the enumeration: the tree is unbounded on a shared stream */
    for (j = 0; j < S.ntrace && j < MAXEV; j++) { stack_choice[j] = S.trace_choice[j]; stack_en[j] = S.trace_enabled[j]; }
    depth = S.ntrace;
    while (depth > 2 && stack_choice[depth - 1] + 1 >= stack_en[depth - 1]) depth--;
    if (depth <= 2) break;               /* subtree of this prefix exhausted */
    stack_choice[depth - 1]++;
    if (nsched > 400000) { vh_inconclusive(c, "DFS budget exceeded"); break; }
  }
  S.nprefix = 0;
  vh_obs("dfs_schedules_enumerated", (double)nsched);
  vh_obs("dfs_prefixes_completed", ok ? 1 : 0);
  { char nm[64]; snprintf(nm, sizeof nm, "dfs_schedules_cfg%ld", (long)(d - DFS)); vh_obs(nm, (double)nsched); }
  vh_desc(c, " -> %ld schedules, %ld RNG events per sequential run", nsched, seq_events);
  DelMatrix(&ref); wl_free(&w);
}

static void case_sample(vh_ctx *c)
{
  int learner = (int)vh_int(c, 0, 2), intruder = vh_coin(c, 0.3) ? (int)vh_int(c, 2, 6) : 0, r, ok = 1;
  size_t nth = (size_t)vh_int(c, 2, 8), rounds = (size_t)vh_int(c, 1, 2), n = (size_t)vh_int(c, learner == 2 ? 12 : 6, 24), p = (size_t)vh_int(c, 1, 4), groups = (size_t)vh_int(c, 2, 5);
  wl_t w; matrix *ref; char name[160]; long seq_events;
  wl_make(c, &w, learner, n, p, (size_t)vh_int(c, 1, 2), groups, nth * rounds);
  snprintf(name, sizeof name, "learner=%d objects=%zu vars=%zu groups=%zu workers=%zu iterations=%zu intruder=%d", learner, n, p, groups, nth, nth * rounds, intruder);
  vh_class(c, "sampled-l%d-w%zu-r%zu-intr%d", learner, nth, rounds, intruder ? 1 : 0);
  vh_desc(c, "random schedules: %s", name);
  initMatrix(&ref);
  wl_bootstrap(&w, 1, ref);
  seq_events = count_seq_events(&w) + intruder;
  for (r = 0; r < 6 && ok; r++) {
    S.nprefix = 0;
    ok = run_schedule(c, &w, nth, intruder, ref, name, seq_events, 1, vh_u64(c));
    { char nm[40]; snprintf(nm, sizeof nm, "%016llx", (unsigned long long)S.order_hash); vh_hist("sampled_interleaving_hash_mod64", (long)(S.order_hash % 64)); (void)nm; }
  }
  DelMatrix(&ref); wl_free(&w);
}

static void case_delay(vh_ctx *c)
{
  int learner = (int)vh_int(c, 0, 2), r, bit;
  size_t nth = (size_t)vh_int(c, 2, 6), n = (size_t)vh_int(c, learner == 2 ? 12 : 6, 16), groups = (size_t)vh_int(c, 2, 4);
  wl_t w; matrix *ref, *first = NULL; uint64_t seen[16]; int nseen = 0;
  wl_make(c, &w, learner, n, (size_t)vh_int(c, 1, 3), 1, groups, nth);
  vh_class(c, "delay-l%d-w%zu", learner, nth);
  vh_desc(c, "free-running with injected delays: learner=%d objects=%zu groups=%zu workers=%zu", learner, n, groups, nth);
  initMatrix(&ref); wl_bootstrap(&w, 1, ref);
  for (r = 0; r < 10; r++) {
    matrix *pred; int i, known = 0; double d;
    initMatrix(&pred);
    sched_begin(2, (int)nth, 1, 0, 1L << 40, vh_u64(c), 1);
    wl_bootstrap(&w, nth, pred);
    sched_end();
    for (i = 0; i < nseen; i++) if (seen[i] == S.order_hash) known = 1;
    if (!known && nseen < 16) seen[nseen++] = S.order_hash;
    d = cmp_nan(pred, ref, &bit);
    if (!(d <= 1e-12 * (1.0 + matrix_maxabs(ref)))) vh_fail(c, "BootstrapRandomGroupsCV|delay-dependent-output", "run %d with %zu workers differs from the sequential run by %g", r, nth, d);
    if (first) { int b2; cmp_nan(pred, first, &b2); if (!b2) vh_fail(c, "BootstrapRandomGroupsCV|not-bit-identical-between-runs", "repeat %d differs bitwise from repeat 0 (same inputs, same thread count)", r); DelMatrix(&pred); }
    else first = pred;
  }
  vh_obs("delay_runs", 10); vh_obs("delay_distinct_interleavings_seen", nseen);
  if (first) DelMatrix(&first);
  DelMatrix(&ref); wl_free(&w);
}
#endif

/* thread-count sweep (both builds) */
static void case_sweep(vh_ctx *c)
{
  int learner = (int)vh_int(c, 0, 2), which = (int)vh_int(c, 0, 2), bit;
  size_t iters = (size_t)vh_int(c, 1, 12), n = (size_t)vh_int(c, learner == 2 ? 12 : 6, 20), groups = (size_t)vh_int(c, 2, 5), t;
  wl_t w; matrix *ref;
  MODELINPUT in = initModelInput();
  static const AlgorithmType algo[] = { _PLS_, _MLR_, _LDA_ };
  wl_make(c, &w, learner, n, (size_t)vh_int(c, 1, 4), (size_t)vh_int(c, 1, 2), groups, iters);
  in.mx = w.mx; in.my = w.my; in.nlv = w.nlv; in.xautoscaling = 1; in.yautoscaling = 0;
  vh_class(c, "sweep-%s-l%d-it%zu", which == 0 ? "bootstrap" : which == 1 ? "loo" : "yscrambling", learner, iters);
  vh_desc(c, "thread-count sweep: %s learner=%d objects=%zu groups=%zu iterations=%zu", which == 0 ? "BootstrapRandomGroupsCV" : which == 1 ? "LeaveOneOut" : "YScrambling", learner, n, groups, iters);
  initMatrix(&ref);
  if (which == 0) wl_bootstrap(&w, 1, ref);
  else if (which == 1) LeaveOneOut(&in, algo[learner], ref, NULL, 1, NULL, 0);
  else { ValidationArg va = initValidationArg(); va.vtype = BootstrapRGCV; va.rgcv_group = groups; va.rgcv_iterations = 2; if (learner == 2) { in.nlv = 0; } YScrambling(&in, algo[learner == 2 ? 1 : learner], va, iters, ref, 1, NULL); }
  for (t = 2; t <= 8; t++) {
    matrix *pred; double d;
    if (which == 0 && iters % t) continue;
    if (vh_is_tsan() && t > 4) break;
    initMatrix(&pred);
    if (which == 0) wl_bootstrap(&w, t, pred);
    else if (which == 1) LeaveOneOut(&in, algo[learner], pred, NULL, t, NULL, 0);
    else { ValidationArg va = initValidationArg(); va.vtype = BootstrapRGCV; va.rgcv_group = groups; va.rgcv_iterations = 2; YScrambling(&in, algo[learner == 2 ? 1 : learner], va, iters, pred, t, NULL); }
    d = cmp_nan(pred, ref, &bit);
    vh_obs("sweep_thread_counts_compared", 1);
    vh_obs(bit ? "sweep_bit_identical" : "sweep_equal_to_rounding_only", 1);
    if (!(d <= 1e-10 * (1.0 + matrix_maxabs(ref)))) vh_fail(c, which == 0 ? "BootstrapRandomGroupsCV|thread-count-dependence" : which == 1 ? "LeaveOneOut|thread-count-dependence" : "YScrambling|thread-count-dependence", "%zu threads vs 1: max difference %g", t, d);
    DelMatrix(&pred);
  }
  DelMatrix(&ref); wl_free(&w);
}

/* free-running under TSan with an intruder thread */
static int g_intr_stop;   /* accessed with atomics: the harness must not race itself under TSan */
static void *tsan_intruder(void *a)
{
  matrix *m; (void)a;
  NewMatrix(&m, 4, 4);
  while (!__atomic_load_n(&g_intr_stop, __ATOMIC_ACQUIRE)) { srand_(12345u); (void)randInt(0, 100); (void)randDouble(0.0, 1.0); MatrixInitRandomFloat(m, 0.0, 1.0); }
  DelMatrix(&m);
  return NULL;
}
static void case_tsan(vh_ctx *c)
{
  int learner = (int)vh_int(c, 0, 2), which = (int)vh_int(c, 0, 3), intr = vh_coin(c, 0.5), r, bit;
  size_t nth = (size_t)vh_int(c, 2, 6), n = (size_t)vh_int(c, learner == 2 ? 12 : 6, 16), groups = (size_t)vh_int(c, 2, 4);
  wl_t w; matrix *ref; pthread_t it;
  MODELINPUT in = initModelInput();
  static const AlgorithmType algo[] = { _PLS_, _MLR_, _LDA_ };
  wl_make(c, &w, learner, n, (size_t)vh_int(c, 1, 3), 1, groups, nth * (size_t)vh_int(c, 1, 2));
  in.mx = w.mx; in.my = w.my; in.nlv = w.nlv; in.xautoscaling = 1; in.yautoscaling = 0;
  vh_class(c, "tsan-%d-l%d-w%zu-intr%d", which, learner, nth, intr);
  vh_desc(c, "free-running under the race detector: workload=%d learner=%d objects=%zu workers=%zu intruder=%d", which, learner, n, nth, intr);
  initMatrix(&ref);
  if (which == 0) wl_bootstrap(&w, 1, ref);
  __atomic_store_n(&g_intr_stop, 0, __ATOMIC_RELEASE);
  if (intr) pthread_create(&it, NULL, tsan_intruder, NULL);
  for (r = 0; r < 3; r++) {
    matrix *pred; initMatrix(&pred);
    if (which == 0) { double d; wl_bootstrap(&w, nth, pred); d = cmp_nan(pred, ref, &bit); if (!(d <= 1e-12 * (1.0 + matrix_maxabs(ref)))) vh_fail(c, "BootstrapRandomGroupsCV|free-run-differs-from-sequential", "%zu workers%s: max difference %g", nth, intr ? " with intruder" : "", d); }
    else if (which == 1) LeaveOneOut(&in, algo[learner], pred, NULL, nth, NULL, 0);
    else if (which == 2) { ValidationArg va = initValidationArg(); va.vtype = LOO; YScrambling(&in, algo[learner == 2 ? 1 : learner], va, 2, pred, nth, NULL); }
    else { uivector *lab; matrix *cent; initUIVector(&lab); initMatrix(&cent); srand_(7); KMeans(w.mx, 2, (int)vh_int(c, 0, 3), lab, cent, nth); DelUIVector(&lab); DelMatrix(&cent); }
    vh_obs("tsan_library_calls", 1);
    DelMatrix(&pred);
  }
  __atomic_store_n(&g_intr_stop, 1, __ATOMIC_RELEASE);
  if (intr) pthread_join(it, NULL);
  DelMatrix(&ref); wl_free(&w);
}

static void run_case(vh_ctx *c)
{
  long k = c->idx;
  if (vh_is_tsan()) { if (k < n_tsan(c->tier)) case_tsan(c); else case_sweep(c); return; }
#if !defined(__SANITIZE_THREAD__)
  if (k < n_dfs(c->tier)) { case_dfs(c, k); return; }
  k -= n_dfs(c->tier);
  if (k < n_sample(c->tier)) { case_sample(c); return; }
  k -= n_sample(c->tier);
  if (k < n_delay(c->tier)) { case_delay(c); return; }
  case_sweep(c);
#endif
}

const vh_driver VH_DRIVER = { "C06", ncases, run_case, NULL, 600 };
