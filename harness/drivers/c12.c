/* c12.c - C12: linear solvers, inverses and factorisations satisfy their defining equations.
 *
 * One case = one routine group on one generated matrix:
 *   inv   MatrixInversion + MatrixLUInversion : A*X = I, X*A = I, X = LU-oracle inverse           (n 1..12, kappa <= 1e6)
 *   det   MatrixDeterminant                   : = pivoted-LU oracle = cofactor oracle, det(AB) = det(A)det(B)  (n 1..8)
 *   lse   SolveLSE on [A|b]                   : x = LU-oracle solution, residual, same answer into a reused output vector (n 1..12,
 *                                               kappa <= 1e3, no elimination intermediate inside the documented 1e-4 zero window)
 *   ols   OrdinaryLeastSquares                : beta = Householder-QR oracle                      (m x n, m >= n)
 *   pinv  MatrixMoorePenrosePseudoinverse     : four Penrose conditions, = QR-oracle pseudo-inverse (full column rank, kappa <= 1e3:
 *                                               the routine inverts the normal matrix A'A, kappa^2 <= 1e6; repeated, close and
 *                                               separated singular values)
 *   eig   EVectEval on symmetric input        : A v = lambda v per returned pair, spectrum = Jacobi oracle
 *   svd   SVDlapack, every shape 1..12 x 1..12: s >= 0 descending = Jacobi oracle, U S V^T = A, orthonormal factors, economy shapes
 *   qr    QRDecomposition, square and tall      : Q (rows x rows) orthogonal, R (rows x cols) upper triangular, Q R = A (full column rank,
 *                                               kappa <= 1e6; Householder reflections are backward stable: no kappa in the tolerance)
 *   svde  SVD (eigen-decomposition of the normal matrices), every shape: conformable factors, s >= 0 = Jacobi oracle (as a multiset),
 *                                               U S V^T = A, orthonormal factors when the rank is full.  The routine zeroes eigenvalues of A A^T
 *                                               below 1e-6 (singular values below 1e-3): inputs have every non-zero singular value >= 0.05
 *                                               (2500 x the cut-off on the eigenvalue) and kappa <= 1e3 (kappa^2 <= 1e6, amplification kappa^2, times
 *                                               1/(100 relative gap) <= 1e4 for the vector clauses when neighbouring singular values are closer than 1e-2)
 *   psvd  MatrixPseudoinversion (SVD based)     : M X = I and X M = I on square inputs, four Penrose conditions, = QR-oracle pseudo-inverse
 *                                               (full column rank, same singular value domain as svde)
 * Families: prescribed singular values, permutation, zero leading entries / zero leading minors, triangular, SPD, diagonal
 * (+ rank deficient / zero / clustered spectra where the clause is stated for every matrix).
 * All tolerances are C * eps * size * amplification(kappa) * data scale; the maxima of the normalised deviations are
 * reported (max_*_units = deviation / (eps * size * amplification * scale)). */
#define ssignal libc_ssignal   /* <signal.h> (pulled in by <sys/wait.h>) declares a function named like the library's typedef */
#include <sys/wait.h>
#undef ssignal
#include <errno.h>
#include <signal.h>
#include <setjmp.h>
#include <unistd.h>
#include "drv_util.h"
#if defined(__SANITIZE_ADDRESS__)
#include <sanitizer/asan_interface.h>
#define HAVE_ASAN 1
#else
#define HAVE_ASAN 0
#endif

#define EPS 2.220446049250313e-16

/* head-room constants: >= 100 x the largest normalised deviation seen on the unchanged tree (see evidence maxima) */
#define C_INV_RES  5000.0    /* |A X - I|, |X A - I|            in units of kappa n eps (Gauss-Jordan A X - I: kappa^2 n eps) */
#define C_INV_FWD   200.0    /* |X - X*|/|X*|                   in units of kappa n eps            */
#define C_DET       200.0    /* |det - det*|                    in units of n eps perm(|A|)        */
#define C_LSE_FWD   400.0    /* |x - x*|/|x*|                   in units of kappa n eps            */
#define C_LSE_RES   400.0    /* |A x - b|                       in units of n eps (|A||x| + |b|)   */
#define C_OLS      1000.0    /* |beta - beta*|                  in units of kappa^2 n eps (|beta*| + |y|/smax) */
#define C_PINV     5000.0    /* Penrose residuals, |G - G*|/|G*| in units of kappa^2 n eps (normal equations) */
#define C_EIG_RES   400.0    /* |A v - lambda v|/|v|            in units of n eps |A|_F            */
#define C_EIG_VAL   400.0    /* |lambda - lambda*|              in units of n eps |A|_F            */
#define C_SVD      2000.0    /* |U S V^T - A|, |s - s*|, |U^T U - I| in units of max(m,n) eps smax */

#define C_QR       2000.0    /* |Q R - A|, |R below the diagonal| in units of rows eps |A|_F; |Q^T Q - I| in units of rows eps */
#define C_SVDE     2000.0    /* SVD: |s - s*| in units of kappa^2 max(m,n) eps smax; |U S V^T - A| and |U^T U - I| in units of kappa^2 gap_amp max(m,n) eps (smax) */
#define C_PSVD     5000.0    /* MatrixPseudoinversion: residuals in units of kappa^2 gap_amp n eps (the factors come from the normal matrices) */
#define SVDE_SMIN    0.05    /* smallest non-zero singular value fed to SVD / MatrixPseudoinversion (documented cut-off: 1e-3) */
#define SVDE_KMAX    1e3

enum { G_INV, G_DET, G_LSE, G_OLS, G_PINV, G_EIG, G_SVD, G_QR, G_SVDE, G_PSVD, NGROUP };
static const char *GNAME[NGROUP] = { "inv", "det", "lse", "ols", "pinv", "eig", "svd", "qr", "svde", "psvd" };
static const int GWEIGHT[NGROUP] = { 20, 12, 15, 9, 9, 9, 10, 6, 5, 5 };

enum { F_SVALS, F_PERM, F_ZEROLEAD, F_TRI, F_SPD, F_DIAG, NFAM };
static const char *FNAME[NFAM] = { "svals", "perm", "zerolead", "tri", "spd", "diag" };

static long ncases(int tier) { if (vh_is_tsan()) return tier ? 1500 : 120; return tier ? 600000 : 50000; }

/* ------------------------------------------------------------------ generators */
static void round_to_double(ldm *A) { size_t i; for (i = 0; i < A->r * A->c; i++) A->a[i] = (ld)(double)A->a[i]; }

static ldm *rand_orth(vh_ctx *c, size_t n) { ldm *Q = ldm_new(n, n); or_random_orthogonal(Q, gauss_cb, c); return Q; }

/* k singular values in [smax/kappa, smax]; mode 0 log-uniform with pinned ends, 1 all equal, 2 two clusters, 3 geometric */
static void gen_svals(vh_ctx *c, size_t k, double smax, double kappa, int mode, ld *sv)
{
  size_t i;
  double lo = smax / kappa;
  for (i = 0; i < k; i++) {
    if (mode == 1) sv[i] = smax;
    else if (mode == 2) sv[i] = (i == 0 || (i + 1 < k && vh_coin(c, 0.5))) ? smax : lo;
    else if (mode == 3) sv[i] = k > 1 ? smax * pow(kappa, -(double)i / (double)(k - 1)) : smax;
    else sv[i] = i == 0 ? smax : i + 1 == k ? lo : smax * pow(kappa, -vh_unif(c));
  }
}

/* A (m x n) = sum_k sv[k] u_k v_k^T with random orthonormal u, v */
static ldm *from_svals(vh_ctx *c, size_t m, size_t n, const ld *sv)
{
  size_t k = m < n ? m : n, i, j, t;
  ldm *U = rand_orth(c, m), *V = rand_orth(c, n), *A = ldm_new(m, n);
  for (i = 0; i < m; i++) for (j = 0; j < n; j++) {
    ld s = 0;
    for (t = 0; t < k; t++) s += LM(U, i, t) * sv[t] * LM(V, j, t);
    LM(A, i, j) = s;
  }
  ldm_free(U); ldm_free(V);
  return A;
}

static ldm *gen_perm(vh_ctx *c, size_t n, int variant)
{
  size_t *p = calloc(n + 1, sizeof *p), i;
  ldm *A = ldm_new(n, n);
  vh_perm(c, p, n);
  for (i = 0; i < n; i++) {
    ld v = 1;
    if (variant == 1) v = vh_coin(c, 0.5) ? 1 : -1;
    else if (variant == 2) v = (vh_coin(c, 0.5) ? 1 : -1) * vh_range(c, 0.5, 2.0);
    LM(A, i, p[i]) = v;
  }
  free(p);
  return A;
}

/* matrices that cannot be reduced without a row exchange */
static ldm *gen_zerolead(vh_ctx *c, size_t n, double kmax, int *variant)
{
  ld sv[16];
  size_t i, j;
  ldm *A;
  int v = (int)vh_int(c, 0, 3), tries;
  if (n < 3 && v == 1) v = 0;
  *variant = v;
  if (v == 0 || v == 1) {
    double km = kmax < 1e3 ? kmax : 1e3;
    gen_svals(c, n, vh_range(c, 0.5, 4.0), vh_logunif(c, 0, log10(km)), 0, sv);
    A = from_svals(c, n, n, sv);
    if (v == 0) {                                  /* zero leading entries in column 0 */
      size_t r = (size_t)vh_int(c, 1, (long)n - 1);
      for (i = 0; i < r; i++) LM(A, i, 0) = 0;
    } else {                                       /* leading k x k minor singular (pivot vanishes during elimination) */
      size_t k = (size_t)vh_int(c, 2, (long)n - 1), t;
      ld w[16];
      for (t = 0; t + 1 < k; t++) w[t] = vh_gauss(c);
      for (j = 0; j < k; j++) { ld s = 0; for (t = 0; t + 1 < k; t++) s += w[t] * LM(A, t, j); LM(A, k - 1, j) = s; }
    }
    return A;
  }
  if (v == 2) {                                    /* small integers: exact zero pivots */
    A = ldm_new(n, n);
    for (tries = 0; tries < 30; tries++) {
      for (i = 0; i < n * n; i++) A->a[i] = (ld)vh_int(c, -2, 2);
      if (n >= 3 && vh_coin(c, 0.5)) {
        ld a = vh_coin(c, 0.5) ? 1 : -1, b = (ld)vh_int(c, -2, 2), f = (ld)vh_int(c, 1, 2);
        LM(A, 0, 0) = a; LM(A, 0, 1) = b; LM(A, 1, 0) = f * a; LM(A, 1, 1) = f * b;
      } else LM(A, 0, 0) = 0;
      if (or_cond(A) <= (kmax < 1e4 ? kmax : 1e4)) break;
    }
    return A;
  }
  /* v == 3: [[0, B], [C, D]] with an r x r zero block */
  {
    size_t r = (size_t)vh_int(c, 1, (long)(n / 2));
    A = ldm_new(n, n);
    for (tries = 0; tries < 30; tries++) {
      for (i = 0; i < n * n; i++) A->a[i] = vh_gauss(c);
      for (i = 0; i < r; i++) for (j = 0; j < r; j++) LM(A, i, j) = 0;
      if (or_cond(A) <= (kmax < 1e4 ? kmax : 1e4)) break;
    }
    return A;
  }
}

static ldm *gen_square(vh_ctx *c, size_t n, int fam, double kmax, char *tag, size_t tagsz)
{
  ld sv[16];
  size_t i, j;
  ldm *A = NULL;
  double kappa = vh_logunif(c, 0, log10(kmax)), smax = vh_range(c, 0.5, 4.0);
  if (fam == F_ZEROLEAD && n < 2) fam = F_SVALS;
  switch (fam) {
  case F_SVALS: {
    int mode = (int)vh_int(c, 0, 5); if (mode > 3) mode = 0;
    gen_svals(c, n, smax, kappa, mode, sv);
    A = from_svals(c, n, n, sv);
    snprintf(tag, tagsz, "svals%d", mode);
    break; }
  case F_PERM: {
    int v = (int)vh_int(c, 0, 2);
    A = gen_perm(c, n, v);
    snprintf(tag, tagsz, "perm%d", v);
    break; }
  case F_ZEROLEAD: {
    int v;
    A = gen_zerolead(c, n, kmax, &v);
    snprintf(tag, tagsz, "zerolead%d", v);
    break; }
  case F_TRI: {
    int upper = vh_coin(c, 0.5), unit = vh_coin(c, 0.25);
    double off = vh_range(c, 0.05, 0.6);
    A = ldm_new(n, n);
    for (i = 0; i < n; i++) for (j = 0; j < n; j++) {
      if (i == j) LM(A, i, j) = unit ? 1 : (vh_coin(c, 0.5) ? 1 : -1) * vh_range(c, 0.5, 2.0);
      else if ((upper && j > i) || (!upper && j < i)) LM(A, i, j) = off * vh_gauss(c);
    }
    snprintf(tag, tagsz, "tri%s%s", upper ? "U" : "L", unit ? "1" : "");
    break; }
  case F_SPD: {
    ldm *Q = rand_orth(c, n);
    size_t t;
    gen_svals(c, n, smax, kappa, vh_coin(c, 0.2) ? 3 : 0, sv);
    A = ldm_new(n, n);
    for (i = 0; i < n; i++) for (j = i; j < n; j++) {
      ld s = 0; for (t = 0; t < n; t++) s += LM(Q, i, t) * sv[t] * LM(Q, j, t);
      LM(A, i, j) = s; LM(A, j, i) = s;
    }
    ldm_free(Q);
    snprintf(tag, tagsz, "spd");
    break; }
  default: {
    gen_svals(c, n, smax, kappa, 0, sv);
    A = ldm_new(n, n);
    { size_t *p = calloc(n + 1, sizeof *p); vh_perm(c, p, n); for (i = 0; i < n; i++) LM(A, i, i) = (vh_coin(c, 0.5) ? 1 : -1) * sv[p[i]]; free(p); }
    snprintf(tag, tagsz, "diag");
    break; }
  }
  round_to_double(A);
  return A;
}

/* ------------------------------------------------------------------ small oracles local to this driver */
/* permanent of |A| (n <= 8) by subset DP: the natural magnitude of a determinant computed by expansion */
static ld perm_abs(const ldm *A)
{
  size_t n = A->r, mask, j;
  ld dp[256];
  dp[0] = 1;
  for (mask = 1; mask < ((size_t)1 << n); mask++) {
    size_t row = (size_t)__builtin_popcountl((unsigned long)mask) - 1;
    ld s = 0;
    for (j = 0; j < n; j++) if (mask & ((size_t)1 << j)) s += fabsl(LM(A, row, j)) * dp[mask ^ ((size_t)1 << j)];
    dp[mask] = s;
  }
  return dp[((size_t)1 << n) - 1];
}

/* SolveLSE documents an absolute zero test of 1e-4 on pivots and on the entries to eliminate.  Replay a partial-pivot
   elimination in long double and report whether any intermediate pivot / sub-diagonal entry falls in (lo, hi): such
   inputs are outside the routine's documented domain. */
static int lse_zero_window(const ldm *A0, ld lo, ld hi)
{
  size_t n = A0->r, i, j, k;
  ldm *A = ldm_copy(A0);
  int hit = 0;
  for (k = 0; k < n && !hit; k++) {
    size_t p = k;
    for (i = k + 1; i < n; i++) if (fabsl(LM(A, i, k)) > fabsl(LM(A, p, k))) p = i;
    if (fabsl(LM(A, p, k)) < hi) { hit = 1; break; }
    if (p != k) for (j = 0; j < n; j++) { ld t = LM(A, k, j); LM(A, k, j) = LM(A, p, j); LM(A, p, j) = t; }
    for (i = k + 1; i < n; i++) {
      ld v = fabsl(LM(A, i, k)), f;
      if (v > lo && v < hi) { hit = 1; break; }
      if (v <= lo) { LM(A, i, k) = 0; continue; }
      f = LM(A, i, k) / LM(A, k, k);
      for (j = k; j < n; j++) LM(A, i, j) -= f * LM(A, k, j);
      LM(A, i, k) = 0;
    }
  }
  ldm_free(A);
  return hit;
}

static ld vec_maxabs(const ld *v, size_t n) { ld s = 0; size_t i; for (i = 0; i < n; i++) if (fabsl(v[i]) > s) s = fabsl(v[i]); return s; }

/* output container in one of three states: empty (initMatrix), right shape with stale content, wrong shape */
static matrix *out_matrix(vh_ctx *c, size_t r, size_t k)
{
  matrix *m; int how = (int)vh_int(c, 0, 2); size_t i, j;
  if (how == 0) { initMatrix(&m); return m; }
  if (how == 1) NewMatrix(&m, r, k); else NewMatrix(&m, r + 1, k + 2);
  for (i = 0; i < m->row; i++) for (j = 0; j < m->col; j++) m->data[i][j] = 7.25 + (double)i - (double)j;
  return m;
}
static dvector *out_dvector(vh_ctx *c, size_t n)
{
  dvector *v; int how = (int)vh_int(c, 0, 2); size_t i;
  if (how == 0) { initDVector(&v); return v; }
  NewDVector(&v, how == 1 ? n : n + 2);
  for (i = 0; i < v->size; i++) v->data[i] = vh_range(c, -5.0, 5.0);   /* a reused vector holds finite stale values */
  return v;
}

/* replay aid: `--case i` prints the materialised input */
static void dump(vh_ctx *c, const char *name, matrix *m)
{
  size_t i, j;
  if (!c->verbose) return;
  fprintf(stderr, "%s %zu %zu\n", name, m->row, m->col);
  for (i = 0; i < m->row; i++) { for (j = 0; j < m->col; j++) fprintf(stderr, "%.17g ", m->data[i][j]); fprintf(stderr, "\n"); }
}

static const char *nbucket(size_t n) { return n == 1 ? "1" : n == 2 ? "2" : n <= 4 ? "3-4" : n <= 8 ? "5-8" : "9-12"; }
static const char *kbucket(ld k) { return k < 10 ? "k<1e1" : k < 1e3 ? "k<1e3" : "k<1e6"; }

/* ------------------------------------------------------------------ group: inverses */
/* right_amp: amplification of the right residual A*X - I.  dgetrf/dgetri: kappa.  Gauss-Jordan elimination is forward
   stable (|X - X*| <= c n eps kappa |X*|, X*A - I small) but not backward stable (Higham, Accuracy and Stability, 14.4):
   the documented algorithm only implies |A X - I| <= |A| |X - X*|, i.e. kappa^2. */
static void check_inverse(vh_ctx *c, const char *fn, const ldm *A, const ldm *Xo, matrix *X, ld kappa, const char *pivtag, double right_amp)
{
  size_t n = A->r;
  char key[128];
  ldm *Xl, *R, *L;
  double tol = kappa * (double)n * EPS, r = 0, l = 0, f;
  size_t i, j;
  if (X->row != n || X->col != n) { snprintf(key, sizeof key, "%s|shape", fn); vh_fail(c, key, "inverse is %zux%zu for a %zux%zu input", X->row, X->col, n, n); return; }
  if (!matrix_all_finite(X)) { snprintf(key, sizeof key, "%s|non-finite|%s", fn, pivtag); vh_fail(c, key, "non-finite entries in the inverse of a matrix with kappa=%.3Lg", kappa); return; }
  Xl = ldm_of_matrix(X);
  R = ldm_mul(A, Xl); L = ldm_mul(Xl, A);
  for (i = 0; i < n; i++) for (j = 0; j < n; j++) {
    double d = (double)fabsl(LM(R, i, j) - (i == j)); if (d > r) r = d;
    d = (double)fabsl(LM(L, i, j) - (i == j)); if (d > l) l = d;
  }
  f = (double)(ldm_maxdiff(Xl, Xo) / ldm_maxabs(Xo));
  { char nm[64];
    snprintf(nm, sizeof nm, "max_%s_AX-I_units", fn); vh_max(nm, r / (tol * right_amp));
    snprintf(nm, sizeof nm, "max_%s_AX-I_kappa1_units", fn); vh_max(nm, r / tol);
    snprintf(nm, sizeof nm, "max_%s_XA-I_units", fn); vh_max(nm, l / tol);
    snprintf(nm, sizeof nm, "max_%s_vs_oracle_units", fn); vh_max(nm, f / tol); }
  if (!(r <= C_INV_RES * tol * right_amp)) { snprintf(key, sizeof key, "%s|inverse-residual|%s", fn, pivtag); vh_fail(c, key, "max|M*inv - I| = %.3g > %.3g (n=%zu kappa=%.3Lg)", r, C_INV_RES * tol * right_amp, n, kappa); }
  if (!(l <= C_INV_RES * tol)) { snprintf(key, sizeof key, "%s|left-inverse-residual|%s", fn, pivtag); vh_fail(c, key, "max|inv*M - I| = %.3g > %.3g (n=%zu kappa=%.3Lg)", l, C_INV_RES * tol, n, kappa); }
  if (!(f <= C_INV_FWD * tol)) { snprintf(key, sizeof key, "%s|inverse-vs-oracle|%s", fn, pivtag); vh_fail(c, key, "max|inv - oracle|/max|oracle| = %.3g > %.3g (n=%zu kappa=%.3Lg)", f, C_INV_FWD * tol, n, kappa); }
  ldm_free(Xl); ldm_free(R); ldm_free(L);
}

/* does Gaussian elimination without row exchanges meet an (almost) zero pivot?  Only used to label the case. */
static int needs_row_exchange(const ldm *A0)
{
  size_t n = A0->r, i, j, k; int need = 0;
  ldm *A = ldm_copy(A0);
  ld amax = ldm_maxabs(A);
  for (k = 0; k < n; k++) {
    if (fabsl(LM(A, k, k)) <= 1e-12L * amax) { need = 1; break; }
    for (i = k + 1; i < n; i++) { ld f = LM(A, i, k) / LM(A, k, k); for (j = k; j < n; j++) LM(A, i, j) -= f * LM(A, k, j); }
  }
  ldm_free(A);
  return need;
}

static void group_inv(vh_ctx *c)
{
  size_t n = (size_t)vh_int(c, 1, 12);
  int fam = (int)vh_int(c, 0, NFAM - 1);
  char tag[32];
  ldm *A = gen_square(c, n, fam, 1e6, tag, sizeof tag), *Xo = NULL;
  ld kappa = or_cond(A);
  matrix *mx = matrix_of_ldm(A), *before = matrix_dup(mx), *X1, *X2;
  int need = needs_row_exchange(A);
  const char *pt = need ? "requires_row_exchange=1" : "requires_row_exchange=0";
  vh_class(c, "inv-%s-n%s-%s-px%d", tag, nbucket(n), kbucket(kappa), need);
  vh_desc(c, "group=inv family=%s n=%zu kappa=%.4Lg row_exchange_needed=%d a00=%.17g", tag, n, kappa, need, mx->data[0][0]);
  dump(c, "M", mx);
  if (!(kappa <= 1e6L) || !or_lu_inverse(A, &Xo)) { vh_skip(c, "kappa > 1e6"); goto out; }
  X1 = out_matrix(c, n, n); X2 = out_matrix(c, n, n);
  MatrixInversion(mx, X1);
  if (!matrix_bitequal(mx, before)) vh_fail(c, "MatrixInversion|input-modified", "input matrix changed");
  MatrixLUInversion(mx, X2);
  if (!matrix_bitequal(mx, before)) vh_fail(c, "MatrixLUInversion|input-modified", "input matrix changed");
  check_inverse(c, "MatrixInversion", A, Xo, X1, kappa, pt, (double)kappa);
  check_inverse(c, "MatrixLUInversion", A, Xo, X2, kappa, pt, 1.0);
  vh_hist("inv_family", fam); vh_hist("inv_size", (long)n);
  vh_obs("inverses_judged", 2); if (need) vh_obs("inverse_cases_requiring_row_exchange", 1);
  DelMatrix(&X1); DelMatrix(&X2);
out:
  DelMatrix(&mx); DelMatrix(&before); ldm_free(A); ldm_free(Xo);
}

/* ------------------------------------------------------------------ group: determinant */
static void group_det(vh_ctx *c)
{
  size_t n = (size_t)vh_int(c, 1, 8), i;
  int fam = (int)vh_int(c, 0, NFAM - 1), fam2 = (int)vh_int(c, 0, NFAM - 1);
  char tag[32], tag2[32];
  ldm *A = gen_square(c, n, fam, 1e6, tag, sizeof tag), *B = gen_square(c, n, fam2, 1e3, tag2, sizeof tag2), *AB, *absA, *absB, *absAB;
  ld kappa = or_cond(A), kb = or_cond(B), dlu, dcf, pa, pab;
  matrix *ma = matrix_of_ldm(A), *mb = matrix_of_ldm(B), *mab, *before = matrix_dup(ma);
  double da, db, dab, tol;
  vh_class(c, "det-%s-n%zu-%s", tag, n, kbucket(kappa));
  vh_desc(c, "group=det family=%s second=%s n=%zu kappa=%.4Lg a00=%.17g", tag, tag2, n, kappa, ma->data[0][0]);
  if (!(kappa <= 1e6L) || !(kb <= 1e6L)) { vh_skip(c, "kappa > 1e6"); DelMatrix(&ma); DelMatrix(&mb); DelMatrix(&before); ldm_free(A); ldm_free(B); return; }
  dump(c, "A", ma); dump(c, "B", mb);
  AB = ldm_mul(A, B); round_to_double(AB);
  mab = matrix_of_ldm(AB);
  absA = ldm_copy(A); absB = ldm_copy(B);
  for (i = 0; i < n * n; i++) { absA->a[i] = fabsl(absA->a[i]); absB->a[i] = fabsl(absB->a[i]); }
  absAB = ldm_mul(absA, absB);
  pa = perm_abs(A); pab = perm_abs(absAB);
  dlu = or_lu_det(A); dcf = or_cofactor_det(A);
  da = MatrixDeterminant(ma);
  if (!matrix_bitequal(ma, before)) vh_fail(c, "MatrixDeterminant|input-modified", "input matrix changed");
  db = MatrixDeterminant(mb);
  dab = MatrixDeterminant(mab);
  tol = (double)n * EPS * (double)pa;
  vh_max("max_det_vs_lu_units", fabs(da - (double)dlu) / tol);
  vh_max("max_det_vs_cofactor_units", fabs(da - (double)dcf) / tol);
  if (!(fabs(da - (double)dlu) <= C_DET * tol))
    vh_fail(c, "MatrixDeterminant|vs-lu-oracle", "det = %.17g, pivoted-LU oracle %.17Lg (n=%zu, natural magnitude perm|A| = %.3Lg)", da, dlu, n, pa);
  if (!(fabs(da - (double)dcf) <= C_DET * tol))
    vh_fail(c, "MatrixDeterminant|vs-cofactor-oracle", "det = %.17g, cofactor oracle %.17Lg (n=%zu, perm|A| = %.3Lg)", da, dcf, n, pa);
  tol = (double)n * EPS * (double)pab;
  vh_max("max_det_multiplicative_units", fabs(dab - da * db) / tol);
  if (!(fabs(dab - da * db) <= C_DET * tol))
    vh_fail(c, "MatrixDeterminant|multiplicative", "det(AB) = %.17g but det(A)det(B) = %.17g * %.17g = %.17g (n=%zu, perm(|A||B|) = %.3Lg)", dab, da, db, da * db, n, pab);
  vh_obs("determinants_judged", 3);
  vh_hist("det_size", (long)n); vh_hist("det_family", fam);
  DelMatrix(&ma); DelMatrix(&mb); DelMatrix(&mab); DelMatrix(&before);
  ldm_free(A); ldm_free(B); ldm_free(AB); ldm_free(absA); ldm_free(absB); ldm_free(absAB);
}

/* ------------------------------------------------------------------ group: SolveLSE */
static void group_lse(vh_ctx *c)
{
  size_t n = (size_t)vh_int(c, 1, 12), i, j;
  int fam = (int)vh_int(c, 0, NFAM - 1);
  char tag[32];
  ldm *A = gen_square(c, n, fam, 1e3, tag, sizeof tag), *b = ldm_new(n, 1), *xo = NULL;
  ld kappa = or_cond(A), xs, anorm = 0, bmax;
  matrix *mx, *before;
  dvector *sol;
  int need = needs_row_exchange(A);
  const char *pt = need ? "requires_row_exchange=1" : "requires_row_exchange=0";
  double tol, fwd = 0, res = 0;
  char key[96];
  for (i = 0; i < n; i++) {                          /* b = A x_true, x_true O(1) */
    LM(b, i, 0) = 0;
  }
  {
    ld xt[16];
    for (j = 0; j < n; j++) xt[j] = vh_coin(c, 0.15) ? 0 : vh_range(c, -3.0, 3.0);
    for (i = 0; i < n; i++) { ld s = 0; for (j = 0; j < n; j++) s += LM(A, i, j) * xt[j]; LM(b, i, 0) = (ld)(double)s; }
  }
  NewMatrix(&mx, n, n + 1);
  for (i = 0; i < n; i++) { for (j = 0; j < n; j++) mx->data[i][j] = (double)LM(A, i, j); mx->data[i][n] = (double)LM(b, i, 0); }
  before = matrix_dup(mx);
  vh_class(c, "lse-%s-n%s-%s-px%d", tag, nbucket(n), kbucket(kappa), need);
  vh_desc(c, "group=lse family=%s n=%zu kappa=%.4Lg row_exchange_needed=%d a00=%.17g b0=%.17g", tag, n, kappa, need, mx->data[0][0], mx->data[0][n]);
  dump(c, "augmented[A|b]", mx);
  if (!(kappa <= 1e3L) || !or_lu_solve(A, b, &xo)) { vh_skip(c, "kappa > 1e3"); goto out; }
  if (lse_zero_window(A, 1e-14L, 1e-3L)) { vh_obs("lse_skipped_zero_window", 1); vh_skip(c, "an elimination intermediate lies in SolveLSE's documented 1e-4 zero window"); goto out; }
  /* primary run into an empty / zero-filled / wrongly sized vector */
  { int how = (int)vh_int(c, 0, 2); if (how == 0) initDVector(&sol); else NewDVector(&sol, how == 1 ? n : n + 2); }
  SolveLSE(mx, sol);
  if (!matrix_bitequal(mx, before)) vh_fail(c, "SolveLSE|input-modified", "augmented matrix changed");
  if (sol->size != n) { vh_fail(c, "SolveLSE|shape", "solution has %zu entries for %zu unknowns", sol->size, n); DelDVector(&sol); goto out; }
  xs = ldm_maxabs(xo); bmax = ldm_maxabs(b);
  for (i = 0; i < n; i++) { ld s = 0; for (j = 0; j < n; j++) s += fabsl(LM(A, i, j)); if (s > anorm) anorm = s; }
  for (i = 0; i < n; i++) {
    ld s = -LM(b, i, 0); double d;
    for (j = 0; j < n; j++) s += LM(A, i, j) * sol->data[j];
    d = (double)fabsl(s); if (!(d <= res)) res = d;
    d = fabs(sol->data[i] - (double)LM(xo, i, 0)); if (!(d <= fwd)) fwd = d;
  }
  tol = (double)kappa * (double)n * EPS * (double)(xs + bmax / anorm);
  vh_max("max_SolveLSE_vs_oracle_units", fwd / tol);
  if (!(fwd <= C_LSE_FWD * tol)) { snprintf(key, sizeof key, "SolveLSE|solution-vs-oracle|%s", pt); vh_fail(c, key, "max|x - oracle| = %.3g > %.3g (n=%zu kappa=%.3Lg |x*|=%.3Lg)", fwd, C_LSE_FWD * tol, n, kappa, xs); }
  {
    double xm = 0; for (i = 0; i < n; i++) if (fabs(sol->data[i]) > xm) xm = fabs(sol->data[i]);
    tol = (double)n * EPS * ((double)anorm * xm + (double)bmax);
    /* the residual of elimination with partial pivoting is backward stable up to the growth factor; kappa is the generous cap */
    vh_max("max_SolveLSE_residual_units", res / tol);
    if (!(res <= C_LSE_RES * tol)) { snprintf(key, sizeof key, "SolveLSE|residual|%s", pt); vh_fail(c, key, "max|A x - b| = %.3g > %.3g (n=%zu kappa=%.3Lg)", res, C_LSE_RES * tol, n, kappa); }
  }
  /* the solution is a function of the system only: solving into a reused vector (holding the library's own "no value"
     code 99999999, or an earlier O(1) solution) must meet the same tolerance; bit-identity is recorded as an observation */
  {
    dvector *sol2; int same = 1, fill = vh_coin(c, 0.5); double d2 = 0, tol2 = (double)kappa * (double)n * EPS * (double)(xs + bmax / anorm);
    NewDVector(&sol2, n);
    for (i = 0; i < n; i++) sol2->data[i] = fill ? MISSING : vh_range(c, -5.0, 5.0);
    SolveLSE(mx, sol2);
    if (sol2->size != n) d2 = INFINITY;
    else for (i = 0; i < n; i++) {
      double d = fabs(sol2->data[i] - (double)LM(xo, i, 0)); if (!(d <= d2)) d2 = d;
      if (sol2->data[i] != sol->data[i]) same = 0;
    }
    vh_obs(same ? "lse_output_reuse_bit_identical" : "lse_output_reuse_not_bit_identical", 1);
    vh_max(fill ? "max_SolveLSE_reused_output_missing_code_units" : "max_SolveLSE_reused_output_earlier_solution_units", d2 / tol2);
    if (!(d2 <= C_LSE_FWD * tol2))
      vh_fail(c, fill ? "SolveLSE|solution-vs-oracle|output-vector-prefilled-with-missing-code" : "SolveLSE|solution-vs-oracle|output-vector-prefilled-with-earlier-solution",
              "same system solved into a vector pre-filled with %s: max|x - oracle| = %.3g > %.3g (n=%zu kappa=%.3Lg)", fill ? "99999999 (MISSING)" : "values in [-5,5]", d2, C_LSE_FWD * tol2, n, kappa);
    vh_obs("lse_output_reuse_judged", 1);
    DelDVector(&sol2);
  }
  vh_obs("lse_judged", 1); if (need) vh_obs("lse_cases_requiring_row_exchange", 1);
  DelDVector(&sol);
out:
  DelMatrix(&mx); DelMatrix(&before); ldm_free(A); ldm_free(b); ldm_free(xo);
}

/* ------------------------------------------------------------------ rectangular full-column-rank designs */
static ldm *gen_tall(vh_ctx *c, size_t m, size_t n, double smax_lo, double smax_hi, double kmax, char *tag, size_t tagsz)
{
  ld sv[16];
  int v = (int)vh_int(c, 0, 7);
  ldm *A;
  size_t i, j;
  if (v >= 6) {                                    /* structured square family of the quantifier (permutation, zero leading entries / minors,
                                                      triangular, SPD, diagonal) as the design itself (m == n) or as its top block (m > n) */
    char t2[24];
    int fam = (int)vh_int(c, F_PERM, NFAM - 1);
    ldm *B = gen_square(c, n, fam, kmax, t2, sizeof t2);
    double s = vh_range(c, 0.2, 0.8);
    A = ldm_new(m, n);
    for (i = 0; i < m; i++) for (j = 0; j < n; j++) LM(A, i, j) = i < n ? LM(B, i, j) : s * vh_gauss(c);
    ldm_free(B);
    snprintf(tag, tagsz, "%s-%s", m == n ? "sq" : "stack", t2);
    vh_hist("tall_design_structured_family", fam);
  } else if (v == 4 && m >= n) {                          /* polynomial design 1, t, t^2 ... (the use OLS documents) */
    A = ldm_new(m, n);
    for (i = 0; i < m; i++) { ld t = vh_range(c, -1.0, 1.0), p = 1; for (j = 0; j < n; j++) { LM(A, i, j) = p; p *= t; } }
    snprintf(tag, tagsz, "poly");
  } else if (v == 5) {                             /* gaussian entries */
    double s = vh_range(c, 0.3, 1.5);
    A = ldm_new(m, n);
    for (i = 0; i < m * n; i++) A->a[i] = s * vh_gauss(c);
    snprintf(tag, tagsz, "gauss");
  } else {
    int mode = v;                                  /* 0 log-uniform, 1 all equal, 2 clusters, 3 geometric */
    gen_svals(c, n, vh_range(c, smax_lo, smax_hi), vh_logunif(c, 0, log10(kmax)), mode, sv);
    A = from_svals(c, m, n, sv);
    snprintf(tag, tagsz, "svals%d", mode);
  }
  round_to_double(A);
  return A;
}

static void group_ols(vh_ctx *c)
{
  size_t n = (size_t)vh_int(c, 1, 12), m = (size_t)vh_int(c, (long)n, 12), i, j;
  char tag[32];
  ldm *A = gen_tall(c, m, n, 0.5, 4.0, 1e3, tag, sizeof tag), *y = ldm_new(m, 1), *bo;
  ld *sv = calloc(n + 1, sizeof(ld)), kappa, bs, ynorm = 0;
  matrix *mx = matrix_of_ldm(A), *before = matrix_dup(mx);
  dvector *vy, *coef;
  double noise = vh_coin(c, 0.3) ? 0.0 : vh_logunif(c, -3, 0), tol, fwd = 0;
  or_svd(A, sv, NULL, NULL);
  kappa = sv[n - 1] > 0 ? sv[0] / sv[n - 1] : INFINITY;
  {
    ld bt[16];
    for (j = 0; j < n; j++) bt[j] = vh_range(c, -3.0, 3.0);
    for (i = 0; i < m; i++) { ld s = 0; for (j = 0; j < n; j++) s += LM(A, i, j) * bt[j]; LM(y, i, 0) = (ld)(double)(s + noise * vh_gauss(c)); }
  }
  NewDVector(&vy, m);
  for (i = 0; i < m; i++) { vy->data[i] = (double)LM(y, i, 0); ynorm += LM(y, i, 0) * LM(y, i, 0); }
  ynorm = sqrtl(ynorm);
  vh_class(c, "ols-%s-n%s-%s-%s", tag, nbucket(n), m == n ? "square" : "tall", kbucket(kappa));
  vh_desc(c, "group=ols design=%s rows=%zu cols=%zu kappa=%.4Lg noise=%.3g x00=%.17g y0=%.17g", tag, m, n, kappa, noise, mx->data[0][0], vy->data[0]);
  dump(c, "X", mx);
  if (c->verbose) { fprintf(stderr, "y"); for (i = 0; i < m; i++) fprintf(stderr, " %.17g", vy->data[i]); fprintf(stderr, "\n"); }
  bo = kappa <= 1e3L ? or_lstsq(A, y) : NULL;
  if (!bo) { vh_skip(c, "kappa(X) > 1e3 (normal matrix beyond 1e6)"); goto out; }
  coef = out_dvector(c, n);
  OrdinaryLeastSquares(mx, vy, coef);
  if (!matrix_bitequal(mx, before)) vh_fail(c, "OrdinaryLeastSquares|input-modified", "design matrix changed");
  if (coef->size != n) { vh_fail(c, "OrdinaryLeastSquares|shape", "%zu coefficients for %zu columns", coef->size, n); DelDVector(&coef); goto out; }
  bs = ldm_maxabs(bo);
  for (j = 0; j < n; j++) { double d = fabs(coef->data[j] - (double)LM(bo, j, 0)); if (!(d <= fwd)) fwd = d; }
  tol = (double)(kappa * kappa) * (double)n * EPS * (double)(bs + ynorm / sv[0]);
  vh_max("max_OLS_vs_oracle_units", fwd / tol);
  if (!(fwd <= C_OLS * tol)) vh_fail(c, "OrdinaryLeastSquares|coefficients-vs-oracle", "max|beta - oracle| = %.3g > %.3g (rows=%zu cols=%zu kappa=%.3Lg)", fwd, C_OLS * tol, m, n, kappa);
  vh_obs("ols_judged", 1); if (!strncmp(tag, "sq-", 3) || !strncmp(tag, "stack-", 6)) vh_obs("ols_structured_family_designs_judged", 1);
  /* the same matrix object, changed in place, fitted again (third seeded wave): a solver that remembers anything about the previous call by the
     address and shape of its argument answers for the old content.  Column 0 is doubled and the response renewed: the solution is known exactly. */
  if ((c->idx & 3) == 2 && n >= 1) {
    dvector *coef2 = out_dvector(c, n); ldm *A2 = ldm_copy(A), *bo2; double fwd2 = 0;
    for (i = 0; i < m; i++) { mx->data[i][0] *= 2.0; LM(A2, i, 0) = mx->data[i][0]; vy->data[i] = vy->data[i] * 0.5 + (double)(i % 3); LM(y, i, 0) = vy->data[i]; }
    bo2 = or_lstsq(A2, y);
    OrdinaryLeastSquares(mx, vy, coef2);
    if (bo2 && coef2->size == n) {
      ld bs2 = ldm_maxabs(bo2); ld yn2 = 0; for (i = 0; i < m; i++) yn2 += LM(y, i, 0) * LM(y, i, 0);
      for (j = 0; j < n; j++) { double d = fabs(coef2->data[j] - (double)LM(bo2, j, 0)); if (!(d <= fwd2)) fwd2 = d; }
      tol = (double)(4 * kappa * kappa) * (double)n * EPS * (double)(bs2 + sqrtl(yn2) / sv[0]);
      vh_max("max_OLS_refit_in_place_units", fwd2 / tol);
      if (!(fwd2 <= C_OLS * tol)) vh_fail(c, "OrdinaryLeastSquares|coefficients-vs-oracle|same-matrix-object-changed-in-place", "second fit of the same matrix object after its first column was doubled: max|beta - oracle| = %.3g > %.3g", fwd2, C_OLS * tol);
      vh_obs("ols_refits_of_a_matrix_changed_in_place", 1);
    }
    if (bo2) ldm_free(bo2);
    ldm_free(A2); DelDVector(&coef2);
  }
  DelDVector(&coef);
out:
  DelDVector(&vy); DelMatrix(&mx); DelMatrix(&before); ldm_free(A); ldm_free(y); ldm_free(bo); free(sv);
}

/* ------------------------------------------------------------------ group: Moore-Penrose pseudo-inverse */
static void group_pinv(vh_ctx *c)
{
  size_t n = (size_t)vh_int(c, 1, 12), m = (size_t)vh_int(c, (long)n, 12), i, j;
  char tag[32];
  ldm *A = gen_tall(c, m, n, 0.5, 10.0, 1e3, tag, sizeof tag), *I, *Go = NULL, *G = NULL, *AG, *GA, *AGA, *GAG;
  ld *sv = calloc(n + 1, sizeof(ld)), kappa, gmax, amax;
  matrix *mx = matrix_of_ldm(A), *before = matrix_dup(mx), *inv;
  double tol, p1, p2, p3 = 0, p4 = 0, fwd, gap = 1;
  const char *gt;
  char key[128];
  or_svd(A, sv, NULL, NULL);
  for (i = 0; i + 1 < n; i++) if ((double)((sv[i] - sv[i + 1]) / sv[0]) < gap) gap = (double)((sv[i] - sv[i + 1]) / sv[0]);
  gt = gap < 1e-6 ? "repeated-singular-values" : gap < 1e-2 ? "close-singular-values" : "separated-singular-values";
  kappa = sv[n - 1] > 0 ? sv[0] / sv[n - 1] : INFINITY;
  vh_class(c, "pinv-%s-n%s-%s-k%s-%s", tag, nbucket(n), m == n ? "square" : "tall", kappa < 2 ? "<2" : kappa < 10 ? "<1e1" : kappa < 100 ? "<1e2" : "<1e3", gap < 1e-6 ? "rep" : gap < 1e-2 ? "close" : "sep");
  vh_desc(c, "group=pinv design=%s rows=%zu cols=%zu smin=%.4Lg smax=%.4Lg kappa=%.4Lg min_rel_gap=%.3g a00=%.17g", tag, m, n, sv[n - 1], sv[0], kappa, gap, mx->data[0][0]);
  dump(c, "A", mx);
  if (!(kappa <= 1e3L)) { vh_skip(c, "kappa(A) > 1e3 (normal matrix beyond 1e6)"); goto out; }
  I = ldm_new(m, m); for (i = 0; i < m; i++) LM(I, i, i) = 1;
  Go = or_lstsq(A, I); ldm_free(I);
  if (!Go) { vh_skip(c, "oracle: rank deficient"); goto out; }
  inv = out_matrix(c, n, m);
  MatrixMoorePenrosePseudoinverse(mx, inv);
  if (!matrix_bitequal(mx, before)) vh_fail(c, "MatrixMoorePenrosePseudoinverse|input-modified", "input matrix changed");
  if (inv->row != n || inv->col != m) { vh_fail(c, "MatrixMoorePenrosePseudoinverse|shape", "pseudo-inverse is %zux%zu for a %zux%zu input", inv->row, inv->col, m, n); DelMatrix(&inv); goto out; }
  if (!matrix_all_finite(inv)) { vh_fail(c, "MatrixMoorePenrosePseudoinverse|non-finite", "non-finite entries (smin=%.3Lg kappa=%.3Lg)", sv[n - 1], kappa); DelMatrix(&inv); goto out; }
  G = ldm_of_matrix(inv);
  AG = ldm_mul(A, G); GA = ldm_mul(G, A); AGA = ldm_mul(AG, A); GAG = ldm_mul(GA, G);
  amax = ldm_maxabs(A); gmax = ldm_maxabs(Go);
  p1 = (double)(ldm_maxdiff(AGA, A) / amax);
  p2 = (double)(ldm_maxdiff(GAG, G) / gmax);
  for (i = 0; i < m; i++) for (j = 0; j < m; j++) { double d = (double)fabsl(LM(AG, i, j) - LM(AG, j, i)); if (!(d <= p3)) p3 = d; }
  for (i = 0; i < n; i++) for (j = 0; j < n; j++) { double d = (double)fabsl(LM(GA, i, j) - LM(GA, j, i)); if (!(d <= p4)) p4 = d; }
  fwd = (double)(ldm_maxdiff(G, Go) / gmax);
  tol = (double)(kappa * kappa) * (double)n * EPS;
  {
    double worst = p1; char nm[64];
    worst = fmax(fmax(worst, p2), fmax(fmax(p3, p4), fwd));
    snprintf(nm, sizeof nm, "max_pinv_units_%s", gt); vh_max(nm, worst / tol);
  }
  vh_max("max_pinv_AG_symmetry_units", p3 / tol); vh_max("max_pinv_GA_symmetry_units", p4 / tol);
#define PINV_FAIL(cond, clause, ...) if (!(cond)) { snprintf(key, sizeof key, "MatrixMoorePenrosePseudoinverse|%s|%s", clause, gt); vh_fail(c, key, __VA_ARGS__); }
  PINV_FAIL(p1 <= C_PINV * tol, "penrose-1-AGA=A", "max|AGA - A|/max|A| = %.3g > %.3g (%zux%zu kappa=%.3Lg min_rel_gap=%.3g)", p1, C_PINV * tol, m, n, kappa, gap)
  PINV_FAIL(p2 <= C_PINV * tol, "penrose-2-GAG=G", "max|GAG - G|/max|G| = %.3g > %.3g (%zux%zu kappa=%.3Lg min_rel_gap=%.3g)", p2, C_PINV * tol, m, n, kappa, gap)
  PINV_FAIL(p3 <= C_PINV * tol, "penrose-3-AG-symmetric", "max|AG - (AG)^T| = %.3g > %.3g (%zux%zu kappa=%.3Lg)", p3, C_PINV * tol, m, n, kappa)
  PINV_FAIL(p4 <= C_PINV * tol, "penrose-4-GA-symmetric", "max|GA - (GA)^T| = %.3g > %.3g (%zux%zu kappa=%.3Lg)", p4, C_PINV * tol, m, n, kappa)
  PINV_FAIL(fwd <= C_PINV * tol, "vs-oracle", "max|G - oracle|/max|oracle| = %.3g > %.3g (%zux%zu kappa=%.3Lg min_rel_gap=%.3g)", fwd, C_PINV * tol, m, n, kappa, gap)
  vh_obs("pinv_judged", 1); if (!strncmp(tag, "sq-", 3) || !strncmp(tag, "stack-", 6)) vh_obs("pinv_structured_family_designs_judged", 1);
  ldm_free(AG); ldm_free(GA); ldm_free(AGA); ldm_free(GAG);
  DelMatrix(&inv);
out:
  DelMatrix(&mx); DelMatrix(&before); ldm_free(A); ldm_free(Go); ldm_free(G); free(sv);
}

/* ------------------------------------------------------------------ group: symmetric eigenproblem */
static void group_eig(vh_ctx *c)
{
  size_t n = (size_t)vh_int(c, 1, 12), i, j, t;
  int v = (int)vh_int(c, 0, 10);
  const char *tag;
  ldm *A = ldm_new(n, n), *V = ldm_new(n, n);
  ld *ev = calloc(n + 1, sizeof(ld)), *lam = calloc(n + 1, sizeof(ld)), fro;
  matrix *mx, *before, *evect;
  dvector *eval;
  double tol, worst = 0, wval = 0, wnorm = 0;
  switch (v) {
  case 0: case 1: {                                /* Q diag(lambda) Q^T, signs mixed, magnitudes over <= 6 decades */
    ldm *Q = rand_orth(c, n);
    ld sv[16];
    gen_svals(c, n, vh_range(c, 0.5, 4.0), vh_logunif(c, 0, 6), v == 1 ? 2 : 0, sv);
    for (t = 0; t < n; t++) if (vh_coin(c, 0.5)) sv[t] = -sv[t];
    for (i = 0; i < n; i++) for (j = i; j < n; j++) { ld s = 0; for (t = 0; t < n; t++) s += LM(Q, i, t) * sv[t] * LM(Q, j, t); LM(A, i, j) = s; LM(A, j, i) = s; }
    ldm_free(Q); tag = v == 1 ? "clustered" : "indefinite"; break; }
  case 2: {                                        /* SPD */
    ldm *Q = rand_orth(c, n);
    ld sv[16];
    gen_svals(c, n, vh_range(c, 0.5, 4.0), vh_logunif(c, 0, 6), 0, sv);
    for (i = 0; i < n; i++) for (j = i; j < n; j++) { ld s = 0; for (t = 0; t < n; t++) s += LM(Q, i, t) * sv[t] * LM(Q, j, t); LM(A, i, j) = s; LM(A, j, i) = s; }
    ldm_free(Q); tag = "spd"; break; }
  case 3:                                          /* (G + G^T)/2 */
    for (i = 0; i < n; i++) for (j = i; j < n; j++) { ld s = vh_gauss(c); LM(A, i, j) = s; LM(A, j, i) = s; }
    tag = "wigner"; break;
  case 4:                                          /* diagonal */
    for (i = 0; i < n; i++) LM(A, i, i) = vh_coin(c, 0.2) ? 0 : vh_range(c, -3.0, 3.0);
    tag = "diag"; break;
  case 5: {                                        /* symmetric permutation (involution): eigenvalues +-1, repeated */
    size_t *p = calloc(n + 1, sizeof *p);
    vh_perm(c, p, n);
    for (i = 0; i + 1 < n; i += 2) if (vh_coin(c, 0.7)) { LM(A, p[i], p[i + 1]) = 1; LM(A, p[i + 1], p[i]) = 1; } else { LM(A, p[i], p[i]) = 1; LM(A, p[i + 1], p[i + 1]) = 1; }
    if (n & 1) LM(A, p[n - 1], p[n - 1]) = 1;
    free(p); tag = "involution"; break; }
  case 6:                                          /* symmetric tridiagonal */
    for (i = 0; i < n; i++) { LM(A, i, i) = vh_range(c, -2.0, 2.0); if (i + 1 < n) { ld s = vh_range(c, -1.0, 1.0); LM(A, i, i + 1) = s; LM(A, i + 1, i) = s; } }
    tag = "tridiagonal"; break;
  case 7:                                          /* small integers: exact multiple eigenvalues are common */
    for (i = 0; i < n; i++) for (j = i; j < n; j++) { ld s = (ld)vh_int(c, -1, 1); LM(A, i, j) = s; LM(A, j, i) = s; }
    tag = "integer"; break;
  case 8: {                                        /* zero leading block [[0, B], [B^T, D]]: every leading minor up to r vanishes */
    size_t r = n > 1 ? (size_t)vh_int(c, 1, (long)(n / 2)) : 1;
    for (i = 0; i < n; i++) for (j = i; j < n; j++) { ld s = (i < r && j < r) ? 0 : vh_gauss(c); LM(A, i, j) = s; LM(A, j, i) = s; }
    tag = "zeroblock"; break; }
  case 9:                                          /* hollow: zero diagonal */
    for (i = 0; i < n; i++) for (j = i + 1; j < n; j++) { ld s = vh_range(c, -2.0, 2.0); LM(A, i, j) = s; LM(A, j, i) = s; }
    tag = "hollow"; break;
  default: {                                       /* signed / scaled symmetric permutation: pairs (p_i p_j) carry +-s, fixed points +-s */
    size_t *p = calloc(n + 1, sizeof *p);
    vh_perm(c, p, n);
    for (i = 0; i + 1 < n; i += 2) {
      ld s = (vh_coin(c, 0.5) ? 1 : -1) * (vh_coin(c, 0.5) ? 1.0 : vh_range(c, 0.5, 2.0));
      if (vh_coin(c, 0.7)) { LM(A, p[i], p[i + 1]) = s; LM(A, p[i + 1], p[i]) = s; } else { LM(A, p[i], p[i]) = s; LM(A, p[i + 1], p[i + 1]) = -s; }
    }
    if (n & 1) LM(A, p[n - 1], p[n - 1]) = vh_coin(c, 0.5) ? 1 : -1;
    free(p); tag = "signedperm"; break; }
  }
  vh_hist("eig_family", v);
  round_to_double(A);
  for (i = 0; i < n; i++) for (j = 0; j < i; j++) LM(A, i, j) = LM(A, j, i);
  mx = matrix_of_ldm(A); before = matrix_dup(mx);
  fro = ldm_frob(A);
  or_jacobi_eig(A, ev, V);
  vh_class(c, "eig-%s-n%s", tag, nbucket(n));
  vh_desc(c, "group=eig family=%s n=%zu frob=%.4Lg lambda_max=%.6Lg lambda_min=%.6Lg a00=%.17g", tag, n, fro, ev[0], ev[n - 1], mx->data[0][0]);
  dump(c, "A", mx);
  eval = out_dvector(c, n); evect = out_matrix(c, n, n);
  EVectEval(mx, eval, evect);
  if (!matrix_bitequal(mx, before)) vh_fail(c, "EVectEval|input-modified", "input matrix changed");
  if (eval->size != n || evect->row != n || evect->col != n) { vh_fail(c, "EVectEval|shape", "eval %zu evect %zux%zu for n=%zu", eval->size, evect->row, evect->col, n); goto out; }
  if (!matrix_all_finite(evect)) { vh_fail(c, "EVectEval|non-finite", "non-finite eigenvector entries"); goto out; }
  tol = (double)n * EPS * (double)(fro > 0 ? fro : 1);
  for (j = 0; j < n; j++) {
    ld vn = 0, r = 0;
    for (i = 0; i < n; i++) vn += (ld)evect->data[i][j] * evect->data[i][j];
    vn = sqrtl(vn);
    lam[j] = eval->data[j];
    if (!(vn > 0) || !isfinite(eval->data[j])) { vh_fail(c, "EVectEval|null-eigenvector", "pair %zu: |v| = %.3Lg lambda = %.17g", j, vn, eval->data[j]); continue; }
    if (fabs((double)vn - 1) > wnorm) wnorm = fabs((double)vn - 1);
    for (i = 0; i < n; i++) {
      ld s = -(ld)eval->data[j] * evect->data[i][j];
      for (t = 0; t < n; t++) s += LM(A, i, t) * evect->data[t][j];
      if (fabsl(s) > r) r = fabsl(s);
    }
    if ((double)(r / vn) > worst) worst = (double)(r / vn);
    if (!((double)(r / vn) <= C_EIG_RES * tol)) { vh_fail(c, "EVectEval|Av=lambda-v", "pair %zu: max|A v - lambda v|/|v| = %.3Lg > %.3g (n=%zu lambda=%.17g |v|=%.3Lg |A|=%.3Lg)", j, r / vn, C_EIG_RES * tol, n, eval->data[j], vn, fro); break; }
  }
  /* the returned eigenvalues are the whole spectrum (sorted comparison with the Jacobi oracle) */
  for (i = 0; i + 1 < n; i++) for (j = i + 1; j < n; j++) if (lam[j] > lam[i]) { ld s = lam[i]; lam[i] = lam[j]; lam[j] = s; }
  for (j = 0; j < n; j++) { double d = (double)fabsl(lam[j] - ev[j]); if (!(d <= wval)) wval = d; }
  vh_max("max_eig_residual_units", worst / tol); vh_max("max_eig_spectrum_units", wval / tol); vh_max("max_eig_vector_norm_dev", wnorm);
  if (!c->nviol && !(wval <= C_EIG_VAL * tol)) vh_fail(c, "EVectEval|spectrum-vs-oracle", "sorted eigenvalues differ from the Jacobi oracle by %.3g > %.3g (n=%zu |A|=%.3Lg)", wval, C_EIG_VAL * tol, n, fro);
  vh_obs("eigenpairs_judged", (double)n);
out:
  DelDVector(&eval); DelMatrix(&evect); DelMatrix(&mx); DelMatrix(&before); ldm_free(A); ldm_free(V); free(ev); free(lam);
}

/* ------------------------------------------------------------------ group: SVDlapack on every shape */
static void group_svd(vh_ctx *c)
{
  size_t m = (size_t)vh_int(c, 1, 12), n = (size_t)vh_int(c, 1, 12), k, i, j, t, rank;
  int v = (int)vh_int(c, 0, 7);
  char tag[32];
  ldm *A = NULL, *U, *S, *VT, *US, *R;
  ld *svo, smax, tolv;
  matrix *mx, *before, *u, *s, *vt;
  double rec, dsv = 0, ou = 0, ov = 0, offd = 0;
  int sq = vh_coin(c, 0.15);
  if (sq) n = m;
  k = m < n ? m : n;
  svo = calloc(k + 1, sizeof(ld));
  if (v <= 2) {                                    /* prescribed singular values, full rank (kappa <= 1e6) or rank deficient */
    ld sv[16];
    gen_svals(c, k, vh_range(c, 0.5, 4.0), vh_logunif(c, 0, 6), v == 2 ? (int)vh_int(c, 1, 3) : 0, sv);
    if (v == 1) { size_t z = (size_t)vh_int(c, 1, (long)k); for (t = k - z; t < k; t++) sv[t] = 0; }
    A = from_svals(c, m, n, sv);
    snprintf(tag, sizeof tag, v == 0 ? "svals" : v == 1 ? "rankdef" : "clustered");
  } else if (v == 3) {
    double sc = vh_logunif(c, -1, 1);
    A = ldm_new(m, n); for (i = 0; i < m * n; i++) A->a[i] = sc * vh_gauss(c);
    snprintf(tag, sizeof tag, "gauss");
  } else if (v == 4) {                             /* partial permutation: 0/1 entries, one per row/column at most */
    size_t *p = calloc((m > n ? m : n) + 1, sizeof *p);
    A = ldm_new(m, n); vh_perm(c, p, m > n ? m : n);
    for (i = 0; i < m; i++) if (p[i] < n && !vh_coin(c, 0.1)) LM(A, i, p[i]) = vh_coin(c, 0.3) ? -1 : 1;
    free(p); snprintf(tag, sizeof tag, "perm");
  } else if (v == 5) {                             /* rank one */
    ld a[16], b[16];
    for (i = 0; i < m; i++) a[i] = vh_gauss(c);
    for (j = 0; j < n; j++) b[j] = vh_gauss(c);
    A = ldm_new(m, n); for (i = 0; i < m; i++) for (j = 0; j < n; j++) LM(A, i, j) = a[i] * b[j];
    snprintf(tag, sizeof tag, "rank1");
  } else if (v == 6) {
    A = ldm_new(m, n); if (vh_coin(c, 0.5)) LM(A, (size_t)vh_int(c, 0, (long)m - 1), (size_t)vh_int(c, 0, (long)n - 1)) = vh_range(c, -2.0, 2.0);
    snprintf(tag, sizeof tag, "zero");
  } else {                                         /* square families when square, triangular-trapezoidal otherwise */
    if (m == n) { char t2[24]; A = gen_square(c, n, (int)vh_int(c, 0, NFAM - 1), 1e6, t2, sizeof t2); snprintf(tag, sizeof tag, "sq-%s", t2); }
    else { A = ldm_new(m, n); for (i = 0; i < m; i++) for (j = i; j < n; j++) LM(A, i, j) = i == j ? vh_range(c, 0.5, 2.0) : 0.4 * vh_gauss(c); snprintf(tag, sizeof tag, "trapezoid"); }
  }
  round_to_double(A);
  mx = matrix_of_ldm(A); before = matrix_dup(mx);
  or_svd(A, svo, NULL, NULL);
  smax = svo[0];
  rank = 0; for (t = 0; t < k; t++) if (svo[t] > 1e-12L * smax && svo[t] > 0) rank++;
  vh_class(c, "svd-%s-%s-m%s-n%s-%s", tag, m > n ? "tall" : m < n ? "wide" : "square", nbucket(m), nbucket(n), rank == k ? "fullrank" : rank == 0 ? "zero" : "deficient");
  vh_desc(c, "group=svd family=%s rows=%zu cols=%zu rank=%zu smax=%.6Lg smin=%.6Lg a00=%.17g", tag, m, n, rank, smax, svo[k - 1], mx->data[0][0]);
  dump(c, "A", mx);
  u = out_matrix(c, m, k); s = out_matrix(c, k, k); vt = out_matrix(c, k, n);
  SVDlapack(mx, u, s, vt);
  if (!matrix_bitequal(mx, before)) vh_fail(c, "SVDlapack|input-modified", "input matrix changed");
  if (u->row != m || u->col != k || s->row != k || s->col != k || vt->row != k || vt->col != n) {
    vh_fail(c, m == n ? "SVDlapack|shape|square" : "SVDlapack|shape|non-square", "u %zux%zu s %zux%zu vt %zux%zu for a %zux%zu input (economy size expected, k=%zu)", u->row, u->col, s->row, s->col, vt->row, vt->col, m, n, k);
    goto out;
  }
  if (!matrix_all_finite(u) || !matrix_all_finite(s) || !matrix_all_finite(vt)) { vh_fail(c, "SVDlapack|non-finite", "non-finite factor entries"); goto out; }
  tolv = (ld)(m > n ? m : n) * EPS * (smax > 0 ? smax : 1);
  for (t = 0; t < k; t++) {
    double sv = s->data[t][t], d;
    if (sv < 0) vh_fail(c, "SVDlapack|negative-singular-value", "s[%zu] = %.17g", t, sv);
    if (t > 0 && sv > s->data[t - 1][t - 1]) vh_fail(c, "SVDlapack|not-descending", "s[%zu] = %.17g > s[%zu] = %.17g", t, sv, t - 1, s->data[t - 1][t - 1]);
    d = fabs(sv - (double)svo[t]); if (!(d <= dsv)) dsv = d;
    for (j = 0; j < k; j++) if (j != t && !(fabs(s->data[t][j]) <= offd)) offd = fabs(s->data[t][j]);
  }
  if (offd != 0) vh_fail(c, "SVDlapack|S-not-diagonal", "largest off-diagonal entry of s = %.3g", offd);
  U = ldm_of_matrix(u); S = ldm_of_matrix(s); VT = ldm_of_matrix(vt);
  US = ldm_mul(U, S); R = ldm_mul(US, VT);
  rec = (double)ldm_maxdiff(R, A);
  for (i = 0; i < k; i++) for (j = 0; j < k; j++) {
    ld a = 0, b = 0; double d;
    for (t = 0; t < m; t++) a += LM(U, t, i) * LM(U, t, j);
    for (t = 0; t < n; t++) b += LM(VT, i, t) * LM(VT, j, t);
    d = (double)fabsl(a - (i == j)); if (!(d <= ou)) ou = d;
    d = (double)fabsl(b - (i == j)); if (!(d <= ov)) ov = d;
  }
  vh_max("max_svd_reconstruction_units", rec / (double)tolv); vh_max("max_svd_values_vs_oracle_units", dsv / (double)tolv);
  vh_max("max_svd_UtU-I_units", ou / ((double)(m > n ? m : n) * EPS)); vh_max("max_svd_VVt-I_units", ov / ((double)(m > n ? m : n) * EPS));
  {
    const char *sh = m == n ? "square" : m > n ? "tall" : "wide";
    char key[96];
    if (!(rec <= C_SVD * (double)tolv)) { snprintf(key, sizeof key, "SVDlapack|U*S*Vt=input|%s", sh); vh_fail(c, key, "max|U S V^T - A| = %.3g > %.3g (%zux%zu smax=%.3Lg)", rec, C_SVD * (double)tolv, m, n, smax); }
    if (!(dsv <= C_SVD * (double)tolv)) { snprintf(key, sizeof key, "SVDlapack|singular-values-vs-oracle|%s", sh); vh_fail(c, key, "max|s - oracle| = %.3g > %.3g (%zux%zu smax=%.3Lg)", dsv, C_SVD * (double)tolv, m, n, smax); }
    if (!(ou <= C_SVD * (double)(m > n ? m : n) * EPS)) { snprintf(key, sizeof key, "SVDlapack|U-orthonormal|%s", sh); vh_fail(c, key, "max|U^T U - I| = %.3g (%zux%zu)", ou, m, n); }
    if (!(ov <= C_SVD * (double)(m > n ? m : n) * EPS)) { snprintf(key, sizeof key, "SVDlapack|Vt-orthonormal|%s", sh); vh_fail(c, key, "max|V^T V - I| = %.3g (%zux%zu)", ov, m, n); }
  }
  vh_obs("svd_judged", 1); vh_obs(m == n ? "svd_square" : m > n ? "svd_tall" : "svd_wide", 1);
  ldm_free(U); ldm_free(S); ldm_free(VT); ldm_free(US); ldm_free(R);
out:
  DelMatrix(&u); DelMatrix(&s); DelMatrix(&vt); DelMatrix(&mx); DelMatrix(&before); ldm_free(A); free(svo);
}

/* ------------------------------------------------------------------ containment of calls that may not return */
/* QRDecomposition, SVD and MatrixPseudoinversion have never been run by this harness and end in abort() (shape tests of
   MatrixInversion / MatrixDotProduct) or in a heap overrun on whole input classes (single-row, non-square).  The runner stops a
   shard after 40 dead children, so
   - every call of the three routines runs with a SIGABRT handler that returns control to the driver when the library itself
     calls abort() (not when a sanitizer report is in progress: that death is left to the runner), and
   - the one class on which SVD overruns the heap (more columns than rows) is first tried in a forked copy of this process
     (~30 ms under ASan, ~1 % of the cases); when the copy dies the case is judged and the call is not repeated here.  The
     sanitizer report of the copy lands in the worker's log and is keyed by vcheck as well.
   Both verdicts carry the key <Function>|routine-dies|<input class>. */
typedef struct { int which; matrix *a, *o1, *o2, *o3; } call_t;
static void do_call(const call_t *k)
{
  if (k->which == 0) QRDecomposition(k->a, k->o1, k->o2);
  else if (k->which == 1) SVD(k->a, k->o1, k->o2, k->o3);
  else MatrixPseudoinversion(k->a, k->o1);
}
static sigjmp_buf g_abort_jmp;
static volatile sig_atomic_t g_abort_armed;
static void on_abort(int sig)
{
  (void)sig;
#if HAVE_ASAN
  if (__asan_report_present()) return;             /* a sanitizer is dying: let it */
#endif
  if (g_abort_armed) { g_abort_armed = 0; siglongjmp(g_abort_jmp, 1); }
}
/* 0 = returned, 1 = ended in abort() */
static int call_guarded(const call_t *k)
{
  struct sigaction sa, old;
  int aborted = 0;
  memset(&sa, 0, sizeof sa);
  sa.sa_handler = on_abort; sigemptyset(&sa.sa_mask);
  sigaction(SIGABRT, &sa, &old);
  if (sigsetjmp(g_abort_jmp, 1) == 0) { g_abort_armed = 1; do_call(k); } else aborted = 1;
  g_abort_armed = 0;
  sigaction(SIGABRT, &old, NULL);
  fflush(stdout);
  return aborted;
}
/* 0 = returned; otherwise the wait status of the dead copy */
static int call_dies_in_copy(const call_t *k)
{
  pid_t pid; int st = 0;
  fflush(NULL);
  pid = fork();
  if (pid < 0) return 0;
  if (pid == 0) { alarm(30); do_call(k); _exit(0); }   /* nobody watches the copy: a call that never returns is killed by SIGALRM */
  while (waitpid(pid, &st, 0) < 0 && errno == EINTR) { }
  vh_obs("calls_tried_in_a_forked_copy_first", 1);
  return (WIFEXITED(st) && WEXITSTATUS(st) == 0) ? 0 : (st ? st : -1);
}
static void fail_dies(vh_ctx *c, const char *fn, const char *cls, int st, size_t m, size_t n)
{
  char key[128];
  snprintf(key, sizeof key, "%s|routine-dies|%s", fn, cls);
  if (st == 0) vh_fail(c, key, "the call on a %zux%zu input did not return: it ended in abort() (a shape test inside the library: see its message on stdout)", m, n);
  else if (WIFSIGNALED(st)) vh_fail(c, key, "the call on a %zux%zu input did not return: killed by signal %d (sanitizer report or abort(), see the worker log)", m, n, WTERMSIG(st));
  else vh_fail(c, key, "the call on a %zux%zu input did not return: exit status %d", m, n, WIFEXITED(st) ? WEXITSTATUS(st) : -1);
}

/* Eigenvectors of the normal matrix computed by a general (non-symmetric) eigen-solver lose orthogonality in proportion to
   1 / (relative gap of neighbouring singular values): the documented algorithm implies that extra amplification for close
   values (relative gap 1e-6 .. 1e-2).  Below 1e-6 the values count as repeated: any orthonormal basis of the eigenspace is a
   valid answer and the factor stays at its 1e-6 value. */
static double gap_amp(double gap) { return gap < 1e-6 ? 1e4 : gap < 1e-2 ? 1.0 / (100.0 * gap) : 1.0; }

static const char *gap_tag(const ld *sv, size_t k, double *gapout)
{
  double gap = 1; size_t i;
  for (i = 0; i + 1 < k; i++) if (sv[i] > 0 && (double)((sv[i] - sv[i + 1]) / sv[0]) < gap) gap = (double)((sv[i] - sv[i + 1]) / sv[0]);
  if (gapout) *gapout = gap;
  return gap < 1e-6 ? "repeated-singular-values" : gap < 1e-2 ? "close-singular-values" : "separated-singular-values";
}

/* ------------------------------------------------------------------ group: QRDecomposition */
/* textbook Householder QR in long double (alpha = -sign(x_k)|x|, sign(0) = -): only used to label the case by the smallest
   |diagonal entry| of the orthogonal factor */
static ld qr_min_qdiag(const ldm *A0)
{
  size_t m = A0->r, n = A0->c, i, j, k;
  ldm *A = ldm_copy(A0), *Q = ldm_new(m, m);
  ld v[16], best = 1;
  for (i = 0; i < m; i++) LM(Q, i, i) = 1;
  for (k = 0; k < n && k + 1 < m; k++) {
    ld nx = 0, alpha, vn = 0;
    for (i = k; i < m; i++) nx += LM(A, i, k) * LM(A, i, k);
    nx = sqrtl(nx);
    if (!(nx > 0)) continue;
    alpha = LM(A, k, k) > 0 ? -nx : nx;
    for (i = 0; i < m; i++) v[i] = i < k ? 0 : LM(A, i, k);
    v[k] -= alpha;
    for (i = k; i < m; i++) vn += v[i] * v[i];
    for (j = 0; j < n; j++) { ld d = 0; for (i = k; i < m; i++) d += v[i] * LM(A, i, j); d = 2 * d / vn; for (i = k; i < m; i++) LM(A, i, j) -= d * v[i]; }
    for (j = 0; j < m; j++) { ld d = 0; for (i = k; i < m; i++) d += LM(Q, j, i) * v[i]; d = 2 * d / vn; for (i = k; i < m; i++) LM(Q, j, i) -= d * v[i]; }
  }
  for (i = 0; i < m; i++) if (fabsl(LM(Q, i, i)) < best) best = fabsl(LM(Q, i, i));
  ldm_free(A); ldm_free(Q);
  return best;
}

static void group_qr(vh_ctx *c)
{
  size_t n = (size_t)vh_int(c, 1, 12), m = vh_coin(c, 0.5) ? n : (size_t)vh_int(c, (long)n, 12), i, j, t;
  char tag[32];
  int fam = -1;
  ldm *A, *Q = NULL, *R = NULL, *QR = NULL;
  ld *sv = calloc(n + 1, sizeof(ld)), kappa, fro, qd;
  matrix *mx, *before, *q, *r;
  call_t call;
  const char *ic;
  char key[128];
  double rec = 0, low = 0, orth = 0, tol;
  int qhow;
  if (m == n) { fam = (int)vh_int(c, 0, NFAM - 1); A = gen_square(c, n, fam, 1e6, tag, sizeof tag); }
  else A = gen_tall(c, m, n, 0.5, 4.0, 1e6, tag, sizeof tag);
  mx = matrix_of_ldm(A); before = matrix_dup(mx);
  or_svd(A, sv, NULL, NULL);
  kappa = sv[n - 1] > 0 ? sv[0] / sv[n - 1] : INFINITY;
  fro = ldm_frob(A);
  qd = qr_min_qdiag(A);
  /* input class of the keys: the routine overwrites diagonal entries of Q that are within 1e-6 of zero */
  ic = m == 1 ? "single-row" : qd < 1e-5L ? (m == n ? "square-orthogonal-factor-with-zero-diagonal-entry" : "tall-orthogonal-factor-with-zero-diagonal-entry") : (m == n ? "square" : "tall");
  vh_class(c, "qr-%s-%s-m%s-n%s-%s-qd%d", tag, m == n ? "square" : "tall", nbucket(m), nbucket(n), kbucket(kappa), qd < 1e-5L);
  vh_desc(c, "group=qr family=%s rows=%zu cols=%zu kappa=%.4Lg min|Q_ii|(oracle)=%.3Lg a00=%.17g", tag, m, n, kappa, qd, mx->data[0][0]);
  dump(c, "A", mx);
  if (!(kappa <= 1e6L)) { vh_skip(c, "kappa > 1e6"); DelMatrix(&mx); DelMatrix(&before); ldm_free(A); free(sv); return; }
  /* Q: empty / right shape with stale content / (sanitizer build only, where a freed container can be recognised) other shape */
  qhow = (int)vh_int(c, 0, 2);
  if (qhow == 2 && !HAVE_ASAN) qhow = 0;
  if (qhow == 0) initMatrix(&q); else { NewMatrix(&q, qhow == 1 ? m : m + 1, qhow == 1 ? m : m + 2); for (i = 0; i < q->row; i++) for (j = 0; j < q->col; j++) q->data[i][j] = 7.25 + (double)i - (double)j; }
  r = out_matrix(c, m, n);
  vh_obs("qr_judged", 1); vh_obs(m == n ? "qr_square" : "qr_tall", 1); if (qd < 1e-5L) vh_obs("qr_cases_with_zero_diagonal_entry_in_Q", 1);
  if (fam >= 0) vh_hist("qr_square_family", fam);
  vh_hist("qr_rows", (long)m); vh_hist("qr_Q_container_state", qhow);
  call.which = 0; call.a = mx; call.o1 = q; call.o2 = r; call.o3 = NULL;
  if (call_guarded(&call)) { fail_dies(c, "QRDecomposition", ic, 0, m, n); goto out; }
#if HAVE_ASAN
  if (__asan_address_is_poisoned(q)) {
    vh_fail(c, "QRDecomposition|frees-caller-Q|Q-preallocated-with-another-shape", "the matrix object passed as Q (%s) was freed by the call: the caller is left with a dangling pointer (%zux%zu input)",
            qhow == 2 ? "allocated with another shape" : qhow == 1 ? "allocated with the result shape" : "empty", m, n);
    q = NULL; goto out;
  }
#endif
  if (!matrix_bitequal(mx, before)) vh_fail(c, "QRDecomposition|input-modified", "input matrix changed");
  if (q->row != m || q->col != m || r->row != m || r->col != n) {
    snprintf(key, sizeof key, "QRDecomposition|shape|%s", ic);
    vh_fail(c, key, "Q %zux%zu R %zux%zu for a %zux%zu input (Q rows x rows, R rows x cols expected)", q->row, q->col, r->row, r->col, m, n); goto out;
  }
  if (!matrix_all_finite(q) || !matrix_all_finite(r)) { snprintf(key, sizeof key, "QRDecomposition|non-finite|%s", ic); vh_fail(c, key, "non-finite entries in Q or R (kappa=%.3Lg)", kappa); goto out; }
  Q = ldm_of_matrix(q); R = ldm_of_matrix(r); QR = ldm_mul(Q, R);
  rec = (double)ldm_maxdiff(QR, A);
  for (i = 0; i < m; i++) for (j = 0; j < n && j < i; j++) if (!((double)fabsl(LM(R, i, j)) <= low)) low = (double)fabsl(LM(R, i, j));
  for (i = 0; i < m; i++) for (j = 0; j < m; j++) {
    ld a = 0; double d;
    for (t = 0; t < m; t++) a += LM(Q, t, i) * LM(Q, t, j);
    d = (double)fabsl(a - (i == j)); if (!(d <= orth)) orth = d;
  }
  tol = (double)m * EPS * (double)(fro > 0 ? fro : 1);
  vh_max("max_qr_QR-A_units", rec / tol); vh_max("max_qr_R_below_diagonal_units", low / tol); vh_max("max_qr_QtQ-I_units", orth / ((double)m * EPS));
  if (!(rec <= C_QR * tol)) { snprintf(key, sizeof key, "QRDecomposition|Q*R=input|%s", ic); vh_fail(c, key, "max|Q R - A| = %.3g > %.3g (%zux%zu |A|_F=%.3Lg kappa=%.3Lg min|Q_ii|=%.3Lg)", rec, C_QR * tol, m, n, fro, kappa, qd); }
  if (!(low <= C_QR * tol)) { snprintf(key, sizeof key, "QRDecomposition|R-upper-triangular|%s", ic); vh_fail(c, key, "largest |R_ij| below the diagonal = %.3g > %.3g (%zux%zu |A|_F=%.3Lg)", low, C_QR * tol, m, n, fro); }
  if (!(orth <= C_QR * (double)m * EPS)) { snprintf(key, sizeof key, "QRDecomposition|Q-orthogonal|%s", ic); vh_fail(c, key, "max|Q^T Q - I| = %.3g > %.3g (%zux%zu min|Q_ii|=%.3Lg)", orth, C_QR * (double)m * EPS, m, n, qd); }
out:
  if (q) DelMatrix(&q);
  DelMatrix(&r); DelMatrix(&mx); DelMatrix(&before);
  ldm_free(A); ldm_free(Q); ldm_free(R); ldm_free(QR); free(sv);
}

/* ------------------------------------------------------------------ inputs of the eigen-based SVD and of MatrixPseudoinversion */
/* m x n; every non-zero singular value >= SVDE_SMIN, smax/smin(non-zero) <= SVDE_KMAX (checked by the caller on the oracle
   spectrum); rank deficient members only when allow_rankdef */
static ldm *gen_svde(vh_ctx *c, size_t m, size_t n, int allow_rankdef, char *tag, size_t tagsz)
{
  size_t k = m < n ? m : n, i, j, t;
  int v = (int)vh_int(c, 0, 8);
  ld sv[16];
  ldm *A = NULL;
  if (!allow_rankdef && (v == 2 || v == 5)) v = v == 2 ? 0 : 6;
  if (v <= 2) {                                    /* prescribed singular values */
    double smax = vh_logunif(c, log10(0.5), log10(50.0)), kmax = smax / SVDE_SMIN < SVDE_KMAX ? smax / SVDE_SMIN : SVDE_KMAX;
    int mode = v == 1 ? (int)vh_int(c, 1, 3) : 0;
    gen_svals(c, k, smax, vh_logunif(c, 0, log10(kmax)), mode, sv);
    if (v == 2) { size_t z = (size_t)vh_int(c, 1, (long)k); for (t = k - z; t < k; t++) sv[t] = 0; }
    A = from_svals(c, m, n, sv);
    snprintf(tag, tagsz, v == 0 ? "svals" : v == 1 ? "clustered%d" : "rankdef", mode);
  } else if (v == 3) {
    double sc = vh_logunif(c, -0.3, 0.7);
    A = ldm_new(m, n); for (i = 0; i < m * n; i++) A->a[i] = sc * vh_gauss(c);
    snprintf(tag, tagsz, "gauss");
  } else if (v == 4) {                             /* (partial) permutation, signed / scaled: one entry per row and column */
    size_t *p = calloc((m > n ? m : n) + 1, sizeof *p);
    int how = (int)vh_int(c, 0, 2);
    A = ldm_new(m, n); vh_perm(c, p, m > n ? m : n);
    for (t = 0; t < k; t++) {
      ld val = how == 0 ? 1 : (vh_coin(c, 0.5) ? 1 : -1) * (how == 1 ? 1.0 : vh_range(c, 0.5, 2.0));
      if (allow_rankdef && vh_coin(c, 0.08)) continue;
      if (m >= n) LM(A, p[t], t) = val; else LM(A, t, p[t]) = val;
    }
    free(p); snprintf(tag, tagsz, "perm%d", how);
  } else if (v == 5) {                             /* rank one / (almost) zero matrix */
    A = ldm_new(m, n);
    if (vh_coin(c, 0.6)) {
      ld a[16], b[16];
      for (i = 0; i < m; i++) a[i] = vh_gauss(c);
      for (j = 0; j < n; j++) b[j] = vh_gauss(c);
      for (i = 0; i < m; i++) for (j = 0; j < n; j++) LM(A, i, j) = a[i] * b[j];
      snprintf(tag, tagsz, "rank1");
    } else {
      if (vh_coin(c, 0.5)) LM(A, (size_t)vh_int(c, 0, (long)m - 1), (size_t)vh_int(c, 0, (long)n - 1)) = vh_range(c, 0.5, 2.0) * (vh_coin(c, 0.5) ? 1 : -1);
      snprintf(tag, tagsz, "zero");
    }
  } else if (v == 6 || v == 7) {                   /* structured families of the quantifier: the matrix itself (square) or a block of it */
    char t2[24];
    int fam = (int)vh_int(c, v == 6 ? F_PERM : F_SVALS, NFAM - 1);
    ldm *B = gen_square(c, k, fam, SVDE_KMAX, t2, sizeof t2);
    double s = vh_range(c, 0.2, 0.8);
    A = ldm_new(m, n);
    for (i = 0; i < m; i++) for (j = 0; j < n; j++) LM(A, i, j) = (i < k && j < k) ? LM(B, i, j) : s * vh_gauss(c);
    ldm_free(B);
    snprintf(tag, tagsz, "%s-%s", m == n ? "sq" : "blk", t2);
  } else {                                         /* upper triangular / trapezoidal */
    A = ldm_new(m, n);
    for (i = 0; i < m; i++) for (j = i; j < n; j++) LM(A, i, j) = i == j ? (vh_coin(c, 0.5) ? 1 : -1) * vh_range(c, 0.5, 2.0) : 0.4 * vh_gauss(c);
    snprintf(tag, tagsz, m == n ? "triU" : "trapezoid");
  }
  round_to_double(A);
  return A;
}

/* oracle spectrum and domain test; returns 0 when a non-zero singular value lies below SVDE_SMIN or kappa(non-zero part) > SVDE_KMAX */
static int svde_domain(const ldm *A, ld *svo, size_t *rank, ld *kappa)
{
  size_t k = A->r < A->c ? A->r : A->c, t;
  ld smin = 0;
  or_svd(A, svo, NULL, NULL);
  *rank = 0;
  for (t = 0; t < k; t++) if (svo[t] > 1e-10L * svo[0] && svo[t] > 0) { (*rank)++; smin = svo[t]; }
  *kappa = *rank ? svo[0] / smin : 1;
  if (*rank && (smin < SVDE_SMIN || *kappa > SVDE_KMAX)) return 0;
  return 1;
}

/* ------------------------------------------------------------------ group: SVD (eigen-decomposition based) */
static void group_svde(vh_ctx *c)
{
  size_t m = (size_t)vh_int(c, 1, 12), n = (size_t)vh_int(c, 1, 12), k, i, j, t, rank, p, q, nd;
  char tag[32], key[160], ic[96];
  ldm *A, *U = NULL, *S = NULL, *VT = NULL, *US = NULL, *R = NULL;
  ld *svo, kappa, smax, d[16];
  matrix *mx, *before, *u, *s, *vt;
  call_t call;
  const char *sh, *gt;
  double rec, dsv = 0, ou = 0, ov = 0, offd = 0, amp, tolv, tolr, tolo, gap;
  int st, sq = vh_coin(c, 0.3);
  if (sq) n = m;
  else if (m < n && vh_coin(c, 0.4)) { size_t w = m; m = n; n = w; }
  k = m < n ? m : n;
  sh = m == n ? "square" : m > n ? "tall" : "wide";
  svo = calloc(k + 1, sizeof(ld));
  A = gen_svde(c, m, n, 1, tag, sizeof tag);
  mx = matrix_of_ldm(A); before = matrix_dup(mx);
  if (!svde_domain(A, svo, &rank, &kappa)) {
    vh_class(c, "svde-%s-%s-skip", tag, sh);
    vh_skip(c, "a non-zero singular value below 0.05 or kappa > 1e3 (SVD zeroes eigenvalues of the normal matrix below 1e-6)");
    DelMatrix(&mx); DelMatrix(&before); ldm_free(A); free(svo); return;
  }
  smax = svo[0];
  gt = gap_tag(svo, rank, &gap);
  snprintf(ic, sizeof ic, "%s-%s%s", sh, rank == k ? "" : "rank-deficient-", gt);
  vh_class(c, "svde-%s-%s-m%s-n%s-%s-%s-%s", tag, sh, nbucket(m), nbucket(n), rank == k ? "fullrank" : rank == 0 ? "zero" : "deficient", kbucket(kappa), gap < 1e-6 ? "rep" : gap < 1e-2 ? "close" : "sep");
  vh_desc(c, "group=svde family=%s rows=%zu cols=%zu rank=%zu smax=%.6Lg smin(nonzero)=%.6Lg kappa=%.4Lg min_rel_gap=%.3g a00=%.17g", tag, m, n, rank, smax, rank ? svo[rank - 1] : 0, kappa, gap, mx->data[0][0]);
  dump(c, "A", mx);
  u = out_matrix(c, m, k); s = out_matrix(c, k, k); vt = out_matrix(c, k, n);
  vh_obs("svde_judged", 1); vh_obs(m == n ? "svde_square" : m > n ? "svde_tall" : "svde_wide", 1); if (rank < k) vh_obs("svde_rank_deficient", 1);
  call.which = 1; call.a = mx; call.o1 = u; call.o2 = s; call.o3 = vt;
  if (m < n && (st = call_dies_in_copy(&call)) != 0) { fail_dies(c, "SVD", sh, st, m, n); goto out; }
  if (call_guarded(&call)) { fail_dies(c, "SVD", sh, 0, m, n); goto out; }
  if (!matrix_bitequal(mx, before)) vh_fail(c, "SVD|input-modified", "input matrix changed");
  p = u->col; q = vt->row;
  if (u->row != m || vt->col != n || s->row != p || s->col != q) {
    snprintf(key, sizeof key, "SVD|factors-not-conformable|%s", sh);
    vh_fail(c, key, "u %zux%zu s %zux%zu vt %zux%zu for a %zux%zu input: u*s*vt is not defined or not %zux%zu", u->row, u->col, s->row, s->col, vt->row, vt->col, m, n, m, n);
    goto out;
  }
  if (!matrix_all_finite(u) || !matrix_all_finite(s) || !matrix_all_finite(vt)) { snprintf(key, sizeof key, "SVD|non-finite|%s", ic); vh_fail(c, key, "non-finite factor entries (kappa=%.3Lg)", kappa); goto out; }
  nd = p < q ? p : q;
  if (nd < k) { snprintf(key, sizeof key, "SVD|singular-value-count|%s", sh); vh_fail(c, key, "%zu diagonal entries in s for a %zux%zu input", nd, m, n); goto out; }
  for (i = 0; i < p; i++) for (j = 0; j < q; j++) if (i != j && !(fabs(s->data[i][j]) <= offd)) offd = fabs(s->data[i][j]);
  if (offd != 0) vh_fail(c, "SVD|S-not-diagonal", "largest off-diagonal entry of s = %.3g", offd);
  for (t = 0; t < nd && t < 16; t++) {
    d[t] = s->data[t][t];
    if (d[t] < 0) { snprintf(key, sizeof key, "SVD|negative-singular-value|%s", ic); vh_fail(c, key, "s[%zu] = %.17g", t, s->data[t][t]); }
  }
  for (i = 0; i + 1 < nd; i++) for (j = i + 1; j < nd; j++) if (d[j] > d[i]) { ld w = d[i]; d[i] = d[j]; d[j] = w; }
  for (t = 0; t < nd; t++) { double e = (double)fabsl(d[t] - (t < k ? svo[t] : 0)); if (!(e <= dsv)) dsv = e; }
  U = ldm_of_matrix(u); S = ldm_of_matrix(s); VT = ldm_of_matrix(vt);
  US = ldm_mul(U, S); R = ldm_mul(US, VT);
  rec = (double)ldm_maxdiff(R, A);
  amp = (double)(kappa * kappa);
  tolv = (double)(m > n ? m : n) * EPS * (double)(smax > 0 ? smax : 1) * amp;            /* singular values: no gap factor (eigenvalues are well conditioned) */
  tolr = tolv * gap_amp(gap);
  tolo = (double)(m > n ? m : n) * EPS * amp * gap_amp(gap);
  vh_max("max_svde_reconstruction_units", rec / tolr); vh_max("max_svde_values_vs_oracle_units", dsv / tolv);
  if (!(rec <= C_SVDE * tolr)) { snprintf(key, sizeof key, "SVD|U*S*Vt=input|%s", ic); vh_fail(c, key, "max|U S V^T - A| = %.3g > %.3g (%zux%zu smax=%.3Lg kappa=%.3Lg min_rel_gap=%.3g)", rec, C_SVDE * tolr, m, n, smax, kappa, gap); }
  if (!(dsv <= C_SVDE * tolv)) { snprintf(key, sizeof key, "SVD|singular-values-vs-oracle|%s", ic); vh_fail(c, key, "sorted diagonal of s differs from the singular values by %.3g > %.3g (%zux%zu smax=%.3Lg kappa=%.3Lg; s[0]=%.6g oracle %.6Lg)", dsv, C_SVDE * tolv, m, n, smax, kappa, (double)d[0], svo[0]); }
  if (rank == k) {                                 /* "U and V are orthogonal" (comment of MatrixPseudoinversion, docs example): judged when no singular value vanishes */
    for (i = 0; i < p; i++) for (j = 0; j < p; j++) { ld a = 0; double e; for (t = 0; t < m; t++) a += LM(U, t, i) * LM(U, t, j); e = (double)fabsl(a - (i == j)); if (!(e <= ou)) ou = e; }
    for (i = 0; i < q; i++) for (j = 0; j < q; j++) { ld a = 0; double e; for (t = 0; t < n; t++) a += LM(VT, i, t) * LM(VT, j, t); e = (double)fabsl(a - (i == j)); if (!(e <= ov)) ov = e; }
    vh_max("max_svde_UtU-I_units", ou / tolo); vh_max("max_svde_VVt-I_units", ov / tolo);
    if (!(ou <= C_SVDE * tolo)) { snprintf(key, sizeof key, "SVD|U-orthonormal|%s", ic); vh_fail(c, key, "max|U^T U - I| = %.3g > %.3g (%zux%zu, u is %zux%zu, kappa=%.3Lg min_rel_gap=%.3g)", ou, C_SVDE * tolo, m, n, u->row, u->col, kappa, gap); }
    if (!(ov <= C_SVDE * tolo)) { snprintf(key, sizeof key, "SVD|Vt-orthonormal|%s", ic); vh_fail(c, key, "max|V^T V - I| = %.3g > %.3g (%zux%zu, vt is %zux%zu, kappa=%.3Lg min_rel_gap=%.3g)", ov, C_SVDE * tolo, m, n, vt->row, vt->col, kappa, gap); }
    vh_obs("svde_orthonormality_judged", 1);
  }
  ldm_free(U); ldm_free(S); ldm_free(VT); ldm_free(US); ldm_free(R);
out:
  DelMatrix(&u); DelMatrix(&s); DelMatrix(&vt); DelMatrix(&mx); DelMatrix(&before); ldm_free(A); free(svo);
}

/* ------------------------------------------------------------------ group: MatrixPseudoinversion (SVD based) */
static void group_psvd(vh_ctx *c)
{
  size_t n = (size_t)vh_int(c, 1, 12), m = vh_coin(c, 0.45) ? n : (size_t)vh_int(c, (long)n, 12), i, j, rank;
  char tag[32], key[160], ic[96];
  ldm *A = gen_svde(c, m, n, 0, tag, sizeof tag), *I, *Go = NULL, *G = NULL, *AG = NULL, *GA = NULL, *AGA = NULL, *GAG = NULL;
  ld *sv = calloc(n + 1, sizeof(ld)), kappa, gmax, amax;
  matrix *mx = matrix_of_ldm(A), *before = matrix_dup(mx), *inv = NULL;
  call_t call;
  const char *gt, *sh = m == n ? "square" : "tall";
  double tol, p1, p2, p3 = 0, p4 = 0, fwd, gap, r = 0, l = 0;
  if (!svde_domain(A, sv, &rank, &kappa) || rank < n) {
    vh_class(c, "psvd-%s-%s-skip", tag, sh);
    vh_skip(c, rank < n ? "not of full column rank" : "a singular value below 0.05 or kappa > 1e3 (the SVD behind the routine zeroes eigenvalues of the normal matrix below 1e-6)");
    goto out;
  }
  gt = gap_tag(sv, n, &gap);
  snprintf(ic, sizeof ic, "%s-%s", sh, gt);
  vh_class(c, "psvd-%s-n%s-%s-k%s-%s", tag, nbucket(n), sh, kappa < 2 ? "<2" : kappa < 10 ? "<1e1" : kappa < 100 ? "<1e2" : "<1e3", gap < 1e-6 ? "rep" : gap < 1e-2 ? "close" : "sep");
  vh_desc(c, "group=psvd family=%s rows=%zu cols=%zu smin=%.4Lg smax=%.4Lg kappa=%.4Lg min_rel_gap=%.3g a00=%.17g", tag, m, n, sv[n - 1], sv[0], kappa, gap, mx->data[0][0]);
  dump(c, "A", mx);
  I = ldm_new(m, m); for (i = 0; i < m; i++) LM(I, i, i) = 1;
  Go = or_lstsq(A, I); ldm_free(I);
  if (!Go) { vh_skip(c, "oracle: rank deficient"); goto out; }
  inv = out_matrix(c, n, m);
  vh_obs("psvd_judged", 1); vh_obs(m == n ? "psvd_square" : "psvd_tall", 1);
  call.which = 2; call.a = mx; call.o1 = inv; call.o2 = call.o3 = NULL;
  if (call_guarded(&call)) { fail_dies(c, "MatrixPseudoinversion", sh, 0, m, n); goto out; }
  if (!matrix_bitequal(mx, before)) vh_fail(c, "MatrixPseudoinversion|input-modified", "input matrix changed");
  if (inv->row != n || inv->col != m) { snprintf(key, sizeof key, "MatrixPseudoinversion|shape|%s", sh); vh_fail(c, key, "pseudo-inverse is %zux%zu for a %zux%zu input", inv->row, inv->col, m, n); goto out; }
  if (!matrix_all_finite(inv)) { snprintf(key, sizeof key, "MatrixPseudoinversion|non-finite|%s", ic); vh_fail(c, key, "non-finite entries (smin=%.3Lg kappa=%.3Lg)", sv[n - 1], kappa); goto out; }
  G = ldm_of_matrix(inv);
  AG = ldm_mul(A, G); GA = ldm_mul(G, A); AGA = ldm_mul(AG, A); GAG = ldm_mul(GA, G);
  amax = ldm_maxabs(A); gmax = ldm_maxabs(Go);
  p1 = (double)(ldm_maxdiff(AGA, A) / amax);
  p2 = (double)(ldm_maxdiff(GAG, G) / gmax);
  for (i = 0; i < m; i++) for (j = 0; j < m; j++) { double d = (double)fabsl(LM(AG, i, j) - LM(AG, j, i)); if (!(d <= p3)) p3 = d; }
  for (i = 0; i < n; i++) for (j = 0; j < n; j++) { double d = (double)fabsl(LM(GA, i, j) - LM(GA, j, i)); if (!(d <= p4)) p4 = d; }
  fwd = (double)(ldm_maxdiff(G, Go) / gmax);
  tol = (double)(kappa * kappa) * (double)n * EPS * gap_amp(gap);
  { char nm[80]; double worst = fmax(fmax(p1, p2), fmax(fmax(p3, p4), fwd)); snprintf(nm, sizeof nm, "max_psvd_units_%s", gt); vh_max(nm, worst / tol); }
#define PSVD_FAIL(cond, clause, ...) if (!(cond)) { snprintf(key, sizeof key, "MatrixPseudoinversion|%s|%s", clause, ic); vh_fail(c, key, __VA_ARGS__); }
  if (m == n) {                                    /* an inverse routine on a non-singular square matrix */
    for (i = 0; i < n; i++) for (j = 0; j < n; j++) {
      double d = (double)fabsl(LM(AG, i, j) - (i == j)); if (!(d <= r)) r = d;
      d = (double)fabsl(LM(GA, i, j) - (i == j)); if (!(d <= l)) l = d;
    }
    vh_max("max_psvd_MX-I_units", r / tol); vh_max("max_psvd_XM-I_units", l / tol);
    PSVD_FAIL(r <= C_PSVD * tol, "inverse-residual", "max|M*inv - I| = %.3g > %.3g (n=%zu kappa=%.3Lg min_rel_gap=%.3g)", r, C_PSVD * tol, n, kappa, gap)
    PSVD_FAIL(l <= C_PSVD * tol, "left-inverse-residual", "max|inv*M - I| = %.3g > %.3g (n=%zu kappa=%.3Lg min_rel_gap=%.3g)", l, C_PSVD * tol, n, kappa, gap)
  }
  PSVD_FAIL(p1 <= C_PSVD * tol, "penrose-1-AGA=A", "max|AGA - A|/max|A| = %.3g > %.3g (%zux%zu kappa=%.3Lg min_rel_gap=%.3g)", p1, C_PSVD * tol, m, n, kappa, gap)
  PSVD_FAIL(p2 <= C_PSVD * tol, "penrose-2-GAG=G", "max|GAG - G|/max|G*| = %.3g > %.3g (%zux%zu kappa=%.3Lg min_rel_gap=%.3g)", p2, C_PSVD * tol, m, n, kappa, gap)
  PSVD_FAIL(p3 <= C_PSVD * tol, "penrose-3-AG-symmetric", "max|AG - (AG)^T| = %.3g > %.3g (%zux%zu kappa=%.3Lg)", p3, C_PSVD * tol, m, n, kappa)
  PSVD_FAIL(p4 <= C_PSVD * tol, "penrose-4-GA-symmetric", "max|GA - (GA)^T| = %.3g > %.3g (%zux%zu kappa=%.3Lg)", p4, C_PSVD * tol, m, n, kappa)
  PSVD_FAIL(fwd <= C_PSVD * tol, "vs-oracle", "max|G - oracle|/max|oracle| = %.3g > %.3g (%zux%zu kappa=%.3Lg min_rel_gap=%.3g)", fwd, C_PSVD * tol, m, n, kappa, gap)
out:
  if (inv) DelMatrix(&inv);
  DelMatrix(&mx); DelMatrix(&before); ldm_free(A); ldm_free(Go); ldm_free(G); ldm_free(AG); ldm_free(GA); ldm_free(AGA); ldm_free(GAG); free(sv);
}

/* ------------------------------------------------------------------ concurrent callers (third seeded wave)
 * The routines of this property are functions of their arguments: the validation drivers call them from worker threads (MLR -> least squares
 * -> inversion, LDA -> inversion), so a call must return its definition whatever other threads compute at the same moment.  K threads
 * run the whole family on private, well-conditioned operands; every output must be bit-identical to the output the same call gave before
 * the threads were started.  Runs under ASan+UBSan (1 % of the cases) and in a ThreadSanitizer stage (all its cases). */
#include <pthread.h>
#define CONC_NOUT 11
typedef struct { size_t n, m; matrix *A, *T; dvector *y, *b; matrix *ref[CONC_NOUT]; int reps, bad[CONC_NOUT]; } cw_t;
static void conc_eval(cw_t *w, matrix **out)
{
  size_t i, n = w->n; matrix *U, *S, *VT, *Q, *R, *ev, *aug; dvector *x, *coef, *eval; int k = 0;
  for (i = 0; i < CONC_NOUT; i++) initMatrix(&out[i]);
  MatrixInversion(w->A, out[k++]);
  MatrixLUInversion(w->A, out[k++]);
  { ResizeMatrix(out[k], 1, 1); out[k]->data[0][0] = MatrixDeterminant(w->A); k++; }
  NewMatrix(&aug, n, n + 1); for (i = 0; i < n; i++) { size_t j; for (j = 0; j < n; j++) aug->data[i][j] = w->A->data[i][j]; aug->data[i][n] = w->b->data[i]; }
  initDVector(&x); SolveLSE(aug, x); ResizeMatrix(out[k], x->size, 1); for (i = 0; i < x->size; i++) out[k]->data[i][0] = x->data[i]; k++; DelDVector(&x); DelMatrix(&aug);
  initDVector(&coef); OrdinaryLeastSquares(w->T, w->y, coef); ResizeMatrix(out[k], coef->size, 1); for (i = 0; i < coef->size; i++) out[k]->data[i][0] = coef->data[i]; k++; DelDVector(&coef);
  MatrixMoorePenrosePseudoinverse(w->T, out[k++]);
  initMatrix(&U); initMatrix(&S); initMatrix(&VT); SVDlapack(w->T, U, S, VT); MatrixCopy(S, &out[k]); k++; DelMatrix(&U); DelMatrix(&S); DelMatrix(&VT);
  initMatrix(&U); initMatrix(&S); initMatrix(&VT); SVD(w->T, U, S, VT); MatrixCopy(S, &out[k]); k++; DelMatrix(&U); DelMatrix(&S); DelMatrix(&VT);
  initMatrix(&Q); initMatrix(&R); QRDecomposition(w->T, Q, R); MatrixCopy(R, &out[k]); k++; DelMatrix(&Q); DelMatrix(&R);
  { matrix *sym; NewMatrix(&sym, n, n); for (i = 0; i < n; i++) { size_t j; for (j = 0; j < n; j++) sym->data[i][j] = w->A->data[i][j] + w->A->data[j][i]; }
    initDVector(&eval); initMatrix(&ev); EVectEval(sym, eval, ev); ResizeMatrix(out[k], eval->size, 1); for (i = 0; i < eval->size; i++) out[k]->data[i][0] = eval->data[i]; k++; DelDVector(&eval); DelMatrix(&ev); DelMatrix(&sym); }
  MatrixPseudoinversion(w->T, out[k++]);
}
static const char *CONC_FN[CONC_NOUT] = { "MatrixInversion", "MatrixLUInversion", "MatrixDeterminant", "SolveLSE", "OrdinaryLeastSquares", "MatrixMoorePenrosePseudoinverse", "SVDlapack", "SVD", "QRDecomposition", "EVectEval", "MatrixPseudoinversion" };
static void *conc_worker(void *a)
{
  cw_t *w = a; int r, k; matrix *out[CONC_NOUT];
  for (r = 0; r < w->reps; r++) {
    conc_eval(w, out);
    for (k = 0; k < CONC_NOUT; k++) { if (!matrix_bitequal(out[k], w->ref[k])) w->bad[k]++; DelMatrix(&out[k]); }
  }
  return NULL;
}
static void group_concurrent(vh_ctx *c)
{
  int K = (int)vh_int(c, 2, 6), t, k, reps = vh_is_tsan() ? 4 : 12, bad[CONC_NOUT] = { 0 }; cw_t w[6]; pthread_t th[6]; size_t i, j;
  vh_class(c, "concurrent-callers-%d", K);
  vh_desc(c, "group=concurrent %d threads x %d repetitions of the whole family on private well-conditioned operands", K, reps);
  for (t = 0; t < K; t++) {
    size_t n = (size_t)vh_int(c, 2, 7), m = n + (size_t)vh_int(c, 0, 5);      /* the determinant is a cofactor expansion: n! operations */
    memset(&w[t], 0, sizeof w[t]); w[t].n = n; w[t].m = m; w[t].reps = reps;
    NewMatrix(&w[t].A, n, n); NewMatrix(&w[t].T, m, n); NewDVector(&w[t].y, m); NewDVector(&w[t].b, n);
    for (i = 0; i < n; i++) { for (j = 0; j < n; j++) w[t].A->data[i][j] = vh_gauss(c) + (i == j ? 3.0 * sqrt((double)n) : 0.0); w[t].b->data[i] = vh_gauss(c); }
    for (i = 0; i < m; i++) { for (j = 0; j < n; j++) w[t].T->data[i][j] = vh_gauss(c) + (i == j ? 3.0 : 0.0); w[t].y->data[i] = vh_gauss(c); }
    conc_eval(&w[t], w[t].ref);
  }
  for (t = 0; t < K; t++) pthread_create(&th[t], NULL, conc_worker, &w[t]);
  for (t = 0; t < K; t++) pthread_join(th[t], NULL);
  for (t = 0; t < K; t++) {
    for (k = 0; k < CONC_NOUT; k++) { bad[k] += w[t].bad[k]; DelMatrix(&w[t].ref[k]); }
    DelMatrix(&w[t].A); DelMatrix(&w[t].T); DelDVector(&w[t].y); DelDVector(&w[t].b);
  }
  vh_obs("concurrent_caller_cases", 1); vh_obs("concurrent_calls", (double)K * reps * CONC_NOUT);
  for (k = 0; k < CONC_NOUT; k++) if (bad[k]) { char key[96]; snprintf(key, sizeof key, "%s|result-depends-on-concurrent-callers", CONC_FN[k]); vh_fail(c, key, "%d of %d concurrent calls returned another result than the same call made alone", bad[k], K * reps); }
}

static void run_case(vh_ctx *c)
{
  long w = vh_int(c, 0, 99), acc = 0;
  if (vh_is_tsan() || c->idx % 100 == 57) { group_concurrent(c); return; }
  int g;
  for (g = 0; g < NGROUP; g++) { acc += GWEIGHT[g]; if (w < acc) break; }
  if (g >= NGROUP) g = NGROUP - 1;
  vh_hist("group", g);
  switch (g) {
  case G_INV: group_inv(c); break;
  case G_DET: group_det(c); break;
  case G_LSE: group_lse(c); break;
  case G_OLS: group_ols(c); break;
  case G_PINV: group_pinv(c); break;
  case G_EIG: group_eig(c); break;
  case G_SVD: group_svd(c); break;
  case G_QR: group_qr(c); break;
  case G_SVDE: group_svde(c); break;
  default: group_psvd(c); break;
  }
  (void)GNAME; (void)FNAME;
}

const vh_driver VH_DRIVER = { "C12", ncases, run_case, NULL, 60 };
