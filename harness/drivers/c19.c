/* c19.c - C19: spline, trapezoid area and simplex minimiser meet their numerical contracts.
 *
 * One case = one group:
 *   spline   3..40 strictly increasing knots, spacings 1e-4..1e4 (uniform / geometric / random mix / close pairs), arbitrary
 *            ordinates (or an exactly representable straight line):
 *              table of cubic_spline_interpolation: S_j(x_j) = y_j (bitwise), S_j(x_j+1) = y_j+1, C1 and C2 continuity at
 *              interior knots, c_0 = 0, S''(x_n) = 0, coefficients = long-double oracle, straight lines give c = d = 0;
 *              cubic_spline_predict at every knot, interior points and points hugging the knots = oracle spline;
 *              unit independence: the table of (s x, y) evaluated at s t equals the table of (x, y) at t, s in {1e-3, 1, 1e3};
 *              interpolate(): equidistant abscissae and oracle ordinates.  Nothing is evaluated outside [x_0, x_n]
 *              (interpolate()'s own last abscissa may exceed x_n by rounding; both sides extend the last cubic).
 *   area     curve_area(xy, 0) = long-double trapezoid integral; additivity over a split at a knot
 *   simplex  NelderMeadSimplex on strictly convex quadratics (2..6 dimensions, kappa <= 100, random start and steps, also the
 *            default steps): reported value = objective at the returned point (bitwise), <= best initial vertex,
 *            |best - x*| <= 1e-4 (1 + |x*|) with xtol 1e-14 and 20000 iterations; objective evaluations are counted and the
 *            evaluated points recorded, so that a failure to converge is keyed by its mechanism (budget exhausted /
 *            stopped early on a simplex with zero objective spread / other).  A lattice family (integer curvatures,
 *            minimiser, start and steps: exact arithmetic, exact ties between vertices) is part of the generator.
 * Tolerances are C * eps * natural magnitude (sum of the magnitudes of the terms of the identity); maxima are reported in
 * those units. */
#include "drv_util.h"

#define EPS 2.220446049250313e-16
#define MAXK 40

#define C_TABLE   1000.0    /* table identities, units of eps * sum|terms|                                              */
#define C_COEF    5000.0    /* b, c, d vs oracle, units of eps * Gw / h^k + sensitivity (see the spline monitor)         */
#define C_PRED    1000.0    /* predict vs oracle, units of eps * Gw + sensitivity                                        */
#define C_UNIT   20000.0    /* unit independence, units of eps * Gw + (1 + |x|max / h_min) * sensitivity + eps |x| |S'|   */
#define C_LINE    2000.0    /* straight line: c, d in units of eps * |slope| / h_min^k                                   */
#define C_AREA     200.0    /* area, units of N eps sum|base * height|                                                   */
#define NM_XTOL   1e-14
#define NM_ITER   20000

static long ncases(int tier) { return tier ? 2000000 : 100000; }

/* ------------------------------------------------------------------ helpers */
static matrix *out_matrix(vh_ctx *c, size_t r, size_t k)
{
  matrix *m; int how = (int)vh_int(c, 0, 2); size_t i, j;
  if (how == 0) { initMatrix(&m); return m; }
  if (how == 1) NewMatrix(&m, r, k); else NewMatrix(&m, r + 2, k + 1);
  for (i = 0; i < m->row; i++) for (j = 0; j < m->col; j++) m->data[i][j] = 3.5 - (double)i + 2.0 * (double)j;
  return m;
}
static dvector *out_dvector(vh_ctx *c, size_t n)
{
  dvector *v; int how = (int)vh_int(c, 0, 2); size_t i;
  if (how == 0) { initDVector(&v); return v; }
  NewDVector(&v, how == 1 ? n : n + 3);
  for (i = 0; i < v->size; i++) v->data[i] = -1.5 + (double)i;
  return v;
}
static void dumpxy(vh_ctx *c, const char *name, const double *x, const double *y, size_t n)
{
  size_t i;
  if (!c->verbose) return;
  fprintf(stderr, "%s (%zu points)\n", name, n);
  for (i = 0; i < n; i++) fprintf(stderr, "  %.17g %.17g\n", x[i], y ? y[i] : 0.0);
}

/* ------------------------------------------------------------------ knot generators */
static const char *SPACING[] = { "uniform", "geometric", "random", "closepairs", "widemix" };

/* returns the spacing mode; x strictly increasing in doubles, every spacing within [1e-4, 1e4] */
static int gen_knots(vh_ctx *c, size_t N, double *x)
{
  int mode = (int)vh_int(c, 0, 4);
  double h[MAXK], x0;
  size_t i;
  switch (mode) {
  case 0: { double hh = vh_logunif(c, -4, 4); for (i = 0; i + 1 < N; i++) h[i] = hh; break; }
  case 1: {
    double lo = vh_range(c, -4, 4), hi = vh_range(c, -4, 4);
    for (i = 0; i + 1 < N; i++) h[i] = pow(10.0, N > 2 ? lo + (hi - lo) * (double)i / (double)(N - 2) : lo);
    break; }
  case 2: {
    double lo = vh_range(c, -4, 3), hi = vh_range(c, lo, 4);
    for (i = 0; i + 1 < N; i++) h[i] = vh_logunif(c, lo, hi);
    break; }
  case 3: {                                         /* ordinary spacing with a few intervals far below 0.01 */
    double base = vh_logunif(c, -1, 1);
    for (i = 0; i + 1 < N; i++) h[i] = vh_coin(c, 0.3) ? vh_logunif(c, -4, -2.2) : base * vh_range(c, 0.5, 2.0);
    h[(size_t)vh_int(c, 0, (long)N - 2)] = vh_logunif(c, -4, -2.2);
    break; }
  default:                                          /* every interval anywhere in [1e-4, 1e4] */
    for (i = 0; i + 1 < N; i++) h[i] = vh_logunif(c, -4, 4);
    break;
  }
  for (i = 0; i + 1 < N; i++) { if (h[i] < 1e-4) h[i] = 1e-4; if (h[i] > 1e4) h[i] = 1e4; }
  x0 = vh_coin(c, 0.5) ? 0.0 : (vh_coin(c, 0.5) ? 1 : -1) * vh_logunif(c, -2, 4);
  x[0] = x0;
  for (i = 1; i < N; i++) x[i] = x[i - 1] + h[i - 1];
  return mode;
}

static const char *ORD[] = { "gauss", "offset", "walk", "spiky", "smooth" };
static int gen_ordinates(vh_ctx *c, size_t N, const double *x, double *y)
{
  int mode = (int)vh_int(c, 0, 4);
  double sc = vh_logunif(c, -3, 3), off = 0;
  size_t i;
  switch (mode) {
  case 0: for (i = 0; i < N; i++) y[i] = sc * vh_gauss(c); break;
  case 1: off = (vh_coin(c, 0.5) ? 1 : -1) * sc * vh_logunif(c, 0, 4); for (i = 0; i < N; i++) y[i] = off + sc * vh_gauss(c); break;
  case 2: y[0] = sc * vh_gauss(c); for (i = 1; i < N; i++) y[i] = y[i - 1] + sc * vh_gauss(c); break;
  case 3: for (i = 0; i < N; i++) y[i] = vh_coin(c, 0.2) ? sc * 100.0 * vh_gauss(c) : (vh_coin(c, 0.3) ? 0.0 : sc * vh_gauss(c)); break;
  default: { double w = vh_range(c, 0.5, 6.0) / (x[N - 1] - x[0]), ph = vh_range(c, 0, 6.28); for (i = 0; i < N; i++) y[i] = sc * sin(ph + w * (x[i] - x[0])); break; }
  }
  return mode;
}

/* ------------------------------------------------------------------ the spline monitor */
/* The oracle is the natural spline of oracle.h in long double.  Its conditioning is measured, not assumed: the spline is
   re-solved NPERT times with every interval length and every chord slope perturbed by a relative +-eps (random signs); the
   largest change of a quantity is its sensitivity `sens` to one rounding of the inputs of the computation.  A quantity Q
   computed in double is judged with |Q - Q*| <= C (eps T + sens), T = natural magnitude of Q: Gw/h^k for the coefficients
   b, c, d (k = 1, 2, 3) and Gw for a value, Gw = largest |y| + |S''| h^2 over the piece and its four neighbours each side. */
#define NPERT 3
typedef struct {
  size_t N;
  ld x[MAXK], y[MAXK], h[MAXK], s[MAXK], M[MAXK], M0[MAXK];
  ld hp[NPERT][MAXK], sp[NPERT][MAXK], Mp[NPERT][MAXK];
  ld L[MAXK], G, hmin, xmax;
} ospline;

/* second derivatives of the natural spline from interval lengths and chord slopes (Thomas algorithm, long double) */
static void nat_solve(const ld *h, const ld *s, size_t N, ld *M)
{
  ld dg[MAXK], rh[MAXK];
  size_t i;
  for (i = 0; i < N; i++) M[i] = 0;
  if (N < 3) return;
  for (i = 1; i + 1 < N; i++) { dg[i] = 2 * (h[i - 1] + h[i]); rh[i] = 6 * (s[i] - s[i - 1]); }
  for (i = 2; i + 1 < N; i++) { ld w = h[i - 1] / dg[i - 1]; dg[i] -= w * h[i - 1]; rh[i] -= w * rh[i - 1]; }
  for (i = N - 2; i >= 1; i--) M[i] = (rh[i] - (i + 2 < N ? h[i] * M[i + 1] : 0)) / dg[i];
}

static int oracle_build(vh_ctx *c, ospline *o, const double *x, const double *y, size_t N)
{
  size_t i, p;
  ld mm = 0, dm = 0;
  o->N = N; o->G = 0; o->hmin = INFINITY; o->xmax = 0;
  for (i = 0; i < N; i++) { o->x[i] = x[i]; o->y[i] = y[i]; if (fabsl(o->x[i]) > o->xmax) o->xmax = fabsl(o->x[i]); }
  for (i = 0; i + 1 < N; i++) { o->h[i] = o->x[i + 1] - o->x[i]; o->s[i] = (o->y[i + 1] - o->y[i]) / o->h[i]; if (o->h[i] < o->hmin) o->hmin = o->h[i]; }
  or_natural_spline(o->x, o->y, N, o->M);
  nat_solve(o->h, o->s, N, o->M0);
  for (i = 0; i < N; i++) { if (fabsl(o->M[i]) > mm) mm = fabsl(o->M[i]); if (fabsl(o->M[i] - o->M0[i]) > dm) dm = fabsl(o->M[i] - o->M0[i]); }
  for (p = 0; p < NPERT; p++) {
    for (i = 0; i + 1 < N; i++) {
      uint64_t r = vh_u64(c);
      o->hp[p][i] = o->h[i] * (1 + ((r & 1) ? EPS : -EPS));
      o->sp[p][i] = o->s[i] * (1 + ((r & 2) ? EPS : -EPS));
    }
    nat_solve(o->hp[p], o->sp[p], N, o->Mp[p]);
  }
  for (i = 0; i + 1 < N; i++) {
    ld h = o->h[i], L = fabsl(o->y[i]) + fabsl(o->y[i + 1]) + (fabsl(o->M[i]) + fabsl(o->M[i + 1])) * h * h;
    o->L[i] = L;
    if (L > o->G) o->G = L;
  }
  return 1;
}
/* largest term magnitude of the spline over the pieces j-w .. j+w */
static ld window_G(const ospline *o, size_t j, size_t w)
{
  size_t k, lo = j > w ? j - w : 0, hi = j + w + 1 < o->N - 1 ? j + w + 1 : o->N - 1; ld g = 0;
  for (k = lo; k < hi; k++) if (o->L[k] > g) g = o->L[k];
  return g;
}
static void piece_of(const ld *h, const ld *s, const ld *M, size_t j, ld *b, ld *cc, ld *d)
{
  *b = s[j] - h[j] * (M[j + 1] + 2 * M[j]) / 6; *cc = M[j] / 2; *d = (M[j + 1] - M[j]) / (6 * h[j]);
}
/* nominal coefficients of piece j, the magnitudes of their terms and their sensitivities */
static void oracle_piece(const ospline *o, size_t j, ld v[3], ld T[3], ld sens[3])
{
  ld n0[3], q[3]; size_t p, k;
  piece_of(o->h, o->s, o->M, j, &v[0], &v[1], &v[2]);
  piece_of(o->h, o->s, o->M0, j, &n0[0], &n0[1], &n0[2]);
  /* natural magnitudes: rounding in the neighbouring pieces (term magnitude Gw) reaches this piece through the tridiagonal solve */
  { ld Gw = window_G(o, j, 4);
    T[0] = Gw / o->h[j]; T[1] = Gw / (o->h[j] * o->h[j]); T[2] = Gw / (o->h[j] * o->h[j] * o->h[j]); }
  sens[0] = sens[1] = sens[2] = 0;
  for (p = 0; p < NPERT; p++) {
    piece_of(o->hp[p], o->sp[p], o->Mp[p], j, &q[0], &q[1], &q[2]);
    for (k = 0; k < 3; k++) if (fabsl(q[k] - n0[k]) > sens[k]) sens[k] = fabsl(q[k] - n0[k]);
  }
}
/* value of the oracle spline at t, term magnitude T, sensitivity, and magnitude T1 of the terms of S'(t) */
static ld oracle_point(const ospline *o, ld t, ld *T, ld *sens, ld *T1)
{
  size_t j = 0, p;
  ld dx, b, cc, d, n0, v[3], Tm[3], sn[3];
  while (j + 2 < o->N && t > o->x[j + 1]) j++;
  dx = t - o->x[j];
  oracle_piece(o, j, v, Tm, sn);
  piece_of(o->h, o->s, o->M0, j, &b, &cc, &d);
  n0 = b * dx + cc * dx * dx + d * dx * dx * dx;
  *T = window_G(o, j, 4);
  if (T1) *T1 = *T / o->h[j];
  *sens = 0;
  for (p = 0; p < NPERT; p++) {
    ld q;
    piece_of(o->hp[p], o->sp[p], o->Mp[p], j, &b, &cc, &d);
    q = b * dx + cc * dx * dx + d * dx * dx * dx;
    if (fabsl(q - n0) > *sens) *sens = fabsl(q - n0);
  }
  return or_spline_eval(o->x, o->y, o->M, o->N, t);
}
static double units(ld dev, ld denom) { return denom > 0 ? (double)(dev / denom) : (dev == 0 ? 0.0 : INFINITY); }

/* fit the table on (x, y), judge it (when `full`), predict at q[0..nq-1] and judge against the oracle; predictions -> pred.
   returns 0 when the table has the wrong shape (nothing else can be judged) */
static int spline_run(vh_ctx *c, const double *x, const double *y, size_t N, const double *q, size_t nq, double *pred,
                      const char *cls, int full, int line, double slope)
{
  matrix *xy, *before, *S;
  dvector *xq, *yp;
  ospline o;
  size_t i, j, np = N - 1;
  char key[128];
  int ok = 1;
  double w_right = 0, w_c1 = 0, w_c2 = 0, w_end = 0, w_b = 0, w_c = 0, w_d = 0, w_pred = 0, w_lc = 0, w_ld = 0;
  NewMatrix(&xy, N, 2);
  for (i = 0; i < N; i++) { xy->data[i][0] = x[i]; xy->data[i][1] = y[i]; }
  before = matrix_dup(xy);
  oracle_build(c, &o, x, y, N);
  S = out_matrix(c, np, 5);
  cubic_spline_interpolation(xy, S);
  if (!matrix_bitequal(xy, before)) vh_fail(c, "cubic_spline_interpolation|input-modified", "the point table changed");
  if (S->row != np || S->col != 5) {
    vh_fail(c, "cubic_spline_interpolation|shape", "table is %zux%zu for %zu knots (expected %zu x 5)", S->row, S->col, N, np);
    ok = 0; goto out;
  }
  if (!matrix_all_finite(S)) { vh_fail(c, "cubic_spline_interpolation|non-finite", "non-finite coefficient for strictly increasing knots"); ok = 0; goto out; }
  if (full) {
    for (j = 0; j < np; j++) {
      ld h = o.h[j], a = S->data[j][1], b = S->data[j][2], cc = S->data[j][3], d = S->data[j][4], r, sc, v[3], T[3], sn[3];
      double u;
      if (S->data[j][0] != x[j] || S->data[j][1] != y[j]) {
        vh_fail(c, "cubic_spline_interpolation|knot-left-value", "piece %zu: (x, a) = (%.17g, %.17g) but knot = (%.17g, %.17g)", j, S->data[j][0], S->data[j][1], x[j], y[j]);
        break;
      }
      /* S_j(x_j+1) = y_j+1 */
      r = a + b * h + cc * h * h + d * h * h * h - o.y[j + 1];
      sc = fabsl(a) + fabsl(b) * h + fabsl(cc) * h * h + fabsl(d) * h * h * h + fabsl(o.y[j + 1]);
      u = units(fabsl(r), EPS * sc); if (!(u <= w_right)) w_right = u;
      if (j + 1 < np) {
        ld b1 = S->data[j + 1][2], c1 = S->data[j + 1][3], h1 = o.h[j + 1];
        /* first derivative continuous at x_j+1: the residual of one row of the tridiagonal system, whose intermediates
           have the magnitude of the neighbouring pieces */
        r = b + 2 * cc * h + 3 * d * h * h - b1;
        sc = fabsl(b) + 2 * fabsl(cc) * h + 3 * fabsl(d) * h * h + fabsl(b1) + window_G(&o, j, 3) * (1 / h + 1 / h1);
        u = units(fabsl(r), EPS * sc); if (!(u <= w_c1)) w_c1 = u;
        /* second derivative continuous at x_j+1 */
        r = 2 * cc + 6 * d * h - 2 * c1;
        sc = 2 * fabsl(cc) + 6 * fabsl(d) * h + 2 * fabsl(c1);
        u = units(fabsl(r), EPS * sc); if (!(u <= w_c2)) w_c2 = u;
      } else {
        /* natural end: S''(x_n) = 0 */
        r = 2 * cc + 6 * d * h;
        sc = 2 * fabsl(cc) + 6 * fabsl(d) * h;
        u = units(fabsl(r), EPS * sc); if (!(u <= w_end)) w_end = u;
      }
      /* coefficients against the oracle */
      oracle_piece(&o, j, v, T, sn);
      u = units(fabsl(b - v[0]), EPS * T[0] + sn[0]); if (!(u <= w_b)) w_b = u;
      u = units(fabsl(cc - v[1]), EPS * T[1] + sn[1]); if (!(u <= w_c)) w_c = u;
      u = units(fabsl(d - v[2]), EPS * T[2] + sn[2]); if (!(u <= w_d)) w_d = u;
      if (line) {
        ld s = fabsl((ld)slope);
        u = units(fabsl(cc) * o.hmin, EPS * s); if (!(u <= w_lc)) w_lc = u;
        u = units(fabsl(d) * o.hmin * o.hmin, EPS * s); if (!(u <= w_ld)) w_ld = u;
      }
    }
    if (S->data[0][3] != 0) vh_fail(c, "cubic_spline_interpolation|natural-boundary-left", "c_0 = %.17g, a natural spline has S''(x_0) = 0", S->data[0][3]);
    vh_max("max_table_right_value_units", w_right); vh_max("max_table_C1_units", w_c1); vh_max("max_table_C2_units", w_c2);
    vh_max("max_table_natural_end_units", w_end); vh_max("max_coef_b_vs_oracle_units", w_b); vh_max("max_coef_c_vs_oracle_units", w_c);
    vh_max("max_coef_d_vs_oracle_units", w_d);
    if (!(w_right <= C_TABLE)) vh_fail(c, "cubic_spline_interpolation|knot-right-value", "S_j(x_j+1) - y_j+1 = %.3g eps x term magnitude (limit %.0f)", w_right, C_TABLE);
    if (!(w_c1 <= C_TABLE)) vh_fail(c, "cubic_spline_interpolation|C1-continuity", "jump of S' at an interior knot = %.3g eps x term magnitude (limit %.0f)", w_c1, C_TABLE);
    if (!(w_c2 <= C_TABLE)) vh_fail(c, "cubic_spline_interpolation|C2-continuity", "jump of S'' at an interior knot = %.3g eps x term magnitude (limit %.0f)", w_c2, C_TABLE);
    if (!(w_end <= C_TABLE)) vh_fail(c, "cubic_spline_interpolation|natural-boundary-right", "S''(x_n) = %.3g eps x term magnitude (limit %.0f)", w_end, C_TABLE);
    if (!(w_b <= C_COEF) || !(w_c <= C_COEF) || !(w_d <= C_COEF))
      vh_fail(c, "cubic_spline_interpolation|coefficients-vs-oracle", "b, c, d deviate from the long-double natural spline by %.3g, %.3g, %.3g x (eps x term magnitude + sensitivity) (limit %.0f)", w_b, w_c, w_d, C_COEF);
    if (line) {
      vh_max("max_line_c_units", w_lc); vh_max("max_line_d_units", w_ld);
      if (!(w_lc <= C_LINE) || !(w_ld <= C_LINE)) vh_fail(c, "cubic_spline_interpolation|straight-line", "straight line of slope %.6g not reproduced: c, d = %.3g, %.3g eps slope/h^k (limit %.0f)", slope, w_lc, w_ld, C_LINE);
    }
    vh_obs("spline_tables_judged", 1); vh_obs("spline_pieces_judged", (double)np);
  }
  /* evaluation */
  NewDVector(&xq, nq);
  for (i = 0; i < nq; i++) xq->data[i] = q[i];
  yp = out_dvector(c, nq);
  cubic_spline_predict(xq, S, yp);
  if (yp->size != nq) { vh_fail(c, "cubic_spline_predict|shape", "%zu predictions for %zu abscissae", yp->size, nq); ok = 0; }
  else {
    size_t worst_i = 0; ld worst_o = 0, worst_den = 0;
    for (i = 0; i < nq; i++) {
      ld T, sn, want = oracle_point(&o, (ld)q[i], &T, &sn, NULL);
      double u = units(fabsl(yp->data[i] - want), EPS * T + sn);
      pred[i] = yp->data[i];
      if (!(u <= w_pred)) { w_pred = u; worst_i = i; worst_o = want; worst_den = EPS * T + sn; }
    }
    vh_max("max_predict_vs_oracle_units", w_pred);
    if (!(w_pred <= C_PRED)) {
      snprintf(key, sizeof key, "cubic_spline_predict|vs-oracle|%s", cls);
      vh_fail(c, key, "S(%.17g) = %.17g, oracle %.17Lg: %.3g x (eps x term magnitude + sensitivity = %.3Lg) (limit %.0f; %zu knots, h_min %.3Lg)", q[worst_i], yp->data[worst_i], worst_o, w_pred, worst_den, C_PRED, N, o.hmin);
    }
    vh_obs("spline_evaluations_judged", (double)nq);
  }
  DelDVector(&xq); DelDVector(&yp);
out:
  DelMatrix(&xy); DelMatrix(&before); DelMatrix(&S);
  return ok;
}

static void group_spline(vh_ctx *c)
{
  size_t N = (size_t)vh_int(c, 3, MAXK), i, nq = 0;
  double x[MAXK], y[MAXK], xs[MAXK], q[6 * MAXK], qs[6 * MAXK], p0[6 * MAXK], p1[6 * MAXK], slope = 0, hmin = INFINITY, xmax = 0;
  int line = vh_coin(c, 0.12), sm, om = -1;
  char cls[64];
  ospline o;
  if (line) {
    /* exactly representable straight line: x = (k0 + k_i) 2^e, y = (ka + b (k0 + k_i)) 2^e with small integers */
    int e = (int)vh_int(c, -13, 13);
    long k0 = vh_coin(c, 0.5) ? 0 : vh_int(c, -10000, 10000), ka = vh_int(c, -1000, 1000), b = vh_coin(c, 0.15) ? 0 : vh_int(c, -64, 64), k = 0;
    long kmax = (long)floor(1e4 / ldexp(1.0, e));           /* spacing k 2^e stays within [1e-4, 1e4] */
    if (kmax > 1000) kmax = 1000;
    if (vh_coin(c, 0.5) && kmax > 4) kmax = 4;
    for (i = 0; i < N; i++) { x[i] = ldexp((double)(k0 + k), e); y[i] = ldexp((double)(ka + b * (k0 + k)), e); k += vh_int(c, 1, kmax); }
    slope = (double)b; sm = 5;
  } else {
    sm = gen_knots(c, N, x);
    om = gen_ordinates(c, N, x, y);
  }
  for (i = 0; i + 1 < N; i++) if (x[i + 1] - x[i] < hmin) hmin = x[i + 1] - x[i];
  for (i = 0; i < N; i++) if (fabs(x[i]) > xmax) xmax = fabs(x[i]);
  snprintf(cls, sizeof cls, "knots_closer_than_0.01=%d", hmin < 0.01);
  vh_class(c, "spline-%s-%s-N%s-h%s", line ? "line" : SPACING[sm], line ? "exact" : ORD[om], N <= 4 ? "3-4" : N <= 10 ? "5-10" : N <= 20 ? "11-20" : "21-40",
           hmin < 1e-2 ? "<1e-2" : hmin < 1 ? "<1" : hmin < 1e2 ? "<1e2" : ">=1e2");
  vh_desc(c, "group=spline knots=%zu spacing=%s ordinates=%s h_min=%.4g x0=%.17g xn=%.17g y0=%.17g", N, line ? "line" : SPACING[sm], line ? "exact-line" : ORD[om], hmin, x[0], x[N - 1], y[0]);
  dumpxy(c, "knots", x, y, N);
  /* abscissae: every knot, one random interior point per interval, points hugging both ends of every interval */
  for (i = 0; i < N; i++) q[nq++] = x[i];
  for (i = 0; i + 1 < N; i++) {
    double h = x[i + 1] - x[i], t;
    t = x[i] + h * vh_unif(c); if (t >= x[i] && t <= x[i + 1]) q[nq++] = t;
    t = x[i] + h * vh_logunif(c, -6, -0.5); if (t >= x[i] && t <= x[i + 1]) q[nq++] = t;
    t = x[i + 1] - h * vh_logunif(c, -6, -0.5); if (t >= x[i] && t <= x[i + 1]) q[nq++] = t;
    if (vh_coin(c, 0.3)) { t = x[i] + 0.004 * vh_unif(c); if (t >= x[i] && t <= x[i + 1]) q[nq++] = t; }   /* inside the old absolute window */
  }
  if (!spline_run(c, x, y, N, q, nq, p0, cls, 1, line, slope)) return;
  /* determinism (s = 1) and unit independence (s = 1e-3, 1e3) */
  oracle_build(c, &o, x, y, N);
  {
    static const double SC[3] = { 1.0, 1e-3, 1e3 };
    int k;
    for (k = 0; k < 3; k++) {
      double s = SC[k], worst = 0, amp = 1 + xmax / hmin;
      size_t wi = 0;
      int mono = 1;
      char cls2[64];
      for (i = 0; i < N; i++) { xs[i] = s * x[i]; if (i && !(xs[i] > xs[i - 1])) mono = 0; }
      if (!mono) { vh_obs("unit_scalings_skipped_not_increasing", 1); continue; }
      for (i = 0; i < nq; i++) { qs[i] = s * q[i]; if (qs[i] < xs[0]) qs[i] = xs[0]; if (qs[i] > xs[N - 1]) qs[i] = xs[N - 1]; }
      snprintf(cls2, sizeof cls2, "knots_closer_than_0.01=%d", s * hmin < 0.01);
      if (!spline_run(c, xs, y, N, qs, nq, p1, cls2, k > 0, 0, 0)) return;
      for (i = 0; i < nq; i++) {
        double u;
        ld T, sn, T1;
        if (k == 0) { if (p1[i] != p0[i]) { vh_fail(c, "cubic_spline_predict|not-deterministic", "two evaluations of the same table at %.17g differ: %.17g vs %.17g", q[i], p0[i], p1[i]); break; } continue; }
        /* s x_i is rounded: every knot and the abscissa move by eps |x|, i.e. interval lengths change by eps |x|/h relative */
        oracle_point(&o, (ld)q[i], &T, &sn, &T1);
        u = units(fabsl((ld)p1[i] - (ld)p0[i]), EPS * T + sn * amp + EPS * (ld)xmax * T1);
        if (!(u <= worst)) { worst = u; wi = i; }
      }
      if (k > 0) {
        vh_max("max_unit_independence_units", worst);
        if (!(worst <= C_UNIT)) {
          char key[128];
          snprintf(key, sizeof key, "cubic_spline_predict|unit-independence|knots_closer_than_0.01=%d", hmin < 0.01 || s * hmin < 0.01);
          vh_fail(c, key, "x scaled by %g: S(%.17g) = %.17g but unscaled S(%.17g) = %.17g (%.3g x natural magnitude, limit %.0f)", s, qs[wi], p1[wi], q[wi], p0[wi], worst, C_UNIT);
        }
        vh_obs("unit_scalings_judged", 1);
      }
    }
  }
  /* interpolate(): npoints equidistant abscissae from x_0 to x_n and their spline ordinates */
  {
    size_t np = (size_t)vh_int(c, 2, 120);
    matrix *xy, *ixy;
    double wx = 0, wy = 0;
    NewMatrix(&xy, N, 2);
    for (i = 0; i < N; i++) { xy->data[i][0] = x[i]; xy->data[i][1] = y[i]; }
    ixy = out_matrix(c, np, 2);
    interpolate(xy, np, ixy);
    if (ixy->row != np || ixy->col != 2) vh_fail(c, "interpolate|shape", "%zux%zu for %zu points", ixy->row, ixy->col, np);
    else {
      ld dx = ((ld)x[N - 1] - (ld)x[0]) / (ld)(np - 1);
      for (i = 0; i < np; i++) {
        ld wantx = (ld)x[0] + dx * (ld)i, t = ixy->data[i][0], wanty, T, sn;
        double u = units(fabsl(t - wantx), EPS * (ld)np * (o.xmax > 0 ? o.xmax : 1));
        if (!(u <= wx)) wx = u;
        /* the last abscissa may leave [x_0, x_n] by accumulated rounding: both sides extend the last cubic */
        wanty = oracle_point(&o, t, &T, &sn, NULL);
        u = units(fabsl(ixy->data[i][1] - wanty), EPS * T + sn);
        if (!(u <= wy)) wy = u;
      }
      vh_max("max_interpolate_abscissa_units", wx); vh_max("max_interpolate_vs_oracle_units", wy);
      if (!(wx <= C_TABLE)) vh_fail(c, "interpolate|abscissae", "abscissae deviate from x_0 + i (x_n - x_0)/(npoints-1) by %.3g npoints eps |x|max (limit %.0f)", wx, C_TABLE);
      if (!(wy <= C_PRED)) { char key[128]; snprintf(key, sizeof key, "interpolate|vs-oracle|%s", cls); vh_fail(c, key, "ordinates deviate from the oracle spline by %.3g x (eps x term magnitude + sensitivity) (limit %.0f; %zu knots, %zu points)", wy, C_PRED, N, np); }
      vh_obs("interpolate_calls_judged", 1);
    }
    DelMatrix(&xy); DelMatrix(&ixy);
  }
}

/* ------------------------------------------------------------------ area */
static void group_area(vh_ctx *c)
{
  size_t N = (size_t)vh_int(c, 2, MAXK), i, m;
  double x[MAXK], y[MAXK], got, left, right;
  int sm, om;
  matrix *xy, *before, *pa, *pb;
  ld area = 0, mag = 0, tol;
  if (N >= 3) { sm = gen_knots(c, N, x); om = gen_ordinates(c, N, x, y); }
  else { sm = 0; om = 0; x[0] = vh_range(c, -10, 10); x[1] = x[0] + vh_logunif(c, -4, 4); y[0] = vh_gauss(c); y[1] = vh_gauss(c); }
  /* almost evenly spaced abscissae at a small scale (third seeded wave, side PRNG stream): spacing 1e-4..1e-2 with a relative jitter of
     1e-6..1e-3 - the spacings then agree to ~1e-8 in ABSOLUTE terms although the grid is irregular; the trapezoid sum knows no such case */
  { vh_ctx cc = *c; cc.s[0] ^= 0xF1357AEA2E62A9C5ULL; (void)vh_u64(&cc); (void)vh_u64(&cc);
    if (N >= 3 && vh_coin(&cc, 0.12)) { double h = pow(10.0, vh_range(&cc, -4.0, -2.0)), jit = pow(10.0, vh_range(&cc, -6.0, -3.0)); x[0] = vh_range(&cc, -1.0, 1.0);
      for (i = 1; i < N; i++) { x[i] = x[i - 1] + h * (1.0 + jit * vh_range(&cc, -1.0, 1.0)); }
      vh_obs("areas_on_almost_even_small_grids", 1); } }
  vh_class(c, "area-%s-%s-N%s", SPACING[sm], ORD[om], N <= 4 ? "2-4" : N <= 10 ? "5-10" : N <= 20 ? "11-20" : "21-40");
  vh_desc(c, "group=area points=%zu spacing=%s ordinates=%s x0=%.17g xn=%.17g y0=%.17g", N, SPACING[sm], ORD[om], x[0], x[N - 1], y[0]);
  dumpxy(c, "polyline", x, y, N);
  NewMatrix(&xy, N, 2);
  for (i = 0; i < N; i++) { xy->data[i][0] = x[i]; xy->data[i][1] = y[i]; }
  before = matrix_dup(xy);
  for (i = 0; i + 1 < N; i++) {
    ld t = ((ld)x[i + 1] - (ld)x[i]) * ((ld)y[i] + (ld)y[i + 1]) / 2;
    area += t; mag += fabsl(t);
  }
  got = curve_area(xy, 0);
  if (!matrix_bitequal(xy, before)) vh_fail(c, "curve_area|input-modified", "the point table changed");
  tol = (ld)N * EPS * mag;
  if (mag > 0) vh_max("max_area_vs_oracle_units", (double)(fabsl(got - area) / tol));
  if (!(fabsl(got - area) <= C_AREA * tol)) vh_fail(c, "curve_area|vs-trapezoid-oracle", "area = %.17g, long-double trapezoid integral %.17Lg (%zu points, sum|terms| = %.3Lg)", got, area, N, mag);
  /* additivity over a split at knot m */
  m = (size_t)vh_int(c, 0, (long)N - 1);
  if (m >= 1 && m + 1 < N) {
    NewMatrix(&pa, m + 1, 2); NewMatrix(&pb, N - m, 2);
    for (i = 0; i <= m; i++) { pa->data[i][0] = x[i]; pa->data[i][1] = y[i]; }
    for (i = m; i < N; i++) { pb->data[i - m][0] = x[i]; pb->data[i - m][1] = y[i]; }
    left = curve_area(pa, 0); right = curve_area(pb, 0);
    if (mag > 0) vh_max("max_area_additivity_units", (double)(fabsl((ld)got - ((ld)left + (ld)right)) / tol));
    if (!(fabsl((ld)got - ((ld)left + (ld)right)) <= C_AREA * tol))
      vh_fail(c, "curve_area|additivity", "area(all) = %.17g but area(0..%zu) + area(%zu..%zu) = %.17g + %.17g", got, m, m, N - 1, left, right);
    DelMatrix(&pa); DelMatrix(&pb);
    vh_obs("area_splits_judged", 1);
  }
  vh_obs("areas_judged", 1);
  DelMatrix(&xy); DelMatrix(&before);
}

/* ------------------------------------------------------------------ simplex */
#define NM_HIST 4096
static struct { size_t n; double A[6][6], xs[6], f0; long evals; double hx[NM_HIST][6], hf[NM_HIST]; } Q;   /* ring of the last evaluations */

static double quad_eval(const double *x)
{
  size_t i, j; double s = 0;
  for (i = 0; i < Q.n; i++) { double r = 0; for (j = 0; j < Q.n; j++) r += Q.A[i][j] * (x[j] - Q.xs[j]); s += (x[i] - Q.xs[i]) * r; }
  return Q.f0 + 0.5 * s;
}
static double quad_cb(dvector *x)
{
  double f = quad_eval(x->data);
  size_t k = (size_t)(Q.evals % NM_HIST), i;
  for (i = 0; i < Q.n; i++) Q.hx[k][i] = x->data[i];
  Q.hf[k] = f;
  Q.evals++;
  return f;
}
/* number of distinct evaluated points (among the last NM_HIST) whose objective value is within tol of f */
static size_t quad_level_points(double f, double tol)
{
  size_t m = (size_t)(Q.evals < NM_HIST ? Q.evals : NM_HIST), a, b, cnt = 0;
  for (a = 0; a < m; a++) {
    int dup = 0;
    if (!(fabs(Q.hf[a] - f) < tol)) continue;
    for (b = 0; b < a && !dup; b++) if (fabs(Q.hf[b] - f) < tol && !memcmp(Q.hx[a], Q.hx[b], sizeof(double) * Q.n)) dup = 1;
    if (!dup) cnt++;
  }
  return cnt;
}

static void group_simplex(vh_ctx *c)
{
  size_t n = (size_t)vh_int(c, 2, 6), i, j, t;
  int lattice = vh_coin(c, 0.12), defstep = vh_coin(c, 0.15), level = 0, straddle = 0;
  double kappa, lmax, x0[6], st[6], finit = INFINITY, res, xsn = 0, dist = 0, fbest, xtol = NM_XTOL;
  dvector *vx0, *vstep = NULL, *best;
  Q.n = n; Q.evals = 0;
  if (lattice) {
    /* diagonal quadratic with small integer curvatures, integer minimiser, start and steps: exact arithmetic, ties between vertices */
    long lo = vh_int(c, 1, 4);
    kappa = 1; lmax = 0;
    for (i = 0; i < n; i++) for (j = 0; j < n; j++) Q.A[i][j] = 0;
    for (i = 0; i < n; i++) { Q.A[i][i] = (double)(vh_coin(c, 0.5) ? lo : vh_int(c, lo, lo * 8)); if (Q.A[i][i] > lmax) lmax = Q.A[i][i]; }
    kappa = lmax / (double)lo;
    for (i = 0; i < n; i++) { Q.xs[i] = (double)vh_int(c, -5, 5); x0[i] = Q.xs[i] + (double)vh_int(c, -6, 6); st[i] = (double)(vh_coin(c, 0.5) ? 1 : -1) * (double)vh_int(c, 1, 4); }
    Q.f0 = (double)vh_int(c, -10, 10);
    /* straddling start (second build session, side PRNG stream): x0_j = x*_j - step_j/2 with even steps puts every vertex of the start
       simplex on one level set exactly; the documented algorithm leaves it with its first contraction and converges */
    { vh_ctx cc = *c; cc.s[2] ^= 0x8EBC6AF09C88C6E3ULL; (void)vh_u64(&cc); (void)vh_u64(&cc);
      if (vh_coin(&cc, 0.25)) { for (i = 0; i < n; i++) { st[i] = (double)(vh_coin(&cc, 0.5) ? 1 : -1) * 2.0 * (double)vh_int(&cc, 1, 3); x0[i] = Q.xs[i] - st[i] / 2.0; } straddle = 1; } }
  } else {
    ldm *R = ldm_new(n, n);
    ld lam[6];
    double off = vh_logunif(c, -1, 1.5);
    kappa = vh_logunif(c, 0, 2); lmax = vh_logunif(c, -1, 1);
    /* large objective level (second build session): a strictly convex quadratic may sit on any constant.  The documented stopping rule is
       absolute (spread of f over the simplex < xtol), so the accuracy it implies, ~sqrt(xtol / lambda_min), does not depend on the level.
       Regime: xtol = 1e-8, curvatures 3e5..3e8, |f0| = 3e7..5e8: the absolute rule leaves |best - x*| ~ 1e-6 (>= 100x below the clause),
       a stopping rule relative to |f| would leave ~1e-3. */
    level = vh_coin(c, 0.25);
    if (level) { xtol = 1e-8; lmax = kappa * vh_logunif(c, 5.5, 6.5); }
    or_random_orthogonal(R, gauss_cb, c);
    for (t = 0; t < n; t++) lam[t] = t == 0 ? lmax : t + 1 == n ? lmax / kappa : lmax * pow(kappa, -vh_unif(c));
    for (i = 0; i < n; i++) for (j = i; j < n; j++) { ld s = 0; for (t = 0; t < n; t++) s += LM(R, i, t) * lam[t] * LM(R, j, t); Q.A[i][j] = Q.A[j][i] = (double)s; }
    ldm_free(R);
    for (i = 0; i < n; i++) { Q.xs[i] = vh_coin(c, 0.2) ? 0.0 : vh_range(c, -5, 5); x0[i] = Q.xs[i] + off * vh_gauss(c); st[i] = (vh_coin(c, 0.5) ? 1 : -1) * vh_logunif(c, -2, 1); }
    Q.f0 = vh_coin(c, 0.3) ? 0.0 : vh_range(c, -10, 10);
    if (level) { Q.f0 = (vh_coin(c, 0.5) ? 1.0 : -1.0) * vh_logunif(c, 7.5, 8.7); if (vh_coin(c, 0.5)) for (i = 0; i < n; i++) { x0[i] -= Q.xs[i]; Q.xs[i] = 0; } }
  }
  if (defstep && !straddle) for (i = 0; i < n; i++) st[i] = 0.5;
  if (straddle) { defstep = 0; vh_obs("simplex_runs_from_a_straddling_start", 1); }
  vh_class(c, "simplex-%s-n%zu-k%s-%s", lattice ? "lattice" : level ? "level" : "random", n, kappa < 3 ? "<3" : kappa < 30 ? "<30" : "<=100", defstep ? "defaultstep" : "steps");
  vh_desc(c, "group=simplex dim=%zu kappa=%.4g lambda_max=%.4g lattice=%d default_step=%d f0=%.6g xstar0=%.17g start0=%.17g step0=%.6g", n, kappa, lmax, lattice, defstep, Q.f0, Q.xs[0], x0[0], st[0]);
  if (c->verbose) {
    fprintf(stderr, "quadratic f(x) = f0 + 0.5 (x-x*)' A (x-x*), f0 = %.17g\n", Q.f0);
    for (i = 0; i < n; i++) { fprintf(stderr, "  A[%zu] =", i); for (j = 0; j < n; j++) fprintf(stderr, " %.17g", Q.A[i][j]); fprintf(stderr, "   x*=%.17g start=%.17g step=%.17g\n", Q.xs[i], x0[i], st[i]); }
  }
  /* best vertex of the initial simplex: x0 and x0 + step_j e_j */
  {
    double v[6];
    for (i = 0; i <= n; i++) { double f; for (j = 0; j < n; j++) v[j] = x0[j] + (i >= 1 && i - 1 == j ? st[j] : 0.0); f = quad_eval(v); if (f < finit) finit = f; }
  }
  NewDVector(&vx0, n); for (i = 0; i < n; i++) vx0->data[i] = x0[i];
  if (!defstep) { NewDVector(&vstep, n); for (i = 0; i < n; i++) vstep->data[i] = st[i]; }
  best = out_dvector(c, n);
  res = NelderMeadSimplex(quad_cb, vx0, vstep, xtol, NM_ITER, best);
  for (i = 0; i < n; i++) if (vx0->data[i] != x0[i]) { vh_fail(c, "NelderMeadSimplex|input-modified", "start point changed"); break; }
  if (best->size != n) { vh_fail(c, "NelderMeadSimplex|shape", "best point has %zu coordinates for %zu variables", best->size, n); goto out; }
  fbest = quad_eval(best->data);
  if (!(fbest == res)) vh_fail(c, "NelderMeadSimplex|reported-value", "returns %.17g but the objective at the returned point is %.17g", res, fbest);
  if (!(res <= finit)) vh_fail(c, "NelderMeadSimplex|worse-than-initial", "returns %.17g, the best vertex of the initial simplex has %.17g", res, finit);
  for (i = 0; i < n; i++) { xsn += Q.xs[i] * Q.xs[i]; dist += (best->data[i] - Q.xs[i]) * (best->data[i] - Q.xs[i]); }
  xsn = sqrt(xsn); dist = sqrt(dist);
  vh_max(lattice ? "max_simplex_lattice_distance_over_limit" : level ? "max_simplex_large_level_distance_over_limit" : "max_simplex_general_distance_over_limit", dist / (1e-4 * (1 + xsn)));
  if (level) vh_obs("simplex_runs_on_a_large_objective_level", 1);
  if (Q.evals >= NM_ITER) vh_obs("simplex_runs_exhausting_the_iteration_cap", 1);
  vh_max("max_simplex_objective_evaluations", (double)Q.evals);
  { long b = 0; while ((1L << b) < Q.evals) b++; vh_hist("simplex_evaluations_log2", b); }
  vh_obs("simplex_objective_evaluations", (double)Q.evals);
  if (!(dist <= 1e-4 * (1 + xsn))) {
    /* three mechanisms, three keys: the whole iteration budget was used (a stalled iteration looks like this); the routine
       stopped early although n+1 distinct vertices it evaluated sit on one level set (its only stopping test is the spread
       of the objective over the simplex, which is then 0 on a simplex of any size); anything else */
    size_t lvl = quad_level_points(res, xtol);
    const char *key = Q.evals >= NM_ITER ? "NelderMeadSimplex|convergence|iteration-budget-exhausted"
                    : Q.evals <= (long)n + 1 ? "NelderMeadSimplex|convergence|returned-without-a-single-iteration"     /* only the start simplex was evaluated */
                    : lvl >= n + 1 ? "NelderMeadSimplex|convergence|stopped-early-with-zero-f-spread"
                    : "NelderMeadSimplex|convergence";
    vh_fail(c, key, "|best - x*| = %.3g > 1e-4 (1 + |x*|) = %.3g after %ld objective evaluations (dim %zu, kappa %.3g, %s family, f - f* = %.3g, %zu distinct evaluated points with the returned value)", dist, 1e-4 * (1 + xsn), Q.evals, n, kappa, lattice ? "lattice" : "general-position", res - Q.f0, lvl);
  }
  vh_obs("simplex_runs_judged", 1);
out:
  DelDVector(&vx0); if (vstep) DelDVector(&vstep); DelDVector(&best);
}

static void run_case(vh_ctx *c)
{
  long w = vh_int(c, 0, 99);
  if (w < 55) { vh_hist("group", 0); group_spline(c); }
  else if (w < 75) { vh_hist("group", 1); group_area(c); }
  else { vh_hist("group", 2); group_simplex(c); }
}

const vh_driver VH_DRIVER = { "C19", ncases, run_case, NULL, 120 };
