/* c07.c - C07: MLR is ordinary least squares with intercept.
 * Monitor: Householder-QR least squares on [1 X] in long double (or_lstsq) as reference model; normal
 * equation identities (residuals sum to zero, orthogonal to every predictor); exact recovery of noise-free
 * data; MLRPredictY on fresh matrices; equivariance pairs (y -> c*y+d, X -> X*A); R2 / SDEC / the
 * MLRRegressionStatistics table against their long-double formulas.  Runs in the asan build.
 *
 * Tolerances.  MLR solves the normal equations (Z'Z)^-1 Z'y with Z = [1 X] by Gauss-Jordan inversion, so
 * the forward error of the coefficients is  c * kappa(Z)^2 * eps * (|b| + |y|/smax(Z))  and the error of
 * anything linear in Z*db is the same times smax(Z):
 *      bscale = |b*|_2 + |y|_2 / smax(Z)        (coefficients)
 *      rscale = smax(Z) |b*|_2 + |y|_2          (fitted values, residual identities)
 * kappa and smax come from the Jacobi SVD oracle; c = CTOL.  The deviation divided by kappa^2 eps scale is
 * recorded (max_*_over_k2eps) so the head-room to CTOL is visible in the evidence. */
#include "drv_util.h"
#include <float.h>

#define EPS DBL_EPSILON
#define CTOL 100.0            /* tolerance = CTOL * kappa^2 * eps * scale */
#define KAPPA_MAX 1e5L        /* domain of the property: kappa([1 X]) <= 1e5 is judged, above is skipped */
/* MLRPredictY into an output matrix that already holds the result of an earlier prediction with another
   number of rows (the documented "[out] predicted_y" says nothing about it having to be empty) */
#define C07_PROBE_CONTAINER_REUSE 1

static long ncases(int tier) { return tier ? 400000 : 60000; }

typedef struct {
  ldm *Z;            /* [1 X] */
  ld smax, smin, kappa;
} design;

static void design_of(const ldm *X, design *d)
{
  size_t i, j; ld *sv;
  d->Z = ldm_new(X->r, X->c + 1);
  for (i = 0; i < X->r; i++) { LM(d->Z, i, 0) = 1; for (j = 0; j < X->c; j++) LM(d->Z, i, j + 1) = LM(X, i, j); }
  sv = calloc(X->c + 2, sizeof(ld));
  or_svd(d->Z, sv, NULL, NULL);
  d->smax = sv[0]; d->smin = sv[X->c];
  d->kappa = d->smin > 0 ? d->smax / d->smin : INFINITY;
  free(sv);
}

static ld colnorm(const ldm *a, size_t j) { ld s = 0; size_t i; for (i = 0; i < a->r; i++) s += LM(a, i, j) * LM(a, i, j); return sqrtl(s); }

static MLRMODEL *fit(matrix *x, matrix *y) { MLRMODEL *m; NewMLRModel(&m); MLR(x, y, m, NULL); return m; }

static int model_shape_ok(vh_ctx *c, MLRMODEL *m, size_t n, size_t p, size_t ny, const char *which)
{
  if (m->b->row != p + 1 || m->b->col != ny || m->recalculated_y->row != n || m->recalculated_y->col != ny ||
      m->recalc_residuals->row != n || m->recalc_residuals->col != ny || m->ymean->size != ny ||
      m->r2y_model->size != ny || m->sdec->size != ny) {
    vh_fail(c, "MLR|shape", "%s model: b %zux%zu recalculated_y %zux%zu residuals %zux%zu ymean %zu r2 %zu sdec %zu for n=%zu p=%zu ny=%zu", which,
            m->b->row, m->b->col, m->recalculated_y->row, m->recalculated_y->col, m->recalc_residuals->row, m->recalc_residuals->col,
            m->ymean->size, m->r2y_model->size, m->sdec->size, n, p, ny);
    return 0;
  }
  if (!matrix_all_finite(m->b) || !matrix_all_finite(m->recalculated_y)) { vh_fail(c, "MLR|non-finite", "%s model has non-finite coefficients/fitted values inside the conditioning domain", which); return 0; }
  return 1;
}

/* long-double figures of merit, written from the definitions */
static void fom(const ld *t, const ld *p, size_t n, ld *r2, ld *rmse, ld *bias, ld *amp, ld *amp_b)
{
  ld tm = 0, rss = 0, tss = 0, spt = 0, tmax = 0, dmax = 0; size_t i;
  for (i = 0; i < n; i++) tm += t[i];
  tm /= (ld)n;
  for (i = 0; i < n; i++) {
    rss += (p[i] - t[i]) * (p[i] - t[i]);
    tss += (t[i] - tm) * (t[i] - tm);
    spt += p[i] * (t[i] - tm);
    if (fabsl(t[i]) > tmax) tmax = fabsl(t[i]);
    if (fabsl(p[i]) > tmax) tmax = fabsl(p[i]);
    if (fabsl(t[i] - tm) > dmax) dmax = fabsl(t[i] - tm);
  }
  *r2 = 1 - rss / tss;
  *rmse = sqrtl(rss / (ld)n);
  *bias = fabsl(1 - spt / tss);          /* 1 - slope of the regression of p on t */
  /* cancellation in sums of x*(t - mean): absolute error n eps tmax dmax against tss */
  *amp = 1 + (ld)n * tmax * (dmax + EPS * tmax) / tss;
  /* the slope is accumulated as sum p (t - mean) / sum t (t - mean): a rounding eps*mean of the mean shifts either sum by
     n eps mean tmax, which does not cancel */
  *amp_b = 1 + (ld)n * tmax * tmax / tss;
}

static void run_case(vh_ctx *c)
{
  size_t p = (size_t)vh_int(c, 1, 10), ny = (size_t)vh_int(c, 1, 4), n, m, i, j, k;
  int nmode = (int)vh_int(c, 0, 3), offmode = (int)vh_int(c, 0, 2), scmode = vh_coin(c, 0.5), sizemode = (int)vh_int(c, 0, 2);
  int eqmode = (int)vh_int(c, 0, 1);
  double kx, g;
  ldm *X, *Y, *B0, *U, *V, *Bs = NULL, *Fit = NULL;
  ld *cm, *cs, *sdk;
  design D;
  matrix *mx, *my, *mx0, *my0;
  MLRMODEL *mod = NULL;
  ld k2e;
  int zero_noise_ok = 1;

  n = sizemode == 0 ? p + 2 : sizemode == 1 ? p + 2 + (size_t)vh_int(c, 0, 5) : (size_t)vh_int(c, (long)p + 2, 50);
  if (n < 4) n = 4;
  kx = p > 1 ? vh_logunif(c, 0, 4) : 1.0;
  g = vh_logunif(c, -2, 3);

  /* X = U S V' (prescribed condition number), then column scales and offsets */
  U = ldm_new(n, n); V = ldm_new(p, p);
  or_random_orthogonal(U, gauss_cb, c); or_random_orthogonal(V, gauss_cb, c);
  X = ldm_new(n, p);
  {
    ld *s = calloc(p, sizeof(ld));
    for (j = 0; j < p; j++) { double t = j == 0 ? 0 : j == p - 1 ? 1 : vh_unif(c); s[j] = (ld)g * sqrtl((ld)n) * powl((ld)kx, -(ld)t); }
    for (i = 0; i < n; i++) for (j = 0; j < p; j++) { ld a = 0; for (k = 0; k < p; k++) a += LM(U, i, k) * s[k] * LM(V, j, k); LM(X, i, j) = a; }
    free(s);
  }
  cm = calloc(p, sizeof(ld)); cs = calloc(p, sizeof(ld)); sdk = calloc(ny, sizeof(ld));
  for (j = 0; j < p; j++) {
    ld sc = scmode ? (ld)vh_logunif(c, -1, 1) : 1, rms = 0, off;
    for (i = 0; i < n; i++) { LM(X, i, j) *= sc; rms += LM(X, i, j) * LM(X, i, j); }
    rms = sqrtl(rms / (ld)n);
    off = offmode == 0 ? 0 : offmode == 1 ? (ld)vh_gauss(c) * rms : (ld)((vh_coin(c, 0.5) ? 1 : -1) * vh_range(c, 3, 30)) * rms;
    for (i = 0; i < n; i++) LM(X, i, j) += off;
  }
  mx = matrix_of_ldm(X);
  for (i = 0; i < n; i++) for (j = 0; j < p; j++) LM(X, i, j) = mx->data[i][j];      /* the oracle sees the doubles */
  for (j = 0; j < p; j++) {
    ld a = 0, q = 0;
    for (i = 0; i < n; i++) a += LM(X, i, j);
    a /= (ld)n;
    for (i = 0; i < n; i++) q += (LM(X, i, j) - a) * (LM(X, i, j) - a);
    cm[j] = a; cs[j] = sqrtl(q / (ld)n);
  }
  /* generating coefficients and responses */
  B0 = ldm_new(p + 1, ny); Y = ldm_new(n, ny);
  for (k = 0; k < ny; k++) {
    int any = 0, unit = vh_coin(c, 0.5);
    ld a = 0, q = 0, b0, nl;
    for (j = 0; j < p; j++) {
      ld b = vh_coin(c, 0.15) ? 0 : (ld)(vh_gauss(c) * vh_logunif(c, -1, 1));
      if (unit && cs[j] > 0) b /= cs[j];
      if (b != 0) any = 1;
      LM(B0, j + 1, k) = b;
    }
    if (!any && nmode == 0) LM(B0, 1 + (size_t)vh_int(c, 0, (long)p - 1), k) = 1 + vh_unif(c);   /* noise-free responses are not constant */
    for (i = 0; i < n; i++) { ld s = 0; for (j = 0; j < p; j++) s += LM(X, i, j) * LM(B0, j + 1, k); LM(Y, i, k) = s; a += s; }
    a /= (ld)n;
    for (i = 0; i < n; i++) q += (LM(Y, i, k) - a) * (LM(Y, i, k) - a);
    sdk[k] = sqrtl(q / (ld)n);
    if (!(sdk[k] > 0)) sdk[k] = 1;
    b0 = vh_coin(c, 0.2) ? 0 : (ld)(vh_gauss(c) * vh_logunif(c, -1, 2)) * sdk[k];
    LM(B0, 0, k) = b0;
    nl = nmode == 0 ? 0 : nmode == 1 ? (ld)vh_logunif(c, -8, -2) : nmode == 2 ? (ld)vh_logunif(c, -1, 0.5) : (ld)vh_logunif(c, 0.5, 2.5);
    for (i = 0; i < n; i++) LM(Y, i, k) += b0 + (nmode ? nl * sdk[k] * (ld)vh_gauss(c) : 0);
  }
  my = matrix_of_ldm(Y);
  for (i = 0; i < n; i++) for (k = 0; k < ny; k++) LM(Y, i, k) = my->data[i][k];
  mx0 = matrix_dup(mx); my0 = matrix_dup(my);

  design_of(X, &D);
  vh_class(c, "n%s-p%s-ny%zu-noise%d-k1e%d-off%d", n == p + 2 ? "=p+2" : n <= p + 7 ? "<=p+7" : n <= 25 ? "<=25" : "<=50",
           p == 1 ? "1" : p <= 4 ? "2-4" : "5-10", ny, nmode, D.kappa < 1e5L ? (int)floorl(log10l(D.kappa)) : 5, offmode);
  vh_desc(c, "rows=%zu cols=%zu ny=%zu noise_mode=%d kappaS=%.3g scale=%.3g offsets=%d colscales=%d kappa([1 X])=%.4Lg smax=%.4Lg x00=%.17g y00=%.17g",
          n, p, ny, nmode, kx, g, offmode, scmode, D.kappa, D.smax, mx->data[0][0], my->data[0][0]);
  if (!(D.kappa <= KAPPA_MAX)) { vh_skip(c, "kappa([1 X]) > 1e5"); goto out; }
  Bs = or_lstsq(D.Z, Y);
  if (!Bs) { vh_skip(c, "oracle: rank deficient"); goto out; }
  Fit = ldm_mul(D.Z, Bs);
  k2e = D.kappa * D.kappa * EPS;
  vh_hist("kappa_log10", (long)floorl(log10l(D.kappa)));
  vh_obs(nmode == 0 ? "cases_zero_noise" : nmode == 3 ? "cases_dominant_noise" : "cases_moderate_noise", 1);

  mod = fit(mx, my);
  if (matrix_maxdiff(mx, mx0) != 0 || matrix_maxdiff(my, my0) != 0) vh_fail(c, "MLR|input-modified", "MLR changed its input matrices");
  if (!model_shape_ok(c, mod, n, p, ny, "training")) goto out;

  for (k = 0; k < ny; k++) {
    ld bn = 0, yn = 0, bscale, rscale, dev = 0, devt = 0, fdev = 0, sum = 0, ym = 0, rss = 0, tss = 0, rss_s = 0, sumy = 0;
    int sign = 0;
    for (j = 0; j <= p; j++) bn += LM(Bs, j, k) * LM(Bs, j, k);
    bn = sqrtl(bn); yn = colnorm(Y, k);
    bscale = bn + yn / D.smax; rscale = D.smax * bn + yn;
    if (!(rscale > 0)) continue;
    /* coefficients against the reference least-squares solution */
    for (j = 0; j <= p; j++) { ld d = (ld)mod->b->data[j][k] - LM(Bs, j, k); dev += d * d; d = (ld)mod->b->data[j][k] - LM(B0, j, k); devt += d * d; }
    dev = sqrtl(dev); devt = sqrtl(devt);
    vh_max("max_coef_dev_over_k2eps", (double)(dev / (k2e * bscale)));
    if (!(dev <= CTOL * k2e * bscale))
      vh_fail(c, "MLR|coefficients-vs-least-squares", "response %zu: |b - b_ls|_2 = %.3Lg, allowed %.3Lg (kappa %.3Lg, |b_ls| %.3Lg, b0 lib %.10g ls %.10Lg)", k, dev,
              CTOL * k2e * bscale, D.kappa, bn, mod->b->data[0][k], LM(Bs, 0, k));
    /* noise-free data: the generating coefficients come back */
    if (nmode == 0) {
      vh_max("max_recovery_dev_over_k2eps", (double)(devt / (k2e * bscale)));
      if (!(devt <= CTOL * k2e * bscale)) { zero_noise_ok = 0; vh_fail(c, "MLR|exact-recovery", "response %zu: noise-free y = b0 + Xb but |b - b_true|_2 = %.3Lg, allowed %.3Lg", k, devt, CTOL * k2e * bscale); }
    }
    /* fitted values against the reference projection */
    for (i = 0; i < n; i++) { ld d = fabsl((ld)mod->recalculated_y->data[i][k] - LM(Fit, i, k)); if (!(d <= fdev)) fdev = d; }
    vh_max("max_fitted_dev_over_k2eps", (double)(fdev / (k2e * rscale)));
    if (!(fdev <= CTOL * k2e * rscale)) vh_fail(c, "MLR|fitted-values-vs-least-squares", "response %zu: max |yhat - Z b_ls| = %.3Lg, allowed %.3Lg", k, fdev, CTOL * k2e * rscale);
    /* recalculated_y = b0 + X b with the model's own coefficients */
    {
      ld worst = 0;
      for (i = 0; i < n; i++) {
        ld s = mod->b->data[0][k], a = fabsl(s), d;
        for (j = 0; j < p; j++) { s += LM(X, i, j) * mod->b->data[j + 1][k]; a += fabsl(LM(X, i, j) * mod->b->data[j + 1][k]); }
        d = fabsl(s - mod->recalculated_y->data[i][k]) / (a + 1e-300L);
        if (!(d <= worst)) worst = d;
      }
      vh_max("max_recalculated_vs_own_b_over_eps", (double)(worst / EPS));
      if (!(worst <= 100 * (p + 2) * EPS)) vh_fail(c, "MLR|recalculated-y-is-intercept-plus-Xb", "response %zu: relative deviation %.3Lg", k, worst);
    }
    /* residuals: +-(yhat - y), sum to zero, orthogonal to every predictor */
    {
      ld worst = 0, dots, tol;
      for (i = 0; i < n; i++) {
        ld e = (ld)mod->recalculated_y->data[i][k] - LM(Y, i, k), r = mod->recalc_residuals->data[i][k];
        if (!sign && r != 0 && e != 0) sign = (r > 0) == (e > 0) ? 1 : -1;
      }
      if (!sign) sign = 1;
      for (i = 0; i < n; i++) {
        ld e = (ld)mod->recalculated_y->data[i][k] - LM(Y, i, k), r = mod->recalc_residuals->data[i][k];
        ld d = fabsl(r - sign * e) / (fabsl((ld)mod->recalculated_y->data[i][k]) + fabsl(LM(Y, i, k)) + 1e-300L);
        if (!(d <= worst)) worst = d;
        sum += r;
      }
      if (!(worst <= 4 * EPS)) vh_fail(c, "MLR|residuals-are-fitted-minus-observed", "response %zu: relative deviation %.3Lg", k, worst);
      tol = CTOL * k2e * sqrtl((ld)n) * rscale;
      vh_max("max_residual_sum_over_k2eps", (double)(fabsl(sum) / (k2e * sqrtl((ld)n) * rscale)));
      if (!(fabsl(sum) <= tol)) vh_fail(c, "MLR|residuals-sum-to-zero", "response %zu: sum of residuals = %.3Lg, allowed %.3Lg (|y| = %.3Lg)", k, sum, tol, yn);
      for (j = 0; j < p; j++) {
        ld xn = colnorm(X, j);
        dots = 0;
        for (i = 0; i < n; i++) dots += LM(X, i, j) * mod->recalc_residuals->data[i][k];
        vh_max("max_residual_dot_predictor_over_k2eps", (double)(fabsl(dots) / (k2e * xn * rscale + 1e-300L)));
        if (!(fabsl(dots) <= CTOL * k2e * xn * rscale)) { vh_fail(c, "MLR|residuals-orthogonal-to-predictors", "response %zu predictor %zu: x'r = %.3Lg, allowed %.3Lg", k, j, dots, CTOL * k2e * xn * rscale); break; }
      }
    }
    /* R2 = 1 - RSS/TSS within [0,1];  SDEC = sqrt(RSS/n)  (RSS from the model's own fitted values) */
    for (i = 0; i < n; i++) { ym += LM(Y, i, k); }
    sumy = ym; ym /= (ld)n;
    for (i = 0; i < n; i++) {
      ld e = (ld)mod->recalculated_y->data[i][k] - LM(Y, i, k), es = LM(Fit, i, k) - LM(Y, i, k);
      rss += e * e; rss_s += es * es; tss += (LM(Y, i, k) - ym) * (LM(Y, i, k) - ym);
    }
    {
      ld want = sqrtl(rss / (ld)n), got = mod->sdec->data[k], d = fabsl(got - want);
      vh_max("max_sdec_rel_dev_over_eps", (double)(d / (want + 1e-300L) / EPS));
      if (!(d <= 100 * (ld)n * EPS * want + 1e-300L)) vh_fail(c, "MLR|sdec-is-sqrt-rss-over-n", "response %zu: sdec = %.17g, sqrt(RSS/n) = %.17Lg (n = %zu)", k, mod->sdec->data[k], want, n);
      if (nmode == 0 && zero_noise_ok) {
        vh_max("max_zero_noise_sdec_over_k2eps", (double)(got / (k2e * rscale)));
        if (!(got <= CTOL * k2e * rscale)) vh_fail(c, "MLR|exact-recovery-sdec", "response %zu: noise-free data but sdec = %.3Lg, allowed %.3Lg", k, got, CTOL * k2e * rscale);
      }
    }
    if (fabsl(sumy) < 1e-5L) vh_obs("r2_not_judged_sum_of_y_in_zero_snap_window", 1);       /* MatrixColAverage zeroes |sums| < 1e-6 by design */
    else if (!(tss > 1e6L * EPS * EPS * yn * yn)) vh_obs("r2_not_judged_constant_response", 1);
    else {
      ld want = 1 - rss / tss, got = mod->r2y_model->data[k], amp = 1 + fabsl(ym) * sqrtl((ld)n) / sqrtl(tss);
      ld tol = 100 * EPS * ((ld)n + amp) * (1 + rss / tss), d = fabsl(got - want);
      /* optimality: RSS_lib <= RSS_ls + n (tol rscale)^2 + 2 sqrt(n) |r_ls| tol rscale, and RSS_ls <= TSS */
      ld slack = ((ld)n * (CTOL * k2e * rscale) * (CTOL * k2e * rscale) + 2 * sqrtl((ld)n) * sqrtl(rss_s) * CTOL * k2e * rscale) / tss + tol;
      vh_max("max_r2_dev_over_eps_amp", (double)(d / (EPS * ((ld)n + amp) * (1 + rss / tss))));
      vh_obs("r2_judged", 1);
      if (!(d <= tol)) vh_fail(c, "MLR|r2-is-one-minus-rss-over-tss", "response %zu: r2y_model = %.17g, 1 - RSS/TSS = %.17Lg (tolerance %.3Lg)", k, mod->r2y_model->data[k], want, tol);
      if (!(got <= 1 + tol) || !(got >= -slack)) vh_fail(c, "MLR|r2-in-unit-interval", "response %zu: training r2 = %.17g outside [0,1] (slack %.3Lg)", k, mod->r2y_model->data[k], slack);
      if (fabsl(got - (1 - rss_s / tss)) > slack) vh_fail(c, "MLR|r2-vs-least-squares", "response %zu: r2 = %.12g, least-squares 1 - RSS/TSS = %.12Lg (slack %.3Lg)", k, mod->r2y_model->data[k], 1 - rss_s / tss, slack);
      vh_hist("r2_decile", got < 0 ? -1 : (long)floorl(got * 10));
    }
    /* stored response mean */
    if (fabsl(sumy) >= 1e-5L && !(fabsl((ld)mod->ymean->data[k] - ym) <= 100 * (ld)n * EPS * (yn / sqrtl((ld)n) + fabsl(ym))))
      vh_fail(c, "MLR|ymean", "response %zu: ymean = %.17g, mean of y = %.17Lg", k, mod->ymean->data[k], ym);
  }

  /* MLRRegressionStatistics = R2 / RMSE / BIAS per column: on the training fit and on a distorted prediction matrix */
  {
    int round;
    for (round = 0; round < 2; round++) {
      matrix *pr = matrix_dup(mod->recalculated_y);
      dvector *cc, *rm, *bi;
      ld *t = calloc(n, sizeof(ld)), *q = calloc(n, sizeof(ld));
      if (round == 1) for (k = 0; k < ny; k++) {
        double slope = vh_range(c, 0.3, 1.7), shift = vh_gauss(c) * (double)sdk[k], nz = vh_logunif(c, -3, 0.5) * (double)sdk[k];
        for (i = 0; i < n; i++) pr->data[i][k] = slope * my->data[i][k] + shift + nz * vh_gauss(c);
      }
      initDVector(&cc); initDVector(&rm); initDVector(&bi);
      MLRRegressionStatistics(my, pr, cc, rm, bi);
      if (cc->size != ny || rm->size != ny || bi->size != ny) vh_fail(c, "MLRRegressionStatistics|shape", "sizes %zu %zu %zu for %zu responses", cc->size, rm->size, bi->size, ny);
      else for (k = 0; k < ny; k++) {
        ld r2, rmse, bias, amp, amp_b, tol, tol_b, yn = colnorm(Y, k), ym = 0, tss = 0;
        for (i = 0; i < n; i++) { t[i] = my->data[i][k]; q[i] = pr->data[i][k]; ym += t[i]; }
        ym /= (ld)n;
        for (i = 0; i < n; i++) tss += (t[i] - ym) * (t[i] - ym);
        if (!(tss > 1e6L * EPS * EPS * yn * yn)) { vh_obs("stats_not_judged_constant_response", 1); continue; }
        fom(t, q, n, &r2, &rmse, &bias, &amp, &amp_b);
        tol = 100 * EPS * ((ld)n + amp); tol_b = 1e4 * EPS * ((ld)n + amp_b);   /* the mean itself carries up to n eps of summation error */
        vh_obs("regression_statistics_columns_judged", 1);
        vh_max("max_stats_r2_dev_over_eps_amp", (double)(fabsl(cc->data[k] - r2) / (EPS * ((ld)n + amp) * (1 + fabsl(1 - r2)))));
        vh_max("max_stats_bias_dev_over_eps_amp", (double)(fabsl(bi->data[k] - bias) / (EPS * ((ld)n + amp_b) * (1 + bias))));
        vh_max("max_stats_rmse_rel_dev_over_eps", (double)(fabsl(rm->data[k] - rmse) / (rmse + 1e-300L) / EPS));
        if (!(fabsl(cc->data[k] - r2) <= tol * (1 + fabsl(1 - r2)))) vh_fail(c, "MLRRegressionStatistics|r2", "%s column %zu: %.17g, formula %.17Lg", round ? "distorted" : "training", k, cc->data[k], r2);
        if (!(fabsl(rm->data[k] - rmse) <= 100 * (ld)n * EPS * rmse + 1e-300L)) vh_fail(c, "MLRRegressionStatistics|rmse", "%s column %zu: %.17g, formula %.17Lg", round ? "distorted" : "training", k, rm->data[k], rmse);
        if (!(fabsl(bi->data[k] - bias) <= tol_b * (1 + bias))) vh_fail(c, "MLRRegressionStatistics|bias", "%s column %zu: %.17g, formula %.17Lg", round ? "distorted" : "training", k, bi->data[k], bias);
      }
      DelDVector(&cc); DelDVector(&rm); DelDVector(&bi); DelMatrix(&pr); free(t); free(q);
    }
  }

  /* MLRPredictY on a fresh matrix = b0 + X b */
  m = (size_t)vh_int(c, 1, 20);
  {
    ldm *Xn = ldm_new(m, p);
    matrix *mxn, *pred, *yn_ = NULL, *res = NULL;
    dvector *r2v = NULL, *sdv = NULL;
    int with_y = vh_coin(c, 0.4);
    for (i = 0; i < m; i++) { double far = vh_coin(c, 0.15) ? 100 : 1; for (j = 0; j < p; j++) LM(Xn, i, j) = cm[j] + (cs[j] > 0 ? cs[j] : 1) * (ld)(far * vh_gauss(c)); }
    mxn = matrix_of_ldm(Xn);
    initMatrix(&pred);
    if (with_y) {
      NewMatrix(&yn_, m, ny); initMatrix(&res); initDVector(&r2v); initDVector(&sdv);
      for (i = 0; i < m; i++) for (k = 0; k < ny; k++) yn_->data[i][k] = (double)(LM(B0, 0, k) + sdk[k] * (ld)vh_gauss(c));
    }
    MLRPredictY(mxn, yn_, mod, pred, res, r2v, sdv);
    vh_obs(with_y ? "fresh_predictions_with_y" : "fresh_predictions_without_y", 1);
    if (pred->row != m || pred->col != ny) vh_fail(c, "MLRPredictY|shape", "prediction %zux%zu for %zu objects, %zu responses", pred->row, pred->col, m, ny);
    else {
      ld worst = 0;
      for (k = 0; k < ny; k++) for (i = 0; i < m; i++) {
        ld s = mod->b->data[0][k], a = fabsl(s), d;
        for (j = 0; j < p; j++) { s += (ld)mxn->data[i][j] * mod->b->data[j + 1][k]; a += fabsl((ld)mxn->data[i][j] * mod->b->data[j + 1][k]); }
        d = fabsl(s - pred->data[i][k]) / (a + 1e-300L);
        if (!(d <= worst)) worst = d;
      }
      vh_max("max_fresh_prediction_rel_dev_over_eps", (double)(worst / EPS));
      if (!(worst <= 100 * (p + 2) * EPS)) vh_fail(c, "MLRPredictY|prediction-is-intercept-plus-Xb", "fresh matrix %zux%zu: relative deviation %.3Lg", m, p, worst);
      if (with_y) {
        if (res->row != m || res->col != ny || r2v->size != ny || sdv->size != ny) vh_fail(c, "MLRPredictY|shape", "residuals %zux%zu r2 %zu sdep %zu for %zu objects %zu responses", res->row, res->col, r2v->size, sdv->size, m, ny);
        else for (k = 0; k < ny; k++) {
          ld rss = 0, w = 0;
          for (i = 0; i < m; i++) {
            ld e = (ld)pred->data[i][k] - yn_->data[i][k], d = fabsl(fabsl((ld)res->data[i][k]) - fabsl(e)) / (fabsl((ld)pred->data[i][k]) + fabsl((ld)yn_->data[i][k]) + 1e-300L);
            rss += e * e; if (!(d <= w)) w = d;
          }
          if (!(w <= 4 * EPS)) vh_fail(c, "MLRPredictY|residuals-are-predicted-minus-observed", "response %zu: relative deviation %.3Lg", k, w);
          if (!(fabsl((ld)sdv->data[k] - sqrtl(rss / (ld)m)) <= 100 * (ld)m * EPS * sqrtl(rss / (ld)m) + 1e-300L)) vh_fail(c, "MLRPredictY|sdep-is-sqrt-rss-over-n", "response %zu: %.17g vs %.17Lg (m = %zu)", k, sdv->data[k], sqrtl(rss / (ld)m), m);
        }
      }
    }

    /* equivariance */
    if (eqmode == 0) {
      /* y -> c*y + d: coefficients scale, intercept shifts, predictions follow */
      ldm *Y2 = ldm_new(n, ny);
      matrix *my2; MLRMODEL *m2;
      ld *cc = calloc(ny, sizeof(ld)), *dd = calloc(ny, sizeof(ld));
      for (k = 0; k < ny; k++) {
        cc[k] = (ld)((vh_coin(c, 0.5) ? 1 : -1) * vh_logunif(c, -2, 2));
        dd[k] = vh_coin(c, 0.2) ? 0 : (ld)(vh_gauss(c) * vh_logunif(c, -1, 2)) * fabsl(cc[k]) * sdk[k];
        for (i = 0; i < n; i++) LM(Y2, i, k) = cc[k] * LM(Y, i, k) + dd[k];
      }
      my2 = matrix_of_ldm(Y2);
      for (i = 0; i < n; i++) for (k = 0; k < ny; k++) LM(Y2, i, k) = my2->data[i][k];
      m2 = fit(mx, my2);
      vh_obs("equivariance_response_affine", 1);
      if (model_shape_ok(c, m2, n, p, ny, "y-transformed")) for (k = 0; k < ny; k++) {
        ld bn = 0, bn2 = 0, dev = 0, fdev = 0, s1, s2, r1, r2;
        for (j = 0; j <= p; j++) {
          ld e = cc[k] * LM(Bs, j, k) + (j == 0 ? dd[k] : 0), d = (ld)m2->b->data[j][k] - (cc[k] * (ld)mod->b->data[j][k] + (j == 0 ? dd[k] : 0));
          bn += LM(Bs, j, k) * LM(Bs, j, k); bn2 += e * e; dev += d * d;
        }
        bn = sqrtl(bn); bn2 = sqrtl(bn2); dev = sqrtl(dev);
        s1 = fabsl(cc[k]) * (bn + colnorm(Y, k) / D.smax); s2 = bn2 + colnorm(Y2, k) / D.smax;
        r1 = fabsl(cc[k]) * (D.smax * bn + colnorm(Y, k)); r2 = D.smax * bn2 + colnorm(Y2, k);
        for (i = 0; i < n; i++) { ld d = fabsl((ld)m2->recalculated_y->data[i][k] - (cc[k] * (ld)mod->recalculated_y->data[i][k] + dd[k])); if (!(d <= fdev)) fdev = d; }
        vh_max("max_yaffine_coef_dev_over_k2eps", (double)(dev / (k2e * (s1 + s2))));
        vh_max("max_yaffine_fitted_dev_over_k2eps", (double)(fdev / (k2e * (r1 + r2))));
        if (!(dev <= CTOL * k2e * (s1 + s2))) vh_fail(c, "MLR|equivariance-response-affine-coefficients", "response %zu (c = %.3Lg, d = %.3Lg): |b(cy+d) - (c b(y) + d e0)|_2 = %.3Lg, allowed %.3Lg", k, cc[k], dd[k], dev, CTOL * k2e * (s1 + s2));
        if (!(fdev <= CTOL * k2e * (r1 + r2))) vh_fail(c, "MLR|equivariance-response-affine-predictions", "response %zu (c = %.3Lg, d = %.3Lg): max |yhat(cy+d) - (c yhat(y) + d)| = %.3Lg, allowed %.3Lg", k, cc[k], dd[k], fdev, CTOL * k2e * (r1 + r2));
      }
      DelMLRModel(&m2); DelMatrix(&my2); ldm_free(Y2); free(cc); free(dd);
    } else {
      /* X -> X*A, kappa(A) <= 10: predictions (training and fresh) unchanged */
      ldm *A = ldm_new(p, p), *Qa = ldm_new(p, p), *Qb = ldm_new(p, p), *X2, *Xn2, *Bs2 = NULL;
      design D2;
      matrix *mx2 = NULL, *mxn2 = NULL;
      double ka = p > 1 ? vh_logunif(c, 0, 1) : 1, ga = vh_logunif(c, -1, 1);
      or_random_orthogonal(Qa, gauss_cb, c); or_random_orthogonal(Qb, gauss_cb, c);
      for (i = 0; i < p; i++) for (j = 0; j < p; j++) {
        ld a = 0;
        for (k = 0; k < p; k++) { double t = k == 0 ? 0 : k == p - 1 ? 1 : (double)k / (double)(p - 1); a += LM(Qa, i, k) * (ld)ga * powl((ld)ka, -(ld)t) * LM(Qb, j, k); }
        LM(A, i, j) = a;
      }
      X2 = ldm_mul(X, A);
      for (i = 0; i < m; i++) for (j = 0; j < p; j++) LM(Xn, i, j) = mxn->data[i][j];
      Xn2 = ldm_mul(Xn, A);
      mx2 = matrix_of_ldm(X2); mxn2 = matrix_of_ldm(Xn2);
      for (i = 0; i < n; i++) for (j = 0; j < p; j++) LM(X2, i, j) = mx2->data[i][j];
      design_of(X2, &D2);
      if (D2.kappa <= KAPPA_MAX) Bs2 = or_lstsq(D2.Z, Y);
      if (!Bs2) vh_obs("equivariance_predictor_mixing_not_judged_kappa", 1);
      else {
        MLRMODEL *m2 = fit(mx2, my);
        ld k2e2 = D2.kappa * D2.kappa * EPS;
        vh_obs("equivariance_predictor_mixing", 1);
        if (model_shape_ok(c, m2, n, p, ny, "X-mixed")) {
          matrix *pred2; initMatrix(&pred2);
          MLRPredictY(mxn2, NULL, m2, pred2, NULL, NULL, NULL);
          for (k = 0; k < ny; k++) {
            ld bn = 0, bn2 = 0, yn2 = colnorm(Y, k), fdev = 0, tol, worst = 0;
            for (j = 0; j <= p; j++) { bn += LM(Bs, j, k) * LM(Bs, j, k); bn2 += LM(Bs2, j, k) * LM(Bs2, j, k); }
            bn = sqrtl(bn); bn2 = sqrtl(bn2);
            tol = k2e * (D.smax * bn + yn2) + k2e2 * (D2.smax * bn2 + yn2);
            for (i = 0; i < n; i++) { ld d = fabsl((ld)m2->recalculated_y->data[i][k] - (ld)mod->recalculated_y->data[i][k]); if (!(d <= fdev)) fdev = d; }
            vh_max("max_xmix_fitted_dev_over_k2eps", (double)(fdev / tol));
            if (!(fdev <= CTOL * tol)) vh_fail(c, "MLR|equivariance-predictor-mixing-training-predictions", "response %zu: max |yhat(XA) - yhat(X)| = %.3Lg, allowed %.3Lg (kappa(A) = %.3g, kappa([1 XA]) = %.3Lg)", k, fdev, CTOL * tol, ka, D2.kappa);
            if (pred2->row == m && pred2->col == ny && pred->row == m && pred->col == ny) for (i = 0; i < m; i++) {
              /* |z' db| <= |z| |db| for each of the two models */
              ld z1 = 1, z2 = 1, t2, d;
              for (j = 0; j < p; j++) { z1 += (ld)mxn->data[i][j] * mxn->data[i][j]; z2 += (ld)mxn2->data[i][j] * mxn2->data[i][j]; }
              t2 = k2e * (bn + yn2 / D.smax) * sqrtl(z1) + k2e2 * (bn2 + yn2 / D2.smax) * sqrtl(z2);
              d = fabsl((ld)pred2->data[i][k] - (ld)pred->data[i][k]) / t2;
              if (!(d <= worst)) worst = d;
            }
            vh_max("max_xmix_fresh_dev_over_k2eps", (double)worst);
            if (!(worst <= CTOL)) vh_fail(c, "MLR|equivariance-predictor-mixing-fresh-predictions", "response %zu: fresh predictions differ by %.3Lg tolerance units (allowed %.0f)", k, worst, CTOL);
          }
          DelMatrix(&pred2);
        }
        DelMLRModel(&m2);
      }
      ldm_free(D2.Z); if (Bs2) ldm_free(Bs2);
      DelMatrix(&mx2); DelMatrix(&mxn2);
      ldm_free(A); ldm_free(Qa); ldm_free(Qb); ldm_free(X2); ldm_free(Xn2);
    }

#if C07_PROBE_CONTAINER_REUSE
    /* the same output matrix used for a second prediction with another number of objects */
    if (pred->row == m && pred->col == ny && vh_coin(c, 0.25)) {
      size_t m2 = vh_coin(c, 0.5) ? m + (size_t)vh_int(c, 1, 30) : (m > 1 ? (size_t)vh_int(c, 1, (long)m - 1) : 2);
      matrix *mxr; ld worst = 0;
      if ((c->idx & 3) == 1) { m2 = m; vh_obs("reused_output_matrix_same_shape", 1); }   /* second build session: the buffer keeps its shape and still holds the first prediction */
      NewMatrix(&mxr, m2, p);
      for (i = 0; i < m2; i++) for (j = 0; j < p; j++) mxr->data[i][j] = (double)(cm[j] + (cs[j] > 0 ? cs[j] : 1) * (ld)vh_gauss(c));
      if (m2 != m) vh_obs(m2 > m ? "reused_output_matrix_grows" : "reused_output_matrix_shrinks", 1);
      MLRPredictY(mxr, NULL, mod, pred, NULL, NULL, NULL);
      if (pred->row != m2 || pred->col != ny) vh_fail(c, "MLRPredictY|reused-output-matrix-shape", "second prediction for %zu objects into a matrix that held %zu: result is %zux%zu", m2, m, pred->row, pred->col);
      else {
        for (k = 0; k < ny; k++) for (i = 0; i < m2; i++) {
          ld s = mod->b->data[0][k], a = fabsl(s), d;
          for (j = 0; j < p; j++) { s += (ld)mxr->data[i][j] * mod->b->data[j + 1][k]; a += fabsl((ld)mxr->data[i][j] * mod->b->data[j + 1][k]); }
          d = fabsl(s - pred->data[i][k]) / (a + 1e-300L);
          if (!(d <= worst)) worst = d;
        }
        if (!(worst <= 100 * (p + 2) * EPS)) vh_fail(c, "MLRPredictY|reused-output-matrix-values", "relative deviation %.3Lg", worst);
      }
      DelMatrix(&mxr);
    }
#endif
    DelMatrix(&mxn); DelMatrix(&pred);
    if (with_y) { DelMatrix(&yn_); DelMatrix(&res); DelDVector(&r2v); DelDVector(&sdv); }
    ldm_free(Xn);
  }

out:
  if (mod) DelMLRModel(&mod);
  if (Bs) ldm_free(Bs);
  if (Fit) ldm_free(Fit);
  ldm_free(D.Z);
  DelMatrix(&mx); DelMatrix(&my); DelMatrix(&mx0); DelMatrix(&my0);
  ldm_free(X); ldm_free(Y); ldm_free(B0); ldm_free(U); ldm_free(V);
  free(cm); free(cs); free(sdk);
}

const vh_driver VH_DRIVER = { "C07", ncases, run_case, NULL, 60 };
