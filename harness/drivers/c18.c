/* c18.c - C18: model fitting terminates with finite leading components on degenerate data.
 *
 * Non-termination is decided logically, never by wall-clock time:
 *   - absorbing-NaN detector on the NIPALS tick hook (H3): a NaN convergence value can never be followed by a
 *     convergence exit (NaN < tol is false and the NaN propagates through the next loading and score), so a
 *     NaN run longer than 1.5x the library's documented iteration bound is reported at once;
 *   - iteration ceiling per component (2e6 ticks; the evidence histogram shows regular data needs < 1e4);
 *   - RNG-call ceiling (H2) for loops driven by the random generator (k-means++ seeding, fold generation);
 *   - objective-evaluation ceiling for NelderMeadSimplex, counted by the driver's own objective.
 * The detectors run inside the forked case child and end it with vh_fail_now().
 * After a return: components up to the numerical rank are finite and satisfy the NIPALS identities,
 * explained variance beyond the rank is 0 (not NaN). */
#include "drv_util.h"

static long ncases(int tier) { return tier ? 80000 : 2400; }

/* ------------------------------------------------------------------ detectors */
static const char *g_api = "?";
static char g_inclass[96];
static long g_tick_comp_count, g_rng_calls, g_rng_ceiling, g_obj_evals, g_obj_ceiling;
static int g_last_loop = -1, g_nan_run;
static size_t g_last_comp = (size_t)-1;
#define TICK_CEILING 2000000L
#define NAN_RUN_CEILING 150000L

static void fail_hang(const char *what, const char *fmt, long a, double b)
{
  char key[200], msg[300];
  snprintf(key, sizeof key, "%s|non-termination:%s|%s", g_api, what, g_inclass);
  snprintf(msg, sizeof msg, fmt, a, b);
  vh_fail_now(vh_current(), key, "%s", msg);
}
#define CLUSTER_PASS_CEILING 20000L     /* passes of one selection / Lloyd loop (k-means++ needs ~k, Lloyd <= 100, MDC <= n: see max_clustering_loop_passes) */
static long g_cluster_passes;
static void tick_hook(int loop, size_t comp, double conv)
{
  if (loop >= 3) {          /* clustering loops: no convergence value, the number of passes is the logical clock */
    vh_obs("hook_clustering_pass_events", 1);
    if (++g_cluster_passes > CLUSTER_PASS_CEILING) fail_hang("pass-ceiling", "more than %ld passes of one selection/Lloyd loop (items selected so far %g)", CLUSTER_PASS_CEILING, (double)comp);
    return;
  }
  /* PLS passes its own iteration counter as `comp`: a new latent variable restarts it at 1 */
  int newcomp = (loop != g_last_loop) || (loop == 1 ? comp <= g_last_comp : comp != g_last_comp);
  if (newcomp) {
    if (g_last_loop >= 0) { long b = 0; while ((1L << b) < g_tick_comp_count) b++; vh_hist("ticks_per_component_log2", b); }
    g_tick_comp_count = 0; g_nan_run = 0;
  }
  g_last_loop = loop; g_last_comp = comp;
  g_tick_comp_count++;
  vh_obs("hook_tick_events", 1);
  if (conv != conv) {
    /* a NaN convergence value is absorbing (NaN < tol is false and the NaN propagates through the next loading
       and score), so such a loop ends only through the library's own iteration bound (100000 per component):
       a NaN run well beyond that bound is non-termination, decided long before the general ceiling */
    if (++g_nan_run == 2) vh_obs("nan_convergence_runs_observed", 1);
    if (g_nan_run > NAN_RUN_CEILING) fail_hang("absorbing-NaN", "convergence value is NaN on %ld consecutive iterations (beyond the documented iteration bound); last=%g", (long)g_nan_run, conv);
  } else g_nan_run = 0;
  if (g_tick_comp_count > TICK_CEILING) fail_hang("iteration-ceiling", "more than %ld iterations for one component (conv=%g)", TICK_CEILING, conv);
}
static void rng_hook(int fn, uint32_t st)
{
  (void)fn; (void)st;
  vh_obs("hook_rng_events", 1);
  if (++g_rng_calls > g_rng_ceiling && g_rng_ceiling > 0) fail_hang("rng-call-ceiling", "more than %ld random-number calls (last state %g)", g_rng_ceiling, (double)st);
}
static void arm(const char *api, long rng_ceiling)
{
  /* the fits must terminate whatever processor count the machine reports (H1): 1, 2 or the real one, by case index */
  { vh_ctx *cur = vh_current(); long ix = cur ? cur->idx : 0; libsci_verif_nprocs = (ix % 3 == 0) ? 1 : (ix % 3 == 1) ? 2 : 0; vh_hist("reported_processors", (long)libsci_verif_nprocs); }
  g_api = api; g_last_loop = -1; g_last_comp = (size_t)-1; g_tick_comp_count = 0; g_nan_run = 0;
  g_rng_calls = 0; g_rng_ceiling = rng_ceiling; g_cluster_passes = 0;
  libsci_verif_tick_hook = tick_hook; libsci_verif_rng_hook = rng_hook;
}
static void disarm(void) { libsci_verif_tick_hook = NULL; libsci_verif_rng_hook = NULL; libsci_verif_nprocs = 0; vh_max("max_clustering_loop_passes", (double)g_cluster_passes); }

/* ------------------------------------------------------------------ degenerate data */
/* n x p matrix of exact rank r (r <= min(n,p)) from small integer factors, optionally duplicated rows,
   constant columns, dyadic scaling and a tiny perturbation */
static ldm *degenerate(vh_ctx *c, size_t n, size_t p, size_t r, int *kind, double *pert)
{
  ldm *A = ldm_new(n, r ? r : 1), *B = ldm_new(r ? r : 1, p), *X;
  size_t i, j;
  double dy = ldexp(1.0, (int)vh_int(c, -6, 6));
  for (i = 0; i < A->r * A->c; i++) A->a[i] = (ld)vh_int(c, -3, 3);
  for (i = 0; i < B->r * B->c; i++) B->a[i] = (ld)vh_int(c, -3, 3);
  X = ldm_mul(A, B);
  if (r == 0) for (i = 0; i < n * p; i++) X->a[i] = 0;
  *kind = (int)vh_int(c, 0, 4);
  if (*kind == 1 && n > 1) { for (i = 1; i < n; i += 2) for (j = 0; j < p; j++) LM(X, i, j) = LM(X, i - 1, j); }   /* duplicated rows */
  if (*kind == 2) { size_t jc = (size_t)vh_int(c, 0, (long)p - 1); ld v = (ld)vh_int(c, -4, 4); for (i = 0; i < n; i++) LM(X, i, jc) = v; }  /* constant column */
  if (*kind == 3) { ld v = (ld)vh_int(c, -2, 2); for (i = 0; i < n * p; i++) X->a[i] = v; }                      /* constant matrix */
  for (i = 0; i < n * p; i++) X->a[i] *= dy;
  *pert = 0;
  if (vh_coin(c, 0.25)) { *pert = vh_logunif(c, -12, -6); for (i = 0; i < n * p; i++) X->a[i] += (ld)(*pert * vh_gauss(c)); }
  ldm_free(A); ldm_free(B);
  for (i = 0; i < n * p; i++) X->a[i] = (ld)(double)X->a[i];
  return X;
}
static const char *kname(int k) { static const char *s[] = { "lowrank", "duprows", "constcol", "constmat", "lowrank2" }; return s[k]; }

/* reference preprocessing from the statistics the fitted model stores (their correctness is C10's and C01's
   business; here we need the matrix the library actually decomposed: e.g. it snaps column sums below 1e-6 to 0,
   so data of magnitude 1e-7 are not centred) */
static size_t model_rank(const ldm *X, dvector *avg, dvector *scl, ldm **Tout)
{
  ldm *T = ldm_new(X->r, X->c);
  size_t i, j, rk;
  for (j = 0; j < X->c; j++) {
    ld m = avg->size ? (ld)avg->data[j] : 0, sc = scl->size ? (ld)scl->data[j] : 1;
    for (i = 0; i < X->r; i++) LM(T, i, j) = (scl->size && fabsl(sc) < 1e-3L) ? 0 : ((ld)(double)((double)LM(X, i, j) - (double)m)) / sc;
  }
  rk = or_rank(T, 1e-9L);
  if (Tout) *Tout = T; else ldm_free(T);
  return rk;
}

/* reference preprocessing + numerical rank */
static size_t pre_rank(const ldm *X, int scaling, ldm **Tout)
{
  ldm *T = ldm_new(X->r, X->c);
  ld *mean = calloc(X->c + 1, sizeof(ld)), *scale = calloc(X->c + 1, sizeof(ld));
  size_t nm, ns, rk, i;
  or_preprocess_fit(X, scaling, mean, scale, &nm, &ns, T);
  /* the library zeroes a column whose scaling value is below its guard (1e-3): mirror that for the rank */
  if (scaling >= 1) { size_t j; for (j = 0; j < X->c; j++) if (fabsl(scale[j]) < 1e-3L) for (i = 0; i < X->r; i++) LM(T, i, j) = 0; }
  rk = or_rank(T, 1e-9L);
  free(mean); free(scale);
  if (Tout) *Tout = T; else ldm_free(T);
  return rk;
}
/* scalings whose stored scale could fall between the two zero guards are outside every property's domain */
static int scale_in_guard_band(const ldm *X, int scaling)
{
  size_t j; int bad = 0;
  if (scaling < 1) return 0;
  for (j = 0; j < X->c; j++) {
    ld m, sd, rms, lo, hi, sc;
    or_col_stats(X, j, &m, &sd, &rms, &lo, &hi, NULL);
    sc = scaling == 1 ? sd : scaling == 2 ? rms : scaling == 3 ? sqrtl(sd) : scaling == 4 ? hi - lo : m;
    if (fabsl(sc) > 1e-12L && fabsl(sc) < 0.05L) bad = 1;
  }
  return bad;
}

/* ------------------------------------------------------------------ PCA */
static void case_pca(vh_ctx *c)
{
  size_t n = (size_t)vh_int(c, 2, 12), p = (size_t)vh_int(c, 1, 8), mn = n < p ? n : p, r = (size_t)vh_int(c, 0, (long)mn), i, j, k, npc, rk;
  int kind, scaling = (int)vh_int(c, -1, 5);
  double pert;
  ldm *X = degenerate(c, n, p, r, &kind, &pert), *T;
  matrix *mx;
  PCAMODEL *m;
  /* finite but extreme magnitudes: sums of squares overflow (or underflow to 0); nothing but termination is demanded there */
  int extreme = vh_coin(c, 0.06) ? (vh_coin(c, 0.5) ? 1 : -1) : 0;
  if (extreme) { ld f = extreme > 0 ? 1e160L : 1e-170L; for (i = 0; i < n * p; i++) X->a[i] = (ld)(double)((X->a[i] + (ld)(i % 7 + 1)) * f); }
  /* uncentred data whose second direction lives in constant columns only (side PRNG stream; the class of the finding repaired by the
     "largest sum of squares" start fallback): columns a_j * (+1,-1,+1,...) dominate, one or two constant columns carry the rest; rank 2 */
  { vh_ctx cc = *c; cc.s[1] ^= 0xB5026F5AA96619E9ULL; (void)vh_u64(&cc); (void)vh_u64(&cc);
    if (!extreme && p >= 2 && vh_coin(&cc, 0.08)) {
      size_t nc = p >= 3 && vh_coin(&cc, 0.4) ? 2 : 1, jj; n = 2 * (size_t)vh_int(&cc, 1, 4); scaling = -1;
      ldm_free(X); X = ldm_new(n, p);
      for (jj = 0; jj < p; jj++) { ld a = jj < p - nc ? (ld)vh_int(&cc, 2, 9) * (vh_coin(&cc, 0.5) ? 1 : -1) * 0.5L : 0, v = jj < p - nc ? 0 : (ld)vh_int(&cc, 1, 2) * (vh_coin(&cc, 0.5) ? 1 : -1); for (i = 0; i < n; i++) LM(X, i, jj) = a * ((i & 1) ? -1 : 1) + v; }
      kind = 2; pert = 0; r = 2;
      vh_obs("pca_cases_with_the_rest_in_constant_columns", 1);
    } }
  mx = matrix_of_ldm(X);
  if (c->verbose) { size_t a_, b_; fprintf(stderr, "PCA input %zu x %zu\n", n, p); for (a_ = 0; a_ < n; a_++) { for (b_ = 0; b_ < p; b_++) fprintf(stderr, "%.17g ", mx->data[a_][b_]); fprintf(stderr, "\n"); } }
  npc = (size_t)vh_int(c, 1, (long)p + 2);
  rk = pre_rank(X, scaling, &T);
  snprintf(g_inclass, sizeof g_inclass, "%s%s%s", kname(kind), pert > 0 ? "+perturbed" : "", extreme > 0 ? "+overflow-magnitude" : extreme < 0 ? "+underflow-magnitude" : "");
  vh_class(c, "PCA-%s-sc%d-%s-%s", g_inclass, scaling, npc > rk ? "npc>rank" : "npc<=rank", rk == 0 ? "rank0" : rk < mn ? "deficient" : "full");
  vh_desc(c, "PCA rows=%zu cols=%zu built_rank=%zu numerical_rank=%zu kind=%s perturb=%g scaling=%d npc=%zu x00=%.17g", n, p, r, rk, kname(kind), pert, scaling, npc, mx->data[0][0]);
  if (!extreme && scale_in_guard_band(X, scaling)) { vh_skip(c, "scaling value between the zero guards"); goto out; }
  NewPCAModel(&m);
  arm("PCA", 0);
  PCA(mx, scaling, npc, m, NULL);
  disarm();
  vh_obs("returned_PCA", 1);
  if (extreme) { vh_obs("returned_extreme_magnitude", 1); DelPCAModel(&m); goto out; }
  ldm_free(T);
  rk = model_rank(X, m->colaverage, m->colscaling, &T);
  {
    size_t got = m->varexp->size, lim = got < rk ? got : rk;
    ld e0 = ldm_frob(T);
    ldm *E = ldm_copy(T);
    if (got != (npc > p ? p : npc)) vh_fail(c, "PCA|component-count", "asked %zu (cols %zu) got %zu", npc, p, got);
    for (k = 0; k < lim && k < m->scores->col; k++) {
      ld pn = 0; int fin = 1;
      for (j = 0; j < p; j++) { if (!isfinite(m->loadings->data[j][k])) fin = 0; pn += (ld)m->loadings->data[j][k] * m->loadings->data[j][k]; }
      for (i = 0; i < n; i++) if (!isfinite(m->scores->data[i][k])) fin = 0;
      if (!fin) { vh_fail(c, "PCA|non-finite-defined-component", "component %zu of %zu (rank %zu) is not finite", k, got, rk); break; }
      if (fabsl(sqrtl(pn) - 1) > 1e-9L) vh_fail(c, "PCA|loading-norm-degenerate", "|p_%zu| = %.12Lg", k, sqrtl(pn));
      for (i = 0; i < n; i++) {
        ld s = 0; for (j = 0; j < p; j++) s += LM(E, i, j) * m->loadings->data[j][k];
        if (fabsl(s - m->scores->data[i][k]) > 1e-8L * e0 + 1e-300L) { vh_fail(c, "PCA|score-projection-degenerate", "t[%zu][%zu]=%.12g vs E p=%.12Lg", i, k, m->scores->data[i][k], s); break; }
      }
      for (i = 0; i < n; i++) for (j = 0; j < p; j++) LM(E, i, j) -= (ld)m->scores->data[i][k] * m->loadings->data[j][k];
    }
    for (k = 0; k < got; k++) {
      double ve = m->varexp->data[k];
      if (ve != ve) { vh_fail(c, k >= rk ? "PCA|varexp-NaN-beyond-rank" : "PCA|varexp-NaN", "varexp[%zu] is NaN (rank %zu)", k, rk); break; }
      if (k >= rk && fabs(ve) > 1e-6) {
        /* input class (the recorded NIPALS finding, see drv_util.h): a component inside the rank came out null because it was started from a
           column that is orthogonal to what is left - for uncentred data the start column is chosen by VARIANCE, so a constant column that
           holds all the remaining sum of squares loses against columns of rounding residue; the real component then appears one slot later */
        size_t q, a_, b_; int cls = 0; double cos0 = 1, rho2 = 0;
        for (q = 0; q < rk && q < got; q++) if (fabs(m->varexp->data[q]) <= 1e-9) break;
        if (q < rk && q < got) {
          ldm *Eq = ldm_copy(T);
          for (b_ = 0; b_ < q; b_++) for (i = 0; i < n; i++) for (a_ = 0; a_ < p; a_++) LM(Eq, i, a_) -= (ld)m->scores->data[i][b_] * m->loadings->data[a_][b_];
          /* the start column the library takes: largest variance about the column mean among the columns of its (double precision) residual;
             here: is every column that still carries sum of squares a constant column, i.e. invisible to a variance ranking? */
          { int only_constant = 1; ld ssq = 0; for (a_ = 0; a_ < p; a_++) { ld mcol = 0, v = 0, s2 = 0; for (i = 0; i < n; i++) { mcol += LM(Eq, i, a_); s2 += LM(Eq, i, a_) * LM(Eq, i, a_); } mcol /= (ld)n; for (i = 0; i < n; i++) v += (LM(Eq, i, a_) - mcol) * (LM(Eq, i, a_) - mcol); ssq += s2; if (s2 > 1e-20L * e0 * e0 && v > 1e-20L * s2) only_constant = 0; }
            cls = only_constant && ssq > 1e-20L * e0 * e0; }
          cos0 = nipals_start_cos(Eq, &rho2);
          ldm_free(Eq);
        }
        vh_fail(c, cls ? "PCA|varexp-nonzero-beyond-rank|remaining-variance-only-in-constant-columns-of-uncentred-data" : "PCA|varexp-nonzero-beyond-rank", "varexp[%zu]=%g beyond rank %zu (component %zu inside the rank is null; start cosine %.3g, eigenvalue ratio %.3g)", k, ve, rk, q, cos0, rho2);
        break;
      }
    }
    ldm_free(E);
  }
  DelPCAModel(&m);
out:
  DelMatrix(&mx); ldm_free(X); ldm_free(T);
}

/* ------------------------------------------------------------------ PLS */
static void case_pls(vh_ctx *c)
{
  size_t n = (size_t)vh_int(c, 3, 12), p = (size_t)vh_int(c, 1, 6), ny = (size_t)vh_int(c, 1, 3), mn = n < p ? n : p, r = (size_t)vh_int(c, 0, (long)mn), i, j, k, nlv, rk;
  int kind, xs = (int)vh_int(c, -1, 5), ys = (int)vh_int(c, -1, 5), ykind = (int)vh_int(c, 0, 3), extreme = 0;
  double pert;
  ldm *X = degenerate(c, n, p, r, &kind, &pert), *T;
  matrix *mx = matrix_of_ldm(X), *my;
  PLSMODEL *m;
  static const char *yk[] = { "yconst", "ytwovalued", "ylinear", "yinteger", "yorthogonal-dominant" };
  /* two-level factorial design with a dominant response that is EXACTLY orthogonal to every x variable and to the constant
     (an interaction term), placed at a random response index, next to a response that does depend on X: the start column of
     NIPALS carries no covariance with X although the block does */
  if (vh_coin(c, 0.12)) {
    size_t orthcol, infocol;
    ykind = 4; n = 8; p = 3; ny = (size_t)vh_int(c, 2, 3); r = 3; mn = 3;
    DelMatrix(&mx); ldm_free(X);
    X = ldm_new(n, p);
    for (i = 0; i < n; i++) for (j = 0; j < p; j++) LM(X, i, j) = ((i >> j) & 1) ? 1 : -1;
    mx = matrix_of_ldm(X); kind = 0; pert = 0;
    orthcol = (size_t)vh_int(c, 0, (long)ny - 1); infocol = (orthcol + 1 + (size_t)vh_int(c, 0, (long)ny - 2)) % ny;
    NewMatrix(&my, n, ny);
    for (j = 0; j < ny; j++) for (i = 0; i < n; i++) {
      double x1 = mx->data[i][0], x2 = mx->data[i][1], x3 = mx->data[i][2];
      my->data[i][j] = j == orthcol ? 10.0 + 5.0 * x1 * x2 : j == infocol ? 1.0 + x1 : 2.0 + x2 - x3;
    }
    if (xs > 0) xs = 0;          /* keep the design exactly orthogonal */
  } else
  NewMatrix(&my, n, ny);
  for (j = 0; j < ny && ykind != 4; j++) {
    double v0 = (double)vh_int(c, -3, 3), v1 = v0 + (double)vh_int(c, 1, 4);
    for (i = 0; i < n; i++) {
      if (ykind == 0) my->data[i][j] = v0;
      else if (ykind == 1) my->data[i][j] = (i * (j + 2)) % 3 == 0 ? v0 : v1;
      else if (ykind == 2) { double s = 0; size_t q; for (q = 0; q < p; q++) s += mx->data[i][q] * (double)((q + j) % 3 + 1); my->data[i][j] = s; }
      else my->data[i][j] = (double)vh_int(c, -4, 4);
    }
  }
  nlv = (size_t)vh_int(c, 1, (long)p + 2);
  rk = pre_rank(X, xs, &T);
  if (vh_coin(c, 0.06)) {   /* finite but extreme magnitudes: only termination is demanded */
    double f = vh_coin(c, 0.5) ? 1e160 : 1e-170;
    extreme = f > 1 ? 1 : -1;
    for (i = 0; i < n; i++) { for (j = 0; j < p; j++) mx->data[i][j] = (mx->data[i][j] + (double)((i + j) % 5 + 1)) * f; if (vh_coin(c, 0.5)) for (j = 0; j < ny; j++) my->data[i][j] = (my->data[i][j] + (double)(i % 3)) * f; }
  }
  snprintf(g_inclass, sizeof g_inclass, "%s-%s%s%s", kname(kind), yk[ykind], pert > 0 ? "+perturbed" : "", extreme > 0 ? "+overflow-magnitude" : extreme < 0 ? "+underflow-magnitude" : "");
  vh_class(c, "PLS-%s-xs%d-ys%d-%s", g_inclass, xs, ys, nlv > rk ? "nlv>rank" : "nlv<=rank");
  vh_desc(c, "PLS rows=%zu cols=%zu ny=%zu built_rank=%zu numerical_rank=%zu kind=%s ykind=%s perturb=%g xscaling=%d yscaling=%d nlv=%zu", n, p, ny, r, rk, kname(kind), yk[ykind], pert, xs, ys, nlv);
  {
    ldm *Y = ldm_of_matrix(my);
    int bad = scale_in_guard_band(X, xs) || scale_in_guard_band(Y, ys);
    ldm_free(Y);
    if (bad && !extreme) { vh_skip(c, "scaling value between the zero guards"); goto out; }
  }
  NewPLSModel(&m);
  arm("PLS", 0);
  PLS(mx, my, nlv, xs, ys, m, NULL);
  disarm();
  vh_obs("returned_PLS", 1);
  if (extreme) { vh_obs("returned_extreme_magnitude", 1); DelPLSModel(&m); goto out; }
  ldm_free(T);
  rk = model_rank(X, m->xcolaverage, m->xcolscaling, &T);
  {
    size_t got = m->xscores->col;
    if (got != (nlv > p ? p : nlv)) vh_fail(c, "PLS|component-count", "asked %zu (cols %zu) got %zu", nlv, p, got);
    /* x-scores of the defined latent variables are finite and mutually orthogonal */
    for (k = 0; k < got && k < rk; k++) {
      int fin = 1; ld tk = 0;
      for (i = 0; i < n; i++) { if (!isfinite(m->xscores->data[i][k])) fin = 0; tk += (ld)m->xscores->data[i][k] * m->xscores->data[i][k]; }
      /* a latent variable is defined only while Y still has something to explain: stop judging at the first null one */
      if (!fin) {
        if (ykind == 0) break;   /* constant response: no latent variable is defined at all */
        vh_fail(c, "PLS|non-finite-defined-component", "x-score column %zu of %zu (rank %zu) not finite", k, got, rk); break;
      }
      if (tk == 0) break;
      for (j = 0; j < k; j++) {
        ld d = 0, tj = 0;
        for (i = 0; i < n; i++) { d += (ld)m->xscores->data[i][k] * m->xscores->data[i][j]; tj += (ld)m->xscores->data[i][j] * m->xscores->data[i][j]; }
        /* rounding floor: the deflation leaves ~eps |t_j|^2 of t_j in the later scores, whatever their own size (a component at the edge of the
           numerical rank can be 1e-9 of the first one) */
        if (tj > 0 && fabsl(d) > 1e-6L * sqrtl(tk * tj) + 1e3L * 2.220446049250313e-16L * (tj > tk ? tj : tk)) vh_fail(c, "PLS|score-orthogonality-degenerate", "t_%zu . t_%zu = %.3Lg (norms %.3Lg %.3Lg)", k, j, d, sqrtl(tk), sqrtl(tj));
      }
    }
    for (k = 0; k < m->xvarexp->size; k++) {
      double ve = m->xvarexp->data[k];
      if (ve != ve) { vh_fail(c, k >= rk ? "PLS|xvarexp-NaN-beyond-rank" : (ykind == 0 ? "PLS|xvarexp-NaN-constant-response" : "PLS|xvarexp-NaN"), "xvarexp[%zu] is NaN (rank %zu)", k, rk); break; }
      if (k >= rk && fabs(ve) > 1e-6) { vh_fail(c, "PLS|xvarexp-nonzero-beyond-rank", "xvarexp[%zu]=%g beyond rank %zu", k, ve, rk); break; }
    }
    /* the first recalculated response block is always defined: finite */
    if (m->recalculated_y->col >= ny) {
      int fin = 1;
      for (i = 0; i < n; i++) for (j = 0; j < ny; j++) if (!isfinite(m->recalculated_y->data[i][j])) fin = 0;
      if (!fin && rk >= 1) vh_fail(c, "PLS|recalculated-y-non-finite", "recalculated y with 1 latent variable is not finite (rank %zu, %s)", rk, yk[ykind]);
    }
  }
  DelPLSModel(&m);
out:
  DelMatrix(&mx); DelMatrix(&my); ldm_free(X); ldm_free(T);
}

/* ------------------------------------------------------------------ CPCA */
static void case_cpca(vh_ctx *c)
{
  size_t nb = (size_t)vh_int(c, 2, 4), n = (size_t)vh_int(c, 3, 10), b, i, j, npc, minw = 99;
  int scaling = (int)vh_int(c, 0, 5), anyconst = 0, bad = 0, ortho = 0;
  tensor *t;
  CPCAMODEL *m;
  initTensor(&t);
  /* orthogonal designs (third seeded wave): the blocks share the 7 mutually orthogonal, centred +-1 columns of the 2^3 factorial with its
     interactions, each with its own integer amplitude (distinct sums of squares, exact arithmetic).  Every principal direction is then one
     column, orthogonal to all the others: after it is removed the residual holds an exactly null column where the largest one was. */
  if (vh_coin(c, 0.12)) {
    static const int F[7][3] = { {1,0,0}, {0,1,0}, {0,0,1}, {1,1,0}, {1,0,1}, {0,1,1}, {1,1,1} };
    size_t perm[7], used = 0, col; int amp[7];
    vh_perm(c, perm, 7);
    for (i = 0; i < 7; i++) amp[i] = (int)(i + 1) * (vh_coin(c, 0.5) ? 1 : -1);
    n = 8; nb = (size_t)vh_int(c, 2, 3); scaling = vh_coin(c, 0.5) ? 0 : 1; ortho = 1;
    for (b = 0; b < nb; b++) {
      size_t w = b + 1 == nb ? 7 - used : (size_t)vh_int(c, 1, (long)(7 - used - (nb - b - 1)));
      matrix *mb; NewMatrix(&mb, n, w);
      for (col = 0; col < w; col++, used++) for (i = 0; i < n; i++) {
        int bits[3] = { (int)(i & 1), (int)((i >> 1) & 1), (int)((i >> 2) & 1) }, sgn = 1, q;
        for (q = 0; q < 3; q++) if (F[perm[used]][q]) sgn *= bits[q] ? 1 : -1;
        mb->data[i][col] = (double)(sgn * amp[perm[used]]);
      }
      TensorAppendMatrix(t, mb);
      if (w < minw) minw = w;
      DelMatrix(&mb);
    }
    vh_obs("cpca_orthogonal_design_cases", 1);
  }
  else for (b = 0; b < nb; b++) {
    size_t w = (size_t)vh_int(c, 1, 5), r = (size_t)vh_int(c, 0, (long)(w < n ? w : n));
    int kind; double pert;
    ldm *X = degenerate(c, n, w, r, &kind, &pert);
    matrix *mb = matrix_of_ldm(X);
    if (kind == 3 || r == 0) anyconst = 1;
    if (scale_in_guard_band(X, scaling)) bad = 1;
    TensorAppendMatrix(t, mb);
    if (w < minw) minw = w;
    DelMatrix(&mb); ldm_free(X);
  }
  npc = (size_t)vh_int(c, 1, (long)minw + 2);
  snprintf(g_inclass, sizeof g_inclass, "%s", ortho ? "orthogonal-design" : anyconst ? "constant-block" : "lowrank-blocks");
  vh_class(c, "CPCA-%s-sc%d-nb%zu-%s", g_inclass, scaling, nb, npc > minw ? "npc>width" : "npc<=width");
  vh_desc(c, "CPCA blocks=%zu rows=%zu minwidth=%zu scaling=%d npc=%zu constant_block=%d", nb, n, minw, scaling, npc, anyconst);
  if (bad) { vh_skip(c, "scaling value between the zero guards"); DelTensor(&t); return; }
  NewCPCAModel(&m);
  arm("CPCA", 0);
  CPCA(t, scaling, npc, m);
  disarm();
  vh_obs("returned_CPCA", 1);
  {
    /* the matrix CPCA decomposes: blocks preprocessed with the stored statistics, divided by sqrt(width), concatenated */
    size_t wtot = 0, off = 0, rz, k;
    ldm *Z;
    for (b = 0; b < nb; b++) wtot += t->m[b]->col;
    Z = ldm_new(n, wtot);
    for (b = 0; b < nb; b++) {
      dvector *avg = b < m->colaverage->size ? m->colaverage->d[b] : NULL, *scl = b < m->colscaling->size ? m->colscaling->d[b] : NULL;
      for (j = 0; j < t->m[b]->col; j++) {
        ld a = (avg && j < avg->size) ? (ld)avg->data[j] : 0, sc = (scl && j < scl->size) ? (ld)scl->data[j] : 1;
        for (i = 0; i < n; i++) LM(Z, i, off + j) = (fabsl(sc) < 1e-3L) ? 0 : ((ld)(double)(t->m[b]->data[i][j] - (double)a)) / sc / sqrtl((ld)t->m[b]->col);
      }
      off += t->m[b]->col;
    }
    rz = or_rank(Z, 1e-9L);
    ldm_free(Z);
    vh_desc(c, " numerical_rank_of_concatenation=%zu", rz);
    for (k = 0; k < m->total_expvar->size; k++) {
      double ve = m->total_expvar->data[k];
      if (ve != ve) { vh_fail(c, k < rz ? "CPCA|total-expvar-NaN-defined-component" : "CPCA|total-expvar-NaN-beyond-rank", "total_expvar[%zu] is NaN (rank of the concatenation %zu, constant block %d)", k, rz, anyconst); break; }
    }
    /* every component up to the numerical rank exists: it has an explained-variance entry and a super score that is not null
       (second build session; the exhaustion test of the library is exact, so a component above 1e-9 of the data scale is never dropped) */
    {
      size_t want = npc < rz ? npc : rz, have = 0;
      if (want > minw) want = minw;          /* CPCA extracts at most as many components as its narrowest block has variables */
      for (k = 0; k < m->super_scores->col && k < m->total_expvar->size; k++) { ld tt = 0; for (i = 0; i < n; i++) tt += (ld)m->super_scores->data[i][k] * m->super_scores->data[i][k]; if (tt > 0) have++; else break; }
      vh_obs("cpca_defined_components_expected", (double)want); vh_obs("cpca_defined_components_found", (double)(have < want ? have : want));
      if (have < want) vh_fail(c, anyconst ? "CPCA|defined-component-missing|constant-block" : "CPCA|defined-component-missing", "%zu components requested, numerical rank of the scaled concatenation %zu, but only %zu non-null components returned (total_expvar has %zu entries)", npc, rz, have, m->total_expvar->size);
    }
    for (k = 0; k < rz && k < m->super_scores->col && k < m->total_expvar->size; k++) {
      int fin = 1; ld tt = 0;
      for (i = 0; i < n; i++) { if (!isfinite(m->super_scores->data[i][k])) fin = 0; tt += (ld)m->super_scores->data[i][k] * m->super_scores->data[i][k]; }
      if (!fin) { vh_fail(c, anyconst ? "CPCA|non-finite-defined-component|constant-block" : "CPCA|non-finite-defined-component", "super score %zu is not finite although the concatenation has rank %zu", k, rz); break; }
    }
    for (k = 0; k < m->block_expvar->size; k++) for (b = 0; b < m->block_expvar->d[k]->size; b++) {
      double v = m->block_expvar->d[k]->data[b];
      if (v != v) { vh_fail(c, "CPCA|block-expvar-NaN", "block_expvar[%zu][%zu] is NaN", k, b); k = m->block_expvar->size; break; }
    }
  }
  DelCPCAModel(&m);
  DelTensor(&t);
}

/* ------------------------------------------------------------------ k-means */
static void case_kmeans(vh_ctx *c)
{
  size_t n = (size_t)vh_int(c, 2, 14), p = (size_t)vh_int(c, 1, 3), nd = (size_t)vh_int(c, 1, 3), k = (size_t)vh_int(c, 1, 5), i, j;
  int init = (int)vh_int(c, 0, 3), direct = vh_coin(c, 0.3), nth = (int)vh_int(c, 1, 3), over = 0;
  matrix *mx, *cent;
  uivector *lab;
  double proto[3][3];
  /* more clusters than points (the analogue of more components than the rank): 10 % of the cases ask for n+1 or n+2 clusters */
  if (vh_coin(c, 0.1)) { n = (size_t)vh_int(c, 1, 5); k = n + (size_t)vh_int(c, 1, 2); over = 1; }
  else if (k > n) k = n;
  for (i = 0; i < 3; i++) for (j = 0; j < 3; j++) proto[i][j] = (double)vh_int(c, -3, 3);
  NewMatrix(&mx, n, p);
  for (i = 0; i < n; i++) for (j = 0; j < p; j++) mx->data[i][j] = proto[i % nd][j];     /* nd distinct points, rest duplicates */
  snprintf(g_inclass, sizeof g_inclass, "%s", over ? "more-clusters-than-points" : nd == 1 ? "identical-points" : k > nd ? "fewer-distinct-than-clusters" : "duplicates");
  vh_class(c, "%s-%s-init%d-th%d", direct ? "KMeansppCenters" : "KMeans", g_inclass, init, nth);
  vh_desc(c, "%s points=%zu dims=%zu distinct<=%zu clusters=%zu initializer=%d threads=%d", direct ? "KMeansppCenters" : "KMeans", n, p, nd, k, init, nth);
  srand_((uint32_t)(c->idx + 7));
  if (direct) {
    uivector *sel; initUIVector(&sel);
    arm("KMeansppCenters", 2000L * (long)(n + 1) * (long)(k + 1));
    KMeansppCenters(mx, k, sel, nth);
    disarm();
    vh_obs("returned_KMeansppCenters", 1);
    if (over ? sel->size > k : sel->size != k) vh_fail(c, "KMeansppCenters|count", "asked %zu got %zu (%zu points)", k, sel->size, n);
    if (over) vh_obs("kmeans_more_clusters_than_points_returned", 1);
    for (i = 0; i < sel->size; i++) if (sel->data[i] >= n) vh_fail(c, "KMeansppCenters|index-range", "index %zu of %zu", sel->data[i], n);
    DelUIVector(&sel);
  } else {
    initUIVector(&lab); initMatrix(&cent);
    arm("KMeans", 2000L * (long)(n + 1) * (long)(k + 1) + 100000);
    KMeans(mx, k, init, lab, cent, (size_t)nth);
    disarm();
    vh_obs("returned_KMeans", 1);
    if (over) vh_obs("kmeans_more_clusters_than_points_returned", 1);
    if (lab->size != n) vh_fail(c, "KMeans|label-count", "%zu labels for %zu objects", lab->size, n);
    for (i = 0; i < lab->size; i++) if (lab->data[i] >= k) { vh_fail(c, "KMeans|label-range", "label %zu >= %zu", lab->data[i], k); break; }
    DelUIVector(&lab); DelMatrix(&cent);
  }
  DelMatrix(&mx);
}

/* ------------------------------------------------------------------ simplex */
static int g_objkind;
static double objective(dvector *x)
{
  size_t i; double s = 0;
  if (++g_obj_evals > g_obj_ceiling) fail_hang("objective-evaluation-ceiling", "more than %ld objective evaluations (last %g)", g_obj_ceiling, 0.0);
  switch (g_objkind) {
    case 0: return 3.0;                                              /* constant */
    case 1: for (i = 0; i < x->size; i++) s += x->data[i]; return s;  /* linear, unbounded below */
    case 2: return x->data[0] * x->data[0];                          /* flat in all but one direction */
    case 3: for (i = 0; i < x->size; i++) s += fabs(x->data[i]); return floor(s);   /* piecewise constant */
    default: for (i = 0; i < x->size; i++) s += x->data[i] * x->data[i]; return s;
  }
}
static void case_simplex(vh_ctx *c)
{
  size_t d = (size_t)vh_int(c, 1, 5), iter = (size_t)vh_int(c, 0, 400), i;
  dvector *x0, *step, *best;
  int zerostep = vh_coin(c, 0.3), nullstep = vh_coin(c, 0.2);
  double r;
  g_objkind = (int)vh_int(c, 0, 4);
  NewDVector(&x0, d); NewDVector(&step, d); initDVector(&best);
  for (i = 0; i < d; i++) { x0->data[i] = (double)vh_int(c, -3, 3); step->data[i] = zerostep ? 0.0 : ldexp(1.0, (int)vh_int(c, -4, 2)); }
  snprintf(g_inclass, sizeof g_inclass, "obj%d%s", g_objkind, zerostep ? "-zero-step" : "");
  vh_class(c, "NelderMead-%s-d%zu-%s", g_inclass, d, iter == 0 ? "iter0" : iter < 20 ? "iter<20" : "iter>=20");
  vh_desc(c, "NelderMeadSimplex dim=%zu objective_kind=%d iter=%zu zero_step=%d null_step_arg=%d", d, g_objkind, iter, zerostep, nullstep);
  g_obj_evals = 0; g_obj_ceiling = (long)(iter + 1) * (long)(d + 3) + (long)d + 1;
  arm("NelderMeadSimplex", 0);
  r = NelderMeadSimplex(objective, x0, nullstep ? NULL : step, 1e-12, iter, best);
  disarm();
  vh_obs("returned_NelderMeadSimplex", 1);
  vh_max("max_objective_evaluations_over_ceiling", (double)g_obj_evals / (double)g_obj_ceiling);
  if (best->size != d) vh_fail(c, "NelderMeadSimplex|best-size", "best has %zu entries for dimension %zu", best->size, d);
  if (r != r) vh_fail(c, "NelderMeadSimplex|NaN-result", "returned NaN on a finite objective");
  DelDVector(&x0); DelDVector(&step); DelDVector(&best);
}

/* ------------------------------------------------------------------ MLR-based validation on rank-deficient X */
static void case_mlrcv(vh_ctx *c)
{
  size_t n = (size_t)vh_int(c, 5, 12), p = (size_t)vh_int(c, 1, 4), r = (size_t)vh_int(c, 0, (long)p), i;
  int kind, which = (int)vh_int(c, 0, 1); double pert;
  ldm *X = degenerate(c, n, p, r, &kind, &pert);
  matrix *mx = matrix_of_ldm(X), *my, *pred, *res;
  MODELINPUT in = initModelInput();
  NewMatrix(&my, n, 1);
  for (i = 0; i < n; i++) my->data[i][0] = (double)vh_int(c, -3, 3);
  in.mx = mx; in.my = my; in.nlv = 0; in.xautoscaling = 0; in.yautoscaling = 0;
  initMatrix(&pred); initMatrix(&res);
  snprintf(g_inclass, sizeof g_inclass, "%s", kname(kind));
  vh_class(c, "MLR-%s-%s-r%s", which ? "Bootstrap" : "LOO", g_inclass, r < p ? "deficient" : "full");
  vh_desc(c, "MLR validation %s rows=%zu cols=%zu built_rank=%zu kind=%s", which ? "BootstrapRandomGroupsCV(groups=3,iter=4)" : "LeaveOneOut", n, p, r, kname(kind));
  arm(which ? "BootstrapRandomGroupsCV-MLR" : "LeaveOneOut-MLR", 200000);
  if (which) BootstrapRandomGroupsCV(&in, 3, 4, _MLR_, pred, res, 2, NULL, 0);
  else LeaveOneOut(&in, _MLR_, pred, res, 2, NULL, 0);
  disarm();
  vh_obs("returned_MLR_validation", 1);
  if (pred->row != n) vh_fail(c, "MLR-validation|prediction-rows", "%zu rows for %zu objects", pred->row, n);
  DelMatrix(&pred); DelMatrix(&res); DelMatrix(&mx); DelMatrix(&my); ldm_free(X);
}

static void run_case(vh_ctx *c)
{
  switch (c->idx % 12) {
    case 0: case 1: case 2: case 3: case_pca(c); break;
    case 4: case 5: case 6: case_pls(c); break;
    case 7: case_cpca(c); break;
    case 8: case 9: case_kmeans(c); break;
    case 10: case_simplex(c); break;
    default: case_mlrcv(c); break;
  }
}

const vh_driver VH_DRIVER = { "C18", ncases, run_case, NULL, 300 };
