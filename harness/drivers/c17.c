/* c17.c - C17: object selection (MDC, MaxDis, MaxDis_Fast, KMeansppCenters) and k-means return valid,
 * optimal-by-construction results.
 *
 * One case = one data set (3..80 objects x 1..6 variables, continuous draws: blob / mixture / box, scale 0.1..100,
 * optional offset, optionally translated so that one object sits at the origin), one metric (0 Euclidean,
 * 1 Manhattan, 2 cosine), one selection size 1..objects, one cluster count 1..min(6,objects), one initialiser
 * (0 random, 1 k-means++, 2 MDC, 3 MaxDis), a generator seed, thread counts 1..8.
 *
 * Oracle (long double, from the definitions):
 *  - every selection: exactly the requested number of distinct indices < objects;
 *  - MaxDis and MaxDis_Fast: element 0 is the arg-max of the Euclidean distance to the centroid, element k the
 *    arg-max over the objects not yet chosen of the minimum of the metric to the chosen ones (the metric is
 *    recomputed by or_dist; a choice within 1e-12 of the optimum is accepted; the replay follows the library's own
 *    choices, so one wrong step is reported once); steps whose arg-max margin is below 1e-9 are not judged (the case
 *    is counted as skipped); the two implementations agree element-wise;
 *  - KMeans: labels < k; every non-empty cluster's centroid is the mean of its members (1e-12 of the data
 *    magnitude); every object is within 2*sqrt(p)*1e-3 (the documented stop rule compares successive centroids at
 *    1e-3 per coordinate) of being assigned to a nearest centroid - if not, the driver's own Lloyd iteration from
 *    the same initial centroids decides between "more than 100 iterations genuinely needed" (inconclusive) and a
 *    violation; labels and centroids are identical for every thread count and with or without a centroid output. */
#include "drv_util.h"

static long ncases(int tier) { return vh_is_tsan() ? (tier ? 1500 : 120) : (tier ? 60000 : 3000); }

static const int OR_METRIC[3] = { 0, 2, 3 };      /* library selection metric code -> or_dist code */
static const char *MN[3] = { "euclidean", "manhattan", "cosine" };
static const char *IN[4] = { "random", "kmeans++", "MDC", "MaxDis" };

/* ---- RNG-call ceiling (H2): a KMeansppCenters that cannot make progress becomes a verdict, not a hang ---- */
static long g_rng_calls, g_rng_ceiling;
static void rng_guard(int fn, uint32_t s)
{
  (void)s;
  if (fn == 0) return;
  if (g_rng_ceiling > 0 && ++g_rng_calls > g_rng_ceiling) {
    libsci_verif_rng_hook = NULL;
    vh_fail_now(vh_current(), "KMeansppCenters|no-progress-after-rng-ceiling",
                "more than %ld generator calls inside one call on distinct points", g_rng_ceiling);
  }
}
static void guard_on(size_t n) { g_rng_calls = 0; g_rng_ceiling = 200L * (long)(n + 2) * (long)(n + 2) + 20000; libsci_verif_rng_hook = rng_guard; }
static void guard_off(void) { libsci_verif_rng_hook = NULL; }

static int uiv_equal(uivector *a, uivector *b) { return a->size == b->size && (a->size == 0 || memcmp(a->data, b->data, sizeof(size_t) * a->size) == 0); }

/* requested number of distinct in-range indices */
static int check_valid(vh_ctx *c, const char *fn, uivector *sel, size_t want, size_t n)
{
  char key[128]; size_t i; int ok = 1;
  unsigned char *seen = calloc(n + 1, 1);
  if (sel->size != want) { snprintf(key, sizeof key, "%s|selection-count", fn); vh_fail(c, key, "requested %zu of %zu objects, got %zu", want, n, sel->size); ok = 0; }
  for (i = 0; i < sel->size; i++) {
    if (sel->data[i] >= n) { snprintf(key, sizeof key, "%s|index-out-of-range", fn); vh_fail(c, key, "selection %zu is %zu for %zu objects", i, sel->data[i], n); ok = 0; break; }
    if (seen[sel->data[i]]) { snprintf(key, sizeof key, "%s|duplicate-selection", fn); vh_fail(c, key, "selection %zu repeats object %zu (requested %zu of %zu)", i, sel->data[i], want, n); ok = 0; break; }
    seen[sel->data[i]] = 1;
  }
  free(seen);
  return ok;
}

/* replay of the max-min rule along the library's own choices; returns the first step whose arg-max margin is
   below 1e-9 (nothing is judged from there on), or sel->size when every step was judged */
static size_t check_maxmin(vh_ctx *c, const char *fn, const ldm *X, int metric, uivector *sel)
{
  size_t n = X->r, p = X->c, i, j, k, nsel = sel->size;
  ld *cen = calloc(p + 1, sizeof(ld)), *mind = calloc(n + 1, sizeof(ld)), best = -1, second = -1, scale = 0;
  unsigned char *chosen = calloc(n + 1, 1);
  char key[128];
  size_t judged = nsel;
  for (i = 0; i < n; i++) for (j = 0; j < p; j++) cen[j] += LM(X, i, j);
  for (j = 0; j < p; j++) cen[j] /= (ld)n;
  for (i = 0; i < n; i++) {
    ld d = or_dist(&LM(X, i, 0), cen, p, 0);
    mind[i] = d;
    if (d > best) { second = best; best = d; } else if (d > second) second = d;
  }
  if ((best - second) < 1e-9L * best) { judged = 0; goto out; }
  vh_max("max_first_choice_shortfall_rel", (double)((best - mind[sel->data[0]]) / best));
  if (!(mind[sel->data[0]] >= best - 1e-12L * best)) {
    snprintf(key, sizeof key, "%s|first-not-farthest-from-centroid", fn);
    vh_fail(c, key, "element 0 is object %zu at distance %.17Lg from the centroid, the farthest object is at %.17Lg", sel->data[0], mind[sel->data[0]], best);
  }
  chosen[sel->data[0]] = 1;
  for (i = 0; i < n; i++) { mind[i] = or_dist(&LM(X, i, 0), &LM(X, sel->data[0], 0), p, OR_METRIC[metric]); if (fabsl(mind[i]) > scale) scale = fabsl(mind[i]); }
  if (metric == 2) scale = 1;
  for (k = 1; k < nsel; k++) {
    size_t s = sel->data[k], arg = 0;
    best = second = -INFINITY;
    for (i = 0; i < n; i++) if (!chosen[i]) { if (mind[i] > best) { second = best; best = mind[i]; arg = i; } else if (mind[i] > second) second = mind[i]; }
    if (second != -INFINITY && (best - second) < 1e-9L * scale) { judged = k; goto out; }
    vh_max("max_maxmin_shortfall_over_scale", (double)((best - mind[s]) / scale));
    if (!(mind[s] >= best - 1e-12L * scale)) {
      snprintf(key, sizeof key, "%s|not-max-min|%s", fn, MN[metric]);
      vh_fail(c, key, "element %zu is object %zu with min-distance %.17Lg to the %zu chosen ones; object %zu has %.17Lg", k, s, mind[s], k, arg, best);
    }
    chosen[s] = 1;
    for (i = 0; i < n; i++) { ld d = or_dist(&LM(X, i, 0), &LM(X, s, 0), p, OR_METRIC[metric]); if (d < mind[i]) mind[i] = d; }
    vh_obs("maxmin_steps_judged", 1);
  }
out:
  free(cen); free(mind); free(chosen);
  return judged;
}

/* ---- k-means ---- */
static ld eucl(const double *x, const double *y, size_t p) { ld s = 0; size_t j; for (j = 0; j < p; j++) s += ((ld)x[j] - y[j]) * ((ld)x[j] - y[j]); return sqrtl(s); }

/* the driver's own Lloyd iteration with the documented stop rule; returns iterations used, -1 when a cluster ran empty */
static long lloyd(matrix *m, uivector *start, long cap)
{
  size_t n = m->row, p = m->col, k = start->size, i, j, g; long it = 0;
  ld *cen = calloc(k * p + 1, sizeof(ld)), *nw = calloc(k * p + 1, sizeof(ld)); size_t *cnt = calloc(k + 1, sizeof(size_t));
  for (g = 0; g < k; g++) for (j = 0; j < p; j++) cen[g * p + j] = m->data[start->data[g]][j];
  for (;;) {
    int same = 1;
    memset(nw, 0, sizeof(ld) * (k * p + 1)); memset(cnt, 0, sizeof(size_t) * (k + 1));
    for (i = 0; i < n; i++) {
      ld best = 0; size_t bg = 0;
      for (g = 0; g < k; g++) { ld s = 0; for (j = 0; j < p; j++) s += (m->data[i][j] - cen[g * p + j]) * (m->data[i][j] - cen[g * p + j]); if (g == 0 || s < best) { best = s; bg = g; } }
      cnt[bg]++; for (j = 0; j < p; j++) nw[bg * p + j] += m->data[i][j];
    }
    for (g = 0; g < k; g++) { if (!cnt[g]) { it = -1; goto out; } for (j = 0; j < p; j++) nw[g * p + j] /= (ld)cnt[g]; }
    it++;
    for (g = 0; g < k * p; g++) if (!(fabsl(nw[g] - cen[g]) < 1e-3L)) same = 0;
    memcpy(cen, nw, sizeof(ld) * k * p);
    if (same || it > cap) break;
  }
out:
  free(cen); free(nw); free(cnt);
  return it;
}

static void initial_centroids(matrix *m, size_t k, int init, uint32_t seed, uivector *start)
{
  size_t i;
  srand_(seed);
  if (init == 0) for (i = 0; i < k; i++) UIVectorAppend(start, (size_t)randInt(0, (int)m->row));
  else if (init == 1) KMeansppCenters(m, k, start, 1);
  else if (init == 2) MDC(m, k, 0, start, 1);
  else MaxDis(m, k, 0, start, 1);
}

static void check_kmeans(vh_ctx *c, matrix *m, size_t k, int init, uint32_t seed, uivector *lab, matrix *cen, double xmax)
{
  size_t n = m->row, p = m->col, i, j, g;
  char key[128];
  int bad = 0;
  if (lab->size != n) { vh_fail(c, "KMeans|labels-size", "%zu labels for %zu objects", lab->size, n); return; }
  if (cen->row != k || cen->col != p) { vh_fail(c, "KMeans|centroids-shape", "%zux%zu for %zu clusters x %zu variables", cen->row, cen->col, k, p); return; }
  for (i = 0; i < n; i++) if (lab->data[i] >= k) bad++;
  if (bad) { vh_fail(c, "KMeans|label-out-of-range", "%d of %zu labels are >= %zu clusters", bad, n, k); return; }
  if (!matrix_all_finite(cen)) { vh_fail(c, "KMeans|centroid-not-finite", "clusters=%zu initialiser=%s", k, IN[init]); return; }
  /* centroid = mean of its members */
  {
    ld *sum = calloc(k * p + 1, sizeof(ld)); size_t *cnt = calloc(k + 1, sizeof(size_t)), empty = 0; double worst = 0; int off = 0;
    for (i = 0; i < n; i++) { cnt[lab->data[i]]++; for (j = 0; j < p; j++) sum[lab->data[i] * p + j] += m->data[i][j]; }
    for (g = 0; g < k; g++) {
      if (!cnt[g]) { empty++; continue; }
      for (j = 0; j < p; j++) { double d = (double)fabsl(sum[g * p + j] / (ld)cnt[g] - cen->data[g][j]) / xmax; if (d > worst) worst = d; if (!(d <= 1e-12)) off++; }
    }
    vh_max("max_centroid_vs_member_mean_over_datamax", worst);
    if (off) { snprintf(key, sizeof key, "KMeans|centroid-not-mean-of-members|%s", IN[init]); vh_fail(c, key, "clusters=%zu seed=%u: %d centroid coordinates differ from the mean of the labelled objects (worst %.3g of max|x|=%.3g)", k, seed, off, worst, xmax); }
    if (empty) vh_obs("kmeans_results_with_empty_cluster", 1);
    vh_hist("kmeans_empty_clusters", (long)empty);
    free(sum); free(cnt);
  }
  /* label = a nearest centroid up to the stop tolerance */
  {
    double tol = 2.0 * sqrt((double)p) * 1e-3, worst = 0; int far = 0;
    for (i = 0; i < n; i++) {
      ld own = eucl(m->data[i], cen->data[lab->data[i]], p), mn = own;
      for (g = 0; g < k; g++) { ld d = eucl(m->data[i], cen->data[g], p); if (d < mn) mn = d; }
      if ((double)(own - mn) > worst) worst = (double)(own - mn);
      if (!((double)(own - mn) <= tol + 1e-12 * xmax)) far++;
    }
    vh_max("max_own_minus_nearest_over_stop_tolerance", worst / tol);
    if (far) {
      uivector *start; long it;
      initUIVector(&start);
      initial_centroids(m, k, init, seed, start);
      it = start->size == k ? lloyd(m, start, 100) : -2;
      DelUIVector(&start);
      if (it > 100) vh_inconclusive(c, "k-means genuinely needs more than 100 iterations");
      else if (it == -1) vh_inconclusive(c, "nearest-centroid clause off and the reference iteration ran into an empty cluster (random re-seeding cannot be replayed)");
      else { snprintf(key, sizeof key, "KMeans|label-not-nearest-centroid|%s", IN[init]); vh_fail(c, key, "clusters=%zu seed=%u: %d objects are farther from their centroid than from the nearest one by more than %.3g (worst %.3g); reference iteration converges in %ld rounds", k, seed, far, tol, worst, it); }
    }
  }
}

static void run_case(vh_ctx *c)
{
  int tsan = vh_is_tsan();
  int shape = (int)vh_int(c, 0, 3), kind = (int)vh_int(c, 0, 2), metric = (int)vh_int(c, 0, 2), init = (int)vh_int(c, 0, 3), place = (int)vh_int(c, 0, 11);
  size_t n = (size_t)(shape == 0 ? vh_int(c, 3, 8) : shape == 1 ? vh_int(c, 9, 30) : shape == 2 ? vh_int(c, 31, 80) : vh_int(c, 3, 80));
  size_t p = (size_t)vh_int(c, 1, 6), nsel, k, ts, tk, i, j, ncl = (size_t)vh_int(c, 2, 5);
  double sc = vh_logunif(c, -1, 2), xmax = 0;
  uint32_t seed = (uint32_t)vh_int(c, 1, 2000000000);
  matrix *m, *before; ldm *X; double *centers;
  uivector *smdc, *smd, *smf, *skm;
  size_t ja, jb;

  if (tsan && n > 30) n = (size_t)vh_int(c, 3, 30);
  if (metric == 2 && p == 1) p = (size_t)vh_int(c, 2, 6);       /* the cosine of 1-d vectors is +-1 for every pair: ties only */
  if (metric == 2 && place == 5) place = 0;                     /* the cosine to the zero vector is undefined */
  nsel = vh_coin(c, 0.2) ? n : vh_coin(c, 0.15) ? 1 : (size_t)vh_int(c, 1, (long)n);
  if (tsan && nsel > 6) nsel = (size_t)vh_int(c, 1, 6);
  k = (size_t)vh_int(c, 1, n < 6 ? (long)n : 6);
  ts = tsan ? (size_t)vh_int(c, 2, 8) : vh_coin(c, 0.5) ? 1 : (size_t)vh_int(c, 2, 8);
  tk = (size_t)vh_int(c, 2, 8);
  while (ts > 1 && ts * nsel > 160) ts--;                       /* thread start-up budget of the case */

  /* units (third seeded wave, side PRNG stream): a tenth of the cases in small units (x 1e-3 .. 1e-2), a tenth in large ones (x 1e6 .. 1e8);
     the selection rules and the cosine are scale free, absolute guards inside the library are not */
  { vh_ctx cc = *c; double u; cc.s[2] ^= 0x3C79AC492BA7B653ULL; (void)vh_u64(&cc); (void)vh_u64(&cc); u = vh_unif(&cc);
    if (u < 0.1) { sc *= pow(10.0, vh_range(&cc, -3.0, -2.0)); vh_obs("cases_in_small_units", 1); } else if (u < 0.2) { sc *= pow(10.0, vh_range(&cc, 6.0, 8.0)); vh_obs("cases_in_large_units", 1); } }
  NewMatrix(&m, n, p);
  centers = calloc(ncl * p + 1, sizeof(double));
  for (i = 0; i < ncl * p; i++) centers[i] = 4.0 * sc * vh_gauss(c);
  for (i = 0; i < n; i++) {
    size_t cl = (size_t)vh_int(c, 0, (long)ncl - 1);
    for (j = 0; j < p; j++)
      m->data[i][j] = kind == 0 ? sc * vh_gauss(c) : kind == 1 ? centers[cl * p + j] + sc * vh_gauss(c) : sc * vh_range(c, -1, 1);
  }
  free(centers);
  if (place <= 4) { for (j = 0; j < p; j++) { double off = sc * vh_range(c, -5, 5); for (i = 0; i < n; i++) m->data[i][j] += off; } }
  else if (place == 5) { size_t o = (size_t)vh_int(c, 0, (long)n - 1); dvector *r = getMatrixRow(m, o); for (i = 0; i < n; i++) for (j = 0; j < p; j++) m->data[i][j] -= r->data[j]; DelDVector(&r); }
  /* a common offset far larger than the spread (second build session, side PRNG stream): the documented k-means stop rule compares successive
     centroids with an absolute 1e-3, so where the data sits must not matter; not for the cosine (all objects would be nearly parallel) */
  { vh_ctx cc = *c; cc.s[3] ^= 0xC2B2AE3D27D4EB4FULL; (void)vh_u64(&cc); (void)vh_u64(&cc);
    if (metric != 2 && vh_coin(&cc, 0.12)) { for (j = 0; j < p; j++) { double off = (vh_coin(&cc, 0.5) ? 1 : -1) * sc * pow(10.0, vh_range(&cc, 2.5, 4.0)); for (i = 0; i < n; i++) m->data[i][j] += off; } vh_obs("cases_with_a_large_common_offset", 1); } }
  for (i = 0; i < n; i++) for (j = 0; j < p; j++) if (fabs(m->data[i][j]) > xmax) xmax = fabs(m->data[i][j]);
  before = matrix_dup(m);
  X = ldm_of_matrix(m);

  vh_class(c, "n%s-p%s-%s-sel%s-k%s-%s", n <= 8 ? "3-8" : n <= 30 ? "9-30" : "31-80", p == 1 ? "1" : p <= 3 ? "2-3" : "4-6", MN[metric],
           nsel == 1 ? "1" : nsel == n ? "all" : "some", k == 1 ? "1" : k <= 3 ? "2-3" : "4-6", IN[init]);
  vh_hist("placement", place <= 4 ? 0 : place == 5 ? 1 : 2);      /* 0 offset, 1 one object at the origin, 2 centred */
  vh_desc(c, "objects=%zu vars=%zu kind=%d scale=%.3g place=%d metric=%s select=%zu clusters=%zu init=%s seed=%u threads sel=%zu kmeans=%zu x00=%.17g",
          n, p, kind, sc, place, MN[metric], nsel, k, IN[init], seed, ts, tk, m->data[0][0]);

  /* ---- selections ---- */
  initUIVector(&smdc); initUIVector(&smd); initUIVector(&smf); initUIVector(&skm);
  MDC(m, nsel, metric, smdc, ts);
  MaxDis(m, nsel, metric, smd, ts);
  MaxDis_Fast(m, nsel, metric, smf, ts);
  guard_on(n); srand_(seed); KMeansppCenters(m, nsel, skm, (int)ts); guard_off();
  vh_obs("library_threads_started", (double)(ts * (nsel + 1 + (nsel - 1) + 1 + (nsel - 1))));
  if (matrix_maxdiff(m, before) != 0) vh_fail(c, "selection|input-modified", "a selection routine changed the data matrix");
  check_valid(c, "MDC", smdc, nsel, n);
  check_valid(c, "KMeansppCenters", skm, nsel, n);
  ja = check_valid(c, "MaxDis", smd, nsel, n) ? check_maxmin(c, "MaxDis", X, metric, smd) : 0;
  jb = check_valid(c, "MaxDis_Fast", smf, nsel, n) ? check_maxmin(c, "MaxDis_Fast", X, metric, smf) : 0;
  if (smd->size == nsel && smf->size == nsel) {
    size_t lim = ja < jb ? ja : jb;
    for (i = 0; i < lim; i++) if (smd->data[i] != smf->data[i]) {
      char key[96]; snprintf(key, sizeof key, "MaxDis_Fast|differs-from-MaxDis|%s", MN[metric]);
      vh_fail(c, key, "element %zu: MaxDis selects %zu, MaxDis_Fast selects %zu (select %zu of %zu)", i, smd->data[i], smf->data[i], nsel, n);
      break;
    }
    vh_obs("maxdis_pairs_compared", 1); vh_obs("maxdis_elements_compared", (double)lim);
    if (lim < nsel) { vh_obs("maxmin_sequences_cut_by_margin_test", 1); vh_skip(c, "arg-max margin below 1e-9"); }
  }
  vh_hist("selection_size_log2", (long)(nsel <= 1 ? 0 : nsel <= 2 ? 1 : nsel <= 4 ? 2 : nsel <= 8 ? 3 : nsel <= 16 ? 4 : nsel <= 32 ? 5 : 6));
  DelUIVector(&smdc); DelUIVector(&smd); DelUIVector(&smf); DelUIVector(&skm);

  /* ---- k-means ---- */
  {
    uivector *l1, *lt, *ln; matrix *c1, *ct;
    initUIVector(&l1); initUIVector(&lt); initUIVector(&ln); initMatrix(&c1); initMatrix(&ct);
    guard_on(n);
    srand_(seed); KMeans(m, k, init, l1, c1, tsan ? 2 : 1);
    srand_(seed); KMeans(m, k, init, lt, ct, tk);
    guard_off();
    if (matrix_maxdiff(m, before) != 0) vh_fail(c, "KMeans|input-modified", "KMeans changed the data matrix");
    check_kmeans(c, m, k, init, seed, l1, c1, xmax);
    if (l1->size == n && lt->size == n && c1->row == k && ct->row == k) {
      char key[96];
      if (!uiv_equal(l1, lt)) { snprintf(key, sizeof key, "KMeans|labels-thread-count-dependence|%s", IN[init]); vh_fail(c, key, "clusters=%zu seed=%u: labels with %zu threads differ from the 1-thread labels", k, seed, tk); }
      {
        double d = matrix_maxdiff(c1, ct);
        vh_max("max_centroid_thread_dependence_over_datamax", d / xmax);
        if (!(d <= 1e-13 * xmax)) { snprintf(key, sizeof key, "KMeans|centroids-thread-count-dependence|%s", IN[init]); vh_fail(c, key, "clusters=%zu seed=%u: centroids with %zu threads differ by %.3g", k, seed, tk, d); }
        vh_obs(matrix_bitequal(c1, ct) ? "kmeans_thread_counts_bit_identical" : "kmeans_thread_counts_not_bit_identical", 1);
      }
    }
    if ((c->idx % 5) == 0) {                 /* the documented call without a centroid output */
      guard_on(n); srand_(seed); KMeans(m, k, init, ln, NULL, tsan ? 2 : 1); guard_off();
      if (!uiv_equal(l1, ln)) { char key[96]; snprintf(key, sizeof key, "KMeans|labels-depend-on-centroid-output|%s", IN[init]); vh_fail(c, key, "clusters=%zu seed=%u", k, seed); }
      vh_obs("kmeans_calls_without_centroid_output", 1);
    }
    vh_obs("kmeans_runs_judged", 1);
    DelUIVector(&l1); DelUIVector(&lt); DelUIVector(&ln); DelMatrix(&c1); DelMatrix(&ct);
  }
  ldm_free(X); DelMatrix(&m); DelMatrix(&before);
  libsci_verif_nprocs = 1;
}

const vh_driver VH_DRIVER = { "C17", ncases, run_case, NULL, 120 };
