/* c11.c - C11: dense matrix/vector/tensor kernels compute their definitions for all shapes.
 *
 * Monitor: every kernel is run in the asan build on generated operands and compared with a
 * long-double evaluation of its textbook definition; the algebraic laws of the statement are
 * checked on the library's own results.
 *
 * Case index -> workload (a pure function of the index, values from the case PRNG):
 *   idx%12 in 0..4  product family.  e = idx/12*5 + idx%12 walks a fixed bijective shuffle of the
 *                   18^3 shape triples (m,k,n in 0..17) x 4 value scales {1e-6, 1, 1e6, mixed}:
 *                   23328 consecutive e values enumerate the whole grid once (any 5832 consecutive
 *                   e values enumerate every shape triple once).  thorough = 1500000 product cases =
 *                   64 passes; quick = 50000 = the whole grid twice.
 *   idx%12 in 5,6   matrix kernels (transpose, trace, norms, column/row statistics, covariance, sort)
 *   idx%12 == 7     vector kernels (incl. DVectorSDEV)
 *   idx%12 in 8,9   tensor kernels (1..4 slices)
 *   idx%12 == 10    matrix statistics: MatrixColDescStat (13 descriptive statistics per column),
 *                   PearsonCorrelMatrix, SpearmanCorrelMatrix (tie-free data), MatrixRowCenterScaling,
 *                   MatrixSVNScaling, MatrixGetMaxValueIndex / MatrixGetMinValueIndex
 *   idx%12 == 11    element-wise transforms (Matrix2ABSMatrix, Matrix2SquareMatrix, Matrix2SQRTMatrix,
 *                   Matrix2LogMatrix), GenIdentityMatrix, DVectorTransposedMatrixDivision
 *
 * Tolerance of every accumulated quantity: TOLC * eps * (sum of the absolute values of the terms of
 * the definition), i.e. the classical forward bound gamma_n * sum|terms| with n <= 289; deviations
 * are recorded in those units.  Single-operation results (outer products, transpose, min/max,
 * sums/differences, sort) are compared exactly or to 2 ulp.
 *
 * MatrixColAverage's documented quirk (a column SUM with |sum| < 1e-6 is reported as mean 0) is
 * accepted as an alternative value wherever the reference column sum is inside that window
 * (MatrixColAverage, TensorColAverage, MatrixCovariance); it is counted, not hidden.
 * No MISSING-coded values are fed to these kernels (that is C10's business; 99999999 is outside the
 * value domain 1e-6..1e6 of this property).
 *
 * Definitions the added kernels are held to (read from their code and comments):
 *   MatrixColDescStat   ds is (columns x 13): [0] mean, [1] median, [2] harmonic mean rows/sum(1/x), [3] population
 *                       variance, [4] sample variance, [5] population sd, [6] sample sd, [7] 100*sd_pop/mean,
 *                       [8] 100*sd_sample/mean, [9] min, [10] max, [11] number of zeros, [12] number of missing codes.
 *                       Sample statistics need >= 2 rows; the harmonic mean needs a column without zeros and the
 *                       coefficients of variation a non-zero mean (not judged elsewhere, also not where the sum they
 *                       divide by cancels to rounding level).  The zero counter uses |x| < 1e-6: columns holding values in
 *                       (0, 1e-6] (below the value domain) are counted, not judged, for that clause.
 *   PearsonCorrelMatrix header "pearson correlation matrix", comment: sum (x-mx)(y-my) / sqrt(sum (x-mx)^2 sum (y-my)^2);
 *                       symmetric, unit diagonal, entries in [-1,1]; pairs with a constant column are not judged; the
 *                       means come from MatrixColAverage, so its zero-snap is accepted as an alternative mean.
 *   SpearmanCorrelMatrix 1 - 6 sum d^2 / (n (n^2-1)) on the ranks of tie-free columns, >= 2 rows.
 *   MatrixRowCenterScaling  x / (row sum) (what its code and its unit test say), rows whose sum cancels are not judged.
 *   MatrixSVNScaling    (x - row mean) / row sample sd, >= 2 columns, rows without spread are not judged.
 *   MatrixGetMax/MinValueIndex  the cell addressed holds the maximum/minimum of the matrix (>= 1 row and column).
 *   Matrix2LogMatrix    log10(x + 1), fed x > -1;  Matrix2SQRTMatrix fed x >= 0.
 *   GenIdentityMatrix   on a freshly created (zero) square matrix.
 *   DVectorTransposedMatrixDivision  r m = v for square m with condition number <= 4 (the inversion itself is C12's).
 *   DVectorSDEV         no normalisation is documented: the population (1/n) or the sample (1/(n-1)) value is accepted. */
#include "drv_util.h"

#define EPS 2.220446049250313e-16L
#define TOLC 2048.0
#define NT 5832L
#define NE (4 * NT)
#define POISON 777.25

static long ncases(int tier) { return tier ? 3600000 : 240000; }

enum { MX_PROD, MX_PROD_PLAIN, MX_PROD_UNR, MX_LAW_T, MX_LAW_DIST, MX_MATVEC, MX_VECMAT, MX_OUTER, MX_TRACE, MX_NORM,
       MX_NORMALIZE, MX_COLAVG, MX_ROWAVG, MX_COLSD, MX_COLVAR, MX_COLRMS, MX_CENTER, MX_COV, MX_PSD, MX_VDOT, MX_VMOD,
       MX_VNORM, MX_VSUM, MX_VMEAN, MX_T_DVT, MX_T_TMD, MX_T_KRON, MX_T_TTV, MX_T_COLAVG, MX_T_COLSD, MX_T_CENTER,
       MX_DS_AVG, MX_DS_HARM, MX_DS_VAR, MX_DS_SD, MX_DS_CV, MX_PEARSON, MX_SPEARMAN, MX_ROWCS, MX_SVN, MX_EW_SQUARE, MX_EW_SQRT,
       MX_EW_LOG, MX_VTMDIV, MX_VSDEV, NMX };
static const char *MXNAME[NMX] = {
  "max_dev_MatrixDotProduct_eps_sumabs", "max_dev_MatrixDotProduct_plain_eps_sumabs", "max_dev_MatrixDotProduct_unrolled_eps_sumabs",
  "max_dev_law_transpose_eps_sumabs", "max_dev_law_distributive_eps_sumabs", "max_dev_MatrixDVectorDotProduct_eps_sumabs",
  "max_dev_DVectorMatrixDotProduct_eps_sumabs", "max_dev_outer_products_ulp", "max_dev_MatrixTrace_eps_sumabs",
  "max_dev_Matrixnorm_eps_rel", "max_dev_MatrixNorm_eps_rel", "max_dev_MatrixColAverage_eps_meanabs", "max_dev_MatrixRowAverage_eps_meanabs",
  "max_dev_MatrixColSDEV_eps_rel", "max_dev_MatrixColVar_eps_rel", "max_dev_MatrixColRMS_eps_rel", "max_dev_MeanCenteredMatrix_eps_colmax",
  "max_dev_MatrixCovariance_eps_sumabs", "max_neg_eigenvalue_covariance_eps_trace", "max_dev_DVectorDVectorDotProd_eps_sumabs",
  "max_dev_DvectorModule_eps_rel", "max_dev_DVectNorm_eps_rel", "max_dev_DVectorSumDiff_ulp", "max_dev_DVectorMean_eps_meanabs",
  "max_dev_DvectorTensorDotProduct_eps_sumabs", "max_dev_TensorMatrixDotProduct_eps_sumabs", "max_dev_KronekerProductVectorMatrix_ulp",
  "max_dev_TransposedTensorDVectorProduct_eps_sumabs", "max_dev_TensorColAverage_eps_meanabs", "max_dev_TensorColSDEV_eps_rel",
  "max_dev_MeanCenteredTensor_eps_colmax",
  "max_dev_MatrixColDescStat_mean_eps_meanabs", "max_dev_MatrixColDescStat_harmonic_eps_cond", "max_dev_MatrixColDescStat_variance_eps_rel",
  "max_dev_MatrixColDescStat_sd_eps_rel", "max_dev_MatrixColDescStat_cv_eps_cond", "max_dev_PearsonCorrelMatrix_eps_cond",
  "max_dev_SpearmanCorrelMatrix_eps", "max_dev_MatrixRowCenterScaling_eps_cond", "max_dev_MatrixSVNScaling_eps_cond",
  "max_dev_Matrix2SquareMatrix_eps_rel", "max_dev_Matrix2SQRTMatrix_eps_rel", "max_dev_Matrix2LogMatrix_eps_abs1",
  "max_dev_DVectorTransposedMatrixDivision_eps_cond_norm", "max_dev_DVectorSDEV_eps_rel" };
static double g_mx[NMX];

/* |got - ref| <= TOLC * eps * scale ; scale == 0 demands equality.  Records the deviation in units of eps*scale. */
static int near_(int which, double got, ld ref, ld scale)
{
  ld d;
  if (!isfinite(got)) return 0;
  d = fabsl((ld)got - ref);
  if (!(scale > 0)) return d == 0;
  d /= EPS * scale;
  if (d > TOLC) return 0;
  if ((double)d > g_mx[which]) g_mx[which] = (double)d;     /* deviations of rejected values are reported as violations */
  return 1;
}

static double gv(vh_ctx *c, int sc)
{
  double g;
  if (vh_coin(c, 0.04)) return 0.0;
  g = vh_gauss(c);
  switch (sc) {
    case 0: return 1e-6 * g;
    case 1: return g;
    case 2: return 1e6 * g;
    default: return (vh_coin(c, 0.5) ? -1.0 : 1.0) * vh_logunif(c, -6.0, 6.0);
  }
}
static matrix *rnd_matrix(vh_ctx *c, size_t r, size_t k, int sc)
{
  matrix *m; size_t i, j;
  NewMatrix(&m, r, k);
  for (i = 0; i < r; i++) for (j = 0; j < k; j++) m->data[i][j] = gv(c, sc);
  return m;
}
static dvector *rnd_dvector(vh_ctx *c, size_t n, int sc)
{
  dvector *v; size_t i;
  NewDVector(&v, n);
  for (i = 0; i < n; i++) v->data[i] = gv(c, sc);
  return v;
}
static matrix *poison_matrix(size_t r, size_t k)
{
  matrix *m; size_t i, j;
  NewMatrix(&m, r, k);
  for (i = 0; i < r; i++) for (j = 0; j < k; j++) m->data[i][j] = POISON;
  return m;
}
static dvector *dvec_dup(dvector *a)
{
  dvector *d; NewDVector(&d, a->size);
  if (a->size) memcpy(d->data, a->data, sizeof(double) * a->size);
  return d;
}
static const char *dimcls(size_t n) { return n == 0 ? "0" : n == 1 ? "1" : n <= 3 ? "2-3" : "4-17"; }
static const char *SCN[4] = { "1e-6", "1", "1e6", "mixed" };

/* ------------------------------------------------------------------------------------------ product family */
static void ref_product(matrix *A, matrix *B, ldm *ref, ldm *ab)
{
  size_t i, j, l;
  for (i = 0; i < A->row; i++) for (j = 0; j < B->col; j++) {
    ld s = 0, a = 0;
    for (l = 0; l < A->col; l++) { ld p = (ld)A->data[i][l] * (ld)B->data[l][j]; s += p; a += fabsl(p); }
    LM(ref, i, j) = s; LM(ab, i, j) = a;
  }
}
static void check_product(vh_ctx *c, const char *key, int which, matrix *R, ldm *ref, ldm *ab, size_t k)
{
  size_t i, j;
  if (R->row != ref->r || R->col != ref->c) { vh_fail(c, key, "result shape %zux%zu expected %zux%zu", R->row, R->col, ref->r, ref->c); return; }
  for (i = 0; i < ref->r; i++) for (j = 0; j < ref->c; j++)
    if (!near_(which, R->data[i][j], LM(ref, i, j), LM(ab, i, j))) {
      vh_fail(c, key, "r[%zu][%zu] = %.17g, definition gives %.17Lg (sum|terms| %.3Lg; %zux%zu times %zux%zu)", i, j, R->data[i][j],
              LM(ref, i, j), LM(ab, i, j), ref->r, k, k, ref->c);
      return;
    }
}

static void case_product(vh_ctx *c, long e)
{
  long t = ((e % NE) * 10007L) % NE, tri = t % NT;
  int sc = (int)(t / NT), variant;
  size_t m = (size_t)(tri / 324), k = (size_t)((tri / 18) % 18), n = (size_t)(tri % 18), i, j, l, orow, ocol;
  matrix *A, *B, *C, *A0, *B0, *R, *Rp, *At, *Bt, *R2, *S, *R3, *R4, *M, *O;
  dvector *v, *u, *p, *q, *a, *b, *v0, *a0, *b0;
  ldm *ref, *ab;
  int unrolled = (int)k - 3 > 0;

  vh_class(c, "prod-%s%zu-m%s-n%s-s%s", unrolled ? "unrolled-kmod" : "plain-k", unrolled ? k % 4 : k, dimcls(m), dimcls(n), SCN[sc]);
  vh_desc(c, "product family: A %zux%zu, B %zux%zu, value scale %s, enumeration index %ld (triple %ld)", m, k, k, n, SCN[sc], e % NE, tri);
  A = rnd_matrix(c, m, k, sc); B = rnd_matrix(c, k, n, sc); C = rnd_matrix(c, k, n, sc);
  v = rnd_dvector(c, k, sc); u = rnd_dvector(c, k, sc); a = rnd_dvector(c, m, sc); b = rnd_dvector(c, n, sc);
  variant = (int)vh_int(c, 0, 4);
  if (m && k && n) vh_desc(c, " a00=%.17g b00=%.17g", A->data[0][0], B->data[0][0]);
  A0 = matrix_dup(A); B0 = matrix_dup(B);
  ref = ldm_new(m, n); ab = ldm_new(m, n);
  ref_product(A, B, ref, ab);

  /* 1. the dispatcher and both loops */
  NewMatrix(&R, m, n);
  MatrixDotProduct(A, B, R);
  check_product(c, unrolled ? "MatrixDotProduct|value|inner>=4" : "MatrixDotProduct|value|inner<=3", MX_PROD, R, ref, ab, k);
  NewMatrix(&Rp, m, n);
  MatrixDotProduct_(A, B, Rp);
  check_product(c, "MatrixDotProduct_|value", MX_PROD_PLAIN, Rp, ref, ab, k);
  DelMatrix(&Rp);
  if (unrolled) {   /* the unrolled loop is only ever reached with an inner dimension >= 4 */
    NewMatrix(&Rp, m, n);
    MatrixDotProduct_LOOP_UNROLLING(A, B, Rp);
    check_product(c, "MatrixDotProduct_LOOP_UNROLLING|value", MX_PROD_UNR, Rp, ref, ab, k);
    DelMatrix(&Rp);
    vh_obs("product_dispatch_unrolled", 1);
  } else vh_obs("product_dispatch_plain", 1);
  vh_hist("product_inner_dimension", (long)k);
  if (!matrix_bitequal(A, A0) || !matrix_bitequal(B, B0)) vh_fail(c, "MatrixDotProduct|input-modified", "an operand changed");

  /* 2. (AB)^T = B^T A^T on the library's own results */
  NewMatrix(&At, k, m); NewMatrix(&Bt, n, k); NewMatrix(&R2, n, m);
  MatrixTranspose(A, At); MatrixTranspose(B, Bt);
  MatrixDotProduct(Bt, At, R2);
  if (R->row == m && R->col == n) {
    for (i = 0; i < m; i++) for (j = 0; j < n; j++)
      if (!near_(MX_LAW_T, R2->data[j][i], (ld)R->data[i][j], 2 * LM(ab, i, j))) {
        vh_fail(c, "MatrixDotProduct|law-transpose", "(B'A')[%zu][%zu] = %.17g but (AB)[%zu][%zu] = %.17g (%zux%zux%zu)", j, i, R2->data[j][i], i, j, R->data[i][j], m, k, n);
        i = m; break;
      }
  }
  DelMatrix(&At); DelMatrix(&Bt); DelMatrix(&R2);

  /* 3. A(B+C) = AB + AC */
  NewMatrix(&S, k, n); NewMatrix(&R3, m, n); NewMatrix(&R4, m, n);
  for (l = 0; l < k; l++) for (j = 0; j < n; j++) S->data[l][j] = B->data[l][j] + C->data[l][j];
  MatrixDotProduct(A, S, R3); MatrixDotProduct(A, C, R4);
  if (R->row == m && R->col == n) {
    for (i = 0; i < m; i++) for (j = 0; j < n; j++) {
      ld sa = 0;
      for (l = 0; l < k; l++) sa += fabsl((ld)A->data[i][l]) * (fabsl((ld)B->data[l][j]) + fabsl((ld)C->data[l][j]));
      if (!near_(MX_LAW_DIST, R3->data[i][j], (ld)R->data[i][j] + (ld)R4->data[i][j], 3 * sa)) {
        vh_fail(c, "MatrixDotProduct|law-distributive", "A(B+C)[%zu][%zu] = %.17g but AB+AC = %.17Lg (%zux%zux%zu)", i, j, R3->data[i][j],
                (ld)R->data[i][j] + (ld)R4->data[i][j], m, k, n);
        i = m; break;
      }
    }
  }
  DelMatrix(&S); DelMatrix(&R3); DelMatrix(&R4);

  /* 4. matrix-vector and vector-matrix products */
  v0 = dvec_dup(v);
  NewDVector(&p, m);
  MatrixDVectorDotProduct(A, v, p);
  if (p->size != m) vh_fail(c, "MatrixDVectorDotProduct|shape", "result size %zu expected %zu", p->size, m);
  else for (i = 0; i < m; i++) {
    ld s = 0, sa = 0;
    for (l = 0; l < k; l++) { ld pr = (ld)A->data[i][l] * (ld)v->data[l]; s += pr; sa += fabsl(pr); }
    if (!near_(MX_MATVEC, p->data[i], s, sa)) { vh_fail(c, "MatrixDVectorDotProduct|value", "p[%zu] = %.17g, definition gives %.17Lg (%zux%zu)", i, p->data[i], s, m, k); break; }
  }
  NewDVector(&q, n);
  DVectorMatrixDotProduct(B, u, q);
  if (q->size != n) vh_fail(c, "DVectorMatrixDotProduct|shape", "result size %zu expected %zu", q->size, n);
  else for (j = 0; j < n; j++) {
    ld s = 0, sa = 0;
    for (l = 0; l < k; l++) { ld pr = (ld)u->data[l] * (ld)B->data[l][j]; s += pr; sa += fabsl(pr); }
    if (!near_(MX_VECMAT, q->data[j], s, sa)) { vh_fail(c, "DVectorMatrixDotProduct|value", "p[%zu] = %.17g, definition gives %.17Lg (%zux%zu)", j, q->data[j], s, k, n); break; }
  }
  if (dvector_maxdiff(v, v0) != 0 || !matrix_bitequal(A, A0) || !matrix_bitequal(B, B0)) vh_fail(c, "MatrixDVectorDotProduct|input-modified", "an operand changed");
  DelDVector(&v0);

  /* 5. outer products: a (m) x b (n).  The inner dimension plays no role here, so each (m, n, scale) is exercised once
     per pass of the enumeration (at k = (m+n) mod 18) instead of 18 times */
  if (k != (m + n) % 18) goto outer_done;
  a0 = dvec_dup(a); b0 = dvec_dup(b);
  M = poison_matrix(m, n);
  RowColOuterProduct(a, b, M);
  if (M->row != m || M->col != n) vh_fail(c, "RowColOuterProduct|shape", "%zux%zu expected %zux%zu", M->row, M->col, m, n);
  else for (i = 0; i < m; i++) for (j = 0; j < n; j++) {
    ld pr = (ld)a->data[i] * (ld)b->data[j];
    if (!near_(MX_OUTER, M->data[i][j], pr, 2 * fabsl(pr))) { vh_fail(c, "RowColOuterProduct|value", "m[%zu][%zu] = %.17g expected %.17Lg (%zu x %zu)", i, j, M->data[i][j], pr, m, n); i = m; break; }
  }
  DelMatrix(&M);
  /* output container of DVectorTrasposedDVectorDotProduct: empty / right shape / one dimension right / none right */
  orow = m; ocol = n;
  if (variant == 2 || variant == 4) ocol = (n > 0 && vh_coin(c, 0.5)) ? (size_t)vh_int(c, 0, (long)n - 1) : n + (size_t)vh_int(c, 1, 5);
  if (variant == 3 || variant == 4) orow = (m > 0 && vh_coin(c, 0.5)) ? (size_t)vh_int(c, 0, (long)m - 1) : m + (size_t)vh_int(c, 1, 5);
  if (variant == 0) initMatrix(&O); else O = poison_matrix(orow, ocol);
  DVectorTrasposedDVectorDotProduct(a, b, O);
  {
    static const char *VN[5] = { "outer_output_empty", "outer_output_exact_shape", "outer_output_rows_match_only", "outer_output_cols_match_only", "outer_output_no_dimension_matches" };
    vh_obs(VN[variant], 1);
    vh_obs(m > n ? "outer_v1_longer" : m < n ? "outer_v1_shorter" : "outer_equal_lengths", 1);
  }
  if (O->row != m || O->col != n) {
    if (m != 0 && n != 0) /* a product with an empty operand has no cells; its container shape is not observable */
      vh_fail(c, "DVectorTrasposedDVectorDotProduct|output-shape", "output %zux%zu (container was %s) expected %zux%zu", O->row, O->col,
              variant == 0 ? "empty" : variant == 1 ? "exact" : variant == 2 ? "rows-match" : variant == 3 ? "cols-match" : "no-match", m, n);
  } else for (i = 0; i < m; i++) for (j = 0; j < n; j++) {
    ld pr = (ld)a->data[i] * (ld)b->data[j];
    if (!near_(MX_OUTER, O->data[i][j], pr, 2 * fabsl(pr))) { vh_fail(c, "DVectorTrasposedDVectorDotProduct|value", "m[%zu][%zu] = %.17g expected %.17Lg (%zu x %zu)", i, j, O->data[i][j], pr, m, n); i = m; break; }
  }
  if (dvector_maxdiff(a, a0) != 0 || dvector_maxdiff(b, b0) != 0) vh_fail(c, "DVectorTrasposedDVectorDotProduct|input-modified", "an operand changed");
  DelMatrix(&O); DelDVector(&a0); DelDVector(&b0);
  vh_obs("outer_product_cases", 1);
  vh_obs("kernel_calls", 2);
outer_done:
  vh_obs("product_family_cases", 1);
  vh_obs("kernel_calls", unrolled ? 10 : 9);
  ldm_free(ref); ldm_free(ab);
  DelMatrix(&A); DelMatrix(&B); DelMatrix(&C); DelMatrix(&A0); DelMatrix(&B0); DelMatrix(&R);
  DelDVector(&v); DelDVector(&u); DelDVector(&p); DelDVector(&q); DelDVector(&a); DelDVector(&b);
}

/* ------------------------------------------------------------------------------------------ matrix kernels */
/* column j of a library matrix: reference mean, and the alternative value the documented zero-snap may report */
typedef struct { ld sum, sumabs, mean, sd, var, rms, mn, mx; int maysnap; } colref;
static void col_reference(matrix *m, size_t j, colref *o)
{
  size_t i, n = m->row;
  ld s = 0, sa = 0, s2 = 0, v = 0, lo = INFINITY, hi = -INFINITY;
  for (i = 0; i < n; i++) { ld x = m->data[i][j]; s += x; sa += fabsl(x); s2 += x * x; if (x < lo) lo = x; if (x > hi) hi = x; }
  o->sum = s; o->sumabs = sa; o->mean = n ? s / n : 0;
  for (i = 0; i < n; i++) { ld x = m->data[i][j]; v += (x - o->mean) * (x - o->mean); }
  o->var = n > 1 ? v / (n - 1) : 0; o->sd = sqrtl(o->var); o->rms = n ? sqrtl(s2 / n) : 0; o->mn = lo; o->mx = hi;
  o->maysnap = fabsl(s) < 1e-6L + 8 * EPS * sa;
}
/* a mean reported by MatrixColAverage: the definition, or 0 inside the documented |sum| < 1e-6 window */
static int mean_ok(int which, double got, const colref *r, size_t n, int *snapped)
{
  *snapped = 0;
  if (r->maysnap && got == 0 && r->mean != 0) { *snapped = 1; return 1; }   /* the documented alternative; not a rounding deviation */
  return near_(which, got, r->mean, r->sumabs / n);
}

static size_t g_w;
static int rowcmp(const void *a, const void *b)
{
  const double *x = *(double *const *)a, *y = *(double *const *)b; size_t i;
  for (i = 0; i < g_w; i++) { if (x[i] < y[i]) return -1; if (x[i] > y[i]) return 1; }
  return 0;
}
static void check_sort(vh_ctx *c, matrix *M, size_t col, int reverse)
{
  matrix *S = matrix_dup(M);
  size_t i, r = M->row, w = M->col;
  const char *fn = reverse ? "MatrixReverseSort" : "MatrixSort";
  char key[96];
  double **pa, **pb;
  if (reverse) MatrixReverseSort(S, col); else MatrixSort(S, col);
  if (S->row != r || S->col != w) { snprintf(key, sizeof key, "%s|shape", fn); vh_fail(c, key, "%zux%zu after sorting %zux%zu", S->row, S->col, r, w); DelMatrix(&S); return; }
  for (i = 1; i < r; i++) {
    double x = S->data[i - 1][col], y = S->data[i][col];
    if (reverse ? x < y : x > y) { snprintf(key, sizeof key, "%s|key-order", fn); vh_fail(c, key, "rows %zu,%zu: key %.17g then %.17g (column %zu of %zux%zu)", i - 1, i, x, y, col, r, w); break; }
  }
  pa = malloc(sizeof(double *) * (r + 1)); pb = malloc(sizeof(double *) * (r + 1));
  for (i = 0; i < r; i++) { pa[i] = M->data[i]; pb[i] = S->data[i]; }
  g_w = w;
  qsort(pa, r, sizeof *pa, rowcmp); qsort(pb, r, sizeof *pb, rowcmp);
  for (i = 0; i < r; i++) if (memcmp(pa[i], pb[i], sizeof(double) * w)) {
    snprintf(key, sizeof key, "%s|row-permutation", fn); vh_fail(c, key, "the sorted matrix is not a permutation of the rows (%zux%zu, key column %zu)", r, w, col); break;
  }
  free(pa); free(pb);
  DelMatrix(&S);
}

static void case_matrix(vh_ctx *c)
{
  int sc = (int)vh_int(c, 0, 3), snapped;
  size_t r = (size_t)vh_int(c, 0, 17), w = (size_t)vh_int(c, 0, 17), i, j, l, nsnap = 0;
  matrix *M = rnd_matrix(c, r, w, sc), *M0 = matrix_dup(M), *T, *T2, *Q, *NM, *MC, *CM;
  dvector *d;
  colref *cr = calloc(w + 1, sizeof *cr);
  size_t sq;

  vh_class(c, "mat-r%s-c%s-s%s", dimcls(r), dimcls(w), SCN[sc]);
  vh_desc(c, "matrix kernels: %zux%zu, value scale %s", r, w, SCN[sc]);
  if (r && w) vh_desc(c, " m00=%.17g", M->data[0][0]);
  for (j = 0; j < w; j++) col_reference(M, j, &cr[j]);

  /* transpose and involution */
  T = poison_matrix(w, r);
  MatrixTranspose(M, T);
  if (T->row != w || T->col != r) vh_fail(c, "MatrixTranspose|shape", "%zux%zu", T->row, T->col);
  else {
    for (i = 0; i < r; i++) for (j = 0; j < w; j++) if (memcmp(&T->data[j][i], &M->data[i][j], sizeof(double))) {
      vh_fail(c, "MatrixTranspose|value", "t[%zu][%zu] = %.17g but m[%zu][%zu] = %.17g (%zux%zu)", j, i, T->data[j][i], i, j, M->data[i][j], r, w); i = r; break;
    }
    T2 = poison_matrix(r, w);
    MatrixTranspose(T, T2);
    if (!matrix_bitequal(T2, M)) vh_fail(c, "MatrixTranspose|law-involution", "transposing twice does not return the %zux%zu matrix", r, w);
    DelMatrix(&T2);
  }
  DelMatrix(&T);

  /* trace of a square matrix */
  sq = (size_t)vh_int(c, 0, 17);
  Q = rnd_matrix(c, sq, sq, sc);
  { ld s = 0, sa = 0; double tr = MatrixTrace(Q);
    for (i = 0; i < sq; i++) { s += Q->data[i][i]; sa += fabsl((ld)Q->data[i][i]); }
    if (!near_(MX_TRACE, tr, s, sa)) vh_fail(c, "MatrixTrace|value", "trace %.17g expected %.17Lg (n=%zu)", tr, s, sq); }
  DelMatrix(&Q);

  /* Frobenius norm and normalisation */
  { ld s2 = 0, nr; double got = Matrixnorm(M);
    for (i = 0; i < r; i++) for (j = 0; j < w; j++) s2 += (ld)M->data[i][j] * M->data[i][j];
    nr = sqrtl(s2);
    if (!near_(MX_NORM, got, nr, nr)) vh_fail(c, "Matrixnorm|value", "norm %.17g expected %.17Lg (%zux%zu)", got, nr, r, w);
    if (nr > 0) {
      NM = poison_matrix(r, w);
      MatrixNorm(M, NM);
      for (i = 0; i < r; i++) for (j = 0; j < w; j++) {
        ld e = (ld)M->data[i][j] / nr;
        if (!near_(MX_NORMALIZE, NM->data[i][j], e, fabsl(e))) { vh_fail(c, "MatrixNorm|value", "nm[%zu][%zu] = %.17g expected %.17Lg", i, j, NM->data[i][j], e); i = r; break; }
      }
      DelMatrix(&NM);
    } }

  /* column statistics */
  if (r >= 1) {
    initDVector(&d); MatrixColAverage(M, d);
    if (d->size != w) vh_fail(c, "MatrixColAverage|shape", "%zu values for %zu columns", d->size, w);
    else for (j = 0; j < w; j++) {
      if (!mean_ok(MX_COLAVG, d->data[j], &cr[j], r, &snapped)) { vh_fail(c, "MatrixColAverage|value", "column %zu of %zux%zu: %.17g expected %.17Lg (column sum %.6Lg)", j, r, w, d->data[j], cr[j].mean, cr[j].sum); break; }
      nsnap += (size_t)snapped;
    }
    DelDVector(&d);
    initDVector(&d); MatrixColRMS(M, d);
    if (d->size != w) vh_fail(c, "MatrixColRMS|shape", "%zu values for %zu columns", d->size, w);
    else for (j = 0; j < w; j++) if (!near_(MX_COLRMS, d->data[j], cr[j].rms, cr[j].rms)) { vh_fail(c, "MatrixColRMS|value", "column %zu of %zux%zu: %.17g expected %.17Lg", j, r, w, d->data[j], cr[j].rms); break; }
    DelDVector(&d);
    for (j = 0; j < w; j++) {
      double mn = POISON, mx = POISON;
      MatrixColumnMinMax(M, j, &mn, &mx);
      if ((ld)mn != cr[j].mn || (ld)mx != cr[j].mx) { vh_fail(c, "MatrixColumnMinMax|value", "column %zu of %zux%zu: min %.17g max %.17g expected %.17Lg %.17Lg", j, r, w, mn, mx, cr[j].mn, cr[j].mx); break; }
    }
    vh_obs("kernel_calls", 2 + (double)w);
  }
  if (w >= 1) {
    initDVector(&d); MatrixRowAverage(M, d);
    if (d->size != r) vh_fail(c, "MatrixRowAverage|shape", "%zu values for %zu rows", d->size, r);
    else for (i = 0; i < r; i++) {
      ld s = 0, sa = 0;
      for (j = 0; j < w; j++) { s += M->data[i][j]; sa += fabsl((ld)M->data[i][j]); }
      if (!near_(MX_ROWAVG, d->data[i], s / w, sa / w)) { vh_fail(c, "MatrixRowAverage|value", "row %zu of %zux%zu: %.17g expected %.17Lg", i, r, w, d->data[i], s / w); break; }
    }
    DelDVector(&d);
  }
  if (r >= 2) {
    initDVector(&d); MatrixColSDEV(M, d);
    if (d->size != w) vh_fail(c, "MatrixColSDEV|shape", "%zu values for %zu columns", d->size, w);
    else for (j = 0; j < w; j++) if (!near_(MX_COLSD, d->data[j], cr[j].sd, cr[j].sd + cr[j].sumabs / r)) { vh_fail(c, "MatrixColSDEV|value", "column %zu of %zux%zu: %.17g expected %.17Lg", j, r, w, d->data[j], cr[j].sd); break; }
    DelDVector(&d);
    initDVector(&d); MatrixColVar(M, d);
    if (d->size != w) vh_fail(c, "MatrixColVar|shape", "%zu values for %zu columns", d->size, w);
    else for (j = 0; j < w; j++) if (!near_(MX_COLVAR, d->data[j], cr[j].var, cr[j].var + cr[j].sd * cr[j].sumabs / r)) { vh_fail(c, "MatrixColVar|value", "column %zu of %zux%zu: %.17g expected %.17Lg", j, r, w, d->data[j], cr[j].var); break; }
    DelDVector(&d);
    /* centring (a single row is copied unchanged by the library: not judged) */
    MC = poison_matrix(r, w);
    MeanCenteredMatrix(M, MC);
    for (i = 0; i < r; i++) for (j = 0; j < w; j++) {
      ld cmax = fabsl(cr[j].mn) > fabsl(cr[j].mx) ? fabsl(cr[j].mn) : fabsl(cr[j].mx);
      if (!near_(MX_CENTER, MC->data[i][j], (ld)M->data[i][j] - cr[j].mean, cmax)) { vh_fail(c, "MeanCenteredMatrix|value", "mc[%zu][%zu] = %.17g expected %.17Lg (%zux%zu)", i, j, MC->data[i][j], (ld)M->data[i][j] - cr[j].mean, r, w); i = r; break; }
    }
    DelMatrix(&MC);
    /* covariance: definition, symmetry, positive semi-definiteness */
    if (vh_coin(c, 0.5)) initMatrix(&CM); else CM = poison_matrix((size_t)vh_int(c, 0, 5), (size_t)vh_int(c, 0, 5));
    MatrixCovariance(M, CM);
    if (CM->row != w || CM->col != w) vh_fail(c, "MatrixCovariance|shape", "%zux%zu for %zu columns", CM->row, CM->col, w);
    else {
      int bad = 0;
      for (i = 0; i < w && !bad; i++) for (j = 0; j < w; j++) {
        ld s = 0, sa = 0, di, dj, f = (ld)r / (ld)(r - 1);
        int ok;
        for (l = 0; l < r; l++) { ld x = (ld)M->data[l][i] - cr[i].mean, y = (ld)M->data[l][j] - cr[j].mean; s += x * y; sa += (fabsl((ld)M->data[l][i]) + fabsl(cr[i].mean)) * (fabsl((ld)M->data[l][j]) + fabsl(cr[j].mean)); }
        s /= (r - 1); sa /= (r - 1);
        di = cr[i].maysnap ? cr[i].mean : 0; dj = cr[j].maysnap ? cr[j].mean : 0;
        /* centred sums vanish, so a zero-snapped mean matters only when both columns are snapped: + r/(r-1) m_i m_j */
        if (di != 0 && dj != 0 && fabsl((ld)CM->data[i][j] - (s + f * di * dj)) < fabsl((ld)CM->data[i][j] - s)) s += f * di * dj;   /* the nearer of the two documented values */
        ok = near_(MX_COV, CM->data[i][j], s, sa);
        if (!ok) { vh_fail(c, "MatrixCovariance|value", "cov[%zu][%zu] = %.17g expected %.17Lg (%zux%zu)", i, j, CM->data[i][j], s, r, w); bad = 1; break; }
        if (memcmp(&CM->data[i][j], &CM->data[j][i], sizeof(double)) && !near_(MX_COV, CM->data[i][j], (ld)CM->data[j][i], sa)) { vh_fail(c, "MatrixCovariance|law-symmetric", "cov[%zu][%zu] = %.17g but cov[%zu][%zu] = %.17g", i, j, CM->data[i][j], j, i, CM->data[j][i]); bad = 1; break; }
      }
      if (!bad && w >= 1 && matrix_all_finite(CM)) {
        ldm *S = ldm_of_matrix(CM), *V = ldm_new(w, w);
        ld *ev = calloc(w, sizeof(ld)), tr = 0;
        /* symmetrise exactly what was returned (symmetry was judged above) */
        for (i = 0; i < w; i++) { tr += fabsl(LM(S, i, i)); for (j = i + 1; j < w; j++) LM(S, j, i) = LM(S, i, j); }
        or_jacobi_eig(S, ev, V);
        if (tr > 0) {
          ld neg = -ev[w - 1] / (EPS * tr);
          if ((double)neg > g_mx[MX_PSD]) g_mx[MX_PSD] = (double)neg;
          if (neg > TOLC) vh_fail(c, "MatrixCovariance|law-positive-semidefinite", "smallest eigenvalue %.6Lg, trace %.6Lg (%zux%zu)", ev[w - 1], tr, r, w);
        }
        free(ev); ldm_free(S); ldm_free(V);
      }
    }
    DelMatrix(&CM);
    vh_obs("kernel_calls", 4);
  }
  if (!matrix_bitequal(M, M0)) vh_fail(c, "matrix-kernels|input-modified", "a read-only kernel changed its %zux%zu operand", r, w);

  /* sorting by a key column (ties in 40 % of the cases) */
  if (w >= 1) {
    size_t col = (size_t)vh_int(c, 0, (long)w - 1);
    int ties = vh_coin(c, 0.4);
    if (ties) for (i = 0; i < r; i++) M->data[i][col] = (double)vh_int(c, -1, 2) * (sc == 0 ? 1e-6 : sc == 2 ? 1e6 : 1.0);
    check_sort(c, M, col, 0);
    check_sort(c, M, col, 1);
    vh_obs(ties ? "sort_cases_with_tied_keys" : "sort_cases_distinct_keys", 1);
    vh_obs("kernel_calls", 2);
  }
  if (nsnap) vh_obs("colaverage_zero_snap_columns", (double)nsnap);
  vh_obs("matrix_kernel_cases", 1);
  vh_obs("kernel_calls", 6);
  free(cr);
  DelMatrix(&M); DelMatrix(&M0);
}

/* ------------------------------------------------------------------------------------------ vector kernels */
static int dblcmp(const void *a, const void *b) { double x = *(const double *)a, y = *(const double *)b; return (x > y) - (x < y); }
static int same_multiset(const double *a, const double *b, size_t n)
{
  double *x = malloc(sizeof(double) * (n + 1)), *y = malloc(sizeof(double) * (n + 1));
  int ok;
  memcpy(x, a, sizeof(double) * n); memcpy(y, b, sizeof(double) * n);
  qsort(x, n, sizeof(double), dblcmp); qsort(y, n, sizeof(double), dblcmp);
  ok = n == 0 || memcmp(x, y, sizeof(double) * n) == 0;
  free(x); free(y);
  return ok;
}
static void case_vector(vh_ctx *c)
{
  int sc = (int)vh_int(c, 0, 3);
  size_t n = (size_t)vh_int(c, 0, 24), i;
  dvector *a = rnd_dvector(c, n, sc), *b = rnd_dvector(c, n, sc), *d, *s;
  ld dot = 0, dota = 0, s2 = 0, sum = 0, suma = 0, mod;
  double got;

  vh_class(c, "vec-n%s-s%s", n == 0 ? "0" : n == 1 ? "1" : n == 2 ? "2" : n % 2 ? "odd" : "even", SCN[sc]);
  vh_desc(c, "vector kernels: length %zu, value scale %s", n, SCN[sc]);
  if (n && vh_coin(c, 0.3)) for (i = 0; i < n; i++) if (vh_coin(c, 0.4)) a->data[i] = a->data[(size_t)vh_int(c, 0, (long)n - 1)];   /* repeated values */
  for (i = 0; i < n; i++) { ld p = (ld)a->data[i] * b->data[i]; dot += p; dota += fabsl(p); s2 += (ld)a->data[i] * a->data[i]; sum += a->data[i]; suma += fabsl((ld)a->data[i]); }
  mod = sqrtl(s2);
  got = DVectorDVectorDotProd(a, b);
  if (!near_(MX_VDOT, got, dot, dota)) vh_fail(c, "DVectorDVectorDotProd|value", "%.17g expected %.17Lg (n=%zu)", got, dot, n);
  got = DvectorModule(a);
  if (!near_(MX_VMOD, got, mod, mod)) vh_fail(c, "DvectorModule|value", "%.17g expected %.17Lg (n=%zu)", got, mod, n);
  if (n >= 1 && mod > 0) {
    NewDVector(&d, n);
    DVectNorm(a, d);
    for (i = 0; i < n; i++) { ld e = (ld)a->data[i] / mod; if (!near_(MX_VNORM, d->data[i], e, fabsl(e))) { vh_fail(c, "DVectNorm|value", "nv[%zu] = %.17g expected %.17Lg (n=%zu)", i, d->data[i], e, n); break; } }
    DelDVector(&d);
  }
  initDVector(&d); initDVector(&s);
  DVectorDVectorDiff(a, b, d); DVectorDVectorSum(a, b, s);
  if (d->size != n || s->size != n) vh_fail(c, "DVectorDVectorDiff|shape", "sizes %zu %zu expected %zu", d->size, s->size, n);
  else for (i = 0; i < n; i++) {
    ld e1 = (ld)a->data[i] - b->data[i], e2 = (ld)a->data[i] + b->data[i];
    if (!near_(MX_VSUM, d->data[i], e1, 2 * fabsl(e1))) { vh_fail(c, "DVectorDVectorDiff|value", "v3[%zu] = %.17g expected %.17Lg", i, d->data[i], e1); break; }
    if (!near_(MX_VSUM, s->data[i], e2, 2 * fabsl(e2))) { vh_fail(c, "DVectorDVectorSum|value", "v3[%zu] = %.17g expected %.17Lg", i, s->data[i], e2); break; }
  }
  DelDVector(&d); DelDVector(&s);
  if (n >= 1) {
    double mn = POISON, mx = POISON, mn1 = POISON, mx1 = POISON, lo = a->data[0], hi = a->data[0], mean, med, want;
    double *sorted = malloc(sizeof(double) * n);
    for (i = 0; i < n; i++) { if (a->data[i] < lo) lo = a->data[i]; if (a->data[i] > hi) hi = a->data[i]; }
    DVectorMinMax(a, &mn, &mx); DVectorMinMax(a, &mn1, NULL); DVectorMinMax(a, NULL, &mx1);
    if (mn != lo || mx != hi || mn1 != lo || mx1 != hi) vh_fail(c, "DVectorMinMax|value", "min %.17g/%.17g max %.17g/%.17g expected %.17g %.17g (n=%zu)", mn, mn1, mx, mx1, lo, hi, n);
    DVectorMean(a, &mean);
    if (!near_(MX_VMEAN, mean, sum / n, suma / n)) vh_fail(c, "DVectorMean|value", "%.17g expected %.17Lg (n=%zu)", mean, sum / n, n);
    memcpy(sorted, a->data, sizeof(double) * n);
    { size_t p, q; for (p = 1; p < n; p++) { double x = sorted[p]; for (q = p; q > 0 && sorted[q - 1] > x; q--) sorted[q] = sorted[q - 1]; sorted[q] = x; } }   /* insertion sort */
    want = n % 2 ? sorted[n / 2] : (sorted[n / 2 - 1] + sorted[n / 2]) / 2.0;
    d = dvec_dup(a);
    DVectorMedian(d, &med);
    if (fabs(med - want) > 4 * (double)EPS * fabs(want)) vh_fail(c, "DVectorMedian|value", "%.17g expected %.17g (n=%zu)", med, want, n);
    if (d->size != n || !same_multiset(d->data, a->data, n)) vh_fail(c, "DVectorMedian|operand-not-a-permutation", "the operand no longer holds the same %zu values", n);
    DelDVector(&d);
    free(sorted);
  }
  if (n >= 2) {   /* standard deviation: the normalisation is not documented, both textbook conventions are accepted */
    ld mean = sum / n, v = 0, sp, ss;
    double sd = POISON;
    int okp, oks;
    for (i = 0; i < n; i++) v += ((ld)a->data[i] - mean) * ((ld)a->data[i] - mean);
    sp = sqrtl(v / n); ss = sqrtl(v / (n - 1));
    d = dvec_dup(a);
    DVectorSDEV(d, &sd);
    okp = fabsl((ld)sd - sp) <= fabsl((ld)sd - ss);
    oks = !okp;
    if (!near_(MX_VSDEV, sd, okp ? sp : ss, (okp ? sp : ss) + suma / n))
      vh_fail(c, "DVectorSDEV|value", "%.17g, population sd %.17Lg, sample sd %.17Lg (n=%zu)", sd, sp, ss, n);
    else vh_obs(oks ? "dvectorsdev_sample_normalisation" : "dvectorsdev_population_normalisation", 1);
    if (dvector_maxdiff(d, a) != 0) vh_fail(c, "DVectorSDEV|input-modified", "the operand changed (n=%zu)", n);
    DelDVector(&d);
    vh_obs("calls_DVectorSDEV", 1);
    vh_obs("kernel_calls", 1);
  }
  d = dvec_dup(a);
  DVectorSort(d);
  if (d->size != n) vh_fail(c, "DVectorSort|shape", "size %zu expected %zu", d->size, n);
  else {
    for (i = 1; i < n; i++) if (d->data[i - 1] > d->data[i]) { vh_fail(c, "DVectorSort|order", "v[%zu] = %.17g > v[%zu] = %.17g", i - 1, d->data[i - 1], i, d->data[i]); break; }
    if (!same_multiset(d->data, a->data, n)) vh_fail(c, "DVectorSort|permutation", "the sorted vector is not a permutation of its %zu values", n);
  }
  DelDVector(&d);
  vh_obs("vector_kernel_cases", 1);
  vh_obs("kernel_calls", n ? 12 : 5);
  DelDVector(&a); DelDVector(&b);
}

/* ------------------------------------------------------------------------------------------ tensor kernels */
static void case_tensor(vh_ctx *c)
{
  int sc = (int)vh_int(c, 0, 3), snapped;
  size_t o = (size_t)vh_int(c, 1, 4), r = (size_t)vh_int(c, 0, 17), w = (size_t)vh_int(c, 0, 17), i, j, k, nsnap = 0;
  tensor *t, *t2, *t3, *t4;
  dvector *v = rnd_dvector(c, r, sc), *u = rnd_dvector(c, w, sc), *res;
  matrix *m, *M2 = rnd_matrix(c, w, o, sc), *P, *CA;

  vh_class(c, "ten-o%zu-r%s-c%s-s%s", o, dimcls(r), dimcls(w), SCN[sc]);
  vh_desc(c, "tensor kernels: %zu slices of %zux%zu, value scale %s", o, r, w, SCN[sc]);
  NewTensor(&t, o);
  for (k = 0; k < o; k++) { NewTensorMatrix(t, k, r, w); for (i = 0; i < r; i++) for (j = 0; j < w; j++) t->m[k]->data[i][j] = gv(c, sc); }

  /* m[j][k] = sum_i v[i] t[k][i][j] */
  NewMatrix(&m, w, o);
  DvectorTensorDotProduct(t, v, m);
  for (j = 0; j < w; j++) for (k = 0; k < o; k++) {
    ld s = 0, sa = 0;
    for (i = 0; i < r; i++) { ld p = (ld)v->data[i] * t->m[k]->data[i][j]; s += p; sa += fabsl(p); }
    if (!near_(MX_T_DVT, m->data[j][k], s, sa)) { vh_fail(c, "DvectorTensorDotProduct|value", "m[%zu][%zu] = %.17g expected %.17Lg (%zu slices %zux%zu)", j, k, m->data[j][k], s, o, r, w); j = w; break; }
  }
  DelMatrix(&m);
  /* v[i] = sum_k sum_j t[k][i][j] m[j][k] */
  NewDVector(&res, r);
  TensorMatrixDotProduct(t, M2, res);
  for (i = 0; i < r; i++) {
    ld s = 0, sa = 0;
    for (k = 0; k < o; k++) for (j = 0; j < w; j++) { ld p = (ld)t->m[k]->data[i][j] * M2->data[j][k]; s += p; sa += fabsl(p); }
    if (!near_(MX_T_TMD, res->data[i], s, sa)) { vh_fail(c, "TensorMatrixDotProduct|value", "v[%zu] = %.17g expected %.17Lg (%zu slices %zux%zu)", i, res->data[i], s, o, r, w); break; }
  }
  DelDVector(&res);
  /* per-slice matrix-vector product p[k][i] = sum_j t[k][i][j] u[j] (what the code computes; see DESIGN) */
  NewMatrix(&P, o, r);
  TransposedTensorDVectorProduct(t, u, P);
  for (k = 0; k < o; k++) for (i = 0; i < r; i++) {
    ld s = 0, sa = 0;
    for (j = 0; j < w; j++) { ld p = (ld)t->m[k]->data[i][j] * u->data[j]; s += p; sa += fabsl(p); }
    if (!near_(MX_T_TTV, P->data[k][i], s, sa)) { vh_fail(c, "TransposedTensorDVectorProduct|value", "p[%zu][%zu] = %.17g expected %.17Lg (%zu slices %zux%zu)", k, i, P->data[k][i], s, o, r, w); k = o; break; }
  }
  DelMatrix(&P);
  /* t2[k][i][j] = v[i] * M2'[j][k]   (vector of length r, matrix w x o) */
  NewTensor(&t2, o);
  for (k = 0; k < o; k++) { NewTensorMatrix(t2, k, r, w); MatrixSet(t2->m[k], POISON); }
  KronekerProductVectorMatrix(v, M2, t2);
  for (k = 0; k < o; k++) for (i = 0; i < r; i++) for (j = 0; j < w; j++) {
    ld p = (ld)v->data[i] * M2->data[j][k];
    if (!near_(MX_T_KRON, t2->m[k]->data[i][j], p, 2 * fabsl(p))) { vh_fail(c, "KronekerProductVectorMatrix|value", "t[%zu][%zu][%zu] = %.17g expected %.17Lg (%zu x %zux%zu)", k, i, j, t2->m[k]->data[i][j], p, r, w, o); goto kron_done; }
  }
kron_done:
  DelTensor(&t2);
  /* slice-wise transpose, slices of different shapes */
  NewTensor(&t3, o); NewTensor(&t4, o);
  for (k = 0; k < o; k++) {
    size_t rr = k == 0 ? r : (size_t)vh_int(c, 0, 17), ww = k == 0 ? w : (size_t)vh_int(c, 0, 17);
    NewTensorMatrix(t3, k, rr, ww); NewTensorMatrix(t4, k, ww, rr); MatrixSet(t4->m[k], POISON);
    for (i = 0; i < rr; i++) for (j = 0; j < ww; j++) t3->m[k]->data[i][j] = gv(c, sc);
  }
  TensorTranspose(t3, t4);
  for (k = 0; k < o; k++) for (i = 0; i < t3->m[k]->row; i++) for (j = 0; j < t3->m[k]->col; j++)
    if (memcmp(&t4->m[k]->data[j][i], &t3->m[k]->data[i][j], sizeof(double))) { vh_fail(c, "TensorTranspose|value", "slice %zu: t2[%zu][%zu] = %.17g but t1[%zu][%zu] = %.17g", k, j, i, t4->m[k]->data[j][i], i, j, t3->m[k]->data[i][j]); goto tr_done; }
tr_done:
  DelTensor(&t3); DelTensor(&t4);
  /* column statistics per slice: result is (columns x slices) */
  if (r >= 1 && w >= 1) {
    initMatrix(&CA);
    TensorColAverage(t, CA);
    if (CA->row != w || CA->col != o) vh_fail(c, "TensorColAverage|shape", "%zux%zu expected %zux%zu", CA->row, CA->col, w, o);
    else for (k = 0; k < o; k++) for (j = 0; j < w; j++) {
      colref cr; col_reference(t->m[k], j, &cr);
      if (!mean_ok(MX_T_COLAVG, CA->data[j][k], &cr, r, &snapped)) { vh_fail(c, "TensorColAverage|value", "slice %zu column %zu: %.17g expected %.17Lg", k, j, CA->data[j][k], cr.mean); k = o; break; }
      nsnap += (size_t)snapped;
    }
    DelMatrix(&CA);
  }
  if (r >= 2 && w >= 1) {
    initMatrix(&CA);
    TensorColSDEV(t, CA);
    if (CA->row != w || CA->col != o) vh_fail(c, "TensorColSDEV|shape", "%zux%zu expected %zux%zu", CA->row, CA->col, w, o);
    else for (k = 0; k < o; k++) for (j = 0; j < w; j++) {
      colref cr; col_reference(t->m[k], j, &cr);
      if (!near_(MX_T_COLSD, CA->data[j][k], cr.sd, cr.sd + cr.sumabs / r)) { vh_fail(c, "TensorColSDEV|value", "slice %zu column %zu: %.17g expected %.17Lg", k, j, CA->data[j][k], cr.sd); k = o; break; }
    }
    DelMatrix(&CA);
  }
  if (r >= 2) {
    NewTensor(&t2, o);
    for (k = 0; k < o; k++) { NewTensorMatrix(t2, k, r, w); MatrixSet(t2->m[k], POISON); }
    MeanCenteredTensor(t, t2);
    for (k = 0; k < o; k++) for (j = 0; j < w; j++) {
      colref cr; ld cmax; col_reference(t->m[k], j, &cr);
      cmax = fabsl(cr.mn) > fabsl(cr.mx) ? fabsl(cr.mn) : fabsl(cr.mx);
      for (i = 0; i < r; i++) if (!near_(MX_T_CENTER, t2->m[k]->data[i][j], (ld)t->m[k]->data[i][j] - cr.mean, cmax)) {
        vh_fail(c, "MeanCenteredTensor|value", "slice %zu [%zu][%zu] = %.17g expected %.17Lg", k, i, j, t2->m[k]->data[i][j], (ld)t->m[k]->data[i][j] - cr.mean); k = o; j = w; break;
      }
    }
    DelTensor(&t2);
  }
  if (nsnap) vh_obs("colaverage_zero_snap_columns", (double)nsnap);
  vh_obs("tensor_kernel_cases", 1);
  vh_obs("kernel_calls", 8);
  vh_hist("tensor_slices", (long)o);
  DelTensor(&t); DelDVector(&v); DelDVector(&u); DelMatrix(&M2);
}

/* ------------------------------------------------------------------------------------------ matrix statistics */
/* output container of the kernels that resize their result: empty, or a stale matrix of some other shape */
static matrix *out_container(vh_ctx *c)
{
  matrix *m;
  if (vh_coin(c, 0.5)) { initMatrix(&m); return m; }
  return poison_matrix((size_t)vh_int(c, 1, 5), (size_t)vh_int(c, 1, 5));   /* (a stale r x 0 container is leaked by ResizeMatrix: C14's business) */
}
/* sum (x-mx)(y-my) / sqrt(sum (x-mx)^2 sum (y-my)^2) for columns k, j about the given means; *cond is the amplification of the
   rounding of the centred columns: 1 + sqrt(n) sum|x| / |x-mx| + sqrt(n) sum|y| / |y-my| */
static int pearson_ref(matrix *M, size_t k, size_t j, ld mk, ld mj, const colref *ck, const colref *cj, ld *rho, ld *ab, ld *cond)
{
  size_t i, n = M->row;
  ld s = 0, a = 0, b = 0;
  for (i = 0; i < n; i++) { ld x = (ld)M->data[i][k] - mk, y = (ld)M->data[i][j] - mj; s += x * y; a += x * x; b += y * y; }
  *ab = a * b;
  if (!(a > 0) || !(b > 0)) return 0;
  *rho = s / sqrtl(a * b);
  *cond = 1 + sqrtl((ld)n) * (ck->sumabs + n * fabsl(mk)) / sqrtl(a) + sqrtl((ld)n) * (cj->sumabs + n * fabsl(mj)) / sqrtl(b);
  return 1;
}
static void check_pearson(vh_ctx *c, matrix *M, const colref *cr)
{
  size_t r = M->row, w = M->col, k, j;
  matrix *P = out_container(c);
  int failed_v = 0, failed_r = 0;
  PearsonCorrelMatrix(M, P);
  vh_obs("calls_PearsonCorrelMatrix", 1);
  if (P->row != w || P->col != w) { vh_fail(c, "PearsonCorrelMatrix|shape", "%zux%zu for %zu columns", P->row, P->col, w); DelMatrix(&P); return; }
  for (k = 0; k < w; k++) {
    if (P->data[k][k] != 1.0) { vh_fail(c, "PearsonCorrelMatrix|unit-diagonal", "r[%zu][%zu] = %.17g (%zux%zu)", k, k, P->data[k][k], r, w); break; }
  }
  for (k = 0; k < w; k++) for (j = k + 1; j < w; j++) {
    ld rho[4], ab[4], cond[4], abmin = INFINITY, best = INFINITY;
    int ok[4], a, nalt = 0, bi = -1, judged = 0;
    double got = P->data[k][j], mxsave;
    if (memcmp(&P->data[k][j], &P->data[j][k], sizeof(double))) { vh_fail(c, "PearsonCorrelMatrix|law-symmetric", "r[%zu][%zu] = %.17g but r[%zu][%zu] = %.17g", k, j, got, j, k, P->data[j][k]); k = w; break; }
    /* the means are MatrixColAverage's: inside its zero-snap window either value is the documented one */
    for (a = 0; a < 4; a++) {
      if (((a & 1) && !(cr[k].maysnap && cr[k].mean != 0)) || ((a & 2) && !(cr[j].maysnap && cr[j].mean != 0))) { ok[a] = -1; continue; }
      ok[a] = pearson_ref(M, k, j, (a & 1) ? 0 : cr[k].mean, (a & 2) ? 0 : cr[j].mean, &cr[k], &cr[j], &rho[a], &ab[a], &cond[a]);
      nalt++;
      if (ab[a] < abmin) abmin = ab[a];
    }
    if (!ok[0]) { vh_obs("pearson_pairs_with_constant_column_not_judged", 1); continue; }
    /* the function's comment names the quantity it computes RSQ and the code squares the coefficient: held to r^2 (header: "pearson correlation matrix") */
    for (a = 0; a < 4; a++) if (ok[a] == 1) { ld d = fabsl((ld)got - rho[a] * rho[a]); judged = 1; if (d < best) { best = d; bi = a; } }
    if (!judged) continue;
    if (!failed_r && !(got >= -TOLC * (double)EPS * (double)cond[bi] && got <= 1.0 + TOLC * (double)EPS * (double)cond[bi])) {
      vh_fail(c, "PearsonCorrelMatrix|range", "rsq[%zu][%zu] = %.17g is outside [0,1] (%zux%zu)", k, j, got, r, w); failed_r = 1;
    }
    (void)mxsave;
    if (!near_(MX_PEARSON, got, rho[bi] * rho[bi], 2 * cond[bi])) {
      const char *key = abmin < 1.0L + 1e-9L ? "PearsonCorrelMatrix|value|centred-sumsq-product-below-1" : "PearsonCorrelMatrix|value";
      if (got == 0) vh_obs("pearson_cells_reported_zero", 1);
      if (!(failed_v & (abmin < 1.0L + 1e-9L ? 1 : 2))) {
        vh_fail(c, key, "rsq[%zu][%zu] = %.17g, definition gives r = %.17Lg, r^2 = %.17Lg (sum (x-mx)^2 * sum (y-my)^2 = %.6Lg; %zux%zu, %d admissible mean pairs)",
                k, j, got, rho[bi], rho[bi] * rho[bi], ab[0], r, w, nalt);
        failed_v |= abmin < 1.0L + 1e-9L ? 1 : 2;
      }
    } else vh_obs("pearson_cells_equal_to_the_squared_coefficient", 1);
  }
  DelMatrix(&P);
}

/* tie-free data: every column holds pairwise different values; *gap = smallest distance between two values of one column */
static matrix *rnd_tiefree_matrix(vh_ctx *c, size_t r, size_t w, int sc, double *colgap)
{
  matrix *m; size_t i, j, l;
  NewMatrix(&m, r, w);
  for (j = 0; j < w; j++) {
    colgap[j] = INFINITY;
    for (i = 0; i < r; i++) {
      int again, tries = 0;
      do {
        m->data[i][j] = gv(c, sc);
        again = 0;
        for (l = 0; l < i; l++) if (m->data[l][j] == m->data[i][j]) again = 1;
      } while (again && ++tries < 100);
      if (again) m->data[i][j] = (double)(i + 1) * 3.0e6;   /* never reached in practice; keeps the column tie-free */
      for (l = 0; l < i; l++) { double g = fabs(m->data[l][j] - m->data[i][j]); if (g < colgap[j]) colgap[j] = g; }
    }
  }
  return m;
}
static void check_spearman(vh_ctx *c, size_t r, size_t w, int sc)
{
  double *gap = malloc(sizeof(double) * (w + 1));
  matrix *S = rnd_tiefree_matrix(c, r, w, sc, gap), *S0 = matrix_dup(S), *R = out_container(c);
  size_t i, k, j, l;
  int failed = 0;
  SpearmanCorrelMatrix(S, R);
  vh_obs("calls_SpearmanCorrelMatrix", 1);
  if (R->row != w || R->col != w) { vh_fail(c, "SpearmanCorrelMatrix|shape", "%zux%zu for %zu columns", R->row, R->col, w); goto done; }
  for (k = 0; k < w; k++) if (R->data[k][k] != 1.0) { vh_fail(c, "SpearmanCorrelMatrix|unit-diagonal", "rho[%zu][%zu] = %.17g (%zux%zu)", k, k, R->data[k][k], r, w); break; }
  for (k = 0; k < w; k++) for (j = k + 1; j < w; j++) {
    ld d2 = 0, rho, n = (ld)r;
    double got = R->data[k][j];
    int close_ = gap[k] < 1.001e-3 || gap[j] < 1.001e-3, bit;
    if (memcmp(&R->data[k][j], &R->data[j][k], sizeof(double))) { vh_fail(c, "SpearmanCorrelMatrix|law-symmetric", "rho[%zu][%zu] = %.17g but rho[%zu][%zu] = %.17g", k, j, got, j, k, R->data[j][k]); k = w; break; }
    for (i = 0; i < r; i++) {
      long rk = 1, rj = 1;
      for (l = 0; l < r; l++) { if (S0->data[l][k] < S0->data[i][k]) rk++; if (S0->data[l][j] < S0->data[i][j]) rj++; }
      d2 += (ld)(rk - rj) * (ld)(rk - rj);
    }
    rho = 1 - 6 * d2 / (n * (n * n - 1));
    vh_obs(close_ ? "spearman_pairs_values_closer_than_1e-3" : "spearman_pairs_values_separated", 1);
    bit = close_ ? 1 : 2;
    if (!(failed & (4 * bit)) && !(fabs(got) <= 1.0 + TOLC * (double)EPS)) { vh_fail(c, close_ ? "SpearmanCorrelMatrix|range|values-closer-than-1e-3" : "SpearmanCorrelMatrix|range", "rho[%zu][%zu] = %.17g is outside [-1,1] (%zux%zu)", k, j, got, r, w); failed |= 4 * bit; }
    if (!near_(MX_SPEARMAN, got, rho, 2) && !(failed & bit)) {
      vh_fail(c, close_ ? "SpearmanCorrelMatrix|value|values-closer-than-1e-3" : "SpearmanCorrelMatrix|value",
              "rho[%zu][%zu] = %.17g, the ranks give %.17Lg (sum d^2 = %.0Lf; %zu tie-free rows, %zu columns, smallest gaps %.3g and %.3g)", k, j, got, rho, d2, r, w, gap[k], gap[j]);
      failed |= bit;
    }
  }
  if (!matrix_bitequal(S, S0)) vh_fail(c, "SpearmanCorrelMatrix|input-modified", "the %zux%zu operand changed", r, w);
done:
  free(gap);
  DelMatrix(&S); DelMatrix(&S0); DelMatrix(&R);
}

static void check_descstat(vh_ctx *c, matrix *M, const colref *cr)
{
  size_t r = M->row, w = M->col, i, j;
  matrix *D = out_container(c);
  double *col = malloc(sizeof(double) * (r + 1));
  unsigned failed = 0;   /* every clause is evaluated on every column and reported once per case */
#define DS_CLAUSE(bit, cond, key, ...) do { if (!(cond) && !(failed & (1u << (bit)))) { failed |= 1u << (bit); vh_fail(c, key, __VA_ARGS__); } } while (0)
  MatrixColDescStat(M, D);
  vh_obs("calls_MatrixColDescStat", 1);
  if (D->row != w || D->col != 13) { vh_fail(c, "MatrixColDescStat|shape", "%zux%zu expected %zux13", D->row, D->col, w); goto done; }
  for (j = 0; j < w; j++) {
    const double *g = D->data[j];
    ld v = 0, hs = 0, hsa = 0, vp, vs, sdp, sds, amean = cr[j].sumabs / r;
    size_t nzero = 0, nwin = 0;
    double med;
    for (i = 0; i < r; i++) {
      ld x = M->data[i][j];
      col[i] = M->data[i][j];
      v += (x - cr[j].mean) * (x - cr[j].mean);
      if (x == 0) nzero++; else { hs += 1 / x; hsa += fabsl(1 / x); if (fabsl(x) <= 1.0000001e-6L) nwin++; }
    }
    qsort(col, r, sizeof(double), dblcmp);
    med = r % 2 ? col[r / 2] : (col[r / 2 - 1] + col[r / 2]) / 2.0;
    vp = v / r; sdp = sqrtl(vp); vs = r > 1 ? v / (r - 1) : 0; sds = sqrtl(vs);
    DS_CLAUSE(0, near_(MX_DS_AVG, g[0], cr[j].mean, amean), "MatrixColDescStat|mean", "column %zu of %zux%zu: %.17g expected %.17Lg", j, r, w, g[0], cr[j].mean);
    DS_CLAUSE(1, fabs(g[1] - med) <= 4 * (double)EPS * fabs(med), "MatrixColDescStat|median", "column %zu of %zux%zu: %.17g expected %.17g", j, r, w, g[1], med);
    if (nzero == 0 && fabsl(hs) > 1e3L * EPS * r * hsa) {   /* harmonic mean: defined for a column without zeros */
      ld h = (ld)r / hs;
      DS_CLAUSE(2, near_(MX_DS_HARM, g[2], h, fabsl(h) * hsa / fabsl(hs)), "MatrixColDescStat|harmonic-mean", "column %zu of %zux%zu: %.17g expected %.17Lg", j, r, w, g[2], h);
      vh_obs("descstat_harmonic_means_judged", 1);
    } else vh_obs("descstat_harmonic_means_not_judged", 1);
    DS_CLAUSE(3, near_(MX_DS_VAR, g[3], vp, vp + sdp * amean), "MatrixColDescStat|population-variance", "column %zu of %zux%zu: %.17g expected %.17Lg", j, r, w, g[3], vp);
    DS_CLAUSE(5, near_(MX_DS_SD, g[5], sdp, sdp + amean), "MatrixColDescStat|population-sd", "column %zu of %zux%zu: %.17g expected %.17Lg", j, r, w, g[5], sdp);
    if (r >= 2) {
      DS_CLAUSE(4, near_(MX_DS_VAR, g[4], vs, vs + sds * amean), "MatrixColDescStat|sample-variance", "column %zu of %zux%zu: %.17g expected %.17Lg", j, r, w, g[4], vs);
      DS_CLAUSE(6, near_(MX_DS_SD, g[6], sds, sds + amean), "MatrixColDescStat|sample-sd", "column %zu of %zux%zu: %.17g expected %.17Lg", j, r, w, g[6], sds);
    }
    if (fabsl(cr[j].sum) > 1e3L * EPS * r * cr[j].sumabs) {   /* coefficient of variation: defined for a non-zero mean */
      ld am = fabsl(cr[j].mean), cvp = 100 * sdp / cr[j].mean, cvs = 100 * sds / cr[j].mean;
      DS_CLAUSE(7, near_(MX_DS_CV, g[7], cvp, 100 * ((sdp + amean) / am + sdp * amean / (am * am))), "MatrixColDescStat|population-cv", "column %zu of %zux%zu: %.17g expected %.17Lg", j, r, w, g[7], cvp);
      if (r >= 2) DS_CLAUSE(8, near_(MX_DS_CV, g[8], cvs, 100 * ((sds + amean) / am + sds * amean / (am * am))), "MatrixColDescStat|sample-cv", "column %zu of %zux%zu: %.17g expected %.17Lg", j, r, w, g[8], cvs);
      vh_obs("descstat_cv_judged", 1);
    } else vh_obs("descstat_cv_not_judged", 1);
    DS_CLAUSE(9, (ld)g[9] == cr[j].mn, "MatrixColDescStat|min", "column %zu of %zux%zu: %.17g expected %.17Lg", j, r, w, g[9], cr[j].mn);
    DS_CLAUSE(10, (ld)g[10] == cr[j].mx, "MatrixColDescStat|max", "column %zu of %zux%zu: %.17g expected %.17Lg", j, r, w, g[10], cr[j].mx);
    if (nwin == 0) DS_CLAUSE(11, g[11] == (double)nzero, "MatrixColDescStat|zero-count", "column %zu of %zux%zu: %.17g zeros reported, %zu present", j, r, w, g[11], nzero);
    else vh_obs("descstat_zero_count_not_judged_values_below_1e-6", 1);
    DS_CLAUSE(12, g[12] == 0.0, "MatrixColDescStat|missing-count", "column %zu of %zux%zu: %.17g missing values reported, none present", j, r, w, g[12]);
  }
#undef DS_CLAUSE
done:
  free(col);
  DelMatrix(&D);
}

static void check_extreme_index(vh_ctx *c, matrix *M, int want_max)
{
  size_t r = M->row, w = M->col, i, j, row = 99, col = 99, row1 = 99, col1 = 99, nbest = 0, nbest_row0 = 0, nnear = 0;
  const char *fn = want_max ? "MatrixGetMaxValueIndex" : "MatrixGetMinValueIndex", *cls;
  char key[112];
  double best = M->data[0][0];
  for (i = 0; i < r; i++) for (j = 0; j < w; j++) if (want_max ? M->data[i][j] > best : M->data[i][j] < best) best = M->data[i][j];
  for (i = 0; i < r; i++) for (j = 0; j < w; j++) {
    if (M->data[i][j] == best) { nbest++; if (i == 0 && j >= 1) nbest_row0++; }
    else if (fabs(M->data[i][j] - best) < 1.001e-3) nnear++;
  }
  if (want_max) { MatrixGetMaxValueIndex(M, &row, &col); MatrixGetMaxValueIndex(M, &row1, NULL); MatrixGetMaxValueIndex(M, NULL, &col1); }
  else { MatrixGetMinValueIndex(M, &row, &col); MatrixGetMinValueIndex(M, &row1, NULL); MatrixGetMinValueIndex(M, NULL, &col1); }
  vh_obs(want_max ? "calls_MatrixGetMaxValueIndex" : "calls_MatrixGetMinValueIndex", 3);
  /* input classes: the extreme lies only in the first row right of column 0 / other cells lie within 1e-3 of it / neither */
  cls = nbest == nbest_row0 ? "extreme-only-in-first-row" : nnear ? "other-cells-within-1e-3" : NULL;
  vh_obs(cls == NULL ? "extreme_index_cases_separated" : nbest == nbest_row0 ? "extreme_index_cases_extreme_only_in_first_row" : "extreme_index_cases_other_cells_within_1e-3", 1);
  if (row >= r || col >= w) { snprintf(key, sizeof key, "%s|index-range", fn); vh_fail(c, key, "[%zu][%zu] returned for a %zux%zu matrix", row, col, r, w); return; }
  if (row1 != row || col1 != col) { snprintf(key, sizeof key, "%s|optional-outputs-agree", fn); vh_fail(c, key, "[%zu][%zu] with both outputs, row %zu / column %zu when asked alone (%zux%zu)", row, col, row1, col1, r, w); }
  if (M->data[row][col] != best) {
    if (cls) snprintf(key, sizeof key, "%s|value|%s", fn, cls); else snprintf(key, sizeof key, "%s|value", fn);
    vh_fail(c, key, "[%zu][%zu] holds %.17g but the %s of the %zux%zu matrix is %.17g (%zu cells hold it, %zu of them in row 0 right of column 0; %zu other cells within 1e-3)",
            row, col, M->data[row][col], want_max ? "maximum" : "minimum", r, w, best, nbest, nbest_row0, nnear);
  }
}

static void case_matstat(vh_ctx *c)
{
  int sc = (int)vh_int(c, 0, 3);
  size_t r = (size_t)vh_int(c, 0, 17), w = (size_t)vh_int(c, 0, 17), i, j;
  matrix *M = rnd_matrix(c, r, w, sc), *M0 = matrix_dup(M), *O;
  colref *cr = calloc(w + 1, sizeof *cr);

  vh_class(c, "mstat-r%s-c%s-s%s", dimcls(r), dimcls(w), SCN[sc]);
  vh_desc(c, "matrix statistics: %zux%zu, value scale %s", r, w, SCN[sc]);
  if (r && w) vh_desc(c, " m00=%.17g", M->data[0][0]);
  for (j = 0; j < w; j++) col_reference(M, j, &cr[j]);

  if (r >= 1) { check_descstat(c, M, cr); vh_obs("kernel_calls", 1); }
  if (r >= 2) { check_pearson(c, M, cr); vh_obs("kernel_calls", 1); }
  if (r >= 1 && w >= 1) { check_extreme_index(c, M, 1); check_extreme_index(c, M, 0); vh_obs("kernel_calls", 6); }

  /* x / (row sum) */
  if (w >= 1) {
    O = out_container(c);
    MatrixRowCenterScaling(M, O);
    vh_obs("calls_MatrixRowCenterScaling", 1);
    if (O->row != r || O->col != w) vh_fail(c, "MatrixRowCenterScaling|shape", "%zux%zu expected %zux%zu", O->row, O->col, r, w);
    else for (i = 0; i < r; i++) {
      ld s = 0, sa = 0;
      for (j = 0; j < w; j++) { s += M->data[i][j]; sa += fabsl((ld)M->data[i][j]); }
      if (!(fabsl(s) > 1e3L * EPS * w * sa)) { vh_obs("rowcenterscaling_rows_not_judged_sum_cancels", 1); continue; }
      for (j = 0; j < w; j++) {
        ld e = (ld)M->data[i][j] / s;
        if (!near_(MX_ROWCS, O->data[i][j], e, fabsl(e) * (1 + sa / fabsl(s)))) { vh_fail(c, "MatrixRowCenterScaling|value", "out[%zu][%zu] = %.17g expected %.17Lg (row sum %.17Lg; %zux%zu)", i, j, O->data[i][j], e, s, r, w); i = r; break; }
      }
    }
    DelMatrix(&O);
    vh_obs("kernel_calls", 1);
  }
  /* standard normal variate: (x - row mean) / row sample sd */
  if (w >= 2) {
    O = out_container(c);
    MatrixSVNScaling(M, O);
    vh_obs("calls_MatrixSVNScaling", 1);
    if (O->row != r || O->col != w) vh_fail(c, "MatrixSVNScaling|shape", "%zux%zu expected %zux%zu", O->row, O->col, r, w);
    else for (i = 0; i < r; i++) {
      ld s = 0, sa = 0, mean, v = 0, sd;
      for (j = 0; j < w; j++) { s += M->data[i][j]; sa += fabsl((ld)M->data[i][j]); }
      mean = s / w;
      for (j = 0; j < w; j++) v += ((ld)M->data[i][j] - mean) * ((ld)M->data[i][j] - mean);
      sd = sqrtl(v / (w - 1));
      if (!(sd > 1e3L * EPS * sa)) { vh_obs("svnscaling_rows_not_judged_no_spread", 1); continue; }
      for (j = 0; j < w; j++) {
        ld e = ((ld)M->data[i][j] - mean) / sd;
        if (!near_(MX_SVN, O->data[i][j], e, (fabsl((ld)M->data[i][j]) + sa) / sd + fabsl(e) * (1 + sa / sd))) {
          vh_fail(c, "MatrixSVNScaling|value", "out[%zu][%zu] = %.17g expected %.17Lg (row mean %.17Lg sd %.17Lg; %zux%zu)", i, j, O->data[i][j], e, mean, sd, r, w); i = r; break;
        }
      }
    }
    DelMatrix(&O);
    vh_obs("kernel_calls", 1);
  }
  if (!matrix_bitequal(M, M0)) vh_fail(c, "matrix-statistics|input-modified", "a read-only kernel changed its %zux%zu operand", r, w);
  if (r >= 2) { check_spearman(c, r, w, sc); vh_obs("kernel_calls", 1); }
  vh_obs("matrix_statistics_cases", 1);
  free(cr);
  DelMatrix(&M); DelMatrix(&M0);
}

/* ------------------------------------------------------------------------------------------ element-wise transforms, identity, v / m */
static void case_transform(vh_ctx *c)
{
  int sc = (int)vh_int(c, 0, 3);
  size_t r = (size_t)vh_int(c, 0, 17), w = (size_t)vh_int(c, 0, 17), n, i, j;
  matrix *M = rnd_matrix(c, r, w, sc), *M0 = matrix_dup(M), *A, *L, *A0, *L0, *O, *I;

  vh_class(c, "xform-r%s-c%s-s%s", dimcls(r), dimcls(w), SCN[sc]);
  vh_desc(c, "element-wise transforms: %zux%zu, value scale %s", r, w, SCN[sc]);
  if (r && w) vh_desc(c, " m00=%.17g", M->data[0][0]);
  A = matrix_dup(M); L = matrix_dup(M);
  for (i = 0; i < r; i++) for (j = 0; j < w; j++) { A->data[i][j] = fabs(M->data[i][j]); if (!(M->data[i][j] > -1.0)) L->data[i][j] = fabs(M->data[i][j]); }

  A0 = matrix_dup(A); L0 = matrix_dup(L);

  O = out_container(c);
  Matrix2ABSMatrix(M, O);
  if (O->row != r || O->col != w) vh_fail(c, "Matrix2ABSMatrix|shape", "%zux%zu expected %zux%zu", O->row, O->col, r, w);
  else if (!matrix_bitequal(O, A)) vh_fail(c, "Matrix2ABSMatrix|value", "the result is not |m| cell by cell (%zux%zu)", r, w);
  DelMatrix(&O);

  O = out_container(c);
  Matrix2SquareMatrix(M, O);
  if (O->row != r || O->col != w) vh_fail(c, "Matrix2SquareMatrix|shape", "%zux%zu expected %zux%zu", O->row, O->col, r, w);
  else for (i = 0; i < r; i++) for (j = 0; j < w; j++) {
    ld e = (ld)M->data[i][j] * M->data[i][j];
    if (!near_(MX_EW_SQUARE, O->data[i][j], e, e)) { vh_fail(c, "Matrix2SquareMatrix|value", "out[%zu][%zu] = %.17g expected %.17Lg", i, j, O->data[i][j], e); i = r; break; }
  }
  DelMatrix(&O);

  O = out_container(c);
  Matrix2SQRTMatrix(A, O);
  if (O->row != r || O->col != w) vh_fail(c, "Matrix2SQRTMatrix|shape", "%zux%zu expected %zux%zu", O->row, O->col, r, w);
  else for (i = 0; i < r; i++) for (j = 0; j < w; j++) {
    ld e = sqrtl((ld)A0->data[i][j]);
    if (!near_(MX_EW_SQRT, O->data[i][j], e, e)) { vh_fail(c, "Matrix2SQRTMatrix|value", "out[%zu][%zu] = %.17g expected %.17Lg", i, j, O->data[i][j], e); i = r; break; }
  }
  DelMatrix(&O);

  O = out_container(c);
  Matrix2LogMatrix(L, O);
  if (O->row != r || O->col != w) vh_fail(c, "Matrix2LogMatrix|shape", "%zux%zu expected %zux%zu", O->row, O->col, r, w);
  else for (i = 0; i < r; i++) for (j = 0; j < w; j++) {
    ld e = log10l(1 + (ld)L0->data[i][j]);
    if (!near_(MX_EW_LOG, O->data[i][j], e, 1 + fabsl(e))) { vh_fail(c, "Matrix2LogMatrix|value", "out[%zu][%zu] = %.17g expected log10(1 + %.17g) = %.17Lg", i, j, O->data[i][j], L0->data[i][j], e); i = r; break; }
  }
  DelMatrix(&O);
  if (!matrix_bitequal(M, M0) || !matrix_bitequal(A, A0) || !matrix_bitequal(L, L0)) vh_fail(c, "element-wise-transforms|input-modified", "a transform changed its %zux%zu operand", r, w);
  vh_obs("calls_Matrix2ABSMatrix", 1); vh_obs("calls_Matrix2SquareMatrix", 1); vh_obs("calls_Matrix2SQRTMatrix", 1); vh_obs("calls_Matrix2LogMatrix", 1);
  DelMatrix(&A); DelMatrix(&L); DelMatrix(&A0); DelMatrix(&L0); DelMatrix(&M); DelMatrix(&M0);

  /* identity of order 0..17 in a freshly created matrix */
  n = (size_t)vh_int(c, 0, 17);
  NewMatrix(&I, n, n);
  GenIdentityMatrix(I);
  vh_obs("calls_GenIdentityMatrix", 1);
  if (I->row != n || I->col != n) vh_fail(c, "GenIdentityMatrix|shape", "%zux%zu expected order %zu", I->row, I->col, n);
  else for (i = 0; i < n; i++) for (j = 0; j < n; j++) if (I->data[i][j] != (i == j ? 1.0 : 0.0)) { vh_fail(c, "GenIdentityMatrix|value", "i[%zu][%zu] = %.17g (order %zu)", i, j, I->data[i][j], n); i = n; break; }
  DelMatrix(&I);
  vh_hist("identity_order", (long)n);

  /* r = v / m, i.e. r m = v, for a square m with singular values in [0.5, 2] times a scale */
  n = (size_t)vh_int(c, 0, 17);
  {
    ldm *Q1 = ldm_new(n, n), *Q2 = ldm_new(n, n), *B = ldm_new(n, n), *Bt, *V = ldm_new(n, 1), *X = NULL;
    ld *sv = calloc(n + 1, sizeof(ld)), scale = sc == 0 ? 1e-6L : sc == 1 ? 1 : sc == 2 ? 1e6L : (ld)vh_logunif(c, -6.0, 6.0), l1 = 0;
    size_t l;
    matrix *m, *m0;
    dvector *v = rnd_dvector(c, n, sc), *v0 = dvec_dup(v), *res;
    or_random_orthogonal(Q1, gauss_cb, c); or_random_orthogonal(Q2, gauss_cb, c);
    for (i = 0; i < n; i++) sv[i] = (ld)vh_range(c, 0.5, 2.0);
    for (i = 0; i < n; i++) for (j = 0; j < n; j++) { ld s = 0; for (l = 0; l < n; l++) s += LM(Q1, i, l) * sv[l] * LM(Q2, j, l); LM(B, i, j) = (ld)(double)(scale * s); }
    m = matrix_of_ldm(B); m0 = matrix_dup(m);
    if (vh_coin(c, 0.5)) initDVector(&res); else { NewDVector(&res, (size_t)vh_int(c, 0, 20)); DVectorSet(res, POISON); }
    DVectorTransposedMatrixDivision(v, m, res);
    vh_obs("calls_DVectorTransposedMatrixDivision", 1);
    vh_hist("vector_matrix_division_order", (long)n);
    if (res->size != n) vh_fail(c, "DVectorTransposedMatrixDivision|shape", "result size %zu expected %zu", res->size, n);
    else if (n >= 1) {
      Bt = ldm_t(B);
      for (i = 0; i < n; i++) LM(V, i, 0) = v0->data[i];
      if (or_lu_solve(Bt, V, &X)) {
        for (i = 0; i < n; i++) l1 += fabsl(LM(X, i, 0));
        for (i = 0; i < n; i++) if (!near_(MX_VTMDIV, res->data[i], LM(X, i, 0), 4 * l1)) {
          vh_fail(c, "DVectorTransposedMatrixDivision|value", "r[%zu] = %.17g but the solution of r m = v has %.17Lg (order %zu, singular values in [0.5,2] x %.3Lg)", i, res->data[i], LM(X, i, 0), n, scale);
          break;
        }
        ldm_free(X);
      } else vh_fail(c, "harness|oracle", "the reference solver rejected a matrix of condition <= 4");
      ldm_free(Bt);
    }
    if (!matrix_bitequal(m, m0) || dvector_maxdiff(v, v0) != 0) vh_fail(c, "DVectorTransposedMatrixDivision|input-modified", "an operand changed (order %zu)", n);
    free(sv); ldm_free(Q1); ldm_free(Q2); ldm_free(B); ldm_free(V);
    DelMatrix(&m); DelMatrix(&m0); DelDVector(&v); DelDVector(&v0); DelDVector(&res);
  }
  vh_obs("transform_kernel_cases", 1);
  vh_obs("kernel_calls", 6);
}

static void run_case(vh_ctx *c)
{
  int kind = (int)(c->idx % 12), i;
  for (i = 0; i < NMX; i++) g_mx[i] = 0;
  if (kind <= 4) case_product(c, c->idx / 12 * 5 + kind);
  else if (kind <= 6) case_matrix(c);
  else if (kind == 7) case_vector(c);
  else if (kind <= 9) case_tensor(c);
  else if (kind == 10) case_matstat(c);
  else case_transform(c);
  for (i = 0; i < NMX; i++) if (g_mx[i] > 0) vh_max(MXNAME[i], g_mx[i]);
}

const vh_driver VH_DRIVER = { "C11", ncases, run_case, NULL, 60 };
