"""pyside.py - runs inside a fresh interpreter with the UNMODIFIED binding modules of /repo.

modes:
  discover <pkgparent>                       -> JSON: structures and function declarations made by the package
  structs  <pkgparent> <real.so> <helper.so> <expect.json>   -> JSON: mismatches of the C-writes/Python-reads monitor
  calls    <pkgparent> <stub.so> <plan.json> <logdir> <pattern> -> JSON: what Python sent / got back per function

The stock libscientific.loadlibrary insists on private copies of libblas/liblapack next to the package, so a
substitute module is injected in sys.modules; every other module of the package is imported as it is.
"""
import sys, os, json, ctypes, types, importlib, glob


def inject(loader):
    pkgparent = sys.argv[2]
    sys.path.insert(0, pkgparent)
    pkg = types.ModuleType('libscientific')
    pkg.__path__ = [os.path.join(pkgparent, 'libscientific')]
    sys.modules['libscientific'] = pkg            # do not run __init__ (it imports a subset only); import every module below
    ll = types.ModuleType('libscientific.loadlibrary')
    ll.load_libscientific_library = loader
    sys.modules['libscientific.loadlibrary'] = ll
    pkg.loadlibrary = ll
    mods = {}
    names = sorted(os.path.basename(f)[:-3] for f in glob.glob(os.path.join(pkgparent, 'libscientific', '*.py')))
    for n in names:
        if n in ('__init__', 'loadlibrary'):
            continue
        mods[n] = importlib.import_module('libscientific.' + n)
    return mods


def describe(t):
    """JSON description of a ctypes type"""
    if t is None:
        return {'k': 'void'}
    if isinstance(t, type) and issubclass(t, ctypes.Structure):
        return {'k': 'struct', 'name': t.__name__}
    if isinstance(t, type) and issubclass(t, ctypes._Pointer):
        return {'k': 'ptr', 'to': describe(t._type_)}
    if t is ctypes.c_char_p:
        return {'k': 'ptr', 'to': {'k': 'prim', 'name': 'c_char', 'size': 1, 'fmt': 'c'}}
    if t is ctypes.c_void_p:
        return {'k': 'ptr', 'to': {'k': 'void'}}
    if isinstance(t, type) and issubclass(t, ctypes._SimpleCData):
        return {'k': 'prim', 'name': t.__name__, 'size': ctypes.sizeof(t), 'fmt': t._type_}
    if isinstance(t, type) and hasattr(t, '_argtypes_'):      # CFUNCTYPE
        return {'k': 'funcptr'}
    return {'k': 'unknown', 'repr': repr(t)}


class FuncRec:
    def __init__(self):
        object.__setattr__(self, 'd', {})

    def __setattr__(self, k, v):
        self.d[k] = v

    def __call__(self, *a):
        raise RuntimeError('library function called at import time')


class Recorder:
    def __init__(self):
        object.__setattr__(self, 'funcs', {})

    def __getattr__(self, name):
        if name.startswith('__'):
            raise AttributeError(name)
        return self.funcs.setdefault(name, FuncRec())


def structures(mods):
    out = {}
    for mn, m in mods.items():
        for k, v in vars(m).items():
            if isinstance(v, type) and issubclass(v, ctypes.Structure) and v.__module__ == m.__name__:
                out[k] = {'module': mn, 'size': ctypes.sizeof(v),
                          'fields': [{'name': f[0], 'type': describe(f[1]), 'offset': getattr(v, f[0]).offset, 'size': getattr(v, f[0]).size} for f in v._fields_]}
    return out


def mode_discover():
    """every call of the loader returns a NEW recording handle, as the real loader returns a new ctypes.CDLL: argtypes/restype
    declarations live on the handle they were made on, so what one module declares does not hold for a call made through the
    handle of another module.  Per module: the functions declared on its handle(s) (observed at import) and the functions
    referenced through them anywhere in the module (attribute references on the handle names in the module's syntax tree)."""
    import ast
    recs = []

    def loader():
        r = Recorder()
        recs.append(r)
        return r
    mods = inject(loader)
    funcs = {}
    per_module = {}
    for mn, m in mods.items():
        handles = [k for k, v in vars(m).items() if isinstance(v, Recorder)]
        declared = {}
        for h in handles:
            for name, fr in vars(m)[h].funcs.items():
                declared.setdefault(name, set()).update(fr.d.keys())
        used = set()
        try:
            tree = ast.parse(open(m.__file__).read())
            for node in ast.walk(tree):
                if isinstance(node, ast.Attribute) and isinstance(node.value, ast.Name) and node.value.id in handles:
                    used.add(node.attr)
        except Exception as e:               # a module the parser cannot read: reported, not judged
            used = None
        per_module[mn] = {'handles': handles, 'declared': {k: sorted(v) for k, v in declared.items()}, 'used': sorted(used) if used is not None else None}
    for rec in recs:
        for name, fr in rec.funcs.items():
            e = funcs.setdefault(name, {'declared': []})
            e['declared'] = sorted(set(e['declared']) | set(fr.d.keys()))
            if 'argtypes' in fr.d and 'argtypes' not in e:
                e['argtypes'] = [describe(t) for t in (fr.d['argtypes'] or [])]
            if 'restype' in fr.d and 'restype' not in e:
                e['restype'] = describe(fr.d['restype'])
    json.dump({'structures': structures(mods), 'functions': funcs, 'per_module': per_module}, sys.stdout)


# ----------------------------------------------------------------------------- struct monitor
def read_fp(val, cat, k, S):
    """read, through the Python-declared type of `val`, the fingerprint the C helper wrote for C category `cat`
    of member index k; returns a list of mismatch strings"""
    bad = []

    def need(cond, msg):
        if not cond:
            bad.append(msg)
        return cond
    try:
        if cat == 'size_t':
            need(isinstance(val, int) and val == S['size_t'](k), 'size_t member read as %r, C wrote %d' % (val, S['size_t'](k)))
        elif cat == 'int':
            need(isinstance(val, int) and val == -(1000 + k), 'int member read as %r, C wrote %d' % (val, -(1000 + k)))
        elif cat == 'double':
            need(isinstance(val, float) and val == 1000.5 + k, 'double member read as %r, C wrote %r' % (val, 1000.5 + k))
        elif cat == 'double**':
            for i in range(2):
                for j in range(3):
                    need(val[i][j] == 1000.0 * k + 10 * i + j + 0.5, 'double** cell [%d][%d] read as %r' % (i, j, val[i][j]))
        elif cat == 'double*':
            for i in range(4):
                need(val[i] == 1000.0 * k + i + 0.25, 'double* element %d read as %r' % (i, val[i]))
        elif cat == 'size_t*':
            for i in range(4):
                need(val[i] == 0x5000000000 + 16 * k + i, 'size_t* element %d read as %r' % (i, val[i]))
        elif cat == 'int*':
            for i in range(4):
                need(val[i] == -(70 + 16 * k + i), 'int* element %d read as %r' % (i, val[i]))
        elif cat == 'char**':
            for i in range(2):
                s = ctypes.cast(val[i], ctypes.c_char_p).value
                need(s == ('s%d-%d' % (k, i)).encode(), 'char** element %d read as %r' % (i, s))
        elif cat == 'matrix*':
            m = val.contents
            need(m.row == 2 and m.col == 3, 'matrix* pointee read with shape %rx%r, C wrote 2x3' % (m.row, m.col))
            for i in range(2):
                for j in range(3):
                    need(m.data[i][j] == 1000.0 * k + 10 * i + j + 0.5, 'matrix* cell [%d][%d] read as %r' % (i, j, m.data[i][j]))
        elif cat in ('dvector*', 'uivector*', 'ivector*'):
            v = val.contents
            need(v.size == 4, '%s pointee read with size %r, C wrote 4' % (cat, v.size))
            for i in range(4):
                want = {'dvector*': 1000.0 * k + i + 0.25, 'uivector*': 0x5000000000 + 16 * k + i, 'ivector*': -(70 + 16 * k + i)}[cat]
                need(v.data[i] == want and type(v.data[i]) is type(want), '%s element %d read as %r, C wrote %r' % (cat, i, v.data[i], want))
        elif cat == 'strvector*':
            v = val.contents
            need(v.size == 2, 'strvector* pointee size read as %r' % v.size)
            for i in range(2):
                s = ctypes.cast(v.data[i], ctypes.c_char_p).value
                need(s == ('s%d-%d' % (k, i)).encode(), 'strvector* element %d read as %r' % (i, s))
        elif cat == 'tensor*':
            t = val.contents
            need(t.order == 2, 'tensor* pointee order read as %r, C wrote 2' % t.order)
            for b in range(2):
                m = t.m[b].contents
                need(m.row == 2 and m.col == 3, 'tensor* block %d read with shape %rx%r' % (b, m.row, m.col))
                need(m.data[1][2] == 1000.0 * (k + 50 * (b + 1)) + 12.5, 'tensor* block %d cell read as %r' % (b, m.data[1][2]))
        elif cat == 'matrix**':
            for b in range(2):
                m = val[b].contents
                need(m.row == 2 and m.col == 3, 'matrix** element %d read with shape %rx%r' % (b, m.row, m.col))
                need(m.data[1][2] == 1000.0 * (k + 50 * (b + 1)) + 12.5, 'matrix** element %d cell read as %r' % (b, m.data[1][2]))
        elif cat == 'dvectorlist*':
            l = val.contents
            fields = [f[0] for f in type(l)._fields_]
            need(getattr(l, fields[1]) == 2, 'dvectorlist* pointee size read as %r, C wrote 2' % getattr(l, fields[1]))
            for b in range(2):
                v = getattr(l, fields[0])[b].contents
                need(v.size == 4 and v.data[3] == 1000.0 * (k + 50 * (b + 1)) + 3.25, 'dvectorlist* element %d read as size %r value %r' % (b, v.size, v.data[3]))
        elif cat == 'dvector**':
            for b in range(2):
                v = val[b].contents
                need(v.size == 4 and v.data[3] == 1000.0 * (k + 50 * (b + 1)) + 3.25, 'dvector** element %d read as size %r value %r' % (b, v.size, v.data[3]))
        else:
            bad.append('no reader for C category %s' % cat)
    except Exception as e:       # wrong pointer depth / wrong struct: attribute or type errors
        bad.append('%s member cannot be read through the Python declaration: %s: %s' % (cat, type(e).__name__, e))
    return bad


def mode_structs():
    real, helper, expect = sys.argv[3], sys.argv[4], json.load(open(sys.argv[5]))
    lib = ctypes.CDLL(real, mode=ctypes.RTLD_GLOBAL)
    mods = inject(lambda: lib)
    hl = ctypes.CDLL(helper)
    S = {'size_t': lambda k: 0xA1B2C3D4E5F60700 + k}
    res = []
    classes = {}
    for m in mods.values():
        for kname, v in vars(m).items():
            if isinstance(v, type) and issubclass(v, ctypes.Structure):
                classes[kname] = v
    for pyname, ex in expect.items():
        cls = classes[pyname]
        mk = getattr(hl, 'mk_' + ex['cname'])
        mk.restype = ctypes.c_void_p
        szf = getattr(hl, 'sizeof_' + ex['cname'])
        szf.restype = ctypes.c_size_t
        obj = ctypes.cast(mk(), ctypes.POINTER(cls)).contents
        r = {'struct': pyname, 'cname': ex['cname'], 'reads': 0, 'bad': []}
        if ctypes.sizeof(cls) != szf():
            r['bad'].append({'field': '*', 'why': 'sizeof: Python %d, C %d' % (ctypes.sizeof(cls), szf())})
        pf = cls._fields_
        if len(pf) != len(ex['members']):
            r['bad'].append({'field': '*', 'why': 'Python declares %d fields, the C structure has %d members (%s)' % (len(pf), len(ex['members']), ', '.join(m['name'] for m in ex['members']))})
        cnames = [m['name'] for m in ex['members']]
        for k, f in enumerate(pf):
            # a Python field that carries the name of a C member must sit at that member's position: two adjacent members of
            # the same type can be swapped without any byte of the layout changing, only the name -> offset map differs
            if f[0] in cnames and cnames.index(f[0]) != k:
                r['bad'].append({'field': f[0], 'index': k, 'cmember': f[0], 'ctype': ex['members'][cnames.index(f[0])]['ctype'],
                                 'why': 'Python declares field %s at position %d (offset %d), the C member %s is at position %d (offset %d)' % (
                                     f[0], k, getattr(cls, f[0]).offset, f[0], cnames.index(f[0]), ex['members'][cnames.index(f[0])]['offset'])})
            if k >= len(ex['members']):
                break
            cm = ex['members'][k]
            val = getattr(obj, f[0])
            bad = read_fp(val, cm['cat'], k, S)
            r['reads'] += 1
            for b in bad:
                r['bad'].append({'field': f[0], 'index': k, 'cmember': cm['name'], 'ctype': cm['ctype'], 'why': b})
        res.append(r)
    json.dump(res, sys.stdout)


# ----------------------------------------------------------------------------- call monitor
def build_arg(t, i, pat, keep):
    """value of Python-declared ctypes type t for parameter i; returns (ctypes value, expectation tuple)"""
    P = ctypes.POINTER
    mods = sys.modules
    vect = mods['libscientific.vector']; mx = mods['libscientific.matrix']; tns = mods['libscientific.tensor']; vl = mods['libscientific.vectlist']

    def mk_matrix(tag):
        rows = (ctypes.POINTER(ctypes.c_double) * 2)()
        for r in range(2):
            row = (ctypes.c_double * 3)(*[1000.0 * tag + 10 * r + j + 0.5 for j in range(3)])
            keep.append(row)
            rows[r] = ctypes.cast(row, ctypes.POINTER(ctypes.c_double))
        keep.append(rows)
        m = mx.MATRIX()
        fn = [f[0] for f in mx.MATRIX._fields_]
        setattr(m, fn[0], ctypes.cast(rows, type(getattr(m, fn[0]))))
        setattr(m, fn[1], 2); setattr(m, fn[2], 3)
        keep.append(m)
        return m

    def mk_vec(cls, ctype, vals):
        arr = (ctype * 4)(*vals)
        keep.append(arr)
        v = cls()
        fn = [f[0] for f in cls._fields_]
        setattr(v, fn[0], ctypes.cast(arr, type(getattr(v, fn[0]))))
        setattr(v, fn[1], 4)
        keep.append(v)
        return v
    tag = i + 1 + 7 * pat
    if t is ctypes.c_size_t or t is ctypes.c_ulong or t is ctypes.c_uint64:
        v = (0xA1B2C3D4E5F60000 + 256 * pat + i) & 0xFFFFFFFFFFFFFFFF
        return t(v), ('size_t', v)
    if t is ctypes.c_int:
        v = -(1000 + 16 * pat + i)
        return t(v), ('int', v)
    if t is ctypes.c_uint:
        v = 0x87650000 + i
        return t(v), ('uint', v)
    if t is ctypes.c_double:
        v = 1000.5 + i + 16 * pat
        return t(v), ('double', v)
    if t is ctypes.c_char_p:
        s = ('probe%d-%d' % (i, pat)).encode()
        return t(s), ('char*', s.decode())
    if t is ctypes.c_wchar_p:
        # a wide-character string where C expects char *: C sees 4-byte units (the first character, then a NUL byte)
        sw = 'probe%d-%d' % (i, pat)
        return t(sw), ('wchar*', sw)
    if t is ctypes.c_void_p:
        return t(0), ('ptr', 0)
    if isinstance(t, type) and issubclass(t, ctypes._Pointer):
        depth = 0
        base = t
        while isinstance(base, type) and issubclass(base, ctypes._Pointer):
            base = base._type_; depth += 1
        if base is mx.MATRIX:
            obj = mk_matrix(tag); exp = ('matrix', 2, 3, 1000.0 * tag + 0.5)
        elif base is vect.DVECTOR:
            obj = mk_vec(vect.DVECTOR, ctypes.c_double, [1000.0 * tag + j + 0.25 for j in range(4)]); exp = ('dvector', 4, 1000.0 * tag + 0.25)
        elif base is vect.UIVECTOR:
            obj = mk_vec(vect.UIVECTOR, ctypes.c_size_t, [0x5000000000 + 16 * tag + j for j in range(4)]); exp = ('uivector', 4, 0x5000000000 + 16 * tag)
        elif base is vect.IVECTOR:
            obj = mk_vec(vect.IVECTOR, ctypes.c_int, [-(70 + 16 * tag + j) for j in range(4)]); exp = ('ivector', 4, -(70 + 16 * tag))
        elif base is vect.STRVECTOR:
            s0 = ctypes.create_string_buffer(('s%d' % tag).encode()); keep.append(s0)
            arr = (ctypes.POINTER(ctypes.c_char) * 1)(ctypes.cast(s0, ctypes.POINTER(ctypes.c_char))); keep.append(arr)
            obj = vect.STRVECTOR(); fn = [f[0] for f in vect.STRVECTOR._fields_]
            setattr(obj, fn[0], ctypes.cast(arr, type(getattr(obj, fn[0])))); setattr(obj, fn[1], 1); keep.append(obj)
            exp = ('strvector', 1, 's%d' % tag)
        elif base is tns.TENSOR:
            m0 = mk_matrix(tag)
            arr = (ctypes.POINTER(mx.MATRIX) * 1)(ctypes.pointer(m0)); keep.append(arr)
            obj = tns.TENSOR(); fn = [f[0] for f in tns.TENSOR._fields_]
            setattr(obj, fn[0], ctypes.cast(arr, type(getattr(obj, fn[0])))); setattr(obj, fn[1], 1); keep.append(obj)
            exp = ('tensor', 1, 2, 3, 1000.0 * tag + 0.5)
        elif base is vl.DVECTLIST:
            v0 = mk_vec(vect.DVECTOR, ctypes.c_double, [1000.0 * tag + j + 0.25 for j in range(4)])
            arr = (ctypes.POINTER(vect.DVECTOR) * 1)(ctypes.pointer(v0)); keep.append(arr)
            obj = vl.DVECTLIST(); fn = [f[0] for f in vl.DVECTLIST._fields_]
            setattr(obj, fn[0], ctypes.cast(arr, type(getattr(obj, fn[0])))); setattr(obj, fn[1], 1); keep.append(obj)
            exp = ('dvectorlist', 1, 4, 1000.0 * tag + 0.25)
        elif isinstance(base, type) and issubclass(base, ctypes.Structure):
            # model structures: first member is checked by the struct monitor; here only identity of the pointee matters
            obj = base(); keep.append(obj)
            raw = (ctypes.c_ubyte * ctypes.sizeof(base)).from_buffer(obj)
            for b in range(min(8, ctypes.sizeof(base))):
                raw[b] = (0x40 + tag + b) & 0xFF
            exp = ('model:' + base.__name__, int.from_bytes(bytes(raw[0:8]), 'little'))
        elif base is ctypes.c_double:
            obj = ctypes.c_double(2000.5 + tag); keep.append(obj); exp = ('double', 2000.5 + tag)
        elif base is ctypes.c_size_t:
            obj = ctypes.c_size_t(0xB1B2C3D4E5F60000 + tag); keep.append(obj); exp = ('size_t', 0xB1B2C3D4E5F60000 + tag)
        elif base is ctypes.c_int:
            obj = ctypes.c_int(-(2000 + tag)); keep.append(obj); exp = ('int', -(2000 + tag))
        elif base is ctypes.c_char:
            obj = ctypes.create_string_buffer(('probe%d' % tag).encode()); keep.append(obj)
            return ctypes.cast(obj, t), ('char*', 'probe%d' % tag)
        else:
            return None, ('unsupported', repr(t))
        p = ctypes.pointer(obj); keep.append(p)
        for _ in range(depth - 1):
            p = ctypes.pointer(p); keep.append(p)
        return ctypes.cast(p, t), ('ptr%d' % depth,) + exp
    return None, ('unsupported', repr(t))


def mode_calls():
    stub, plan, logdir, pat = sys.argv[3], json.load(open(sys.argv[4])), sys.argv[5], int(sys.argv[6])
    names = set()

    class Proxy:
        def __init__(self, lib):
            object.__setattr__(self, 'lib', lib)

        def __getattr__(self, n):
            names.add(n)
            return getattr(self.lib, n)
    lib = ctypes.CDLL(stub)
    mods = inject(lambda: Proxy(lib))
    out = {}
    for fname in plan['functions']:
        f = getattr(lib, fname)
        rec = {'sent': [], 'ret': None, 'status': 'ok'}
        argtypes = f.argtypes
        if argtypes is None:     # "argtypes = None": no conversion declared; equivalent to no parameters for a call without arguments
            argtypes = []
        logf = os.path.join(logdir, '%s.%d.log' % (fname, pat))
        r, w = os.pipe()
        pid = os.fork()
        if pid == 0:
            os.close(r)
            try:
                os.environ['C20_LOG'] = logf
                ctypes.CDLL(None).setenv(b'C20_LOG', logf.encode(), 1)
                keep = []
                args = []
                sent = []
                for i, t in enumerate(argtypes):
                    v, e = build_arg(t, i, pat, keep)
                    sent.append(list(e))
                    args.append(v)
                res = {'sent': sent}
                if any(a is None for a in args):
                    res['status'] = 'unsupported-argtype'
                else:
                    ret = f(*args)
                    rt = f.restype
                    if rt is None:
                        res['ret'] = ['void']
                    elif isinstance(rt, type) and issubclass(rt, ctypes._Pointer):
                        base = rt._type_
                        fn = [x[0] for x in base._fields_] if issubclass(base, ctypes.Structure) else []
                        try:
                            c = ret.contents
                            res['ret'] = ['ptr:' + base.__name__, int(getattr(c, fn[1])) if len(fn) > 1 else None]
                        except Exception as e:
                            res['ret'] = ['ptr:' + base.__name__, 'unreadable: %s' % e]
                    else:
                        res['ret'] = [getattr(rt, '__name__', str(rt)), ret if not isinstance(ret, bytes) else ret.decode(errors='replace')]
                    res['status'] = 'ok'
                os.write(w, json.dumps(res).encode())
            except BaseException as e:
                os.write(w, json.dumps({'status': 'python-exception', 'why': '%s: %s' % (type(e).__name__, e), 'sent': []}).encode())
            os._exit(0)
        os.close(w)
        data = b''
        while True:
            chunk = os.read(r, 65536)
            if not chunk:
                break
            data += chunk
        os.close(r)
        _, st = os.waitpid(pid, 0)
        if data:
            rec = json.loads(data.decode())
        else:
            rec = {'status': 'crash', 'sent': []}
        if os.WIFSIGNALED(st):
            rec['status'] = 'crash-signal-%d' % os.WTERMSIG(st)
        rec['log'] = open(logf).read().splitlines() if os.path.exists(logf) else []
        out[fname] = rec
    json.dump({'calls': out, 'bound': sorted(names)}, sys.stdout)


if __name__ == '__main__':
    {'discover': mode_discover, 'structs': mode_structs, 'calls': mode_calls}[sys.argv[1]]()
