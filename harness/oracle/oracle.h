/* oracle.h - independent long-double reference implementations (no code shared with /repo,
 * no LAPACK).  Matrices are dense row-major: a[i*c + j]. */
#ifndef ORACLE_H
#define ORACLE_H
#include <stddef.h>
#include <stdint.h>

typedef long double ld;

typedef struct { size_t r, c; ld *a; } ldm;

#define LM(m,i,j) ((m)->a[(size_t)(i)*(m)->c + (size_t)(j)])

#define OR_MISSING 99999999.0L
int or_is_missing(double v);       /* same coding window as the library documents: |v-MISSING| < 0.1 */

ldm *ldm_new(size_t r, size_t c);                 /* zero-filled */
void ldm_free(ldm *m);
ldm *ldm_copy(const ldm *m);
ldm *ldm_from_rows(double **rows, size_t r, size_t c);   /* from a library matrix' data pointer */
ldm *ldm_mul(const ldm *a, const ldm *b);         /* naive triple loop */
ldm *ldm_t(const ldm *a);
ldm *ldm_ata(const ldm *a);                       /* A^T A */
ld ldm_frob(const ldm *a);
ld ldm_maxabs(const ldm *a);
ld ldm_maxdiff(const ldm *a, const ldm *b);

/* symmetric eigen-decomposition by cyclic Jacobi; eigenvalues sorted descending,
   eigenvectors in the columns of V (n x n).  Returns number of sweeps. */
int or_jacobi_eig(const ldm *A, ld *evals, ldm *V);
/* singular values (descending) by one-sided Jacobi; U (r x min) and V (c x min) optional (may be NULL) */
void or_svd(const ldm *A, ld *sv, ldm *U, ldm *V);
ld or_cond(const ldm *A);                          /* sigma_max/sigma_min (inf when singular) */
size_t or_rank(const ldm *A, ld reltol);           /* number of singular values > reltol*sigma_max */

/* least squares min ||A X - B||_F by Householder QR with column pivoting; A (m x n, m>=n, full rank),
   B (m x k); returns X (n x k) or NULL when rank deficient */
ldm *or_lstsq(const ldm *A, const ldm *B);
/* LU with partial pivoting. returns 0 when singular */
int or_lu_solve(const ldm *A, const ldm *B, ldm **X);
int or_lu_inverse(const ldm *A, ldm **inv);
ld or_lu_det(const ldm *A);
ld or_cofactor_det(const ldm *A);                  /* n <= 9 */

/* ---- preprocessing oracle (the seven options -1..5 with MISSING handling) ----
   in: X (r x c doubles, may contain MISSING); out: mean[c], scale[c] (sizes 0 when the option stores none),
   T (r x c): transformed, cells that were MISSING are reported as NaN in T.
   nmean/nscale tell how many entries the option stores. zero_guard: |scale| < guard => column := 0 */
void or_preprocess_fit(const ldm *X, int type, ld *mean, ld *scale, size_t *nmean, size_t *nscale, ldm *T);
/* column statistics over non-missing cells */
void or_col_stats(const ldm *X, size_t j, ld *mean, ld *sd, ld *rms, ld *min, ld *max, size_t *n);

/* ---- distances ---- */
ld or_dist(const ld *x, const ld *y, size_t n, int metric); /* 0 euclid 1 sq-euclid 2 manhattan 3 cosine */

/* ---- natural cubic spline: given knots x[0..n-1] increasing and y, second derivatives M[0..n-1] ---- */
void or_natural_spline(const ld *x, const ld *y, size_t n, ld *M);
ld or_spline_eval(const ld *x, const ld *y, const ld *M, size_t n, ld t);

/* ---- bit-exact replica of the library's seeding LCG + xorshift128 output function ---- */
uint32_t or_lcg(uint32_t s);                       /* generate_seed */
uint32_t or_xs_out(uint32_t state);                /* value produced from generator state `state` */

/* random orthogonal matrix (n x n) from gaussian entries via modified Gram-Schmidt; g() supplies N(0,1) */
void or_random_orthogonal(ldm *Q, double (*g)(void *), void *arg);
#endif
