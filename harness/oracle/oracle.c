/* oracle.c - long double reference implementations; see oracle.h */
#include "oracle.h"
#include <math.h>
#include <stdlib.h>
#include <string.h>
#include <stdio.h>

int or_is_missing(double v) { return (v > 99999999.0 - 0.1) && (v < 99999999.0 + 0.1); }

static void *xa(size_t n)
{
  void *p = calloc(n ? n : 1, 1);
  if (!p) { fprintf(stderr, "oracle: out of memory\n"); _Exit(2); }
  return p;
}

ldm *ldm_new(size_t r, size_t c)
{
  ldm *m = xa(sizeof *m);
  m->r = r; m->c = c; m->a = xa(sizeof(ld) * r * c);
  return m;
}
void ldm_free(ldm *m) { if (m) { free(m->a); free(m); } }
ldm *ldm_copy(const ldm *m)
{
  ldm *n = ldm_new(m->r, m->c);
  memcpy(n->a, m->a, sizeof(ld) * m->r * m->c);
  return n;
}
ldm *ldm_from_rows(double **rows, size_t r, size_t c)
{
  ldm *m = ldm_new(r, c);
  size_t i, j;
  for (i = 0; i < r; i++) for (j = 0; j < c; j++) LM(m, i, j) = rows[i][j];
  return m;
}
ldm *ldm_mul(const ldm *a, const ldm *b)
{
  ldm *r = ldm_new(a->r, b->c);
  size_t i, j, k;
  for (i = 0; i < a->r; i++)
    for (j = 0; j < b->c; j++) {
      ld s = 0;
      for (k = 0; k < a->c; k++) s += LM(a, i, k) * LM(b, k, j);
      LM(r, i, j) = s;
    }
  return r;
}
ldm *ldm_t(const ldm *a)
{
  ldm *r = ldm_new(a->c, a->r);
  size_t i, j;
  for (i = 0; i < a->r; i++) for (j = 0; j < a->c; j++) LM(r, j, i) = LM(a, i, j);
  return r;
}
ldm *ldm_ata(const ldm *a)
{
  ldm *r = ldm_new(a->c, a->c);
  size_t i, j, k;
  for (i = 0; i < a->c; i++)
    for (j = i; j < a->c; j++) {
      ld s = 0;
      for (k = 0; k < a->r; k++) s += LM(a, k, i) * LM(a, k, j);
      LM(r, i, j) = s; LM(r, j, i) = s;
    }
  return r;
}
ld ldm_frob(const ldm *a)
{
  ld s = 0; size_t i;
  for (i = 0; i < a->r * a->c; i++) s += a->a[i] * a->a[i];
  return sqrtl(s);
}
ld ldm_maxabs(const ldm *a)
{
  ld s = 0; size_t i;
  for (i = 0; i < a->r * a->c; i++) if (fabsl(a->a[i]) > s) s = fabsl(a->a[i]);
  return s;
}
ld ldm_maxdiff(const ldm *a, const ldm *b)
{
  ld s = 0; size_t i;
  if (a->r != b->r || a->c != b->c) return INFINITY;
  for (i = 0; i < a->r * a->c; i++) {
    ld d = fabsl(a->a[i] - b->a[i]);
    if (d != d) return INFINITY;
    if (d > s) s = d;
  }
  return s;
}

/* ------------------------------------------------------------ Jacobi eigen */
int or_jacobi_eig(const ldm *A0, ld *evals, ldm *V)
{
  size_t n = A0->r, i, j, k, p, q;
  ldm *A = ldm_copy(A0);
  int sweep;
  for (i = 0; i < n; i++) for (j = 0; j < n; j++) LM(V, i, j) = (i == j);
  for (sweep = 0; sweep < 100; sweep++) {
    ld off = 0, diag = 0;
    for (i = 0; i < n; i++) { diag += LM(A, i, i) * LM(A, i, i); for (j = i + 1; j < n; j++) off += LM(A, i, j) * LM(A, i, j); }
    if (off <= 1e-38L * (diag + off) || off == 0) break;
    for (p = 0; p + 1 < n; p++)
      for (q = p + 1; q < n; q++) {
        ld apq = LM(A, p, q), app, aqq, theta, t, c, s;
        if (apq == 0) continue;
        app = LM(A, p, p); aqq = LM(A, q, q);
        theta = (aqq - app) / (2 * apq);
        t = (theta >= 0 ? 1 : -1) / (fabsl(theta) + sqrtl(theta * theta + 1));
        c = 1 / sqrtl(t * t + 1); s = t * c;
        for (k = 0; k < n; k++) {
          ld akp = LM(A, k, p), akq = LM(A, k, q);
          LM(A, k, p) = c * akp - s * akq; LM(A, k, q) = s * akp + c * akq;
        }
        for (k = 0; k < n; k++) {
          ld apk = LM(A, p, k), aqk = LM(A, q, k);
          LM(A, p, k) = c * apk - s * aqk; LM(A, q, k) = s * apk + c * aqk;
        }
        for (k = 0; k < n; k++) {
          ld vkp = LM(V, k, p), vkq = LM(V, k, q);
          LM(V, k, p) = c * vkp - s * vkq; LM(V, k, q) = s * vkp + c * vkq;
        }
      }
  }
  for (i = 0; i < n; i++) evals[i] = LM(A, i, i);
  /* sort descending (selection) */
  for (i = 0; i + 1 < n; i++) {
    size_t m = i;
    for (j = i + 1; j < n; j++) if (evals[j] > evals[m]) m = j;
    if (m != i) {
      ld t = evals[i]; evals[i] = evals[m]; evals[m] = t;
      for (k = 0; k < n; k++) { ld v = LM(V, k, i); LM(V, k, i) = LM(V, k, m); LM(V, k, m) = v; }
    }
  }
  ldm_free(A);
  return sweep;
}

/* ------------------------------------------------------------ one-sided Jacobi SVD */
static void svd_tall(const ldm *A, ld *sv, ldm *U, ldm *V)
{
  /* A is r x c with r >= c */
  size_t r = A->r, c = A->c, i, j, k;
  ldm *W = ldm_copy(A), *Vv = ldm_new(c, c);
  int sweep;
  size_t *ord;
  for (i = 0; i < c; i++) LM(Vv, i, i) = 1;
  for (sweep = 0; sweep < 100; sweep++) {
    int rotated = 0;
    for (i = 0; i + 1 < c; i++)
      for (j = i + 1; j < c; j++) {
        ld al = 0, be = 0, ga = 0, zeta, t, cs, sn;
        for (k = 0; k < r; k++) { al += LM(W, k, i) * LM(W, k, i); be += LM(W, k, j) * LM(W, k, j); ga += LM(W, k, i) * LM(W, k, j); }
        if (ga == 0 || fabsl(ga) <= 1e-19L * sqrtl(al * be)) continue;
        rotated = 1;
        zeta = (be - al) / (2 * ga);
        t = (zeta >= 0 ? 1 : -1) / (fabsl(zeta) + sqrtl(1 + zeta * zeta));
        cs = 1 / sqrtl(1 + t * t); sn = cs * t;
        for (k = 0; k < r; k++) { ld a = LM(W, k, i), b = LM(W, k, j); LM(W, k, i) = cs * a - sn * b; LM(W, k, j) = sn * a + cs * b; }
        for (k = 0; k < c; k++) { ld a = LM(Vv, k, i), b = LM(Vv, k, j); LM(Vv, k, i) = cs * a - sn * b; LM(Vv, k, j) = sn * a + cs * b; }
      }
    if (!rotated) break;
  }
  ord = xa(sizeof(size_t) * c);
  for (i = 0; i < c; i++) { ld s = 0; for (k = 0; k < r; k++) s += LM(W, k, i) * LM(W, k, i); sv[i] = sqrtl(s); ord[i] = i; }
  for (i = 0; i + 1 < c; i++) {
    size_t m = i;
    for (j = i + 1; j < c; j++) if (sv[ord[j]] > sv[ord[m]]) m = j;
    k = ord[i]; ord[i] = ord[m]; ord[m] = k;
  }
  {
    ld *s2 = xa(sizeof(ld) * c);
    for (i = 0; i < c; i++) s2[i] = sv[ord[i]];
    for (i = 0; i < c; i++) sv[i] = s2[i];
    free(s2);
  }
  if (U) for (i = 0; i < c; i++) for (k = 0; k < r; k++) LM(U, k, i) = sv[i] > 0 ? LM(W, k, ord[i]) / sv[i] : 0;
  if (V) for (i = 0; i < c; i++) for (k = 0; k < c; k++) LM(V, k, i) = LM(Vv, k, ord[i]);
  free(ord); ldm_free(W); ldm_free(Vv);
}
void or_svd(const ldm *A, ld *sv, ldm *U, ldm *V)
{
  if (A->r >= A->c) svd_tall(A, sv, U, V);
  else { ldm *T = ldm_t(A); svd_tall(T, sv, V, U); ldm_free(T); }
}
ld or_cond(const ldm *A)
{
  size_t n = A->r < A->c ? A->r : A->c;
  ld *sv, k;
  if (n == 0) return 1;
  sv = xa(sizeof(ld) * n);
  or_svd(A, sv, NULL, NULL);
  k = sv[n - 1] > 0 ? sv[0] / sv[n - 1] : INFINITY;
  free(sv);
  return k;
}
size_t or_rank(const ldm *A, ld reltol)
{
  size_t n = A->r < A->c ? A->r : A->c, i, rk = 0;
  ld *sv;
  if (n == 0) return 0;
  sv = xa(sizeof(ld) * n);
  or_svd(A, sv, NULL, NULL);
  for (i = 0; i < n; i++) if (sv[i] > reltol * sv[0] && sv[i] > 0) rk++;
  free(sv);
  return rk;
}

/* ------------------------------------------------------------ Householder QR least squares */
ldm *or_lstsq(const ldm *A0, const ldm *B0)
{
  size_t m = A0->r, n = A0->c, kk = B0->c, i, j, k;
  ldm *A, *B, *X;
  ld anorm;
  if (m < n || B0->r != m) return NULL;
  A = ldm_copy(A0); B = ldm_copy(B0);
  anorm = ldm_frob(A);
  for (k = 0; k < n; k++) {
    ld nrm = 0, alpha, vnorm2;
    ld *v = xa(sizeof(ld) * m);
    for (i = k; i < m; i++) nrm += LM(A, i, k) * LM(A, i, k);
    nrm = sqrtl(nrm);
    if (nrm <= 1e-17L * anorm) { free(v); ldm_free(A); ldm_free(B); return NULL; }
    alpha = LM(A, k, k) > 0 ? -nrm : nrm;
    for (i = k; i < m; i++) v[i] = LM(A, i, k);
    v[k] -= alpha;
    vnorm2 = 0; for (i = k; i < m; i++) vnorm2 += v[i] * v[i];
    if (vnorm2 > 0) {
      for (j = k; j < n; j++) {
        ld s = 0; for (i = k; i < m; i++) s += v[i] * LM(A, i, j);
        s = 2 * s / vnorm2;
        for (i = k; i < m; i++) LM(A, i, j) -= s * v[i];
      }
      for (j = 0; j < kk; j++) {
        ld s = 0; for (i = k; i < m; i++) s += v[i] * LM(B, i, j);
        s = 2 * s / vnorm2;
        for (i = k; i < m; i++) LM(B, i, j) -= s * v[i];
      }
    }
    free(v);
  }
  X = ldm_new(n, kk);
  for (j = 0; j < kk; j++)
    for (i = n; i-- > 0;) {
      ld s = LM(B, i, j);
      for (k = i + 1; k < n; k++) s -= LM(A, i, k) * LM(X, k, j);
      LM(X, i, j) = s / LM(A, i, i);
    }
  ldm_free(A); ldm_free(B);
  return X;
}

/* ------------------------------------------------------------ LU */
static int lu_factor(ldm *A, size_t *piv, int *sign)
{
  size_t n = A->r, i, j, k;
  ld amax = ldm_maxabs(A);
  *sign = 1;
  for (k = 0; k < n; k++) {
    size_t p = k; ld best = fabsl(LM(A, k, k));
    for (i = k + 1; i < n; i++) if (fabsl(LM(A, i, k)) > best) { best = fabsl(LM(A, i, k)); p = i; }
    piv[k] = p;
    if (best <= 1e-18L * amax || best == 0) return 0;
    if (p != k) { for (j = 0; j < n; j++) { ld t = LM(A, k, j); LM(A, k, j) = LM(A, p, j); LM(A, p, j) = t; } *sign = -*sign; }
    for (i = k + 1; i < n; i++) {
      ld f = LM(A, i, k) / LM(A, k, k);
      LM(A, i, k) = f;
      for (j = k + 1; j < n; j++) LM(A, i, j) -= f * LM(A, k, j);
    }
  }
  return 1;
}
int or_lu_solve(const ldm *A0, const ldm *B0, ldm **Xo)
{
  size_t n = A0->r, kk = B0->c, i, j, k;
  ldm *A = ldm_copy(A0), *X = ldm_copy(B0);
  size_t *piv = xa(sizeof(size_t) * (n + 1));
  int sign;
  if (A0->r != A0->c || B0->r != n || !lu_factor(A, piv, &sign)) { ldm_free(A); ldm_free(X); free(piv); *Xo = NULL; return 0; }
  for (k = 0; k < n; k++) if (piv[k] != k) for (j = 0; j < kk; j++) { ld t = LM(X, k, j); LM(X, k, j) = LM(X, piv[k], j); LM(X, piv[k], j) = t; }
  for (j = 0; j < kk; j++) {
    for (i = 0; i < n; i++) for (k = 0; k < i; k++) LM(X, i, j) -= LM(A, i, k) * LM(X, k, j);
    for (i = n; i-- > 0;) { for (k = i + 1; k < n; k++) LM(X, i, j) -= LM(A, i, k) * LM(X, k, j); LM(X, i, j) /= LM(A, i, i); }
  }
  ldm_free(A); free(piv);
  *Xo = X;
  return 1;
}
int or_lu_inverse(const ldm *A, ldm **inv)
{
  ldm *I = ldm_new(A->r, A->r);
  size_t i; int ok;
  for (i = 0; i < A->r; i++) LM(I, i, i) = 1;
  ok = or_lu_solve(A, I, inv);
  ldm_free(I);
  return ok;
}
ld or_lu_det(const ldm *A0)
{
  size_t n = A0->r, i;
  ldm *A;
  size_t *piv;
  int sign; ld d;
  if (n == 0) return 1;
  A = ldm_copy(A0); piv = xa(sizeof(size_t) * (n + 1));
  if (!lu_factor(A, piv, &sign)) { ldm_free(A); free(piv); return 0; }
  d = sign; for (i = 0; i < n; i++) d *= LM(A, i, i);
  ldm_free(A); free(piv);
  return d;
}
static ld cof(const ld *a, size_t n, size_t stride, unsigned colmask, size_t row)
{
  size_t j; ld s = 0; int sg = 1;
  if (row == n) return 1;
  for (j = 0; j < n; j++) {
    if (colmask & (1u << j)) continue;
    if (a[row * stride + j] != 0) s += sg * a[row * stride + j] * cof(a, n, stride, colmask | (1u << j), row + 1);
    sg = -sg;
  }
  return s;
}
ld or_cofactor_det(const ldm *A) { return cof(A->a, A->r, A->c, 0, 0); }

/* ------------------------------------------------------------ preprocessing */
void or_col_stats(const ldm *X, size_t j, ld *mean, ld *sd, ld *rms, ld *mn, ld *mx, size_t *np)
{
  size_t i, n = 0; ld s = 0, s2 = 0, lo = INFINITY, hi = -INFINITY, m, v = 0;
  for (i = 0; i < X->r; i++) {
    ld x = LM(X, i, j);
    if (or_is_missing((double)x)) continue;
    s += x; s2 += x * x; n++;
    if (x < lo) lo = x;
    if (x > hi) hi = x;
  }
  m = n ? s / n : 0;
  for (i = 0; i < X->r; i++) { ld x = LM(X, i, j); if (or_is_missing((double)x)) continue; v += (x - m) * (x - m); }
  if (mean) *mean = m;
  if (sd) *sd = n > 1 ? sqrtl(v / (n - 1)) : 0;
  if (rms) *rms = n ? sqrtl(s2 / n) : 0;
  if (mn) *mn = lo;
  if (mx) *mx = hi;
  if (np) *np = n;
}
void or_preprocess_fit(const ldm *X, int type, ld *mean, ld *scale, size_t *nmean, size_t *nscale, ldm *T)
{
  size_t i, j;
  if (type < 0) {
    *nmean = 0; *nscale = 0;
    for (i = 0; i < X->r; i++) for (j = 0; j < X->c; j++) LM(T, i, j) = LM(X, i, j);
    return;
  }
  *nmean = X->c; *nscale = X->c;
  for (j = 0; j < X->c; j++) {
    ld m, sd, rms, lo, hi, sc; size_t n;
    or_col_stats(X, j, &m, &sd, &rms, &lo, &hi, &n);
    switch (type) {
      case 1: sc = sd; break;
      case 2: sc = rms; break;
      case 3: sc = sqrtl(sd); break;
      case 4: sc = hi - lo; break;
      case 5: sc = m; break;
      default: sc = 1; break;
    }
    mean[j] = m; scale[j] = sc;
    for (i = 0; i < X->r; i++) {
      ld x = LM(X, i, j);
      if (or_is_missing((double)x)) LM(T, i, j) = NAN;
      else if (sc == 0 || hi == lo) LM(T, i, j) = 0;
      else LM(T, i, j) = (x - m) / sc;
    }
  }
}

/* ------------------------------------------------------------ distances */
ld or_dist(const ld *x, const ld *y, size_t n, int metric)
{
  size_t i; ld s = 0, a = 0, b = 0;
  switch (metric) {
    case 0: for (i = 0; i < n; i++) s += (x[i] - y[i]) * (x[i] - y[i]); return sqrtl(s);
    case 1: for (i = 0; i < n; i++) s += (x[i] - y[i]) * (x[i] - y[i]); return s;
    case 2: for (i = 0; i < n; i++) s += fabsl(x[i] - y[i]); return s;
    default: for (i = 0; i < n; i++) { s += x[i] * y[i]; a += x[i] * x[i]; b += y[i] * y[i]; } return s / (sqrtl(a) * sqrtl(b));
  }
}

/* ------------------------------------------------------------ natural spline */
void or_natural_spline(const ld *x, const ld *y, size_t n, ld *M)
{
  /* second derivatives M with M[0]=M[n-1]=0: tridiagonal system solved by Thomas */
  size_t i;
  ld *a, *b, *c, *d;
  for (i = 0; i < n; i++) M[i] = 0;
  if (n < 3) return;
  a = xa(sizeof(ld) * n); b = xa(sizeof(ld) * n); c = xa(sizeof(ld) * n); d = xa(sizeof(ld) * n);
  for (i = 1; i + 1 < n; i++) {
    ld h0 = x[i] - x[i - 1], h1 = x[i + 1] - x[i];
    a[i] = h0; b[i] = 2 * (h0 + h1); c[i] = h1;
    d[i] = 6 * ((y[i + 1] - y[i]) / h1 - (y[i] - y[i - 1]) / h0);
  }
  for (i = 2; i + 1 < n; i++) { ld w = a[i] / b[i - 1]; b[i] -= w * c[i - 1]; d[i] -= w * d[i - 1]; }
  for (i = n - 2; i >= 1; i--) { M[i] = (d[i] - (i + 2 < n ? c[i] * M[i + 1] : 0)) / b[i]; if (i == 1) break; }
  free(a); free(b); free(c); free(d);
}
ld or_spline_eval(const ld *x, const ld *y, const ld *M, size_t n, ld t)
{
  size_t i = 0; ld h, A, B;
  while (i + 2 < n && t > x[i + 1]) i++;
  h = x[i + 1] - x[i];
  A = (x[i + 1] - t) / h; B = (t - x[i]) / h;
  return A * y[i] + B * y[i + 1] + ((A * A * A - A) * M[i] + (B * B * B - B) * M[i + 1]) * h * h / 6;
}

/* ------------------------------------------------------------ RNG replica */
uint32_t or_lcg(uint32_t s) { return (uint32_t)(0x7AFB2C23u * s + 0x894C3u); }
uint32_t or_xs_out(uint32_t st)
{
  uint32_t x0 = st, x3 = st ^ 0x4b2aa8d3u, t = x3, s = x0;
  t ^= t << 11; t ^= t >> 8;
  return t ^ s ^ (s >> 19);
}

void or_random_orthogonal(ldm *Q, double (*g)(void *), void *arg)
{
  size_t n = Q->r, i, j, k; int pass;
  for (;;) {
    int ok = 1;
    for (i = 0; i < n * n; i++) Q->a[i] = g(arg);
    for (j = 0; j < n && ok; j++) {
      ld nr;
      for (pass = 0; pass < 2; pass++)
        for (k = 0; k < j; k++) {
          ld s = 0; for (i = 0; i < n; i++) s += LM(Q, i, k) * LM(Q, i, j);
          for (i = 0; i < n; i++) LM(Q, i, j) -= s * LM(Q, i, k);
        }
      nr = 0; for (i = 0; i < n; i++) nr += LM(Q, i, j) * LM(Q, i, j);
      nr = sqrtl(nr);
      if (nr < 1e-6L) { ok = 0; break; }
      for (i = 0; i < n; i++) LM(Q, i, j) /= nr;
    }
    if (ok) return;
  }
}
